"""C15 — config-file plans keep exactly the unfinished stages, in order, defaults applied."""
from ..core import hx
from . import _plan
ID = "C15"
PROPS = ["F1Verif.Props.C15", "F1Verif.Props.C15Run", "F1Verif.Props.FactsC15", "F1Verif.Props.RefineC15", "F1Verif.Props.RefineC15P", "F1Verif.Props.RefineC15W", "F1Verif.Props.RefineC15B", "F1Verif.Props.RefineC05U", "F1Verif.Props.RefineC15F"]
ALSO = ["F1Verif.Props.C14"]
RULE = ("engine A: structured config files (1-6 stages of every mode, fields taken from the stage or omitted and inherited "
        "from the default section, stage and default parameters) rendered to YAML for the real ParseConfigFile with restart "
        "instants at every cumulative stage boundary -1/0/+1 ns relative to stage-start (and without stage-start); kept "
        "stages, their order, durations, tick intervals, parameters, total duration and limits compared with the model and "
        "checked by a monitor written independently of the loop (scan of cumulative ends + filter). Run time: run.file ops "
        "execute file-triggered runs with tiny stages and read the environment inside iterations and after the run. "
        "Non-trivial: an accepted config with >= 2 stages and a stage-start, or one inheriting a field from default; "
        "distinct = distinct case lines.")
ASSUMPTIONS = ["YAML decoding (yaml.v3) and os.Setenv/Unsetenv are external calls",
               "sequential execution of stages and the environment hand-over are proved on a model of newStagesWorker/runStage (C15Run: the environment as an association list, stop/cancel instants arbitrary) and monitored on real runs (run op mode=file, cli op mode=file)"]


def corpus():
    u = hx("users")
    base = "scenario=73,maxdur=10000000000,conc=2,maxit=0,igndrop=1"
    return [
        "run prop=C15 mode=file dur=3000 conc=2 file=c:200:2/100ms;u:200:2 body=5 badparam=1",     # C15l: a parameter the OS refuses to export does not keep the others from being unset
        "run prop=C15 mode=file dur=3000 conc=1 file=c:150:1/50ms;c:150:1/50ms;c:150:1/50ms body=1 badparam=1",
        "plan 6 %s,start=0 mode=%s,dur=7 dur=5,conc=3 params=6b:76" % (base, u),
        # four stages (105 units): restart at every boundary — total must stay the sum of ALL stages
        "plan 29 %s,start=0 mode=%s dur=30 dur=45 dur=20 dur=10" % (base, u),
        "plan 30 %s,start=0 mode=%s dur=30 dur=45 dur=20 dur=10" % (base, u),
        "plan 75 %s,start=0 mode=%s dur=30 dur=45 dur=20 dur=10" % (base, u),
        "plan 104 %s,start=0 mode=%s dur=30 dur=45 dur=20 dur=10" % (base, u),
        "plan 105 %s,start=0 mode=%s dur=30 dur=45 dur=20 dur=10" % (base, u),
        "plan 500 %s mode=%s dur=30 dur=45" % (base, u),
        # through the builder (flags -> file -> plan -> api.Trigger): the trigger's duration is the whole plan's, whatever has been skipped
        "bfile - c:3600000:1/1s;c:1800000:1/1s;c:5000:1/1s;u:7000:2",
        "bfile 4500000 c:3600000:1/1s;c:1800000:1/1s;c:5000:1/1s;u:7000:2",      # restarted 75 minutes in
        "bfile 5403000 c:3600000:1/1s;c:1800000:1/1s;c:5000:1/1s;u:7000:2",      # inside the third stage
        "bfile 5406000 c:3600000:1/1s;c:1800000:1/1s;c:5000:1/1s;u:7000:2",      # inside the last one
        "bfile 9000000 c:3600000:1/1s;c:1800000:1/1s;c:5000:1/1s;u:7000:2",      # after the plan's end
        "run prop=C15 mode=file dur=1000 conc=3 file=c:400:3/100ms;c:30000:3/100ms body=5",   # run cut short in the middle of a stage
        "run prop=C15 mode=file dur=3000 conc=3 file=u:200:2;c:300:3/100ms;c:200:2/50ms body=5",
        "run prop=C15 mode=file dur=4000 conc=3 file=c:200:2/100ms;c:200:2/100ms;c:200:2/100ms;c:200:2/100ms;c:200:2/100ms body=1",
        "run prop=C15 mode=file dur=4000 conc=3 file=u:200:1;u:200:1;u:200:1 body=150",      # a users stage waits for its users before the next one starts   # stage starts do not creep forward
    ] + _plan.cli_corpus_for("C15")


def generate(rng, tier):
    n = {"quick": 1500, "thorough": 40000, "search": 20000}[tier]
    out = [_plan.plan_case(rng, valid_bias=0.97, with_start=rng.random() < 0.8) for _ in range(n)]
    for _ in range({"quick": 4, "thorough": 40, "search": 8}[tier]):
        k = rng.randint(1, 4)
        stages = ";".join(rng.choice(["c:%d:%d/100ms" % (rng.choice([150, 300]), rng.randint(1, 5)),
                                      "u:%d:%d" % (rng.choice([150, 250]), rng.randint(1, 4)),
                                      "c:%d:2/50ms" % rng.choice([120, 200])]) for _ in range(k))
        out.append("run prop=C15 mode=file dur=%d conc=4 file=%s body=%d cancel=%d" % (
            rng.choice([400, 5000, 5000]), stages, rng.choice([0, 5, 30]), rng.choice([-1, -1, 250])))
    # limits -> run options, through the real `run file <path>` command
    for _ in range({"quick": 30, "thorough": 300, "search": 60}[tier]):
        out.append(_plan.cli_case(rng, "file"))
    for _ in range({"quick": 16, "thorough": 150, "search": 30}[tier]):
        out.append(_plan.cli_verdict_case(rng))
    return out


def compare(rec):
    if rec["case"].startswith("cli "):
        return _plan.cli_compare(rec)
    if rec["case"].startswith("plan "):
        return _plan.plan_compare(rec)
    if rec["model"] == "-":
        return None
    if rec["impl"] != rec["model"]:
        return "model=%s impl=%s" % (rec["model"], rec["impl"])
    return None


def nontrivial_key(rec):
    c = rec["case"]
    if not c.startswith("plan"):
        return c
    if rec["impl"].startswith("ok") and ("start=" in c.split()[2] and len(c.split()) > 5 or c.split()[3] != "-"):
        return c
    return None


def distribution(recs):
    d = {"accepted": 0, "rejected": 0, "with_stage_start": 0, "stages_kept": 0, "stages_skipped": 0, "file_runs": 0}
    for r in recs:
        c = r["case"].split()
        if c[0] != "plan":
            d["file_runs"] += 1
            continue
        if r["impl"].startswith("ok"):
            d["accepted"] += 1
            kept = r["impl"].split()[9]
            k = 0 if kept == "-" else kept.count(";") + 1
            d["stages_kept"] += k
            d["stages_skipped"] += len(c) - 4 - k
        else:
            d["rejected"] += 1
        d["with_stage_start"] += "start=" in c[2]
    return d


MANIFEST = {
 "text": "For every decoded config and restart instant: if the file is accepted, the kept stages are — in file order — exactly those selected by the skip rule 'stage-start + cumulative duration > now' (all of them without stage-start), with their own or inherited durations and parameters (C15_kept, C15_all_kept_without_start, C15_defaults via stageLoop_spec, induction over the stage list), the total duration is the sum over all stages (C15_total) and the limits are mapped one-to-one with the two optional ones defaulting to 0 (C15_limits). Tie: structured configs at every boundary instant through the real ParseConfigFile; run-time half also monitored on real file-triggered runs (run op and command line), including stage start times. Run time: on a model of newStagesWorker/runStage with the process environment as an association list, for every way the run ends (all stages done, cancelled inside a stage, iteration limit reached before a stage): stages trigger in file order one after another, while a stage triggers each of its parameters has its configured value and no other stage's parameter is set, and none of them is set when the trigger returns (C15_stages_env, C15_run_env, C15_stage_cleans_up; induction over the stage list). Regenerated: ParseConfigFile's stage loop (planLoop_spec, file_ParseConfigFile_ok/_err; bridged to keptSpec/totalSpec by keptPure_keptSpec), the stage worker loop (file_stagesWorker_refines, stagesRun_prefix) and the dry-run closure are translated on every run and proved by induction over the stage slice; mg.plan executes the regenerated parser on every accepted plan case. Regenerated: runStage (parameters exported first, removed last on every path), setEnvs / unsetEnvs (one call per entry with its own key and value), the file trigger's New closure (every option is the plan's field of the same meaning) - RefineC05U / RefineC15F.",
 "note": "YAML decoding and the process environment are external. The run-time statements (strictly sequential stages, env set while a stage triggers, unset afterwards) are proved on a model of the stage loop (os.Setenv/Unsetenv as an association list; goroutine scheduling inside a stage is not part of it) and monitored on real file-triggered runs.",
 "technique": "Lean 4 theorems (induction over the stage list against a scan/filter specification) + differential check at boundary instants; refinement of the regenerated stage loops (MiniGo)"}
