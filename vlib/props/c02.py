"""C02 — requested work is conserved: every request is started once or dropped once."""
from ..core import hx
ID = "C02"
PROPS = ["F1Verif.Props.C02", "F1Verif.Props.FactsC02", "F1Verif.Props.RefineC02", "F1Verif.Props.RefineC02W", "F1Verif.Props.RefineC05S", "F1Verif.Props.RefineC09W", "F1Verif.Props.RefineC08X"]
ALSO = ["F1Verif.Props.Pool"]
RULE = ("engine A: random set/none/take sequences on the real pending-counter type vs the model; engine B: scripted "
        "schedules on the real TriggerPool with gated iterations through the yield points pool.trigger.accepted (a tick "
        "parked after its context check while the pool stops), pool.limit.discarded (a tick landing between the limit "
        "path's discard and its cancel) and pool.worker.pretake (a tick superseding pending work while a worker is "
        "mid-pickup) — the same script is executed on the proven interleaving model with a settling scheduler and "
        "started / dropped / stuck are compared; hook-free stress: 8-64 workers against thousands of fast ticks, and "
        "pool.race — hundreds of rounds of a tick racing with the pool's shutdown while requests are executing and "
        "pending (started + dropped must be the first tick's requests, plus the racing tick's if it got in), "
        "requested = started + dropped; whole runs with a wrapping rate function. Non-trivial: a script with at least one "
        "parked thread or one superseding tick, or a stress run; distinct = distinct case lines.")
ASSUMPTIONS = ["sync.Mutex / sync.Cond semantics (Wait releases the lock and re-acquires it after a Broadcast) and sequentially consistent atomics",
               "the scripted tie controls interleavings at the three yield points only; finer ones are covered by the invariant proof, the regenerated skeleton of trigger_pool.go and the stress runs"]


def corpus():
    return [
        "cli mode=constant rate=%s dist=%s dur=%s conc=1 bodyms=700 pushgw=ok static=1 igndrop=1 meaning=1" % (hx("2/200ms"), hx("none"), hx("1s")),   # C02n: drops are reported also with static labels and a push gateway configured
        "progress.stress 8 100000 0 2",                     # C02k: every second record is a drop, against a snapshot loop
        "progress.stress 4 200000 3 1",
        "pool.script 2 18446744073709551615 t2;s;t3;s;f2;s",  # C02l: a limit beyond 2^63 is no limit at all
        "pool.script 1 9223372036854775809 t4;s;f1;s;x",
        "pool.script 2 9223372036854775808 t3;s;t1;s;f2;s;x",
        "run prop=C02 mode=constant rate=3000000/100ms dist=none dur=250 conc=1 body=400 timeout=5000",   # D22: millions pending when the run ends
        "pool.script 2 0 T7;x;r",                        # D4: tick racing with shutdown
        "pool.script 1 1 t1;s;L;f1;t1;W;t5;l;s",         # D5: tick between the limit path's discard and cancel
        "pool.script 2 0 t5;s;t3;s;f2;s",
        "pool.script 1 0 P;t1;Q;t3;p;s",                 # supersede while a worker is mid-pickup
        "pool.script 2 3 t2;s;t4;s;f2;s",
        "pool.script 2 2 t2;s;t3;s;t1;s;f2;s",           # the last id has been handed out but nothing has been refused yet: superseded requests are still drops
        "pool.script 3 3 t3;s;t5;s;x",                   # … and so are the ones drained at stop
        "pool.script 3 0 t1;s;t1;s;t1;s;t5;s;x",
        "jobcounter s5,t,t,n,s0,t,n,s-2,t",
        "pool.stress 32 4000 3 3",
        "pool.race 1 3 5 250",       # a tick racing with shutdown while requests are pending (1 executing, 2 pending)
        "pool.race 4 2 6 250",       # … while idle workers are picking the racing tick's requests up
        "pool.race 2 0 4 150",
        "run prop=C02 mode=constant rate=7/50ms dur=500 conc=3 body=30 igndrop=1",
    ]


def script(rng):
    w = rng.choice([1, 1, 2, 3, 5])
    kind = rng.random()
    if kind < 0.15:
        pre = ";".join("t%d;s" % rng.randint(1, 4) for _ in range(rng.randint(0, 2)))
        return "pool.script %d 0 %s%sT%d;x;r" % (w, pre, ";" if pre else "", rng.randint(1, 9))
    if kind < 0.3:
        k = rng.randint(1, 3)
        m = rng.randint(1, 7)
        return "pool.script 1 %d %s;L;t1;W;t%d;l;s" % (k, ";".join("t1;s;f1;s" for _ in range(k)), m)
    if kind < 0.42:
        return "pool.script 1 0 P;t%d;Q;t%d;p;s;f1;s;f1;s" % (rng.randint(1, 4), rng.randint(1, 5))
    n = rng.choice([0, 0, 0, rng.randint(1, 8)])
    steps = []
    inflight = 0
    for _ in range(rng.randint(2, 9)):
        r = rng.random()
        if r < 0.55:
            steps += ["t%d" % rng.choice([0, 1, 1, 2, 3, 5, 8]), "s"]
        elif r < 0.9:
            steps += ["f%d" % rng.randint(1, max(1, w)), "s"]
        else:
            steps += ["x"]
    return "pool.script %d %d %s" % (w, n, ";".join(steps))


def generate(rng, tier):
    n = {"quick": 120, "thorough": 2500, "search": 800}[tier]
    out = [script(rng) for _ in range(n)]
    for _ in range(n):
        ops = []
        for _ in range(rng.randint(1, 25)):
            r = rng.random()
            ops.append("s%d" % rng.choice([0, 1, 2, 5, -1, -3, 100]) if r < 0.3 else ("n" if r < 0.45 else "t"))
        out.append("jobcounter " + ",".join(ops))
    for _ in range({"quick": 3, "thorough": 40, "search": 12}[tier]):
        out.append("pool.stress %d %d %d %d" % (rng.choice([8, 32, 64, 256]), rng.choice([2000, 6000]), rng.choice([1, 3, 6]), 3))
    for _ in range({"quick": 2, "thorough": 40, "search": 10}[tier]):
        w = rng.choice([1, 2, 4, 8])
        out.append("pool.race %d %d %d %d" % (w, rng.choice([0, 1, w, w + 2, 3 * w]), rng.randint(1, 9), {"quick": 200, "thorough": 1500, "search": 600}[tier]))
    for _ in range({"quick": 3, "thorough": 30, "search": 6}[tier]):
        out.append("run prop=C02 mode=constant rate=%d/%dms dur=%d conc=%d body=%d igndrop=1" % (
            rng.randint(1, 9), rng.choice([20, 50, 100]), rng.choice([300, 500]), rng.choice([1, 3, 10]), rng.choice([0, 10, 40, 120])))
    return out


def compare(rec):
    if rec["case"].startswith("cli "):
        from . import _plan
        return _plan.cli_compare(rec)
    if rec["model"] == "-":
        return None
    if rec["case"].startswith("pool.script"):
        got = " ".join(rec["impl"].split()[:3])
        return None if got == rec["model"] or not rec["impl"].startswith("started=") else "model=%s impl=%s" % (rec["model"], got)
    return None if rec["impl"] == rec["model"] else "model=%s impl=%s" % (rec["model"], rec["impl"])


def nontrivial_key(rec):
    c = rec["case"]
    if c.startswith("jobcounter"):
        return c if "s" in c.split()[1] and "t" in c.split()[1] else None
    return c


def distribution(recs):
    d = {"scripts": 0, "parked_tick": 0, "limit_window": 0, "pretake": 0, "jobcounter": 0, "stress": 0, "whole_runs": 0, "drops_observed": 0}
    for r in recs:
        c = r["case"]
        if c.startswith("pool.script"):
            d["scripts"] += 1
            sc = c.split()[3]
            d["parked_tick"] += "T" in sc
            d["limit_window"] += "L" in sc
            d["pretake"] += "P" in sc
            d["drops_observed"] += "dropped=0" not in r["impl"]
        elif c.startswith("jobcounter"):
            d["jobcounter"] += 1
        elif c.startswith(("pool.stress", "pool.race")):
            d["stress"] += 1
        else:
            d["whole_runs"] += 1
    return d


MANIFEST = {
 "engine": "lean-proof + scripted schedules (hooks) + stress",
 "text": "Interleaving model of the trigger pool at the granularity of single atomic and lock operations (ticker, any number of workers by count abstraction, stopper; mutex, condition variable with sleep/woken sets): for every schedule, tick sequence and stop point the conservation law requested = started + dropped + refused-by-limit + discarded-by-limit + pending + in-transit holds (C02_conservation; inductive invariant, all 25 event kinds by omega), at termination nothing is pending or in transit (C02_final), dropped grows only by the positive value a superseding tick's or the shutdown's swap returned and never once the limit was seen reached (C02_drop_only_if_pending, C02_limit_silent, C02_limit_read_before_swap), plus the counter law (C02_counter_law). The pinned tree's two violations are kernel-checked schedules (legacy_tick_after_stop, legacy_limit_leftovers_dropped) replayed on the real pool through the hooks. Regenerated: sendJobsForExecution (pool_sendJobs_refines: swap, broadcast under the lock; the positive leftover reported dropped once per request unless the limit was reached), Trigger, waitForNewJobs and one whole worker goroutine (pool_run_refines, by induction over its rounds).",
 "note": "sync.Mutex/sync.Cond/atomics semantics assumed. The script tie executes each script on the proven model itself (settling scheduler) and compares started/dropped/stuck with the real pool; which worker wakes first is canonicalised away.",
 "technique": "Lean 4 inductive invariant over an interleaving semantics (count abstraction, omega over enum codes) + scripted-schedule correspondence through verif hooks; refinement of the regenerated tick and worker loop (MiniGo)"}
