"""C19 — summary and progress output state the same numbers as the result they render."""
from ..core import hx
ID = "C19"
PROPS = ["F1Verif.Props.C19", "F1Verif.Props.FactsC19", "F1Verif.Props.RefineC19R", "F1Verif.Props.RefineC05R"]
RULE = ("engine A on the real views: generated ResultData / ProgressData (zero iterations, zero elapsed, huge counts, "
        "verdict independent of the failed count, counts with and without dropped iterations, nil / plain / "
        "template-looking multi-line errors, log paths, with and without terminal colours) rendered with Render() and Log(); "
        "the same through the real run.Result built from recorded outcomes (Summary, Progress); the driver re-extracts "
        "every count, percentage and the banner from the text and the structured line and checks them against the data "
        "(percentages recomputed exactly: 100*count/iterations in binary64, formatted %0.2f with correct rounding). "
        "Non-trivial: a case with at least two non-zero counts or a verdict that differs from 'failed count > 0'; "
        "distinct = distinct case lines.")
ASSUMPTIONS = ["text/template and fmt evaluate the templates as documented (external); the template sources are regenerated "
               "and their symbolic evaluation is a proof obligation",
               "Duration.String() figures (avg/min/max) are not re-parsed; counts, percentages, rates' presence and banners are"]
S = 10**9


def corpus():
    return [
        "tmpl",
        "render kind=result s=2 f=10 d=3 it=15 st=20 dur=1000000000 failed=1 err=1 path=6c6f67 savg=2000 smin=1000 smax=3000",
        "render kind=result s=5 f=2 d=0 it=7 st=7 dur=2000000000 failed=0",          # passed with tolerated failures
        "render kind=result s=0 f=0 d=4 it=4 st=0 dur=1000000000 failed=1",          # failed by drops only (D14: started must stay 0)
        "render kind=result s=0 f=0 d=0 it=0 st=0 dur=0 failed=1 err=2",
        "render kind=summary s=5 f=2 d=13",                                           # shares are of ALL iterations
        "render kind=summary s=6 f=2 d=8 igndrop=1",                                  # … also when dropped iterations are ignored by the verdict
        "render kind=summary s=6 f=2 d=8 igndrop=0",
        "render kind=result s=3000000000000000 f=1000000000000000 d=0 it=4000000000000000 st=4000000000000000 dur=1000000000 failed=1",   # counts beyond 2^53 / 1.8e15
        "render kind=result s=6000000000000000000 f=6000000000000000000 d=0 it=12000000000000000000 st=12000000000000000000 dur=1000000000 failed=1",
        "render kind=summary s=0 f=0 d=4 igndrop=0",
        "render kind=summary s=3 f=1 d=0 maxfail=5",
        "render kind=progress s=10 f=5 d=3 pcount=7 dur=100000000000 period=10000000000 tty=1",
        "render kind=progress s=0 f=0 d=0 pcount=0 dur=0 period=0",
        "render kind=summary kind2=progress s=4 f=1 d=2 period=1000000000",
        # whole command lines: the summary that is displayed states the verdict the command exits with — also when what
        # fails the run (a teardown, the setup) happens after or before the iterations
    ] + __import__("vlib.props._plan", fromlist=["x"]).cli_corpus_for("C19")


def generate(rng, tier):
    n = {"quick": 1200, "thorough": 30000, "search": 15000}[tier]
    out = []
    for _ in range(n):
        big = rng.random() < 0.08
        hi = rng.choice([10**12, 10**16, 5 * 10**18]) if big else rng.choice([3, 20, 1000])
        s, f, d = (rng.choice([0, 0, rng.randint(0, hi)]) for _ in range(3))
        k = rng.random()
        tty = rng.randint(0, 1)
        if k < 0.45:
            it = s + f + d if rng.random() < 0.8 else rng.randint(0, hi)
            st = s + f if rng.random() < 0.8 else rng.randint(0, hi)
            out.append("render kind=result s=%d f=%d d=%d it=%d st=%d dur=%d failed=%d err=%d path=%s tty=%d savg=%d smin=%d smax=%d favg=%d" % (
                s, f, d, it, st, rng.choice([0, 1, 499999999, 500000000, S, 90 * S, 3601 * S]), rng.randint(0, 1), rng.choice([0, 0, 1, 2]),
                hx(rng.choice(["", "f1.log", "/tmp/x y.log"])), tty, rng.randint(0, 10**9), rng.randint(0, 10**6), rng.randint(0, 10**10), rng.randint(0, 10**9)))
        elif k < 0.7:
            s2, f2, d2 = min(s, 300), min(f, 300), min(d, 300)
            out.append("render kind=summary s=%d f=%d d=%d igndrop=%d maxfail=%d maxfailrate=%d err=%d tty=%d" % (
                s2, f2, d2, rng.randint(0, 1), rng.choice([0, 0, 5]), rng.choice([0, 0, 50]), rng.choice([0, 0, 1]), tty))
        elif k < 0.9:
            out.append("render kind=progress s=%d f=%d d=%d pcount=%d dur=%d period=%d tty=%d savg=%d" % (
                s, f, d, rng.randint(0, hi), rng.choice([0, S, 61 * S]), rng.choice([0, 100 * 10**6, S, 10 * S]), tty, rng.randint(0, 10**9)))
        else:
            out.append("render kind=summary kind2=progress s=%d f=%d d=%d period=%d tty=%d" % (min(s, 200), min(f, 200), min(d, 200), S, tty))
    return out


def compare(rec):
    if rec["case"].startswith("cli "):
        from . import _plan
        return _plan.cli_compare(rec)
    if rec["model"] == "-":
        return None
    return None if rec["impl"] == rec["model"] else "model=%s impl=%s" % (rec["model"], rec["impl"])


def nontrivial_key(rec):
    c = rec["case"]
    if c == "tmpl" or c.startswith("cli "):
        return c
    kv = dict(t.split("=", 1) for t in c.split()[1:])
    nz = sum(1 for k in ("s", "f", "d") if kv.get(k, "0") != "0")
    if nz >= 2 or (kv.get("kind") == "result" and (kv.get("failed") == "1") != (kv.get("f", "0") != "0")):
        return c
    return None


def distribution(recs):
    d = {"result": 0, "summary": 0, "progress": 0, "zero_iterations": 0, "with_dropped": 0, "tty": 0, "with_error": 0}
    for r in recs:
        if r["case"] == "tmpl":
            continue
        if r["case"].startswith("cli "):
            d["command_lines"] = d.get("command_lines", 0) + 1
            continue
        kv = dict(t.split("=", 1) for t in r["case"].split()[1:])
        d[kv.get("kind2", kv.get("kind", "result")) if kv.get("kind2") else kv.get("kind", "result")] += 1
        d["zero_iterations"] += all(kv.get(k, "0") == "0" for k in ("s", "f", "d"))
        d["with_dropped"] += kv.get("d", "0") != "0"
        d["tty"] += kv.get("tty") == "1"
        d["with_error"] += kv.get("err", "0") != "0"
    return d


MANIFEST = {
 "text": "The regenerated result and progress templates, evaluated symbolically by a small interpreter of the text/template subset they use, yield for every combination of their guards exactly the layout the property names: banner chosen by the verdict alone, each count line guarded by its own count and showing that count, its share of .Iterations and its rate, the started line showing .IterationsStarted (C19_result_layout, C19_progress_layout: kernel-checked over all guard combinations), percent is only evaluated under a positive count (no 0/0) and the structured group passes its counts through unchanged (C19_log_group). Tie: the real Render()/Log() on generated data and the real Result.Summary()/Progress() from recorded outcomes, every number re-extracted from the output and compared (percentages recomputed exactly). Regenerated: Result.Summary and Result.Progress hand the views, field by field, the counts of the result's own snapshot, its own Error() and Failed() (result_Summary_refines, result_Progress_refines).",
 "note": "text/template, fmt and Duration.String are external; the layout theorems are about the regenerated template text under the interpreter of the subset used. Duration figures are not re-parsed.",
 "technique": "Lean 4 theorems by exhaustive symbolic evaluation of the regenerated templates (finite guard table) + field-by-field extraction check on the real renderer; refinement of the regenerated Result accessors (MiniGo)"}
