"""C06 — lifecycle: setup once, iterations, LIFO cleanups exactly once, teardown last."""
from . import _scn
from ..core import hx
ID = "C06"
PROPS = ["F1Verif.Props.C06", "F1Verif.Props.FactsC06", "F1Verif.Props.C06Do", "F1Verif.Props.C06DoGen", "F1Verif.Props.RefineC07", "F1Verif.Props.RefineC17Run", "F1Verif.Props.RefineC06T", "F1Verif.Props.RefineC05R", "F1Verif.Props.RefineC08C", "F1Verif.Props.RefineC08X", "F1Verif.Props.RefineC15F", "F1Verif.Props.RefineC18N"]
ALSO = ["F1Verif.Props.Handle"]
RULE = ("engine A (component level): generated scenario programs — where setup, bodies and cleanups register cleanups, "
        "fail or panic (every failure API, five panic kinds, panics mid-stack, cleanups that register cleanups) — are "
        "turned into real closures and run through ActiveScenario.Setup / the worker's Reset+Run / Teardown; the totally "
        "ordered event log is compared with the interpreter's and checked by the list-based monitor (setup once first, "
        "per-iteration cleanups once in reverse order after the body and before the next iteration, setup cleanups last, "
        "teardown failure reported). Non-trivial: a case whose programs register >= 2 cleanups in one body or setup, or "
        "contain a stopping action in a body/setup/cleanup; distinct = distinct case lines.")
ASSUMPTIONS = ["placement of setup / iterations / teardown inside Run.Do is mirrored by the harness at component level and "
               "tied by the regenerated statement-order fact of Do; whole-run endings (cancel, limit, timeouts) are "
               "monitored by the run.* ops of C05",
               "cleanups are assumed to terminate; runtime.Goexit is outside the alphabet"]


def corpus():
    return [
        "run prop=C06 mode=constant rate=2/100ms dist=none dur=400 conc=4 body=1500 timeout=3000 cancel=700",     # C06m: interrupted while already waiting for the iterations after the duration: the wait goes on
        "scn 3 r1.L7/r2.F|_|r2.r3.N.L9 c1=L1;c2=Pr;c3=L3",
        "scn 2 r1.r2.r3.Pr/L1 c1=L1;c2=Pe;c3=L3",        # setup registers three, second panics, setup itself panics
        "scn 1 _/r1.r2.r3.r4 c1=N;c2=Pv;c3=F;c4=Q",       # every cleanup misbehaves; all four must run
        "scn 2 r1/r1.r1 c1=r1.L5",                         # a cleanup registering a cleanup
        "scn 0 r1.r2/_ c1=L1;c2=F",
        # whole runs: teardown placement under the endings of Run.Do
        "run prop=C06 mode=constant rate=2/100ms dur=1500 conc=8 body=600 timeout=1000 setupcleanups=3",   # longer than the completion timeout
        "run prop=C06 mode=constant rate=3/100ms dur=500 conc=4 body=30 cancel=200",
        "run prop=C06 mode=constant rate=3/100ms dur=500 conc=4 setupfail=2",
        "run prop=C06 mode=users conc=3 dur=300 body=20 maxit=10 trackcleanup=1",
        # iterations that outlive their config-file stage: each one's own cleanup runs once, after its own body
        "run prop=C06 mode=file dur=3000 conc=1 file=c:250:1/250ms;c:250:1/250ms;c:250:1/250ms body=200 trackcleanup=1",
        "run prop=C06 mode=file dur=3000 conc=2 file=c:250:4/250ms;u:200:2;c:200:2/100ms body=180 trackcleanup=1",
        "run prop=C06 mode=file dur=9000 conc=4 file=u:300:3;c:400:4/100ms body=250 setupcleanups=2 trackcleanup=1",   # a users stage first: teardown still waits for the last stage's iterations
        "run prop=C06 mode=constant rate=4/100ms dur=400 conc=3 body=30 failevery=2 trackcleanup=1",
        "run prop=C06 mode=users conc=2 dur=300 body=2 maxit=15 pushgw=down trackcleanup=1",        # the metrics gateway is down: lifecycle unchanged
        "run prop=C06 mode=users conc=2 dur=300 body=2 maxit=15 pushgw=fail1 setupcleanups=3",
        # a failing setup while the scenario log file cannot be opened: reported failed, no iteration, no crash
        "cli mode=constant rate=%s dist=%s dur=%s conc=1 bodyms=2500" % (hx("1/s"), hx("none"), hx("1s")),     # C06n: the command's completion timeout is the hard-wired 10 s, not --max-duration
        "cli mode=users dur=%s conc=2 bodyms=1700" % hx("500ms"),
        "cli mode=users dur=%s conc=2 bodyms=5 setupfail=1 logfile=bad" % hx("200ms"),
        "cli mode=users dur=%s conc=2 bodyms=5 setupfail=2 logfile=bad" % hx("200ms"),
        "cli mode=users dur=%s conc=2 bodyms=5 tdfail=2 logfile=bad" % hx("200ms"),
    ]


def generate(rng, tier):
    n = {"quick": 1500, "thorough": 40000, "search": 20000}[tier]
    out = [_scn.case(rng) for _ in range(n)]
    for _ in range({"quick": 4, "thorough": 60, "search": 10}[tier]):
        end = rng.choice(["", " cancel=%d" % rng.randint(50, 400), " maxit=%d" % rng.randint(1, 9), " setupfail=%d" % rng.choice([1, 2])])
        mode = rng.choice(["mode=constant rate=%d/100ms" % rng.randint(1, 5), "mode=users", "mode=file file=c:200:3/100ms;u:150:2",
                           "mode=file file=c:250:%d/250ms;c:250:2/250ms;u:150:2" % rng.randint(1, 3)])
        out.append("run prop=C06 %s dur=%d conc=%d body=%d setupcleanups=%d trackcleanup=1%s" % (
            mode, rng.choice([300, 500]) if "file" not in mode else 3000, rng.choice([1, 4]), rng.choice([0, 20, 120]), rng.randint(0, 4), end))
    return out


def compare(rec):
    if rec["case"].startswith("cli "):
        from . import _plan
        return _plan.cli_compare(rec)
    if rec["model"] == "-":
        return None
    return None if rec["impl"] == rec["model"] else "model=%s impl=%s" % (rec["model"], rec["impl"])


def nontrivial_key(rec):
    if rec["case"].startswith(("run ", "cli ")):
        return rec["case"]
    f = _scn.features(rec["case"]) if rec["case"].startswith("scn ") else {"x"}
    if f & {"body_registers_2plus", "body_stops", "setup_stops", "cleanup_stops", "setup_registers"}:
        return rec["case"]
    return None


def distribution(recs):
    d = {}
    for r in recs:
        if r["case"].startswith("scn "):
            for f in _scn.features(r["case"]):
                d[f] = d.get(f, 0) + 1
    return d


MANIFEST = {
 "text": "Interpreter model of testing.T / ActiveScenario / CombineScenarios over scenario programs as data; theorems for every program: per-iteration cleanups run exactly once in reverse registration order whatever the body and the cleanups do (C06_iter_cleanups, C06_cleanup_panic_contained), after the body and before the worker's next iteration (C06_before_next), setup once first (C06_setup_once_first), failed setup => no iteration and failed run (C06_setup_failure), setup cleanups once, reversed, after every iteration, failure reported (C06_teardown_last). Proof by structural induction on action lists and cleanup stacks (closed form exec_spec). Tie: generated programs run as real closures, event log compared with the interpreter and checked by the monitor. Regenerated: T.teardown calls every registered cleanup exactly once, last first, whatever any of them does (t_teardown_refines, induction over the stack; each in a block whose deferred CheckResults recovers), T.Cleanup pushes (t_Cleanup_refines), ActiveScenario.Run/Setup with a body that may panic (active_Run_window).",
 "note": "Component level (one worker's history); the placement inside Run.Do is proved on Do as a program with defer semantics (Props/C06Do: both executions spelt out, setup once before the iterations, teardown once after run() has returned and before the summary); how run() itself ends is C05's Deadline model; the same clauses are re-proved on every run on `Generated.doBody`, which a translator in /verif/facts regenerates from the statement list of Run.Do (Props/C06DoGen) — a harmless edit of Do keeps passing, a misplaced teardown does not; whole runs tie the rest. Cleanups assumed to terminate.",
 "technique": "Lean 4 theorems by structural induction over scenario programs + event-log correspondence with the real handle; refinement of the regenerated teardown loop (MiniGo with panics and recovery)"}
