"""C10 — staged and ramp profiles are the configured piecewise-linear shapes."""
from ..core import ints, hx
ID = "C10"
PROPS = ["F1Verif.Props.C10", "F1Verif.Props.FactsC10", "F1Verif.Props.RefineC10", "F1Verif.Props.RefineC10S", "F1Verif.Props.RefineC10Q", "F1Verif.Props.RefineC10A", "F1Verif.Props.RefineC14B"]
RULE = ("engine A on CalculateStagedRate / CalculateRampRate (distribution none, jitter 0) evaluated on synthetic "
        "timestamps: random stage lists (ascending, descending, constant, zero-length stages in every position, large "
        "targets and long durations), explicit and implicit start times, non-decreasing query sequences including every "
        "stage boundary -1/0/+1 ns, ramps up and down with long durations and large rate differences; outputs compared "
        "with the as-written Float model, exact model alongside (float gaps), Spec (within 1 of the exact interpolation, "
        "inside the targets, monotone within a stage, 0 afterwards, duration = sum) evaluated on the implementation's "
        "outputs; the same through the *builders* (bstaged: --stages strings as typed, with spaces, units and zero-padded "
        "numbers; bramp: --ramp-duration against --max-duration, including the 0 fallback). Non-trivial: at least two stages (or a ramp) and at least three queries; distinct = distinct cases.")
ASSUMPTIONS = ["theorems are about exact arithmetic (truncating integer division); binary64 evaluation is modelled bit-exactly "
               "in the driver but not verified; the property's 'within 1' absorbs the difference",
               "non-negative stage durations, query times non-decreasing from the start (as the property states)",
               "int64 overflow of offset*delta is outside the model (the code multiplies in float64)"]
S = 10**9


def staged(stages, start, qs):
    return "staged %s %s %s" % (";".join("%d:%d" % st for st in stages) or "-", "-" if start is None else str(start), ints(qs))


def corpus():
    return [
        "parserate 3031302f73",   # C10k: the targets of a ramp are read with ParseRate: a leading zero is decimal
        "parserate 303130302f73",
        "parserate 30382f73",
        "parserate 315f3030302f73",
        staged([(10 * S, 10), (0, 50), (10 * S, 50)], None, [0, 1, 5 * S, 10 * S - 1, 10 * S, 15 * S, 19 * S, 20 * S - 1, 20 * S, 25 * S]),
        staged([(0, 0), (5 * S, 100), (5 * S, 0)], None, [0, S, 5 * S - 1, 5 * S, 7 * S, 10 * S - 1, 10 * S]),
        staged([(3 * S, 7)], 0, [0, S, 2 * S, 3 * S - 1, 3 * S, 4 * S]),
        staged([(10 * S, 10), (10 * S, 10)], 5 * S, [5 * S, 15 * S, 26 * S]),
        "ramp 0 200000 1000000000 %d %s" % (86400 * S, ints([i * 3600 * S for i in range(26)])),   # long steep ramp
        "ramp 10 0 1000000000 %d %s" % (10 * S, ints([0, S, 5 * S, 10 * S - 1, 10 * S, 10 * S + 1, 11 * S])),
        "ramp 5 5 1000000000 %d 0" % (10 * S),
        "ramp 100 20 1000000000 %d %s zero" % (20 * S, ints([i * S // 2 for i in range(44)])),     # C10m: the ramp starts at its first evaluation also when that is the zero time
        "ramp 0 50 100000000 %d %s zero" % (5 * S, ints([0, 1, S, 2 * S, 5 * S - 1, 5 * S, 6 * S])),
        "ramp 1 2 1000000000 500000000 0",
        "ramp 0 100 1000000000 2500000000 %s" % ints([0, S // 2, S, 3 * S // 2, 2 * S, 2 * S + S // 4, 2 * S + 2 * S // 5, 5 * S // 2, 5 * S // 2 + 1]),   # 2.5 units
        "ramp 10 70 60000000000 90000000000 %s" % ints([0, 30 * S, 60 * S, 75 * S, 90 * S, 91 * S]),
        # through the builders: the --stages string (zero-padded targets are decimal) and the ramp's own duration flag
        "bstaged %s %s" % (hx("0s:010, 10s:050, 5s:50, 5s:0"), ints([0, S, 5 * S, 10 * S, 12 * S, 15 * S, 17 * S, 20 * S, 21 * S])),
        "bstaged %s %s" % (hx("10s:10, 0s:100, 10s:100"), ints([0, 5 * S, 10 * S, 10 * S + 1, 15 * S, 20 * S, 20 * S + 1])),
        "bramp 0 100 1000000000 %d %d %s" % (10 * S, 4 * S, ints([0, S // 2, 2 * S, 4 * S, 5 * S, 9 * S, 10 * S, 10 * S + 1])),   # the run is shorter than the ramp
        "bramp 100 0 1000000000 %d %d %s" % (10 * S, 4 * S, ints([0, S, 4 * S, 6 * S, 10 * S, 11 * S])),
        "bramp 0 100 1000000000 0 %d %s" % (4 * S, ints([0, S, 2 * S, 4 * S, 4 * S + 1])),            # --ramp-duration 0: the run's duration
        "bramp 0 100 1000000000 %d %d %s" % (2 * S, 10 * S, ints([0, S, 2 * S, 2 * S + 1, 5 * S])),
    ]


def gen_staged(rng):
    n = rng.choice([1, 2, 3, 4, 6])
    style = rng.choice(["up", "down", "mixed", "const", "big"])
    stages = []
    prev = 0
    for i in range(n):
        d = rng.choice([0, 0, 1, 7, S // 10, S, 10 * S, 3600 * S, rng.randint(1, 100 * S)])
        if style == "up":
            t = prev + rng.randint(0, 50)
        elif style == "down":
            t = max(0, prev - rng.randint(0, 50)) if i else rng.randint(50, 500)
        elif style == "const":
            t = prev if i else rng.randint(0, 100)
        elif style == "big":
            t = rng.choice([0, 10**6, 10**7, rng.randint(0, 10**7)])
        else:
            t = rng.randint(0, 300)
        stages.append((d, t))
        prev = t
    total = sum(d for d, _ in stages)
    cum = 0
    pts = {0, total, total + 1, total + rng.randint(1, 10 * S)}
    for d, _ in stages:
        for x in (cum - 1, cum, cum + 1, cum + d // 2, cum + d // 3):
            if x >= 0:
                pts.add(x)
        cum += d
    for _ in range(rng.randint(0, 6)):
        pts.add(rng.randint(0, total + 1))
    qs = sorted(pts)
    if rng.random() < 0.3:
        qs = qs[rng.randint(0, len(qs) // 2):]      # first query late (implicit start = first query)
    start = None
    if rng.random() < 0.3:
        start = rng.choice([0, 0, rng.randint(0, S)])
        qs = [q for q in qs if q >= start] or [start]
    return staged(stages, start, qs)


def gen_ramp(rng):
    unit = rng.choice([S, S, S // 10, 60 * S, 1])
    s = rng.choice([0, 1, 10, 1000, rng.randint(0, 10**6)])
    e = rng.choice([0, 1, 10, 1000, rng.randint(0, 10**6), s, s + 1])
    dur = rng.choice([unit, 2 * unit, 10 * unit, 3600 * S, 86400 * S, rng.randint(1, 200) * unit, max(0, unit - 1),
                      unit + unit // 2, 2 * unit + unit // 3 + 1, rng.randint(1, 50) * unit + rng.randint(1, max(1, unit - 1))])   # not a whole number of units
    pts = {0, 1, dur - 1, dur, dur + 1, dur // 2, dur // 3, 2 * dur}
    for _ in range(rng.randint(0, 6)):
        pts.add(rng.randint(0, dur + 2))
    qs = sorted(p for p in pts if p >= 0)
    return "ramp %d %d %d %d %s" % (s, e, unit, dur, ints(qs))


def gen_bstaged(rng):
    """the --stages string as typed (spaces, zero-padded numbers, units), through the staged builder"""
    n = rng.choice([1, 2, 3, 4])
    parts, durs = [], []
    for i in range(n):
        d = rng.choice([0, 1, 5, 10, 30])
        unit = rng.choice(["s", "s", "m", "ms"])
        if i == 0 and rng.random() < 0.5:
            d = 0
        t = rng.choice([0, 1, 8, 10, 50, 100, 777])
        ts = ("%03d" % t) if rng.random() < 0.35 else str(t)         # zero-padded targets are decimal
        ds = ("%02d" % d) if rng.random() < 0.2 else str(d)
        sp = rng.choice(["", " "])
        parts.append("%s%s%s:%s%s" % (sp, ds, unit, sp, ts))
        durs.append(d * {"s": S, "m": 60 * S, "ms": S // 1000}[unit])
    total = sum(durs)
    pts, cum = {0, total, total + 1}, 0
    for d in durs:
        pts |= {cum, cum + d // 2, max(0, cum - 1)}
        cum += d
    return "bstaged %s %s" % (hx(",".join(parts)), ints(sorted(pts)))


def gen_bramp(rng):
    unit = rng.choice([S, S // 10])
    s, e = rng.choice([(0, 100), (100, 0), (5, 50), (1000, 10)])
    rd = rng.choice([0, 0, unit, 4 * unit, 10 * unit, 37 * unit])
    md = rng.choice([unit, 2 * unit, 4 * unit, 20 * unit, 100 * unit])
    dur = md if rd == 0 else rd
    pts = {0, 1, dur // 2, dur // 3, dur - 1, dur, dur + 1, md, md + 1, 2 * dur}
    return "bramp %d %d %d %d %d %s" % (s, e, unit, rd, md, ints(sorted(p for p in pts if p >= 0)))


def generate(rng, tier):
    n = {"quick": 1500, "thorough": 40000, "search": 20000}[tier]
    out = [gen_staged(rng) if rng.random() < 0.65 else gen_ramp(rng) for _ in range(n)]
    for _ in range(n // 10):
        out.append(gen_bstaged(rng) if rng.random() < 0.5 else gen_bramp(rng))
    return out


def nontrivial_key(rec):
    a = rec["case"].split()
    if a[0] == "staged" and a[1].count(";") >= 1 and a[3].count(",") >= 2:
        return rec["case"]
    if a[0] == "ramp" and rec["impl"] != "err" and a[5].count(",") >= 2:
        return rec["case"]
    if a[0] in ("bstaged", "bramp") and rec["impl"] != "err":
        return rec["case"]
    return None


def distribution(recs):
    d = {"staged": 0, "ramp": 0, "ramp_rejected": 0, "zero_length_stage": 0, "descending": 0, "explicit_start": 0, "float_gap_events": 0}
    for r in recs:
        a = r["case"].split()
        d[a[0]] = d.get(a[0], 0) + 1
        if a[0] == "staged":
            st = [tuple(map(int, x.split(":"))) for x in a[1].split(";")] if a[1] != "-" else []
            d["zero_length_stage"] += any(x[0] == 0 for x in st)
            d["descending"] += any(st[i][1] < st[i - 1][1] for i in range(1, len(st)))
            d["explicit_start"] += a[2] != "-"
        elif a[0] == "ramp" and r["impl"] == "err":
            d["ramp_rejected"] += 1
        d["float_gap_events"] += r["spec"] == "ok:gap"
    return d


MANIFEST = {
 "text": "The stateful staged calculator, queried at any non-decreasing times, equals the stateless piecewise-linear shape (C10_staged_is_shape, C10_staged_from_first_query: refinement by induction over the query list using skip_skip); inside the selected stage the value is within 1 of the exact interpolation, between the two targets (C10_staged_value, interp_within_one, interp_between), monotone in the stage's direction (interp_monotone), zero-length stages are never selected (C10_zero_length_skipped), 0 once all stages have elapsed (C10_staged_after, C10_shape_after), targets chain from 0 (C10_chain), duration = sum (C10_duration); ramp likewise (C10_ramp_value, C10_ramp_monotone, C10_ramp_ends, C10_ramp_after). No bound on the number of stages, durations or queries.",
 "note": "Exact-arithmetic theorems; the float64 evaluation of the interpolation is modelled (bit-exact Float layer compared with Go on every case, float gaps counted) but not verified. int64 overflow outside the model.",
 "technique": "Lean 4 theorems (refinement of the stateful cursor to a stateless shape, integer-division bounds) + bit-exact correspondence"}
