"""C01 — every executed iteration is counted exactly once, with its true outcome."""
ID = "C01"
PROPS = ["F1Verif.Props.C01", "F1Verif.Props.C17", "F1Verif.Props.FactsC01", "F1Verif.Props.RefineC17", "F1Verif.Props.RefineC17Run", "F1Verif.Props.RefineC06T", "F1Verif.Props.RefineC19R", "F1Verif.Props.RefineC05R", "F1Verif.Props.RefineC05U", "F1Verif.Props.RefineC15F"]
RULE = ("engine B: scripted schedules on the real progress.Stats through the progress.collect yield point — records of "
        "either outcome executed while a Snapshot/Total is parked between draining the period accumulators and merging "
        "them (every collect of a script may carry injections at its successful and at its failed yield point); "
        "engine A: the same histories without injections; hook-free stress: 4-16 goroutines recording against a "
        "snapshot loop, totals vs ground truth; whole component: scn.counts runs real iterations through "
        "ActiveScenario.Run and compares scenario-side counters, Stats.Total and Registry.Gather. Non-trivial: a script "
        "in which at least one record lands at a yield point, or a stress run; distinct = distinct case lines.")
ASSUMPTIONS = ["sync/atomic operations are sequentially consistent (Go memory model)",
               "one Observe on a prometheus SummaryVec adds exactly one sample under the given label values",
               "the interleaving theorem is at the granularity of single atomic operations on the counters; the scripted tie is at the granularity of the yield point, finer interleavings are tied by the regenerated atomic-operation skeleton of average.go and by the hook-free stress",
               "min/max under concurrent Add are out of scope (C01 is about counts)"]


def corpus():
    return [
        "progress.seq s600000000000,s600000000000,S1,T",        # C01l: twenty minutes of iteration time within one period are still two iterations
        "progress.seq f1100000000000,S1000,f1,T",
        "progress.seq s9007199254740993,s1,T",
        "progress.stress 8 60000 0 0 rising",              # C04k: every record a new maximum / minimum: no recorder may get stuck publishing it
        "progress.stress 16 30000 3 0 rising",
        "run prop=C01 mode=file dur=3000 conc=1 file=c:2000:3000000/100ms body=20 cancel=130",     # C01m: interrupted while a tick's millions of superseded requests are still being reported dropped, one by one
        "run prop=C01 mode=file dur=3000 conc=1 file=c:200:1/100ms;c:500:1/100ms body=350 failevery=2",   # C01k: an iteration that outlives its stage keeps its own handle and outcome
        "run prop=C01 mode=file dur=3000 conc=2 file=c:250:2/100ms;c:600:2/100ms body=300,40 failevery=3",
        "progress.seq s0,s0,f0,f0,f0,S1000,T",      # C08k: failures that took 0 ns are failures
        "progress.seq s5,f0,S1,f0,f0,S1,s7,T",
        "progress.seq f0,T",
        "progress.stress 8 100000 0 2",
        "progress.stress 6 100000 5 3",
        "run prop=C01 mode=constant rate=3000000/100ms dist=none dur=250 conc=1 body=400 timeout=5000",   # D22: millions pending when the run ends
        "progress.script s5;S1000[s:s7+f3][f:f9];T",          # D1 witness: completions landing inside a collect
        "progress.script f7;T[f:f9];T",
        "progress.script s1;s2;S1[s:s3];S1[s:s4];S1;T",
        "progress.script d;S1[s:d+d][f:d];T",
        "progress.stress 8 40000 10 0",
        # whole runs: every way an iteration can fail (also inside a timed stage) is counted as failed; pushed metrics
        "run prop=C01 mode=users conc=3 dur=400 body=1 maxit=40 failevery=2 failkind=timefail",
        "run prop=C01 mode=users conc=3 dur=400 body=1 maxit=40 failevery=2 failkind=timeerr",
        "run prop=C01 mode=constant rate=6/50ms dur=300 conc=3 body=2 failevery=3 failkind=panicerr",
        "run prop=C01 mode=users conc=2 dur=300 body=1 maxit=40 failevery=4 cleanupfail=2",            # a passing body with a failing cleanup is a passed invocation
        "run prop=C01 mode=constant rate=6/50ms dur=300 conc=3 body=2 cleanupfail=3",
        "run prop=C01 mode=users conc=2 dur=300 body=2 maxit=30 failevery=3 pushgw=ok",
        "run prop=C01 mode=users conc=2 dur=300 body=2 maxit=30 failevery=3 pushgw=fail1",     # the first push is refused
    ] + __import__("vlib.props._plan", fromlist=["x"]).cli_corpus_for("C01")


def script(rng, n):
    ops = []
    for i in range(n):
        r = rng.random()
        if r < 0.3:
            head = rng.choice(["S1000", "T", "S1"])
            for key in ("s", "f"):
                if rng.random() < 0.6:
                    k = rng.randint(1, 4)
                    recs = []
                    for _ in range(k):
                        q = rng.random()
                        recs.append("d" if q < 0.15 else ("s" if q < 0.6 else "f") + str(rng.randint(1, 999)))
                    head += "[%s:%s]" % (key, "+".join(recs))
            ops.append(head)
        elif r < 0.38:
            ops.append("d")
        else:
            ops.append(("s" if rng.random() < 0.55 else "f") + str(rng.randint(1, 999)))
    ops.append("T")
    return "progress.script " + ";".join(ops)


def generate(rng, tier):
    n = {"quick": 1200, "thorough": 30000, "search": 15000}[tier]
    out = [script(rng, rng.choice([1, 2, 3, 5, 8, 13, 25])) for _ in range(n)]
    st = {"quick": 3, "thorough": 40, "search": 20}[tier]
    for _ in range(st):
        out.append("progress.stress %d %d %d %d" % (rng.choice([4, 8, 16]), rng.choice([20000, 50000]),
                                                    rng.choice([2, 3, 10]), rng.choice([0, 7, 50])))
    c = {"quick": 3, "thorough": 20, "search": 6}[tier]
    for _ in range(c):
        out.append("scn.counts %d %d %d" % (rng.choice([1, 4, 16]), rng.randint(50, 400), rng.randint(1, 10**6)))
    for _ in range({"quick": 4, "thorough": 40, "search": 10}[tier]):
        out.append("run prop=C01 mode=%s dur=300 conc=%d body=%d maxit=%d failevery=%d failkind=%s%s" % (
            rng.choice(["users", "constant rate=6/50ms"]), rng.choice([1, 3]), rng.choice([0, 3]), rng.randint(5, 60), rng.choice([2, 3, 5]),
            rng.choice(["failnow", "panicerr", "panicstr", "nilmap", "errorf", "timefail", "timeerr"]),
            rng.choice(["", "", " pushgw=ok", " pushgw=fail1"])))
    return out


def compare(rec):
    if rec["case"].startswith("cli "):
        from . import _plan
        return _plan.cli_compare(rec)
    if rec["model"] == "-":
        return None           # no model run; Spec decides
    if rec["impl"] != rec["model"]:
        return "model=%s impl=%s" % (rec["model"], rec["impl"])
    return None


def nontrivial_key(rec):
    if "[" in rec["case"] or not rec["case"].startswith("progress.script"):
        return rec["case"]
    return None


def distribution(recs):
    d = {"scripts": 0, "injected_records": 0, "collects_with_injection": 0, "stress_runs": 0, "component_runs": 0}
    for r in recs:
        c = r["case"]
        if c.startswith(("run ", "cli ")):
            d["whole_runs"] = d.get("whole_runs", 0) + 1
        elif c.startswith("progress.stress"):
            d["stress_runs"] += 1
        elif c.startswith("scn."):
            d["component_runs"] += 1
        else:
            d["scripts"] += 1
            d["collects_with_injection"] += c.count("[s:") + c.count("[f:")
            d["injected_records"] += c.count("+") + c.count("[s:") + c.count("[f:")
    return d


MANIFEST = {
 "text": "Interleaving model at the granularity of single atomic operations (any number of recorder threads, one collector serialised by the result mutex): the invariant lifetime + period + held = completed records per outcome, dropped counter exact, metric samples = completed + in-flight, holds after every event sequence (C01_counts_conserved, induction over the schedule, no bound on threads or length); at quiescence the final totals and the metric samples equal the number of passed / failed / dropped iterations (C01_final_exact); records touch only their own outcome (C01_outcome_routed*). The pre-repair collector's lost update is a kernel-checked schedule (legacy_lost_update) that is replayed on the real code through the progress.collect hook. C17's aggregation theorems cover the hook-granularity model used by the scripted tie.",
 "note": "Go's sync/atomic sequential consistency, Prometheus' Observe and the result mutex are assumed; the scripted tie controls interleavings only at the progress.collect yield point, finer ones are covered by the theorem, the regenerated atomic-operation skeleton and the hook-free stress (exploration in support).",
 "technique": "Lean 4 inductive invariant over an interleaving semantics + scripted-schedule correspondence through verif hooks"}


def signature(rec):
    """known finding D23: a scenario that times a stage named `iteration` adds its samples to the iteration series"""
    c = rec["case"]
    if c.startswith("cli ") and " timestage=iteration" in c:
        return "C16:stage-named-iteration"
    return c
