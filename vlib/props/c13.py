"""C13 — jitter varies each tick but preserves the long-run total."""
from ..core import ints, hx
from . import _plan
ID = "C13"
PROPS = ["F1Verif.Props.C13", "F1Verif.Props.FactsC13", "F1Verif.Props.C15", "F1Verif.Props.Pipeline", "F1Verif.Props.RefineC13", "F1Verif.Props.RefineC13Q", "F1Verif.Props.FloatSpec", "F1Verif.Props.C13Float", "F1Verif.Props.RefineC14B"]
RULE = ("relational correspondence on api.WithJitter (random source internal): the harness logs (rate_k, out_k) for "
        "scripted rate sequences — constant, bursty (R,0), (R,0,0,0), zero-heavy, ramps, small rates 1-3, large rates — "
        "at jitter 0, 0.5, 2, 12.25, 20, 50, 75, 99.875 percent over 200 to 20000 ticks (10^5-10^6 in the thorough tier); "
        "the driver recomputes the integer carry from the observations and checks every step against the admissible "
        "relation the theorems are proved for (slack 1/1000 included); config files (plan op) whose constant stages spell "
        "jitter 0, another value or inherit the default section's: a stage built with jitter 0 must yield its rate on every tick. Non-trivial: jitter > 0, at least 200 ticks and a "
        "non-zero rate; distinct = distinct case lines.")
ASSUMPTIONS = ["the random variation is an arbitrary value in [-1, 1] (math.Cos of anything); its distribution is irrelevant",
               "float64 evaluation of (rate+carry)*factor is covered by the 1/1000 slack that is part of the relation",
               "carry values stay below 2^53 (they are bounded by C13_bounded)"]
JITTERS = [(0, 1), (1, 2), (2, 1), (49, 4), (20, 1), (50, 1), (75, 1), (799, 8)]


def case(jn, jd, n, pat):
    return "jitter %d %d %d %s" % (jn, jd, n, ints(pat))


def corpus():
    return [
        case(20, 1, 300, [3000000000]),                 # C13l: more than 2^31 per tick is still carried exactly
        case(50, 1, 300, [5000000000, 0, 2147483648]),
        case(1, 2, 200, [2147483647, 2147483649]),
        case(50, 1, 4000, [1000, 0]),            # over-emission followed by a zero rate: the debt must be kept
        case(20, 1, 5000, [3]),
        case(30, 1, 20000, [3]),                  # rounding error must stay in the carry
        case(0, 1, 50, [5, 7, 0, 3]),
        case(799, 8, 3000, [10, 0, 0, 0]),
        case(2, 1, 3000, [1]),
        "pipeline %s 30 1 %s 40 staged" % (hx("1000/s"), hx("regular")),
        "pipeline %s 30 1 %s 400 constant" % (hx("1000/s"), hx("random")),
        "bjitter constant 1 4 500 1000", "bjitter staged 1 2 500 1000", "bjitter constant 9 10 500 12345",     # --jitter below one percent
    ]


def pattern(rng):
    k = rng.random()
    if k < 0.2:
        return [rng.choice([1, 2, 3, 10, 100, 1000, 10**5])]
    if k < 0.4:
        R = rng.choice([1, 5, 100, 1000, 10**4])
        return [R] + [0] * rng.choice([1, 1, 3, 9])
    if k < 0.55:
        return [rng.choice([0, 0, 0, 1, 2]) for _ in range(rng.randint(2, 12))]
    if k < 0.75:
        n = rng.randint(3, 30)
        top = rng.choice([10, 100, 5000])
        return [top * i // n for i in range(n)] + [top * (n - i) // n for i in range(n)]
    return [rng.randint(0, rng.choice([3, 50, 2000])) for _ in range(rng.randint(2, 40))]


def generate(rng, tier):
    n = {"quick": 250, "thorough": 3000, "search": 1500}[tier]
    out = []
    for _ in range(n):
        jn, jd = rng.choice(JITTERS)
        ticks = rng.choice([200, 500, 1000, 3000] + ([20000] if tier == "quick" else [20000, 100000]))
        out.append(case(jn, jd, ticks, pattern(rng)))
    if tier == "thorough":
        for jn, jd in [(20, 1), (50, 1), (799, 8)]:
            out.append(case(jn, jd, 10**6, [3]))
            out.append(case(jn, jd, 10**6, [1000, 0]))
    # the jitter flag as the builders read it (fractions of a percent included): per-value admissibility on the built rate function
    for _ in range({"quick": 40, "thorough": 500, "search": 150}[tier]):
        jn, jd = rng.choice(JITTERS + [(1, 4), (1, 2), (9, 10), (3, 4)])
        out.append("bjitter %s %d %d %d %d" % (rng.choice(["constant", "staged"]), jn, jd, rng.choice([200, 1000]), rng.choice([10, 100, 1000, 12345])))
    # end to end: the composed pipeline of a constant trigger (ParseRate -> WithJitter -> NewDistribution) over whole cycles
    for _ in range({"quick": 60, "thorough": 800, "search": 200}[tier]):
        out.append(_plan.pipeline_case(rng, cycles=rng.choice([10, 100, 400, 2000])))
    # where the jitter value comes from: config files whose stages spell jitter 0, another value, or inherit the default's
    for _ in range({"quick": 60, "thorough": 800, "search": 200}[tier]):
        out.append(_plan.jitter_plan_case(rng))
    return out


def compare(rec):
    if rec["case"].startswith("plan "):
        return _plan.plan_compare(rec)
    if rec["model"] == "-":
        return None
    return None if rec["impl"] == rec["model"] else "model=%s impl=%s" % (rec["model"], rec["impl"])


def nontrivial_key(rec):
    a = rec["case"].split()
    if a[0] == "plan":
        return rec["case"] if "jitter=0" in rec["case"] else None
    if a[0] == "pipeline":
        return rec["case"] if a[2] != "0" else None
    if a[0] == "bjitter":
        return rec["case"] if a[2] != "0" else None
    if a[1] != "0" and int(a[3]) >= 200 and any(x not in ("0", "-") for x in a[4].split(",")):
        return rec["case"]
    return None


def distribution(recs):
    d = {"ticks_total": 0, "zero_jitter": 0}
    for r in recs:
        a = r["case"].split()
        if a[0] == "plan":
            d["config_files"] = d.get("config_files", 0) + 1
            continue
        if a[0] in ("pipeline", "bjitter"):
            d[a[0]] = d.get(a[0], 0) + 1
            continue
        d["ticks_total"] += int(a[3])
        d["zero_jitter"] += a[1] == "0"
        key = "jitter_%s/%s" % (a[1], a[2])
        d[key] = d.get(key, 0) + 1
    return d


MANIFEST = {
 "text": "For every run whose steps are admissible (out >= 0; nothing emitted while rate+carry <= 0; otherwise |out - (rate+carry)| <= j/100*(rate+carry) + 1/2 + slack): the running totals telescope (C13_telescope), the carry and hence the difference of the running totals stays within (j/100*R + 1/2 + slack)/(1 - j/100) forever for rates in [0,R] and j < 100 (C13_bounded, C13_totals_close; induction with the bound as a fixed point), values are non-negative and within jitter percent plus rounding of rate+carry (C13_nonneg, C13_step_range), zero jitter is the identity (C13_zero_identity) and a config-file stage is built with the jitter it spells — an explicit 0 included — the default section's only when it omits it (C15_stage_jitter); the integer checker applied to observed runs decides exactly the relation of the theorems (admissibleB_iff). Any length, any random outcomes.",
 "note": "Relational model: the random factor is an arbitrary element of [1-j/100, 1+j/100]; the tie checks that every observed step of the real WithJitter is admissible. The 1/1000 slack for float evaluation is part of the relation - and is now justified by theorems about the regenerated closure: jitter_body_refines (the closure executes jitterStepG in any arithmetic), jitterStepG_rat (exact arithmetic: admissible with slack 0), jitterStepG_fp (ANY arithmetic satisfying FPSpec - binary64 without under/overflow -, rates and balances up to 1e9: admissible with slack 1/1000, and the float balance is exactly the integer requested - out), C13_generated_run / C13_generated_run_float (whole runs). math.Cos/rand assumed to stay in range; that Go's float64 satisfies FPSpec is IEEE 754 conformance, assumed.",
 "technique": "Lean 4 theorems over Q (telescoping sum, invariant bound as fixed point; Mathlib linarith/nlinarith); refinement of the regenerated MiniGo closure; rounding-error analysis over an abstract floating-point specification (FPSpec); + relational trace acceptance of the real function"}
