"""C17 — iteration durations are measured around the body and aggregated exactly."""
ID = "C17"
PROPS = ["F1Verif.Props.C17", "F1Verif.Props.FactsC17", "F1Verif.Props.RefineC17", "F1Verif.Props.RefineC17Run"]
RULE = ("engine A on progress.Stats: random histories of Record(success|fail|dropped|unknown, d>0), Snapshot and Total "
        "(quiet periods, equal / increasing / decreasing durations, extreme values), outputs = every returned snapshot; "
        "compared with the code-shaped model and evaluated against the list-based reference aggregate (expectSnap, proved "
        "to be the unique Covers). Measurement half: scn ops run real iterations through ActiveScenario.Run with sleeping "
        "bodies/cleanups and check that the iteration is already recorded when its first cleanup starts and that the "
        "recorded duration is at least the body's own clock. Non-trivial: a history with at least one collect after at "
        "least two records; distinct = distinct histories.")
ASSUMPTIONS = ["sequential use of progress.Stats for the aggregation theorems (min/max under concurrent Add are out of scope)",
               "durations are positive and sums do not overflow int64",
               "the monotonic clock does not go backwards; 'excludes queueing/cleanups' is checked as an ordering, timing upper bounds only in the thorough tier"]


def corpus():
    return [
        "progress.stress 8 60000 0 0 rising",              # C04k: every record a new maximum / minimum: no recorder may get stuck publishing it
        "progress.stress 16 30000 3 0 rising",
        "progress.seq s9007199254740993,s1,T",        # C17l: sums beyond 2^53 ns (2500 hours of iteration time) are still exact integers
        "progress.seq f9007199254740993,f3,S1,f1,T",
        "progress.seq s3600000000001,s3600000000001,s3600000000001,S1,s9007199254740993,T",
        "progress.seq s0,s0,f0,f0,f0,S1000,T",      # C08k: failures that took 0 ns are failures
        "progress.seq s5,f0,S1,f0,f0,S1,s7,T",
        "progress.seq f0,T",
        "progress.seq s5,s7,f3,S1000,f9,d,T",
        "progress.seq s100,S1,S1,s200,S1,T",          # quiet period must not wipe the lifetime minimum
        "progress.seq f70,S1,S1,f300,T",
        "progress.seq T",
        "progress.seq d,d,S5,d,T",
        "progress.seq s1,s1,s1,S1,s1,T",
        "progress.seq s9,s8,s7,S1,s6,s5,S1,s10,T",
        "progress.seq u5,s3,u7,T",
        # whole runs: users mode (back-to-back iterations on one worker) with slow cleanups; a second run on the same metrics instance
        "run prop=C17 mode=users conc=1 dur=4000 body=10 maxit=3 cleanup=800",
        "run prop=C17 mode=users conc=2 dur=4000 body=20 maxit=5 cleanup=700",
        "run prop=C17 mode=constant rate=2/100ms dur=400 conc=4 body=15 cleanup=650",
        "run prop=C17 mode=users conc=2 dur=600 body=20 maxit=6 prerun=2",
        "run prop=C17 mode=constant rate=3/100ms dur=400 conc=3 body=10 prerun=2",
        "scn.measuremany 4000", "scn.measure 30 120", "scn.measure 10 150 failnow", "scn.measure 10 150 panic", "scn.measure 10 120 fail", "scn.measure 10 120 require",
    ]


def history(rng, n):
    ops = []
    style = rng.choice(["mixed", "inc", "dec", "equal", "big"])
    base = rng.randint(1, 1000)
    for i in range(n):
        r = rng.random()
        if r < 0.22:
            ops.append(rng.choice(["S1000000000", "S1", "T", "S500000000"]))
            if rng.random() < 0.25:
                ops.append(rng.choice(["S1", "T"]))       # back-to-back collects: quiet period
        elif r < 0.30:
            ops.append("d")
        elif r < 0.33:
            ops.append("u%d" % rng.randint(1, 99))
        else:
            if style == "inc":
                d = base + i
            elif style == "dec":
                d = base + n - i
            elif style == "equal":
                d = base
            elif style == "big":
                d = rng.choice([1, 2, 10**9, 10**12, 3 * 10**12, rng.randint(1, 10**13)])
            else:
                d = rng.choice([1, 2, 3, rng.randint(1, 50), rng.randint(1, 10**6)])
            ops.append(("s" if rng.random() < 0.6 else "f") + str(d))
    if rng.random() < 0.8:
        ops.append("T")
    return "progress.seq " + ",".join(ops)


def generate(rng, tier):
    n = {"quick": 1500, "thorough": 30000, "search": 15000}[tier]
    out = [history(rng, rng.choice([1, 2, 3, 5, 8, 13, 30, 60])) for _ in range(n)]
    m = {"quick": 2, "thorough": 12, "search": 4}[tier]
    for _ in range(m):
        out.append("scn.measure %d %d %s" % (rng.choice([10, 20, 40]), rng.choice([60, 100, 150]), rng.choice(["pass", "failnow", "panic", "fail", "require"])))
    return out


def nontrivial_key(rec):
    a = rec["case"].split()
    if a[0] != "progress.seq":
        return rec["case"]
    ops = a[1].split(",")
    recs = [o for o in ops if o[0] in "sf"]
    if len(recs) >= 2 and any(o[0] in "ST" for o in ops):
        return rec["case"]
    return None


def distribution(recs):
    d = {"histories": 0, "records": 0, "collects": 0, "quiet_collects": 0, "measure_runs": 0}
    for r in recs:
        a = r["case"].split()
        if a[0] != "progress.seq":
            d["measure_runs"] += 1
            continue
        d["histories"] += 1
        prev = None
        for o in a[1].split(","):
            if o[0] in "ST":
                d["collects"] += 1
                if prev is not None and prev[0] in "ST":
                    d["quiet_collects"] += 1
            else:
                d["records"] += 1
            prev = o
    return d


MANIFEST = {
 "text": "Aggregation: for any history of records (positive durations), snapshots and totals — including records landing at the collect yield points — the four accumulators are exactly the aggregates of the durations recorded since / up to the last collect (C17_repr, by induction over the op list with the Rep invariant), every snapshot's lifetime figures cover all durations merged so far and its period figures exactly those since the previous collect (collectAll_spec, C17_snapshot_exact, C17_total_exact), lifetime counts never decrease (C17_count_monotone), min <= mean <= max (C17_min_le_mean_le_max); the reference aggregate used as the monitor is the unique Covers (covers_expect, covers_unique). Tie: differential check of progress.Stats histories on every run. Measurement: statement order of ActiveScenario.Run (regenerated fact) plus real iterations with sleeping bodies and cleanups.",
 "note": "Aggregation theorems quantify over sequential use (as the property states). The measurement half (clock reads around the recovered body, before the deferred cleanups) is tied by a regenerated statement-order fact and monitored on real iterations; the clock itself is assumed monotonic. int64 overflow outside the model.",
 "technique": "Lean 4 theorems (representation invariant by induction over operation lists) + model/implementation correspondence on generated histories"}
