"""C09 — tick cadence: one rate evaluation immediately, then at most one per interval."""
ID = "C09"
PROPS = ["F1Verif.Props.C09", "F1Verif.Props.FactsC09", "F1Verif.Props.RefineC09W"]
RULE = ("engine C: whole runs (constant, staged, ramp, gaussian; distributions none/regular/random; intervals 20-200 ms; "
        "with one slow evaluation that delays the ticking goroutine) with a wrapping rate function that logs monotonic "
        "timestamps and values; Spec: evaluation j happens no earlier than j intervals after the first (stall-robust: "
        "delays only postpone evaluations), evaluations <= 1 + elapsed/interval, at least one immediate evaluation, and "
        "started + dropped <= sum of the values (no more load than the profile allows); plus a 1 us interval / 256 worker "
        "run for the request = value clause under contention. Non-trivial: a run with >= 3 evaluations; distinct = "
        "distinct parameter tuples.")
ASSUMPTIONS = ["time.Ticker: the k-th tick is delivered no earlier than creation + k*interval and at most one tick is buffered (Go runtime contract)",
               "the theorem is about the trigger loop over an abstract ticker; real timers are monitored, not proved"]


def corpus():
    return [
        "run prop=C09 mode=constant rate=3/100ms intervalms=100 dur=650 conc=10 body=1",
        "run prop=C09 mode=constant rate=2/200ms intervalms=200 dur=2400 conc=10 body=1 sloweval=2:120",   # one slow tick must not speed up the rest
        "run prop=C09 mode=constant rate=1/10900us dist=none dur=1500 conc=4 body=1",      # C09n: an interval with a sub-millisecond remainder is ticked as it is, not snapped to whole milliseconds
        "run prop=C09 mode=constant rate=1/2500us dist=none dur=800 conc=4 body=0",
        "run prop=C09 mode=constant rate=1/1us dur=1200 conc=256 body=0",
        "run prop=C09 mode=constant rate=1/600us dur=600 conc=256 body=0",      # tick intervals below a millisecond that are not a divisor of it
        "run prop=C09 mode=constant rate=1/400us dur=600 conc=256 body=0",
        "run prop=C09 mode=constant rate=3/200ms intervalms=200 dur=1500 conc=1 body=450",   # a saturated pool: drops, and the progress report that mentions them, cost no evaluation
        "run prop=C09 mode=constant rate=40/1s dist=regular intervalms=100 dur=700 conc=10",
        # config-file stages: each stage's first tick comes no earlier than the durations of the stages before it
        "run prop=C09 mode=file dur=4000 conc=3 file=c:200:2/100ms;c:200:2/100ms;c:200:2/100ms;c:200:2/100ms;c:200:2/100ms;c:200:2/100ms body=1",
        # a pool that takes tens of milliseconds to start: the tick grid is anchored at the first evaluation, not before it
        "run prop=C09 mode=constant rate=1/100ms intervalms=100 dur=600 conc=40000 body=0",
        "run prop=C09 mode=constant rate=1/50ms intervalms=50 dur=400 conc=80000 body=0",
    ] + __import__("vlib.props._plan", fromlist=["x"]).cli_corpus_for("C09")


def generate(rng, tier):
    n = {"quick": 8, "thorough": 120, "search": 24}[tier]
    out = []
    for _ in range(n):
        iv = rng.choice([20, 50, 100, 200])
        mode = rng.choice(["constant", "constant", "staged", "ramp", "gaussian"])
        dur = rng.choice([400, 700, 1100])
        slow = "" if rng.random() < 0.5 else " sloweval=%d:%d" % (rng.randint(1, 3), int(iv * rng.choice([0.4, 0.6, 0.9])))
        if mode == "constant":
            out.append("run prop=C09 mode=constant rate=%d/%dms intervalms=%d dur=%d conc=20 body=1%s" % (rng.randint(1, 6), iv, iv, dur, slow))
        elif mode == "staged":
            out.append("run prop=C09 mode=staged stages=0s:%d,5s:%d freq=%d dist=none intervalms=%d dur=%d conc=20%s" % (rng.randint(1, 5), rng.randint(1, 9), iv, iv, dur, slow))
        elif mode == "ramp":
            out.append("run prop=C09 mode=ramp start=1/%dms end=9/%dms rampdur=5000 dist=none intervalms=%d dur=%d conc=20%s" % (iv, iv, iv, dur, slow))
        else:
            out.append("run prop=C09 mode=gaussian freq=%d dist=none intervalms=%d dur=%d conc=20%s" % (iv, iv, dur, slow))
    return out


def compare(rec):
    if rec["case"].startswith("cli "):
        from . import _plan
        return _plan.cli_compare(rec)
    if rec["model"] == "-":
        return None
    return None if rec["impl"] == rec["model"] else "model=%s impl=%s" % (rec["model"], rec["impl"])


def nontrivial_key(rec):
    try:
        ev = int(rec["impl"].split("evals=")[1].split()[0])
    except Exception:
        return rec["case"]
    return rec["case"] if ev >= 3 else None


def distribution(recs):
    d = {"runs": 0, "evaluations_total": 0, "with_slow_evaluation": 0}
    for r in recs:
        d["runs"] += 1
        d["with_slow_evaluation"] += "sloweval" in r["case"]
        if "evals=" in r["impl"]:
            d["evaluations_total"] += int(r["impl"].split("evals=")[1].split()[0])
    return d


MANIFEST = {
 "engine": "lean-proof + whole runs",
 "text": "Machine model of the trigger loop over an abstract ticker (first evaluation, request, ticker creation, deliveries that respect 'k-th tick no earlier than creation + k*interval' with a one-slot buffer, receive-and-evaluate, stop): in every reachable state evaluations <= 1 + ticks fired (C09_count), hence by elapsed time e since the first evaluation at most 1 + floor(e/interval) evaluations have been made (C09_cadence_reachable via the Timing invariant and ticks_by_time), and a request is accepted only with exactly the value the pending evaluation returned (C09_request_is_value). Tie: whole runs with a wrapping rate function logging monotonic timestamps and values, including a deliberately slow evaluation. The tick loop of NewIterationWorker is regenerated (RefineC09W): n ticks received = n + 1 evaluations = n + 1 triggers, each trigger with the value just obtained, for every script of select choices.",
 "note": "Partial: Go's time.Ticker contract is assumed (it is the hypothesis of the model's deliver event); the real ticker is monitored with stall-robust inequalities. One call site per tick in NewIterationWorker is additionally a regenerated statement-order fact.",
 "technique": "Lean 4 invariants over a timed event model + monitoring of real runs with stall-robust inequalities"}
