"""C07 — failures and panics are contained in their iteration and classified correctly."""
from . import _scn
ID = "C07"
PROPS = ["F1Verif.Props.C07", "F1Verif.Props.FactsC07"]
ALSO = ["F1Verif.Props.Handle"]
RULE = ("engine A (component level): per-worker behaviour sequences over the alphabet pass / Fail / Error(f) / FailNow / "
        "Fatal(f) / failed assertion / panic with error, string, arbitrary value, runtime error (nil-map write) and nil, "
        "with and without cleanups registered first; T.Failed() sampled at body entry, reported outcome per iteration, "
        "progress counts and metric samples compared with the interpreter and the monitor. Non-trivial: a case with at "
        "least one failing or panicking body and at least two iterations; distinct = distinct case lines.")
ASSUMPTIONS = ["runtime.Goexit and failing a different handle than the iteration's own are outside the alphabet",
               "whole-run behaviour under load (real pools) is monitored by C05/C01 ops, not proved"]


def corpus():
    return [
        "scn 4 _/N|_|_|_ -",                       # fails before registering any cleanup, then passes thrice
        "scn 6 _/F|_|Pr|_|Pn|_ -",
        "scn 5 _/r1.Q|L1|r1.Pv|L2|E c1=L9",
        "scn 4 _/Pe|Ps|A|_ -",
        "scn 4 _/WN.L1|WPr.L2|WF.L3|_ -",
        "pool.handles 2 1",          # two pools of one manager (file stages): a failure must stay on its own handle
        "pool.handles 3 2",
    ]


def generate(rng, tier):
    n = {"quick": 1500, "thorough": 40000, "search": 20000}[tier]
    out = []
    for _ in range(n):
        nb = rng.choice([2, 3, 4, 6, 8])
        ncl = rng.choice([0, 0, 2])
        bodies = []
        for _ in range(nb):
            r = rng.random()
            if r < 0.4:
                b = _scn.prog(rng, rng.randint(0, 2), ncl, pfail=0.0, preg=0.3, plog=0.5)
            else:
                pre = _scn.prog(rng, rng.randint(0, 2), ncl, pfail=0.0, preg=0.4, plog=0.4)
                b = (pre + "." if pre != "_" else "") + rng.choice(_scn.FAILS)
                if rng.random() < 0.3:
                    b += ".L%d" % rng.randint(0, 9)
            bodies.append(b)
        out.append("scn %d _/%s %s" % (rng.choice([nb, nb, 2 * nb, nb + 1]), "|".join(bodies), _scn.cleanups(rng, ncl, 0.3)))
    return out


def nontrivial_key(rec):
    a = rec["case"].split()
    if a[0] != "scn":
        return rec["case"]
    f = _scn.features(rec["case"])
    if int(a[1]) >= 2 and f & {"body_fails", "body_panics", "body_stops"}:
        return rec["case"]
    return None


def distribution(recs):
    d = {}
    for r in recs:
        a = r["case"].split()
        if a[0] != "scn":
            continue
        for body in a[2].split("/", 1)[1].split("|"):
            for act in body.split("."):
                act = act[1:] if act.startswith("W") else act
                if act in _scn.FAILS:
                    d[act] = d.get(act, 0) + 1
    return d


MANIFEST = {
 "text": "For every body program the reported outcome is 'failed' iff its executed part marks failure or panics (C07_classified, C07_any_failure_reported, C07_pass_reported, C07_stop_marks), independent of the handle's previous state and of what cleanups do (C07_independent), every iteration starts from a clean handle (C07_contained), and over a whole per-worker history iteration j is reported by body j alone (C07_history). Structural induction over action lists. Tie: generated per-worker behaviour sequences with real panics and runtime errors through the real handle.",
 "note": "Alphabet of failure events as stated in the property (Goexit excluded). Process/worker survival is observed by the harness (the worker continues to take iterations; a crash of the process is reported as crash:process).",
 "technique": "Lean 4 theorems by structural induction over scenario programs + behaviour-sequence correspondence with the real handle"}
