"""C07 — failures and panics are contained in their iteration and classified correctly."""
from ..core import hx
from . import _scn
ID = "C07"
PROPS = ["F1Verif.Props.C07", "F1Verif.Props.FactsC07", "F1Verif.Props.RefineC07", "F1Verif.Props.RefineC17Run", "F1Verif.Props.RefineC06T"]
ALSO = ["F1Verif.Props.Handle"]
RULE = ("engine A (component level): per-worker behaviour sequences over the alphabet pass / Fail / Error(f) / FailNow / "
        "Fatal(f) / failed assertion / panic with error, string, arbitrary value, runtime error (nil-map write) and nil, "
        "with and without cleanups registered first; T.Failed() sampled at body entry, reported outcome per iteration, "
        "progress counts and metric samples compared with the interpreter and the monitor. Non-trivial: a case with at "
        "least one failing or panicking body and at least two iterations; distinct = distinct case lines.")
ASSUMPTIONS = ["runtime.Goexit and failing a different handle than the iteration's own are outside the alphabet",
               "whole-run behaviour under load (real pools) is monitored by C05/C01 ops, not proved"]


def corpus():
    return [
        "scn 4 _/N|_|_|_ -",                       # fails before registering any cleanup, then passes thrice
        "scn 6 _/F|_|Pr|_|Pn|_ -",
        "scn 5 _/r1.Q|L1|r1.Pv|L2|E c1=L9",
        "scn 4 _/Pe|Ps|A|_ -",                     # D18: the first Pe of a program panics with an error whose Is matches everything
        "scn 4 _/Pe|Pe|Pe|Pe -",                   # D19: the third one with a typed nil pointer error
        "scn 3 _/Pe.L1|L2.Pe|Pe c1=L9",
        "scn 4 _/WN.L1|WPr.L2|WF.L3|_ -",
        "pool.handles 2 1",          # two pools of one manager (file stages): a failure must stay on its own handle
        "pool.handles 3 2",
        # whole runs and whole command lines: every kind of failure stays in its iteration, the process survives —
        # also through a combined scenario, and also when the scenario log file cannot be opened
        "cli mode=users dur=%s conc=2 bodyms=1 maxit=12 failevery=2 failkind=panicstr loglevel=silent" % hx("400ms"),       # C07m: a panic marks the iteration also when the caller's logger drops error records
        "cli mode=users dur=%s conc=2 bodyms=1 maxit=12 failevery=1 failkind=nilmap loglevel=silent" % hx("400ms"),
        "cli mode=constant rate=%s dist=%s dur=%s conc=2 bodyms=1 failevery=3 failkind=panicerr loglevel=silent" % (hx("3/100ms"), hx("none"), hx("400ms")),
        "cli mode=users dur=%s conc=2 bodyms=1 maxit=12 failevery=2 failkind=panicstr logfmt=json loglevel=fatal" % hx("400ms"),   # C20n: … or F1_LOG_LEVEL names a level that says less
        "cli mode=users dur=%s conc=1 bodyms=1 maxit=9 failevery=3 failkind=panicint logfmt=text loglevel=panic combine=1" % hx("400ms"),
        "run prop=C07 mode=users conc=2 dur=300 body=1 maxit=24 failevery=3 failkind=panicerr combine=1",
        "run prop=C07 mode=users conc=2 dur=300 body=1 maxit=24 failevery=2 failkind=nilmap combine=1",
        "run prop=C07 mode=constant rate=6/50ms dur=300 conc=3 body=2 failevery=4 failkind=timefail",
        "run prop=C07 mode=users conc=2 dur=300 body=1 maxit=20 failevery=2 failkind=paniclong",
        "run prop=C07 mode=users conc=2 dur=300 body=1 maxit=20 failevery=3 failkind=panicunhash",
        "run prop=C07 mode=users conc=2 dur=300 body=1 maxit=20 failevery=2 failkind=errunhash",
        "run prop=C07 mode=users conc=2 dur=300 body=1 maxit=20 failevery=2 failkind=panicint",
        "run prop=C07 mode=users conc=2 dur=300 body=1 maxit=20 failevery=2 failkind=panicis",
        "run prop=C07 mode=users conc=2 dur=300 body=1 maxit=20 failevery=3 failkind=panicnilptr",
        "run prop=C07 mode=users conc=2 dur=300 body=1 maxit=20 failevery=2 failkind=errnil",
        "run prop=C07 mode=users conc=2 dur=300 body=1 maxit=20 failevery=2 failkind=fatalnil",
        "cli mode=users dur=%s conc=1 bodyms=1 maxit=6 failevery=2 failkind=panicstringer expectlimit=1" % hx("300ms"),              # C07k: a panic value whose String method panics
        "cli mode=users dur=%s conc=1 bodyms=1 maxit=6 failevery=2 failkind=panicstringer logfmt=json expectlimit=1" % hx("300ms"),  # … with f1's own JSON logger
        "cli mode=users dur=%s conc=2 bodyms=1 maxit=8 failevery=3 failkind=panicnilptr logfmt=json expectlimit=1" % hx("300ms"),
        "cli mode=users dur=%s conc=1 bodyms=0 maxit=2600 failevery=1 failkind=panicstr expectlimit=1" % hx("20s"),      # C07l: the 2600th panic on a worker is a failure like the first
        "cli mode=users dur=%s conc=2 bodyms=0 maxit=4200 failevery=2 failkind=panicint expectlimit=1" % hx("20s"),
        "run prop=C07 mode=users dur=400 conc=1 body=1 maxit=6 failevery=2 failkind=foreignfailnow",                              # D25: FailNow on the setup handle, from an iteration
        "run prop=C07 mode=constant rate=3/100ms dist=none dur=500 conc=2 body=2 failevery=3 failkind=foreignfailnow",
        "cli mode=users dur=%s conc=1 bodyms=1 maxit=4 failevery=2 failkind=paniccyclic logfmt=text expectlimit=1" % hx("300ms"),   # D26 (known finding): a panic value that contains itself, text log format
        "cli mode=users dur=%s conc=1 bodyms=1 maxit=4 failevery=2 failkind=paniccyclic logfmt=json expectlimit=1" % hx("300ms"),
        "cli mode=users dur=%s conc=1 bodyms=1 maxit=6 failevery=2 failkind=panicstr logfmt=text expectlimit=1" % hx("300ms"),
        "cli mode=users dur=%s conc=2 bodyms=5 failevery=2 failkind=panicerr logfile=bad" % hx("200ms"),
        "cli mode=users dur=%s conc=2 bodyms=5 failevery=3 failkind=errorf logfile=bad" % hx("200ms"),
        "cli mode=users dur=%s conc=1 bodyms=2 maxit=8 failevery=2 failkind=nilmap combine=1 expectlimit=1" % hx("300ms"),
        "cli mode=constant dur=%s conc=2 rate=%s dist=%s failevery=3 failkind=panicstr logfile=good" % (hx("200ms"), hx("5/50ms"), hx("none")),
    ]


def generate(rng, tier):
    n = {"quick": 1500, "thorough": 40000, "search": 20000}[tier]
    out = []
    for _ in range(n):
        nb = rng.choice([2, 3, 4, 6, 8])
        ncl = rng.choice([0, 0, 2])
        bodies = []
        for _ in range(nb):
            r = rng.random()
            if r < 0.4:
                b = _scn.prog(rng, rng.randint(0, 2), ncl, pfail=0.0, preg=0.3, plog=0.5)
            else:
                pre = _scn.prog(rng, rng.randint(0, 2), ncl, pfail=0.0, preg=0.4, plog=0.4)
                b = (pre + "." if pre != "_" else "") + rng.choice(_scn.FAILS)
                if rng.random() < 0.3:
                    b += ".L%d" % rng.randint(0, 9)
            bodies.append(b)
        out.append("scn %d _/%s %s" % (rng.choice([nb, nb, 2 * nb, nb + 1]), "|".join(bodies), _scn.cleanups(rng, ncl, 0.3)))
    kinds = ["failnow", "panicerr", "panicstr", "nilmap", "errorf", "timefail", "timeerr", "errunhash", "panicunhash", "paniclong", "panicint", "panicis", "panicnilptr", "errnil", "fatalnil", "panicstringer"]
    for _ in range({"quick": 6, "thorough": 60, "search": 16}[tier]):
        if rng.random() < 0.5:
            out.append("run prop=C07 mode=%s dur=300 conc=%d body=%d maxit=%d failevery=%d failkind=%s%s" % (
                rng.choice(["users", "constant rate=6/50ms"]), rng.choice([1, 3]), rng.choice([0, 3]), rng.randint(8, 40), rng.choice([2, 3, 5]),
                rng.choice(kinds), rng.choice(["", " combine=1"])))
        else:
            out.append("cli mode=users dur=%s conc=%d bodyms=%d maxit=%d failevery=%d failkind=%s%s%s" % (
                hx("300ms"), rng.choice([1, 2]), rng.choice([1, 4]), rng.randint(6, 20), rng.choice([2, 3]), rng.choice(kinds),
                rng.choice(["", " combine=1"]), rng.choice(["", " logfile=bad", " logfile=good"])))
    return out


def compare(rec):
    if rec["case"].startswith("cli "):
        from . import _plan
        return _plan.cli_compare(rec)
    if rec["model"] == "-":
        return None
    return None if rec["impl"] == rec["model"] else "model=%s impl=%s" % (rec["model"], rec["impl"])


def nontrivial_key(rec):
    a = rec["case"].split()
    if a[0] != "scn":
        return rec["case"]
    f = _scn.features(rec["case"])
    if int(a[1]) >= 2 and f & {"body_fails", "body_panics", "body_stops"}:
        return rec["case"]
    return None


def distribution(recs):
    d = {}
    for r in recs:
        a = r["case"].split()
        if a[0] != "scn":
            continue
        for body in a[2].split("/", 1)[1].split("|"):
            for act in body.split("."):
                act = act[1:] if act.startswith("W") else act
                if act in _scn.FAILS:
                    d[act] = d.get(act, 0) + 1
    return d


MANIFEST = {
 "text": "For every body program the reported outcome is 'failed' iff its executed part marks failure or panics (C07_classified, C07_any_failure_reported, C07_pass_reported, C07_stop_marks), independent of the handle's previous state and of what cleanups do (C07_independent), every iteration starts from a clean handle (C07_contained), and over a whole per-worker history iteration j is reported by body j alone (C07_history). Structural induction over action lists. Tie: generated per-worker behaviour sequences with real panics and runtime errors through the real handle. Regenerated: handlePanic marks the handle failed for every recovered value except nil and the FailNow sentinel itself, compared by identity (t_handlePanic_refines); a panicking body is recovered inside Run's inner block and everything after it happens as for a returning body (active_Run_window).",
 "note": "Alphabet of failure events as stated in the property (Goexit excluded). Process/worker survival is observed by the harness (the worker continues to take iterations; a crash of the process is reported as crash:process).",
 "technique": "Lean 4 theorems by structural induction over scenario programs + behaviour-sequence correspondence with the real handle; refinement of the regenerated panic handler (MiniGo)"}


def signature(rec):
    """known finding D26: a panic value that contains itself kills the process under the text log format"""
    c = rec["case"]
    if c.startswith("cli ") and " failkind=paniccyclic" in c and " logfmt=text" in c:
        return "C07:cyclic-panic-value:text-log"
    return c
