"""C20 — combined scenarios run every component, in order, in setup and in each iteration."""
from . import _scn
from ..core import hx
ID = "C20"
PROPS = ["F1Verif.Props.C20", "F1Verif.Props.FactsC20", "F1Verif.Props.RefineC17Run", "F1Verif.Props.RefineC20"]
ALSO = ["F1Verif.Props.Handle"]
RULE = ("engine A: 2-5 generated components (setup program + iteration programs with pass / Fail / FailNow / panic "
        "behaviours) combined with the real f1.CombineScenarios and run through ActiveScenario.Setup and the worker's "
        "Reset+Run; component order, handle identity (pointer equality of *T across components), stop-on-failure and the "
        "reported outcome are compared with the interpreter and checked by the monitor. Non-trivial: a combined case in "
        "which some component fails or stops in setup or in an iteration; distinct = distinct case lines.")
ASSUMPTIONS = ["a combined scenario set up more than once shares nothing between set-ups (checked by the scn2 op)"]


def corpus():
    return [
        "cli mode=users dur=%s conc=1 bodyms=1 maxit=9 failevery=3 failkind=panicint logfmt=text loglevel=panic combine=1" % hx("400ms"),    # C20n: a component's panic fails the iteration whatever F1_LOG_LEVEL says
        "cli mode=users dur=%s conc=2 bodyms=1 maxit=12 failevery=2 failkind=panicstr logfmt=json loglevel=fatal combine=1" % hx("400ms"),
        "cli mode=users dur=%s conc=2 bodyms=1 maxit=12 failevery=2 failkind=panicerr loglevel=silent combine=1" % hx("400ms"),
        "scn 2 _/L1;_/N|L2;_/L3 -",
        "scn 2 L1/L5;Pe/L6;L3/L7 -",
        "scn 3 r1/r2;r3/F|Pr;_/L1 c1=L1;c2=L2;c3=L3",
        "scn2 2 _/L1;_/L2;_/L3",
        "scn 2 _/L0;_/WN|WPs|WQ;_/L2 -",      # a component that stops inside t.Time still stops the iteration
        # through the public API: a combined scenario whose first component fails in every way; the later component
        # runs exactly when the first did not stop the iteration
        "cli mode=users dur=%s conc=1 bodyms=1 maxit=12 failevery=2 failkind=panicstringer combine=1 expectlimit=1" % hx("400ms"),   # C20k: a component panics with a value whose String method panics
        "cli mode=users dur=%s conc=2 bodyms=1 maxit=12 failevery=3 failkind=panicstringer combine=1 logfmt=json expectlimit=1" % hx("400ms"),
        "cli mode=users dur=%s conc=1 bodyms=1 maxit=12 failevery=2 failkind=errunhash combine=1 expectlimit=1" % hx("400ms"),
        "cli mode=users dur=%s conc=2 bodyms=1 maxit=12 failevery=3 failkind=errorf combine=1 expectlimit=1" % hx("400ms"),
        "cli mode=users dur=%s conc=2 bodyms=1 maxit=12 failevery=2 failkind=panicunhash combine=1 expectlimit=1" % hx("400ms"),
        "cli mode=users dur=%s conc=1 bodyms=1 maxit=9 failevery=3 failkind=timefail combine=1 twice=1 expectlimit=1" % hx("400ms"),
    ]


def generate(rng, tier):
    n = {"quick": 1200, "thorough": 30000, "search": 15000}[tier]
    out = [_scn.case(rng, ncomp=rng.choice([2, 3, 4, 5]), setup_fail=0.2, body_fail=0.5) for _ in range(n)]
    kinds = ["failnow", "panicerr", "panicstr", "nilmap", "errorf", "timefail", "timeerr", "errunhash", "panicunhash", "paniclong", "panicint", "panicis", "panicnilptr", "errnil", "fatalnil", "panicstringer"]
    for _ in range({"quick": 6, "thorough": 60, "search": 16}[tier]):
        out.append("cli mode=users dur=%s conc=%d bodyms=1 maxit=%d failevery=%d failkind=%s combine=1%s expectlimit=1" % (
            hx("400ms"), rng.choice([1, 2]), rng.randint(6, 16), rng.choice([2, 3]), rng.choice(kinds), rng.choice(["", " twice=1"])))
    for _ in range({"quick": 20, "thorough": 300, "search": 100}[tier]):
        k = rng.choice([2, 3, 4])
        out.append("scn2 %d %s" % (rng.choice([1, 2, 3]),
                                   ";".join("_/L%d" % i for i in range(k))))
    return out


def compare(rec):
    if rec["case"].startswith("cli "):
        from . import _plan
        return _plan.cli_compare(rec)
    if rec["model"] == "-":
        return None
    return None if rec["impl"] == rec["model"] else "model=%s impl=%s" % (rec["model"], rec["impl"])


def nontrivial_key(rec):
    if rec["case"].startswith(("scn2", "cli ")):
        return rec["case"]
    f = _scn.features(rec["case"])
    if "combined" in f and f & {"body_fails", "body_stops", "setup_fails", "setup_stops"}:
        return rec["case"]
    return None


def distribution(recs):
    d = {"components": {}}
    for r in recs:
        if r["case"].startswith("cli "):
            d["command_lines"] = d.get("command_lines", 0) + 1
            continue
        k = len(r["case"].split()[2].split(";"))
        d["components"][str(k)] = d["components"].get(str(k), 0) + 1
        for f in (_scn.features(r["case"]) if r["case"].startswith("scn ") else ["repeated_setup"]):
            d[f] = d.get(f, 0) + 1
    return d


MANIFEST = {
 "text": "For every list of component programs: setups run once each in the given order against one handle (C20_setup_order), each iteration invokes the components in order with that iteration's handle up to and including the first that stops (C20_iter_order), a stopping component prevents the later ones in that iteration only and the iteration is failed (C20_stop, C20_next_iteration_runs_all). Induction over the component list. Tie: generated components through the real f1.CombineScenarios; order, handle identity and outcomes compared and monitored; repeated set-up of one combined scenario checked for shared state. Regenerated: both closures of CombineScenarios are translated from the source on every run and proved, by induction over the component slice, to call the components in order with the one handle up to and including the first that panics (combine_setup_refines, combine_iter_refines), which is Handle.executedComps (executedComps_eq_takeThrough); they are also executed on every scn case (mg.scn).",
 "note": "Handle identity is observed as pointer equality by the harness; in the model the handle is threaded through the component loop.",
 "technique": "Lean 4 theorems by induction over component lists + event-log correspondence with the real CombineScenarios; refinement of the regenerated closures (MiniGo, induction over the slice)"}
