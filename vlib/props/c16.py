"""C16 — exported metrics mirror the run and carry the right labels."""
from ..core import hx
from . import _scn
ID = "C16"
PROPS = ["F1Verif.Props.C16", "F1Verif.Props.FactsC16", "F1Verif.Props.RefineC17Run", "F1Verif.Props.RefineC05R", "F1Verif.Props.RefineC05U", "F1Verif.Props.RefineC08X"]
ALSO = ["F1Verif.Props.C01"]
RULE = ("engine A: metrics.NewInstance on a private registry with generated static-label maps (valid label names; keys "
        "that are prefixes of other keys with digit / underscore suffixes, values that sort against their keys, values "
        "equal to other keys, empty values, unicode values, 0-8 labels; Go's randomised map iteration supplies the "
        "insertion orders), one setup and three iteration samples recorded, Registry.Gather()'s label pairs per series "
        "compared with the model and with the map itself; sample counts: scn programs (setup outcome label, per-result "
        "counts) and scn.counts (two consecutive runs on one instance with Reset, racing snapshots). Non-trivial: a map "
        "with >= 2 labels, or a run with failing/panicking setup or mixed outcomes; distinct = distinct case lines.")
ASSUMPTIONS = ["prometheus/client_golang: one Observe = one sample under the given label values; Reset clears; Gather returns them",
               "label names are valid Prometheus names distinct from test/stage/result (others make the library panic at registration, outside f1's label map)"]


def enc(m):
    return "labels " + (";".join("%s=%s" % (hx(k), hx(v)) for k, v in m) or "-")


def corpus():
    return [
        "run prop=C16 mode=file dur=3000 conc=2 file=u:200:2;c:300:2/100ms body=150",      # C16k: iterations of the stage after a users stage are in the result, too
        "run prop=C16 mode=file dur=3000 conc=3 file=u:150:3;c:400:3/100ms body=200",
        "run prop=C16 mode=constant rate=3000000/100ms dist=none dur=250 conc=1 body=400 timeout=5000",   # C16l / D22: millions of drops, result and metric agree
        enc([("zone", "primary"), ("zone2", "secondary"), ("team", "x")]),
        enc([("env1", "a"), ("env", "b")]),
        enc([("customer", "fake-customer"), ("f1_id", "x"), ("labelx", "y"), ("product", "z")]),
        enc([]),
        enc([("a", "b"), ("b", "a")]),
        "scn 2 Pe/L1 -",                 # setup that panics: the setup sample must be labelled fail
        "scn 2 Q/L1 -",
        "scn.counts 4 120 7",
        # whole runs: an earlier run of ANOTHER scenario on the same metrics instance; iteration cleanups that report errors
        "run prop=C16 mode=users conc=3 dur=300 body=2 maxit=20 failevery=3 prerun=1",
        "run prop=C16 mode=constant rate=5/50ms dur=300 conc=3 body=5 failevery=4 cleanupfail=3",
        "run prop=C16 mode=users conc=2 dur=300 body=2 maxit=12 cleanupfail=2 prerun=1",
    ] + __import__("vlib.props._plan", fromlist=["x"]).cli_corpus_for("C16")


def gen_map(rng):
    n = rng.choice([0, 1, 2, 2, 3, 4, 6, 8])
    base = rng.choice(["zone", "env", "k", "label_x", "A", "team", "z9"])
    keys = set()
    while len(keys) < n:
        style = rng.random()
        if style < 0.5:
            keys.add(base + rng.choice(["", "1", "2", "0", "_", "_a", "9z", "A", "a"]))
        else:
            keys.add(rng.choice("abcxyzABC_") + "".join(rng.choice("abc019_XYZ") for _ in range(rng.randint(0, 5))))
    keys = [k for k in keys if k not in ("test", "stage", "result") and not k.startswith("__")]
    vals = ["primary", "secondary", "", "0", "~", "=", "a=b", "z", "A", "é", "zone", "zone2", " x "] + keys
    m = [(k, rng.choice(vals)) for k in keys]
    rng.shuffle(m)
    return m


def generate(rng, tier):
    n = {"quick": 600, "thorough": 15000, "search": 8000}[tier]
    out = [enc(gen_map(rng)) for _ in range(n)]
    out += [_scn.case(rng, setup_fail=0.5, ncomp=1) for _ in range(n // 3)]
    for _ in range({"quick": 2, "thorough": 20, "search": 6}[tier]):
        out.append("scn.counts %d %d %d" % (rng.choice([1, 4, 8]), rng.randint(50, 300), rng.randint(1, 10**6)))
    for _ in range({"quick": 4, "thorough": 40, "search": 10}[tier]):
        out.append("run prop=C16 mode=%s dur=300 conc=%d body=%d maxit=%d failevery=%d%s%s" % (
            rng.choice(["users", "constant rate=6/50ms"]), rng.choice([1, 3]), rng.choice([0, 3]), rng.randint(5, 40), rng.choice([0, 2, 5]),
            rng.choice(["", " prerun=1"]), rng.choice(["", " cleanupfail=%d" % rng.randint(1, 4)])))
    return out


def compare(rec):
    if rec["case"].startswith("cli "):
        from . import _plan
        return _plan.cli_compare(rec)
    if rec["model"] == "-":
        return None
    return None if rec["impl"] == rec["model"] else "model=%s impl=%s" % (rec["model"], rec["impl"])


def nontrivial_key(rec):
    c = rec["case"]
    if c.startswith("labels"):
        return c if c.count(";") >= 1 else None
    if c.startswith("scn "):
        f = _scn.features(c)
        return c if f & {"setup_fails", "setup_stops", "body_fails"} else None
    return c


def distribution(recs):
    d = {"label_maps": 0, "labels_total": 0, "prefix_key_pairs": 0, "scenario_runs": 0, "failed_setups": 0, "two_run_counts": 0}
    for r in recs:
        c = r["case"]
        if c.startswith("labels"):
            d["label_maps"] += 1
            body = c.split()[1]
            if body != "-":
                ks = [bytes.fromhex(p.split("=")[0]).decode() if p.split("=")[0] != "-" else "" for p in body.split(";")]
                d["labels_total"] += len(ks)
                d["prefix_key_pairs"] += sum(1 for a in ks for b in ks if a != b and b.startswith(a))
        elif c.startswith(("run ", "cli ")):
            d["whole_runs"] = d.get("whole_runs", 0) + 1
        elif c.startswith("scn "):
            d["scenario_runs"] += 1
            d["failed_setups"] += "sf=1" in r["impl"]
        else:
            d["two_run_counts"] += 1
    return d


MANIFEST = {
 "text": "Label names and values are both derived from the sorted key list: for every map with distinct keys the zip of names and values is a permutation of the map, i.e. each configured label appears once, paired with its own value (C16_pairing, C16_lengths), and neither list depends on the traversal order of the map (C16_keys_order_independent, C16_values_order_independent). Sample counts: metric samples per result label = completed iterations of that outcome (+ in flight), in every reachable state of the interleaving model (C16_samples, corollary of C01's invariant). Tie: generated label maps through the real NewInstance/Gather; setup outcome label and per-result counts through scn programs; two consecutive runs on one metrics instance.",
 "note": "Prometheus internals (Observe, Reset, Gather, label validation) assumed. 'Not mixed with earlier runs' is monitored (scn.counts runs twice on one instance with Reset between), not proved.",
 "technique": "Lean 4 theorems (permutation/sortedness of the sorted-key construction; C01 invariant) + correspondence through the real registry"}


def signature(rec):
    """known finding D23: a scenario that times a stage named `iteration` adds its samples to the iteration series"""
    c = rec["case"]
    if c.startswith("cli ") and " timestage=iteration" in c:
        return "C16:stage-named-iteration"
    return c
