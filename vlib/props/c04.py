"""C04 — never more than `concurrency` iterations in flight; all workers usable."""
from ..core import hx
ID = "C04"
PROPS = ["F1Verif.Props.C04", "F1Verif.Props.FactsC04", "F1Verif.Props.CPool", "F1Verif.Props.RefineC02", "F1Verif.Props.RefineC02W", "F1Verif.Props.RefineC05S", "F1Verif.Props.RefineC05U", "F1Verif.Props.RefineC18N"]
ALSO = ["F1Verif.Props.Pool"]
RULE = ("engine B/C on real pools: pool.usable — rounds in which all W gated iterations finish together with k < W "
        "requests pending and a tick of W follows after a swept delay of 0-50 us; W iterations must be executing again "
        "within 1.5 s (lost wake-ups, wiped requests); pool.stress — in-flight high-water mark and live-handle set; "
        "pool.handles — several pools of one manager executing at once never share a handle; whole runs in constant, "
        "staged, ramp, gaussian and users mode with bodies long enough to saturate the pool (high-water mark = "
        "concurrency, never above). Non-trivial: every case has >= 2 workers and more requests than workers; distinct = "
        "distinct case lines.")
ASSUMPTIONS = ["the Go scheduler actually runs W runnable goroutines (the lower bound needs real parallelism; a miss is re-run by the search before it is reported)",
               "sync.Cond semantics; `file` mode is outside the statement (consecutive stages' pools may overlap)"]


def corpus():
    return [
        "pool.usable 4096 3",                             # C04l: thousands of workers, thousands of requests: every worker gets one
        "progress.stress 8 60000 0 0 rising",              # C04k: every record a new maximum / minimum: no recorder may get stuck publishing it
        "progress.stress 16 30000 3 0 rising",
        "pool.usable 8 150", "pool.usable 2 200", "pool.usable 16 60",
        "pool.usable 160 12", "pool.usable 300 8", "pool.usable 129 10",       # pools larger than any round number a wake-up budget might use
        "pool.usable 4096 3", "pool.usable 2500 2",        # C04l: thousands of requests pending at once — no worker may take more than the one it executes
        "run prop=C04 mode=constant rate=4096/200ms dist=none dur=700 conc=4096 body=1200 expectfull=1",
        "run prop=C04 mode=constant rate=200/100ms dur=400 conc=200 body=250 expectfull=1",
        "pool.stress 8 3000 6 2",
        "pool.handles 2 3",
        "run prop=C04 mode=constant rate=20/50ms dur=400 conc=4 body=150 expectfull=1",
        "run prop=C04 mode=users conc=6 dur=300 body=20 expectfull=1",
        "run prop=C04 mode=file dur=9000 conc=3 file=u:300:3;u:3000:3 body=2600",          # C04m: the users of a stage finish before the next stage starts its own
        "run prop=C04 mode=file dur=9000 conc=2 file=u:200:2;u:200:3;u:200:1 body=150",
        "plan 0 scenario=73,maxdur=10000000000,conc=2,maxit=0,igndrop=0 mode=%s,conc=6 dur=1000000000" % hx("users"),     # C04n: a users stage takes its users from the default section before the limits
        "plan 0 scenario=73,maxdur=10000000000,conc=6,maxit=0,igndrop=0 mode=%s,conc=2 dur=1000000000 dur=1000000000,conc=4" % hx("users"),
        "run prop=C04 mode=users conc=4 dur=300 body=20 expectfull=1 combine=1",
        "run prop=C04 mode=constant rate=20/50ms dur=400 conc=4 body=150 maxit=50 expectfull=1",             # a limit above the concurrency does not add workers
        "run prop=C04 mode=staged stages=0s:30,2s:30 freq=50 dist=none dur=400 conc=5 body=150 maxit=1000 expectfull=1",           # handles reach the components of a combined scenario
        "run prop=C04 mode=constant rate=12/50ms dur=300 conc=3 body=100 expectfull=1 combine=1",
    ] + __import__("vlib.props._plan", fromlist=["x"]).cli_corpus_for("C04")


def generate(rng, tier):
    n = {"quick": 6, "thorough": 80, "search": 25}[tier]
    out = []
    for _ in range(n):
        out.append("pool.usable %d %d" % (rng.choice([2, 3, 4, 8, 16, 32]), rng.choice([80, 160])))
        out.append("pool.usable %d %d" % (rng.choice([65, 100, 130, 257, 520]), rng.choice([6, 10])))
        out.append("pool.stress %d %d %d 2" % (rng.choice([2, 8, 32]), rng.choice([2000, 5000]), rng.choice([2, 8])))
    for _ in range({"quick": 4, "thorough": 40, "search": 8}[tier]):
        mode = rng.choice(["constant", "users", "staged", "ramp", "gaussian"])
        conc = rng.choice([2, 4, 8])
        if mode == "constant":
            out.append("run prop=C04 mode=constant rate=%d/50ms dur=400 conc=%d body=150 expectfull=1" % (4 * conc, conc))
        elif mode == "users":
            out.append("run prop=C04 mode=users conc=%d dur=300 body=%d expectfull=1" % (conc, rng.choice([5, 30])))
        elif mode == "staged":
            out.append("run prop=C04 mode=staged stages=0s:%d,2s:%d freq=50 dist=none dur=400 conc=%d body=150 expectfull=1" % (6 * conc, 6 * conc, conc))
        elif mode == "ramp":
            out.append("run prop=C04 mode=ramp start=%d/100ms end=%d/100ms rampdur=2000 dist=none dur=400 conc=%d body=150 expectfull=1" % (5 * conc, 9 * conc, conc))
        else:
            out.append("run prop=C04 mode=gaussian freq=50 dist=none dur=400 conc=%d body=150" % conc)
        if rng.random() < 0.4:
            out[-1] += " combine=1"
    out.append("pool.handles %d %d" % (rng.choice([2, 3]), rng.choice([1, 2, 4])))
    return out


def compare(rec):
    if rec["case"].startswith("cli "):
        from . import _plan
        return _plan.cli_compare(rec)
    if rec["case"].startswith("plan "):
        from . import _plan
        return _plan.plan_compare(rec)
    if rec["model"] == "-":
        return None
    return None if rec["impl"] == rec["model"] else "model=%s impl=%s" % (rec["model"], rec["impl"])


def nontrivial_key(rec):
    return rec["case"]


def distribution(recs):
    d = {}
    for r in recs:
        k = r["case"].split()[0]
        if k == "run":
            k = "run:" + [t for t in r["case"].split() if t.startswith("mode=")][0][5:]
        d[k] = d.get(k, 0) + 1
    return d


MANIFEST = {
 "engine": "lean-proof + real pools (hooks, stress, whole runs)",
 "text": "On the trigger-pool interleaving model (any number W of workers, every schedule): at most W iterations are in flight and the pool always consists of exactly W workers, each at one program point with its own handle (C04_bound, C04_workers_constant, C04_lock_exclusive); no wake-up is lost — a worker sleeps on the condition variable only while nothing is pending and the pool is not stopping, or while the broadcast that wakes it is owed by a thread that holds or is about to take the lock (C04_no_lost_wakeup, C04_broadcast_delivered); an awake idle worker can always take a pending request (C04_take_enabled) and W simultaneous executions are reachable (C04_all_usable_witness). Users mode (continuous pool, count abstraction over W workers): at most W executing, W workers for ever, and a worker at the loop test can always start an iteration while the pool is not stopped — nothing has to be pending (C04_users_bound, C04_users_take_enabled). Tie: the real pool under a rendezvous that only completes when W bodies overlap, high-water marks and live-handle sets in stress and whole runs of all five modes.",
 "note": "Real parallelism of W goroutines and scheduler fairness are assumed (monitored, not proved); the lower bound is checked with a 1.5 s deadline against an effect that needs microseconds. The continuous pool (users) has its own small model (Props/CPool) and is covered by whole runs and by the start-barrier fact, not by the interleaving model.",
 "technique": "Lean 4 inductive invariant (no-lost-wake-up) over an interleaving semantics + rendezvous / high-water-mark monitoring of the real pools"}
