"""C05 — a run always terminates, stops triggering on time, and leaves nothing running."""
import re
ID = "C05"
PROPS = ["F1Verif.Props.C05", "F1Verif.Props.C05Time", "F1Verif.Props.FactsC05", "F1Verif.Props.RefineC19R", "F1Verif.Props.RefineC05S", "F1Verif.Props.RefineC05R", "F1Verif.Props.RefineC05U", "F1Verif.Props.RefineC18L", "F1Verif.Props.RefineC08X"]
ALSO = ["F1Verif.Props.C18", "F1Verif.Props.Pool"]
RULE = ("engine C: whole runs of the real Run.Do over (mode: constant, staged, ramp, gaussian, users, file) x (ending: "
        "max-duration, trigger duration, max-iterations, cancel at a seeded instant, setup failure, completion timeout with "
        "a blocked iteration) x (body durations), each under a wall-clock deadline; observed: return, iterations in flight "
        "at return, iterations started / progress reported after return, goroutine diff (goleak), time of return against "
        "stall-robust bounds (a 10 ms run never starts an iteration; a trigger shorter than max-duration returns >= 1 s "
        "before max-duration; a run longer than the completion timeout still waits for in-flight iterations); engine B: "
        "the end-of-run deadlock schedule replayed through raterun.dispatch / result.nested, a stalled log sink holding the "
        "first progress line, Stop-vs-tick scripts on the real runner. Non-trivial: every run has >= 1 started iteration "
        "or a failing setup; distinct = distinct parameter tuples.")
ASSUMPTIONS = ["Go timers fire, the scheduler eventually runs an enabled goroutine, cleanups terminate (blocking bodies are covered by the completion timeout)",
               "the lock-protocol theorem is about the model of Result's RWMutex usage and the runner; the real Do is monitored on runs and tied by the regenerated statement order of Do/run",
               "wall-clock upper bounds carry margins >= 1 s against effects of <= 20 ms"]


def corpus():
    return [
        "run prop=C05 mode=constant rate=2/100ms dist=none dur=400 conc=4 body=1500 timeout=3000 cancel=700",     # C06m: interrupted while already waiting for the iterations after the duration: the wait goes on
        "pool.cancelledstart 200 30",          # D24: a users pool started on a context that has already ended starts nothing
        "pool.cancelledstart 3000 4",
        "run prop=C05 mode=file dur=3000 conc=2 file=u:1500:20000 cancel=2 body=1",      # C05k: cancelled while a large stage is still building its pool
        "run prop=C05 mode=file dur=3000 conc=2 file=u:1500:20000 cancel=1 body=1",
        "run prop=C05 mode=file dur=3000 conc=2 file=u:1500:30000 cancel=4 body=1",
        "run prop=C05 mode=constant rate=5/100ms dur=600 conc=4 body=20",
        "run prop=C05 mode=constant rate=5/100ms dur=1300 conc=4 body=20 stallprogress=1200 retmin=1290",   # a progress line stalled by the sink: Stop must wait
        "run prop=C05 mode=constant rate=5/100ms dur=1300 conc=4 body=20 wedge=1",                             # D3: deadlock schedule
        "run prop=C05 mode=file dur=9000 conc=3 maxit=3 file=c:300:5/100ms;c:4000:1/1s;z:3000 body=5 retmax=2500",   # D16
        "run prop=C05 mode=file dur=9000 conc=4 file=u:300:3;c:400:4/100ms body=250 retmin=650",                # users stage first: the final wait must still wait
        "run prop=C05 mode=constant rate=2/100ms dur=1500 conc=8 body=600 timeout=1000 retmin=1900",           # run longer than the completion timeout
        "run prop=C05 mode=users dur=300 conc=2 block=2 timeout=300 retmax=2500",          # D21: users mode and an iteration that never returns
        "run prop=C05 mode=users dur=400 conc=3 block=1 timeout=500 retmax=2900",
        "run prop=C05 mode=file dur=2000 conc=2 file=u:300:2 block=2 timeout=300 retmax=2500",   # D21b: the same in a users *stage* of a config file
        "run prop=C05 mode=constant rate=5/100ms dist=none dur=3000 conc=5 maxit=5 block=1 timeout=300",    # D27: limit reached while an iteration never returns
        "run prop=C05 mode=users dur=3000 conc=3 maxit=6 block=2 timeout=300",
        "run prop=C05 mode=file dur=3000 conc=3 maxit=4 file=u:1000:3;c:500:1/100ms block=2 timeout=300 retmax=2000",
        "run prop=C05 mode=file dur=3000 conc=3 maxit=4 file=u:3000:3 block=2 timeout=300 retmax=1800",       # the limit reached in a users stage that has 3 s to go
        "run prop=C05 mode=file dur=4000 conc=2 maxit=3 file=c:200:1/100ms;u:3500:2 block=1 timeout=300 retmax=2200",
        "run prop=C05 mode=file dur=4000 conc=3 file=c:300:2/100ms block=1 timeout=300 retmax=2200",          # stages over before the duration
        "run prop=C05 mode=constant rate=5/100ms dur=10 conc=4 body=1",
        "run prop=C05 mode=staged stages=0s:3,300ms:3 freq=100 dist=none dur=5000 conc=4 body=10 retmax=3500",
        "run prop=C05 mode=constant rate=3/100ms dur=900 conc=3 body=20 cancel=250",
        "run prop=C05 mode=constant rate=1/100ms dur=900 conc=2 block=2 timeout=300",
        "run prop=C05 mode=users conc=5 dur=400 body=15",
        "run prop=C05 mode=users conc=5 dur=1000 body=5 maxit=2 retmax=3000",        # more users than iterations left
        "run prop=C05 mode=users conc=64 dur=800 body=1 maxit=7 retmax=3000",
        "run prop=C05 mode=file dur=3000 conc=2 maxit=3 file=c:200:1/100ms;u:2000:6 body=5 retmax=2500",
        "run prop=C05 mode=constant rate=5/100ms dur=600 conc=4 setupfail=1",
        "raterun.stop inflight 5 40 10", "raterun.stop due 5 40 10",
        "run prop=C05 mode=constant rate=2/100ms dur=2500 conc=2 body=5 cancel=1100 stallprogress=500",   # interrupted while a progress line is being reported
        "result.stress 500",      # the reporter's tick body against the controller's pre-Stop calls on one Result
        "run prop=C05 mode=staged stages=0s:4,300ms:4 freq=100 dist=none dur=2500 conc=4 body=10",     # the trigger's own duration ends the run
        "run prop=C05 mode=file dur=2500 conc=3 file=c:200:3/100ms;u:200:2 body=10",
    ] + __import__("vlib.props._plan", fromlist=["x"]).cli_corpus_for("C05")


def generate(rng, tier):
    n = {"quick": 10, "thorough": 150, "search": 30}[tier]
    out = []
    for _ in range(n):
        mode = rng.choice(["constant", "constant", "users", "staged", "ramp", "gaussian", "file"])
        dur = rng.choice([300, 500, 800])
        conc = rng.choice([1, 3, 8])
        body = rng.choice([0, 5, 40, 150])
        end = rng.choice(["dur", "dur", "limit", "cancel", "setupfail", "blocked"])
        extra = ""
        if end == "blocked":        # an iteration that never returns: the completion timeout ends the wait, in every mode
            extra = " block=%d timeout=%d" % (rng.randint(1, 3), rng.choice([200, 400]))
            body = rng.choice([0, 5])
            if rng.random() < 0.4:      # ... also when it is the iteration limit that ends the triggering (D27)
                extra += " maxit=%d" % rng.randint(4, 12)
                dur = 2500
        if end == "limit":
            extra = " maxit=%d" % rng.randint(1, 12)
        elif end == "cancel":
            extra = " cancel=%d" % rng.randint(0, dur)
        elif end == "setupfail":
            extra = " setupfail=%d" % rng.choice([1, 2])
        if mode == "constant":
            t = "mode=constant rate=%d/100ms dist=%s" % (rng.randint(1, 6), rng.choice(["none", "regular", "random"]))
        elif mode == "users":
            t = "mode=users"
        elif mode == "staged":
            t = "mode=staged stages=0s:%d,%dms:%d freq=100 dist=none" % (rng.randint(1, 5), rng.choice([200, 2000]), rng.randint(1, 5))
        elif mode == "ramp":
            t = "mode=ramp start=1/100ms end=6/100ms rampdur=1000 dist=none"
        elif mode == "gaussian":
            t = "mode=gaussian freq=100 dist=none"
        else:
            t = "mode=file file=%s" % ";".join(rng.choice(["c:200:3/100ms", "u:200:2", "z:150"]) for _ in range(rng.randint(1, 3)))
            dur = 3000
        out.append("run prop=C05 %s dur=%d conc=%d body=%d%s" % (t, dur, conc, body, extra))
    for _ in range({"quick": 0, "thorough": 6, "search": 2}[tier]):
        out.append("result.stress %d" % rng.choice([1000, 3000]))
    return out


def compare(rec):
    if rec["case"].startswith("cli "):
        from . import _plan
        return _plan.cli_compare(rec)
    if rec["model"] == "-":
        return None
    return None if rec["impl"] == rec["model"] else "model=%s impl=%s" % (rec["model"], rec["impl"])


def nontrivial_key(rec):
    return rec["case"]


def distribution(recs):
    d = {}
    for r in recs:
        c = r["case"]
        if not c.startswith("run "):
            k = c.split()[0].split(".")[0]
            d[k] = d.get(k, 0) + 1
            continue
        mode = [t for t in c.split() if t.startswith("mode=")][0][5:]
        end = "cancel" if "cancel=" in c else "limit" if "maxit=" in c else "setupfail" if "setupfail=" in c else "timeout" if "block=" in c else "duration"
        k = mode + "/" + end
        d[k] = d.get(k, 0) + 1
    return d


MANIFEST = {
 "engine": "lean-proof + whole runs + scripted schedules (hooks)",
 "text": "End-of-run lock protocol (controller program as data, Result's RWMutex with writer preference and nested read paths, the progress function's lock/rlock/rlock, Stop = cancel + wait): for every controller program obeying the locking discipline — f1's is checked by the kernel (C05_doTail_disciplined) — every reachable state in which the controller still has work lets some thread move without waiting for a timer (C05_no_deadlock; inductive invariant Inv, omega over Bool codes), every such move decreases a measure (C05_measure), and once the controller is past Stop the runner is gone for good (C05_runner_gone). The pool cannot strand sleepers at shutdown and is empty when terminated (C05_sleepers_woken, C05_pool_clean; from C02/C04's invariants), the runner is quiescent after Stop (C18). The pinned tree's wedge is a kernel-checked deadlock state (legacy_deadlock) replayed on the real Do through the hooks. Time: the two selects of Run.run as a timed model (Deadline) — triggering stops exactly at the earliest of max-duration less 10 ms, the trigger's own duration less 10 ms, cancellation and the limit (C05_deadline, C05_stop_le, C05_stop_earliest, C05_some_branch_fires), the wait is bounded by the completion timeout (C05_wait_bounded), a return that did not give up means everything in flight finished (C05_finished_unless_timeout) and giving up happens only after the full timeout (C05_gives_up_after_full_timeout). Tie: whole runs over modes x endings with goroutine diff and return-time bounds computed from the Deadline model; result.stress for the pre-Stop lock users. Regenerated control skeleton (MiniGo, RefineC05R/C05U/C18L/C08X): Run.run for every choice of the runtime's selects (every wait after the trigger returned offers the completion timeout; run returns only after completion or that timeout - D27), Run.Do's order (setup, run, progress runner stopped, totals, teardown, summary), the runner goroutine (as many invocations as ticks, nothing after the cancellation, close(stopped) last), runStage / users trigger / metrics goroutine / signal goroutine.",
 "note": "Partial by nature: real timers, the scheduler's fairness and goroutine exit are assumed and monitored on real runs (exploration in support); the deadline clause is proved on the timed model of the two selects (environment inputs: cancel instant, limit instant, drain function) and tied by stall-robust time bounds on real runs (150 ms / 1 s margins), so a shift of a few ms in the real code is only caught by the 10 ms-run case and the regenerated source of run().",
 "technique": "Lean 4 deadlock-freedom by inductive invariant + termination measure over a lock-protocol model; whole-run monitoring with scripted interleavings"}

