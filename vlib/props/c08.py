"""C08 — verdict and exit status follow the documented tolerances."""
ID = "C08"
PROPS = ["F1Verif.Props.C08", "F1Verif.Props.FactsC08", "F1Verif.Props.C14Cli", "F1Verif.Props.RefineC08", "F1Verif.Props.RefineC08C", "F1Verif.Props.RefineC08P", "F1Verif.Props.RefineC08X"]
ALSO = ["F1Verif.Legacy.Verdict"]
RULE = ("engine A: (hasErr, ignoreDropped, maxFailures, maxFailuresRate, succ, failed, dropped) tuples — "
        "corpus of pinned witnesses, every tolerance threshold +-1, zero-iteration runs, random tuples; "
        "the real run.Result is built from recorded outcomes and Failed() compared with the model and "
        "evaluated against FailedSpec; cli op: generated command lines and config files (tolerance flags / limits present or "
        "absent, failing iterations, drops, failing setup and teardown) through F1.ExecuteWithArgs — its error must be the "
        "documented verdict for the counts in the summary it logged. A case is non-trivial when it has failed or dropped iterations or an "
        "error or a tolerance option set; distinct = distinct argument tuples.")
ASSUMPTIONS = ["uint64 counters do not overflow (counts < 1.8e17)", "max-failures-rate >= 0 (negative rates are outside 'sane ranges')",
               "the CLI mapping is exercised on the real cobra command by the cli op (F1.ExecuteWithArgs; wall-clock runs of 0.1-1 s)"]


def case(e, ign, mf, mfr, s, f, d):
    return "verdict %d %d %d %d %d %d %d" % (e, ign, mf, mfr, s, f, d)


def corpus():
    return [
        "progress.seq s0,s0,f0,f0,f0,S1000,T",      # C08k: failures that took 0 ns are failures
        "progress.seq s5,f0,S1,f0,f0,S1,s7,T",
        "progress.seq f0,T",
        case(0, 0, 0, 5, 0, 0, 0),      # D6: zero iterations with a rate tolerance
        case(0, 0, 0, 5, 16, 1, 0),     # D7: 5.88 % against 5 %
        case(0, 0, 0, 5, 19, 1, 0),     # exactly 5 %
        case(0, 1, 0, 5, 0, 0, 7),      # only dropped, ignored
        case(0, 0, 0, 50, 5, 5, 0),     # the suite's 5-of-10
        case(0, 0, 0, 49, 5, 5, 0),
        case(0, 0, 5, 0, 5, 5, 0),
        case(0, 0, 4, 0, 5, 5, 0),
        case(1, 1, 100, 100, 3, 0, 0),
        case(0, 0, 0, 7, 93, 7, 0),     # exactly 7 %: passes (a float percentage says 7.000000000000001)
        case(0, 0, 0, 28, 18, 7, 0),
        case(0, 1, 2, 0, 5, 3, 2),      # ignore-dropped must not mask the failure tolerance
        case(0, 1, 0, 0, 5, 1, 2),
    ] + __import__("vlib.props._plan", fromlist=["x"]).cli_corpus_for("C08")


def generate(rng, tier):
    n = {"quick": 1500, "thorough": 40000, "search": 20000}[tier]
    out = []
    # thresholds +-1 for the rate clause: failed*100 vs rate*iters
    for _ in range(n // 3):
        rate = rng.choice([1, 2, 3, 5, 7, 10, 25, 33, 50, 75, 99, 100, rng.randint(1, 100)])
        iters = rng.randint(1, 400)
        dropped = rng.choice([0, 0, rng.randint(0, iters)])
        base = rate * iters // 100
        failed = max(0, min(iters - dropped, base + rng.choice([-1, 0, 0, 1, 1, 2])))
        succ = iters - dropped - failed
        mf = rng.choice([0, 0, 0, failed, failed + 1, max(0, failed - 1)])
        out.append(case(rng.random() < 0.05, rng.random() < 0.5, mf, rate, succ, failed, dropped))
    # shares exactly equal to the tolerance (and one failure more): failed*100 == rate*iters
    from math import gcd
    for _ in range(n // 3):
        rate = rng.randint(1, 100)
        step = 100 // gcd(rate, 100)
        iters = step * rng.randint(1, max(1, 2000 // step))
        failed = min(iters, rate * iters // 100 + rng.choice([0, 0, 0, 1]))
        dropped = rng.choice([0, 0, rng.randint(0, iters - failed)]) if iters > failed else 0
        out.append(case(0, 1, 0, rate, iters - failed - dropped, failed, dropped))
    for _ in range(n // 3):
        mf = rng.choice([0, 1, 2, 5, 10, 100])
        failed = max(0, mf + rng.choice([-1, 0, 1, 2]))
        succ = rng.randint(0, 50)
        dropped = rng.choice([0, 0, 1, rng.randint(0, 20)])
        mfr = rng.choice([0, 0, 0, 1, 50, 100])
        out.append(case(rng.random() < 0.05, rng.random() < 0.5, mf, mfr, succ, failed, dropped))
    for _ in range(n - 2 * (n // 3)):
        big = rng.random() < 0.02
        hi = 100000 if big else 60
        out.append(case(rng.random() < 0.1, rng.random() < 0.5,
                        rng.choice([0, 0, rng.randint(0, 20)]),
                        rng.choice([0, 0, rng.randint(0, 100), rng.randint(0, 100)]),
                        rng.choice([0, rng.randint(0, hi)]), rng.choice([0, rng.randint(0, hi)]),
                        rng.choice([0, 0, rng.randint(0, 30)])))
    # exit status: real command lines (flags and config-file limits -> options -> verdict -> error of ExecuteWithArgs)
    from . import _plan
    for _ in range({"quick": 30, "thorough": 300, "search": 60}[tier]):
        out.append(_plan.cli_case(rng, "verdict"))
    for _ in range({"quick": 50, "thorough": 500, "search": 100}[tier]):
        out.append(_plan.cli_verdict_case(rng))
    return out


def nontrivial_key(rec):
    a = rec["case"].split()
    if a[0] != "verdict":
        return rec["case"]
    e, ign, mf, mfr, s, f, d = a[1:8]
    if e == "1" or f != "0" or d != "0":
        return rec["case"]
    return None


def signature(rec):
    return rec["case"]


def distribution(recs):
    dist = {"fail": 0, "pass": 0, "zero_iterations": 0, "rate_set": 0, "maxfail_set": 0, "ignore_dropped": 0}
    for r in recs:
        a = r["case"].split()
        if a[0] != "verdict":
            continue
        dist["fail" if r["impl"].startswith("fail") else "pass"] += 1
        if a[5] == a[6] == a[7] == "0":
            dist["zero_iterations"] += 1
        dist["rate_set"] += a[4] != "0"
        dist["maxfail_set"] += a[3] != "0"
        dist["ignore_dropped"] += a[2] == "1"
    return dist


def compare(rec):
    if rec["case"].startswith("cli "):
        from . import _plan
        return _plan.cli_compare(rec)
    # impl prints "-" where it has no value for a token
    it, mt = rec["impl"].split(), rec["model"].split()
    if len(it) != len(mt):
        return "model=%s impl=%s" % (rec["model"], rec["impl"])
    for x, y in zip(it, mt):
        if x != "-" and x != y:
            return "model=%s impl=%s" % (rec["model"], rec["impl"])
    return None

MANIFEST = {
 "text": "failedImpl <-> FailedSpec for every (error, options, counts) is a Lean theorem (C08_verdict, C08_total, C08_verdict_fail, C08_share over Q, C08_cli, C08_no_failures_pass); the model is tied to run.Result.Failed by a differential check on every run (thresholds +-1, zero-iteration runs, random tuples) and the pre-repair model's counterexamples (division by zero, truncation) are kernel-checked and replayed on the code. Regenerated: the closure of runCmdExecute (cmd_execute_flags/_file/_concurrency/_refused/_run_errors: options from their own flags, refusals before anything runs, the result's own error else a fresh one iff failed else nil) and profiling start/stop (profiling_stop_twice: a stale profile file cannot fail a later command, D20). F1.execute is regenerated (RefineC08X): the profiles are stopped exactly once after the command, the result is an error iff the command or the stop failed; the signal goroutine cancels on the first signal and exits only on the second.",
 "note": "Trusted: Lean kernel + propext/Classical.choice/Quot.sound; the hand-written model, tied by sampling; uint64 overflow and negative max-failures-rate outside the model.",
 "technique": "Lean 4 theorem (decision logic stated outright) + model/implementation correspondence check; refinement of the regenerated command closure (MiniGo)"}
