"""C14 — every user input is either rejected with an error or yields a runnable trigger."""
from ..core import hx
from . import _plan
ID = "C14"
PROPS = ["F1Verif.Props.C14", "F1Verif.Props.C15", "F1Verif.Props.C14Cli", "F1Verif.Props.FactsC14", "F1Verif.Props.RefineC15", "F1Verif.Props.RefineC08C", "F1Verif.Props.RefineC15F", "F1Verif.Props.RefineC14B", "F1Verif.Props.RefineC14G"]
ALSO = ["F1Verif.Legacy.Parse"]
RULE = ("engine A: grammar-directed rate strings (valid, near-miss: missing parts, stray signs, dots, spaces, empty unit, "
        "zero/negative intervals, overflowing numbers, non-ASCII units) and random strings through rate.ParseRate; the same "
        "for staged.ParseStages; the four rate calculators with every distribution kind, zero/negative frequencies, "
        "negative targets and weights (returned rate function probed 25 times + ticker creation); structured config files "
        "(every subset of fields present/omitted in stage and default, all modes, non-positive numbers) rendered to YAML for "
        "the real ParseConfigFile and handed decoded to the model; atoi/parsedur ops tie the two standard-library ports; "
        "flag level: generated command lines (all six modes, every common flag present/absent, malformed durations, "
        "concurrency < 1, unknown scenario, unknown flags) run through the real F1.ExecuteWithArgs and compared with "
        "Cli.plan (accept/reject) + monitors (setup never runs for a refused line; accepted => ran, <= concurrency in "
        "flight, <= max-iterations, exit status = documented verdict, load within what the rate spells). "
        "Spec on the implementation's output: never crashes; accepted => positive interval, >= 1 worker, usable rate; "
        "accepted rate strings mean what they spell. Non-trivial: an input that is rejected, or accepted with a "
        "non-default shape (unit/duration given, distribution != none, stage inheriting a field); distinct = distinct inputs.")
ASSUMPTIONS = ["gopkg.in/yaml.v3 decoding and pflag parsing are outside the model (the config is rendered to YAML by the "
               "harness and decoded by the real code; the model starts from the decoded structure)",
               "strconv.Atoi and time.ParseDuration are ported and the ports are checked against the real functions on every run",
               "strconv.ParseFloat is not ported: generated weights are simple decimals or plainly malformed",
               "flag level: the cli op runs real command lines through F1.ExecuteWithArgs; pflag/cobra syntax itself is the library's (a line they refuse is described to the model as ill-formed)"]


def corpus():
    return [
        "staged 100000000:5049244;3600000000000:10000000 - 0,1,33333333,50000000,99999999,100000000,100000001,1200100000000,1800100000000,2030095910496,3600100000000,3600100000001,3608652707871",   # C14l: an accepted profile of hours and millions yields its interpolation, not an overflow
        "staged 3600000000000:3000000 - 0,1,1800000000000,3060000000000,3300000000000,3599999999999,3600000000000,3600000000001",
        "staged 0:4000000;3600000000000:0 - 0,1,1200000000000,2340000000000,3000000000000,3599999999999,3600000000000",
        "parserate " + hx("5/"),            # D8
        "parserate " + hx("1/0s"),          # D9
        "parserate " + hx("1/00s"),
        "parserate " + hx("1/.5s"),         # D10
        "parserate " + hx("1/-1s"),
        "parserate " + hx("010/s"),         # leading zero is decimal
        "parserate " + hx("0100/500ms"),
        "parserate " + hx("010"),
        "parserate " + hx("3/µs"),
        "parserate " + hx("/"),
        "calc.staged 0 %s %s" % (hx("0s:1,10s:1"), hx("none")),             # D9: iteration frequency 0
        "calc.gaussian 0 1800000000000 - %s" % hx("none"),
        "calc.staged 1000000000 %s %s" % (hx("0s:-5,10s:-5"), hx("random")),   # D13
        "calc.gaussian 1000000000 1800000000000 %s %s" % (hx("-1,3"), hx("random")),
        "plan 0 scenario=73,maxdur=10000000000,conc=2,maxit=0,igndrop=1 mode=%s,dist=%s dur=5000000000,rate=%s" % (hx("constant"), hx("none"), hx("1/s")),  # D11: no jitter anywhere
        "plan 0 scenario=73,maxdur=10000000000,conc=0,maxit=0,igndrop=1 mode=%s dur=5" % hx("users"),       # D12
        "plan 0 scenario=73,maxdur=10000000000,conc=2,maxit=0,igndrop=1 mode=%s dur=5,conc=0" % hx("users"),
        "plan 0 scenario=73,maxdur=10000000000,conc=2,maxit=0,igndrop=1 mode=%s,conc=0 dur=5" % hx("users"),   # default concurrency 0 inherited
        "plan 0 scenario=73,maxdur=10000000000,conc=2,maxit=0,igndrop=1 mode=%s,conc=-3 dur=5" % hx("users"),
        # D17: a gaussian profile nobody can derive a rate for (window covers none of the bell; weights summing to zero)
        "plan 0 scenario=73,maxdur=10000000000,conc=2,maxit=0,igndrop=1 - mode=%s,dur=1000000000,volume=1000,repeat=600000000000,freq=1000000000,peak=3600000000000,weights=-,stddev=60000000000,dist=%s" % (hx("gaussian"), hx("none")),
        "plan 0 scenario=73,maxdur=10000000000,conc=2,maxit=0,igndrop=1 - mode=%s,dur=1000000000,volume=1000,repeat=600000000000,freq=1000000000,peak=300000000000,weights=%s,stddev=60000000000,dist=%s" % (hx("gaussian"), hx("0,0"), hx("regular")),
        "calc.gaussian 1000000000 1800000000000 %s %s" % (hx("0"), hx("none")),
        "calc.gaussian 1000000000 1800000000000 %s %s" % (hx("1,-1"), hx("random")),
        "calc.gaussian 1000000000 1800000000000 %s %s" % (hx("Inf"), hx("none")),     # D28: weights without a finite mean
        "calc.gaussian 1000000000 1800000000000 %s %s" % (hx("inf,1"), hx("regular")),
        "calc.gaussian 1000000000 1800000000000 %s %s" % (hx("1,-Inf"), hx("none")),
        "calc.constantj %s %s %s" % (hx("10/s"), hx("none"), hx("NaN")),            # D29 (known finding): a jitter that is not a number
        "calc.constantj %s %s %s" % (hx("10/s"), hx("regular"), hx("Inf")),
        "calc.constantj %s %s %s" % (hx("10/s"), hx("none"), hx("-Inf")),
        "calc.constantj %s %s %s" % (hx("10/s"), hx("none"), hx("20")),
        "calc.constantj %s %s %s" % (hx("7/100ms"), hx("random"), hx("99.5")),
        "gaussvol %s %d %d" % (hx("3/1500us"), 50400 * _plan.S, 9000 * _plan.S),     # units with a fractional-millisecond part
        "gaussvol %s %d %d" % (hx("1/500us"), 50400 * _plan.S, 9000 * _plan.S),
        "gaussvol %s %d %d" % (hx("7/s"), 50400 * _plan.S, 9000 * _plan.S),
        "gaussvol %s %d %d" % (hx("7"), 50400 * _plan.S, 9000 * _plan.S),
        "gaussvol %s %d %d" % (hx("1/ns"), 3600 * _plan.S, 60 * _plan.S),
        "bramp 1 120 1000000000 %d %d %s 60000000000" % (60 * _plan.S, 60 * _plan.S, "0,%d,%d" % (30 * _plan.S, 60 * _plan.S)),    # 1/s -> 120/m: different units
        "bramp 10 200 100000000 %d %d %s 1000000000" % (10 * _plan.S, 10 * _plan.S, "0,%d,%d" % (5 * _plan.S, 10 * _plan.S)),       # 10/100ms -> 200/s
        # an end rate that is not a whole number per start unit: 0/s -> 119/m is 1.98/s at the end, 1.95/s a second before it
        "bramp 0 119 1000000000 %d %d %s 60000000000" % (60 * _plan.S, 60 * _plan.S, "0,%d,%d,%d" % (30 * _plan.S, 59 * _plan.S, 60 * _plan.S)),
        "bramp 5 7 1000000000 %d %d %s 2000000000" % (20 * _plan.S, 20 * _plan.S, "0,%d,%d,%d" % (10 * _plan.S, 19 * _plan.S, 20 * _plan.S)),   # 5/s -> 7/2s
    ] + [c for c in _plan.cli_corpus() if " timestage=" not in c]      # (the timed-stage cases belong to C16 / C01: known finding D23)


def generate(rng, tier):
    n = {"quick": 2400, "thorough": 60000, "search": 30000}[tier]
    out = []
    for _ in range(n // 4):
        out.append("parserate " + hx(_plan.rate_string(rng)))
    for _ in range(n // 8):
        out.append("parsestages " + hx(_plan.stages_string(rng)))
    for _ in range(n // 16):
        out.append("parsedur " + hx(rng.choice(_plan.GOOD_DUR + _plan.BAD_DUR) + rng.choice(["", "", "1s", "x"])))
        out.append("atoi " + hx(rng.choice(_plan.COUNTS + _plan.BAD_COUNTS)))
    for _ in range(n // 4):
        out.append(_plan.calc_case(rng))
    while len(out) < n:
        out.append(_plan.plan_case(rng, valid_bias=0.55))
    # ramps whose two rates are spelt in different units (refused today; if accepted they must mean what they spell)
    for _ in range({"quick": 20, "thorough": 300, "search": 80}[tier]):
        su, eu = rng.sample([_plan.S // 10, _plan.S, 60 * _plan.S, _plan.S // 2], 2)
        dur = max(su, eu) * rng.choice([1, 2, 10])
        out.append("bramp %d %d %d %d %d %s %d" % (rng.randint(0, 20), rng.randint(21, 400), su, dur, dur,
                                                  "0,%d,%d,%d,%d" % (dur // 2, dur - dur // 8, dur - dur // 50, dur), eu))
    # --peak-rate of the gaussian trigger: a rate string too, with units down to nanoseconds
    for _ in range({"quick": 60, "thorough": 1500, "search": 400}[tier]):
        r = _plan.rate_string(rng) if rng.random() < 0.4 else "%d/%s" % (rng.choice([0, 1, 3, 5, 1000]), rng.choice(
            ["s", "ms", "us", "µs", "ns", "m", "h", "500us", "1500us", "2.5ms", "100000ns", "0.5s", "1.5s", "90s", "250ms", "1m30s"]))
        out.append("gaussvol %s %d %d" % (hx(r), rng.choice([0, 3600, 50400]) * _plan.S, rng.choice([0, -1, 60, 9000, 9000]) * _plan.S))
    # flag level: real command lines through F1.ExecuteWithArgs (wall-clock: each accepted line runs for its --max-duration)
    for _ in range({"quick": 110, "thorough": 900, "search": 200}[tier]):
        out.append(_plan.cli_case(rng, rng.choice([None, None, None, "reject"])))
    return out


def compare(rec):
    if rec["case"].startswith("cli "):
        return _plan.cli_compare(rec)
    if rec["case"].startswith("plan "):
        return _plan.plan_compare(rec)
    if rec["model"] == "-":
        return None
    if rec["impl"] != rec["model"]:
        return "model=%s impl=%s" % (rec["model"], rec["impl"])
    return None


def signature(rec):
    """known finding D29: a jitter that is not a finite number is accepted and yields int(NaN) requests per tick"""
    a = rec["case"].split()
    if a[0] == "calc.constantj" and bytes.fromhex(a[3]).decode().lower().lstrip("+-") in ("nan", "inf", "infinity"):
        return "C14:non-finite-jitter"
    return rec["case"]


def nontrivial_key(rec):
    c = rec["case"]
    if rec["impl"] == "err" or c.startswith("cli "):
        return c
    if c.startswith("parserate") and "2f" in c.split()[1]:
        return c
    if c.startswith(("calc.", "plan", "parsestages", "gaussvol", "bramp")):
        return c
    return None


def distribution(recs):
    d = {}
    for r in recs:
        op = r["case"].split()[0]
        if op == "cli":
            mode = [t for t in r["case"].split() if t.startswith("mode=")][0][5:]
            k = "cli:%s:%s" % (mode, r["impl"].split()[0] if r["impl"] else "none")
            d[k] = d.get(k, 0) + 1
            continue
        k = op + (":err" if r["impl"] == "err" else ":ok" if r["impl"].startswith("ok") else ":" + r["impl"][:12])
        d[k] = d.get(k, 0) + 1
    return d


MANIFEST = {
 "text": "Rate strings: ParseRate never crashes (C14_rate_total), an accepted rate has a non-negative count and a positive interval (C14_rate_runnable), and means what it spells — N/<duration>, N/<unit> = one of it, bare N = per second (C14_meaning_duration/_unit/_bare); ParseStages never crashes (C14_stages_total); every calculator that accepts its input returns a positive tick interval (newDistribution_pos, calc*_pos); an accepted config file has >= 1 worker and every kept stage is runnable (C14_plan_runnable via stageLoop_spec, parseStage_runnable). Pre-repair models with kernel-checked crashing inputs in Legacy/Parse. Flag level: Cli.plan models run.Cmd/runCmdExecute and the five builders with their registered defaults — C14_cli_total (never crashes), C14_cli_runnable (accepted => >= 1 worker, positive tick interval unless users mode, known scenario), C14_cli_options (options are the flags one to one), C14_cli_conc_refused. Tie: grammar-directed and random strings, calculator inputs, structured configs and generated command lines (F1.ExecuteWithArgs) through the real functions; returned rate functions probed. The builders themselves are regenerated (RefineC14B/C14G/C15F): api.NewDistribution computes Plan.newDistribution, CalculateConstantRate / StagedRate / RampRate / GaussianRate refuse in the order of Plan.calc*, hand the parsed unit / the frequency to NewDistribution and return exactly its interval and rate function; the file trigger's New closure copies every limit into the options.",
 "note": "YAML decoding, pflag/cobra, strconv.ParseFloat are external (not modelled); strconv.Atoi and time.ParseDuration are ported and checked against the real functions by correspondence (their behaviour is an assumption of the theorems). Arbitrary-bytes inputs only monitor 'no crash' (fuzzing in support).",
 "technique": "Lean 4 theorems (total functions with explicit error outcomes, case analysis) + differential check on grammar-directed inputs"}
