"""Generators for rate / stages strings, calculator inputs and config-file plans (C14, C15)."""
from ..core import hx

S = 10**9
UNITS = ["s", "ms", "us", "µs", "ns", "m", "h"]
GOOD_DUR = ["1s", "100ms", "10s", "500ms", "2m", "1h", "1.5s", ".5s", "250ms", "99ms", "101ms", "1m30s", "3600s", "0.1s"]
BAD_DUR = ["", "0s", "0", "-1s", "s1", "1", "1x", " 1s", "1s ", "1..5s", "+-1s", "1e3s", "٣s", "1S", "00s", "0ms", "-0s", "9223372036854775807h"]
COUNTS = ["0", "1", "5", "10", "007", "100", "1000000"]
BAD_COUNTS = ["", "-1", "+", "-", "1.5", "1e3", "x", " 1", "1 ", "9223372036854775808", "0x10", "1_0", "٣"]


def rate_string(rng, valid=None):
    valid = rng.random() < 0.6 if valid is None else valid
    if valid:
        n = rng.choice(COUNTS)
        k = rng.random()
        if k < 0.25:
            return n
        if k < 0.55:
            return n + "/" + rng.choice(UNITS)
        return n + "/" + rng.choice(GOOD_DUR)
    k = rng.random()
    if k < 0.2:
        return rng.choice(COUNTS) + "/" + rng.choice(BAD_DUR)
    if k < 0.4:
        return rng.choice(BAD_COUNTS) + rng.choice(["", "/s", "/1s", "/"])
    if k < 0.5:
        return rng.choice(COUNTS) + "/" + rng.choice(GOOD_DUR) + "/" + rng.choice(UNITS)
    if k < 0.6:
        return rng.choice(["/", "//", "/s", "5/", "5//s", "5/ s", "5 /s", "/5s"])
    alpha = "0123456789./-+ smhunµx"
    return "".join(rng.choice(alpha) for _ in range(rng.randint(0, 7)))


def stages_string(rng, valid=None):
    valid = rng.random() < 0.6 if valid is None else valid
    n = rng.randint(1, 4)
    parts = []
    for _ in range(n):
        d = rng.choice(GOOD_DUR + ["0s", "0"])
        t = str(rng.choice([0, 1, 5, 100, -5] if rng.random() < 0.2 else [0, 1, 5, 100]))
        sp = rng.choice(["", " "])
        parts.append(sp + d + sp + ":" + sp + t + sp)
    s = ",".join(parts)
    if valid:
        return s
    k = rng.random()
    if k < 0.25:
        return s + rng.choice([",", ":", ",,", ":1", "x"])
    if k < 0.5:
        return s.replace(":", rng.choice(["", "::", ";"]), 1)
    if k < 0.75:
        return rng.choice(["", ",", ":", "1s", "1s:", ":5", "1s:x", "x:1", "1s:1.5", "1s:5:6"])
    alpha = "0123456789:,. smh-"
    return "".join(rng.choice(alpha) for _ in range(rng.randint(0, 9)))


DISTS = ["none", "regular", "random"]


def dist(rng, valid=None):
    valid = rng.random() < 0.85 if valid is None else valid
    return rng.choice(DISTS) if valid else rng.choice(["", "None", "bogus", "regular ", "rand"])


def weights(rng):
    k = rng.random()
    if k < 0.4:
        return ""
    if k < 0.8:
        return ",".join(rng.choice(["1", "2", "0.5", "1.0", "3", ".5", "-1", "0"]) for _ in range(rng.randint(1, 4)))
    return rng.choice(["a", "1,b", "1;2", "1,,2", ",", "1 ,2", "--1", "1.2.3"])


def calc_case(rng):
    m = rng.choice(["constant", "ramp", "staged", "gaussian"])
    if m == "constant":
        return "calc.constant %s %s" % (hx(rate_string(rng)), hx(dist(rng)))
    if m == "ramp":
        a = rate_string(rng, True)
        b = rng.choice([a, rate_string(rng, True), rate_string(rng)])
        if rng.random() < 0.6:
            u = rng.choice(["s", "100ms", "1s", "2s"])
            a, b = "%d/%s" % (rng.randint(0, 20), u), "%d/%s" % (rng.randint(21, 90), u)
        return "calc.ramp %s %s %s %d" % (hx(a), hx(b), hx(dist(rng)), rng.choice([0, 1, S // 2, S, 10 * S, 3600 * S]))
    if m == "staged":
        return "calc.staged %d %s %s" % (rng.choice([0, -S, 1, 50 * 10**6, 10**8, S, 60 * S]), hx(stages_string(rng)), hx(dist(rng)))
    return "calc.gaussian %d %d %s %s" % (rng.choice([0, -1, 10**8, S, 60 * S]), rng.choice([0, -S, 1, 60 * S, 1800 * S]),
                                          hx(weights(rng)), hx(dist(rng)))


def enc_stage(d):
    if not d:
        return "-"
    out = []
    for k, v in d.items():
        if k in ("mode", "srate", "erate", "rate", "dist", "weights", "stages"):
            out.append("%s=%s" % (k, hx(v)))
        elif k == "params":
            out.append("params=%s" % ("+".join("%s:%s" % (hx(a), hx(b)) for a, b in v) or "-"))
        else:
            out.append("%s=%d" % (k, v))
    return ",".join(out)


MODE_FIELDS = {
    "constant": ["rate", "dist"],
    "ramp": ["srate", "erate", "dist"],
    "staged": ["stages", "freq", "dist"],
    "gaussian": ["volume", "repeat", "freq", "peak", "weights", "stddev", "dist"],
    "users": [],
}


def field_value(rng, f, valid):
    if f == "rate":
        return rate_string(rng, valid)
    if f == "srate":
        return rng.choice(["1/s", "5/s", "0/s", "10/100ms"]) if valid else rate_string(rng, False)
    if f == "erate":
        return rng.choice(["10/s", "50/s", "3/s", "20/100ms"]) if valid else rate_string(rng, False)
    if f == "dist":
        return dist(rng, valid)
    if f == "stages":
        return stages_string(rng, valid)
    if f == "weights":
        return rng.choice(["", "1,2", "1.0,1.0"]) if valid else rng.choice(["a", "1,b"])
    if f == "freq":
        return rng.choice([S, 10**8, 5 * 10**7]) if valid else rng.choice([0, -S])
    if f == "stddev":
        return rng.choice([60 * S, 1800 * S]) if valid else rng.choice([0, -S])
    if f in ("repeat", "peak"):
        return rng.choice([3600 * S, 600 * S])
    if f == "volume":
        return rng.choice([1000, 86400])
    raise KeyError(f)


def plan_case(rng, valid_bias=0.7, with_start=None):
    nst = rng.choice([1, 1, 2, 3, 4, 6])
    top = {"scenario": "scn", "maxdur": rng.choice([10 * S, 3600 * S]), "conc": rng.choice([1, 2, 50, 100]),
           "maxit": rng.choice([0, 0, 100]), "igndrop": rng.choice([0, 1])}
    if rng.random() < 0.4:
        top["maxfail"] = rng.randint(0, 9)
    if rng.random() < 0.4:
        top["maxfailrate"] = rng.randint(0, 100)
    dflt = {}
    if rng.random() < 0.6:
        dflt["mode"] = rng.choice(list(MODE_FIELDS))
    if rng.random() < 0.5:
        dflt["dur"] = rng.choice([S, 5 * S, 60 * S, 7])
    if rng.random() < 0.4:
        dflt["params"] = [("K%d" % i, "dv%d" % i) for i in range(rng.randint(0, 2))]
    if rng.random() < 0.3:
        dflt["jitter"] = rng.choice([0, 5])
    if rng.random() < 0.2:
        dflt["conc"] = rng.choice([1, 7, 0, -1] if rng.random() < 0.3 else [1, 7])
    for f in ("rate", "dist", "freq", "stages"):
        if rng.random() < 0.35:
            dflt[f] = field_value(rng, f, True)
    stages = []
    for _ in range(nst):
        st = {}
        valid = rng.random() < valid_bias
        mode = dflt.get("mode") if ("mode" in dflt and rng.random() < 0.4) else rng.choice(list(MODE_FIELDS) + (["bogus"] if not valid and rng.random() < 0.2 else []))
        if not (mode == dflt.get("mode") and rng.random() < 0.7):
            st["mode"] = mode
        if "dur" not in dflt or rng.random() < 0.7 or (not valid and rng.random() < 0.1):
            if valid or rng.random() < 0.8:
                st["dur"] = rng.choice([S, 2 * S, 10 * S, 50 * 10**6, 1, 0] if valid else [S, 0, -S])
        for f in MODE_FIELDS.get(mode, []):
            have_default = f in dflt
            omit = (have_default and rng.random() < 0.6) or (not valid and rng.random() < 0.15)
            if not omit:
                st[f] = field_value(rng, f, valid or rng.random() < 0.6)
        if mode == "users" and rng.random() < 0.5:
            st["conc"] = rng.choice([1, 3, 20]) if valid else rng.choice([0, -1, 1])
        if rng.random() < 0.3:
            st["jitter"] = rng.choice([0, 10])
        if rng.random() < 0.35:
            st["params"] = [("K%d" % i, "sv%d" % i) for i in range(rng.randint(0, 3))]
        stages.append(st)
    if not valid_bias > 0.99 and rng.random() < 0.08:
        k = rng.choice(["scenario", "maxdur", "conc", "maxit", "igndrop"])
        top.pop(k)
    if rng.random() < 0.05:
        top["conc"] = rng.choice([0, -3])
    # restart instant relative to stage-start
    now = 0
    use_start = rng.random() < 0.6 if with_start is None else with_start
    if use_start:
        top["start"] = rng.choice([0, 5 * S, -3 * S])
        durs = [st.get("dur", dflt.get("dur", 0)) for st in stages]
        cum = 0
        pts = [top["start"] - 1, top["start"], top["start"] + 1]
        for d in durs:
            cum += d
            pts += [top["start"] + cum - 1, top["start"] + cum, top["start"] + cum + 1]
        now = rng.choice(pts)
    else:
        now = rng.choice([0, 123 * S])
    topenc = ",".join("%s=%s" % (k, hx(v) if k == "scenario" else str(v)) for k, v in top.items())
    return "plan %d %s %s %s" % (now, topenc or "-", enc_stage(dflt), " ".join(enc_stage(s) for s in stages))
