"""Generators for rate / stages strings, calculator inputs and config-file plans (C14, C15)."""
from ..core import hx

S = 10**9
UNITS = ["s", "ms", "us", "µs", "ns", "m", "h"]
GOOD_DUR = ["1s", "100ms", "10s", "500ms", "2m", "1h", "1.5s", ".5s", "250ms", "99ms", "101ms", "1m30s", "3600s", "0.1s"]
BAD_DUR = ["", "0s", "0", "-1s", "s1", "1", "1x", " 1s", "1s ", "1..5s", "+-1s", "1e3s", "٣s", "1S", "00s", "0ms", "-0s", "9223372036854775807h"]
COUNTS = ["0", "1", "5", "10", "007", "100", "1000000"]
BAD_COUNTS = ["", "-1", "+", "-", "1.5", "1e3", "x", " 1", "1 ", "9223372036854775808", "0x10", "1_0", "٣"]


def rate_string(rng, valid=None):
    valid = rng.random() < 0.6 if valid is None else valid
    if valid:
        n = rng.choice(COUNTS)
        k = rng.random()
        if k < 0.25:
            return n
        if k < 0.55:
            return n + "/" + rng.choice(UNITS)
        return n + "/" + rng.choice(GOOD_DUR)
    k = rng.random()
    if k < 0.2:
        return rng.choice(COUNTS) + "/" + rng.choice(BAD_DUR)
    if k < 0.4:
        return rng.choice(BAD_COUNTS) + rng.choice(["", "/s", "/1s", "/"])
    if k < 0.5:
        return rng.choice(COUNTS) + "/" + rng.choice(GOOD_DUR) + "/" + rng.choice(UNITS)
    if k < 0.6:
        return rng.choice(["/", "//", "/s", "5/", "5//s", "5/ s", "5 /s", "/5s"])
    alpha = "0123456789./-+ smhunµx"
    return "".join(rng.choice(alpha) for _ in range(rng.randint(0, 7)))


def stages_string(rng, valid=None):
    valid = rng.random() < 0.6 if valid is None else valid
    n = rng.randint(1, 4)
    parts = []
    for _ in range(n):
        d = rng.choice(GOOD_DUR + ["0s", "0"])
        t = str(rng.choice([0, 1, 5, 100, -5] if rng.random() < 0.2 else [0, 1, 5, 100]))
        sp = rng.choice(["", " "])
        parts.append(sp + d + sp + ":" + sp + t + sp)
    s = ",".join(parts)
    if valid:
        return s
    k = rng.random()
    if k < 0.25:
        return s + rng.choice([",", ":", ",,", ":1", "x"])
    if k < 0.5:
        return s.replace(":", rng.choice(["", "::", ";"]), 1)
    if k < 0.75:
        return rng.choice(["", ",", ":", "1s", "1s:", ":5", "1s:x", "x:1", "1s:1.5", "1s:5:6"])
    alpha = "0123456789:,. smh-"
    return "".join(rng.choice(alpha) for _ in range(rng.randint(0, 9)))


DISTS = ["none", "regular", "random"]


def dist(rng, valid=None):
    valid = rng.random() < 0.85 if valid is None else valid
    return rng.choice(DISTS) if valid else rng.choice(["", "None", "bogus", "regular ", "rand"])


def weights(rng):
    k = rng.random()
    if k < 0.4:
        return ""
    if k < 0.8:
        return ",".join(rng.choice(["1", "2", "0.5", "1.0", "3", ".5", "-1", "0"]) for _ in range(rng.randint(1, 4)))
    # (spellings ParseFloat accepts but that have no finite mean are refused since D17 / D28)
    return rng.choice(["a", "1,b", "1;2", "1,,2", ",", "1 ,2", "--1", "1.2.3", "Inf", "inf,1", "1,-Inf", "NaN", "1,nan", "+Inf,2,3"])


def calc_case(rng):
    m = rng.choice(["constant", "ramp", "staged", "gaussian"])
    if m == "constant":
        return "calc.constant %s %s" % (hx(rate_string(rng)), hx(dist(rng)))
    if m == "ramp":
        a = rate_string(rng, True)
        b = rng.choice([a, rate_string(rng, True), rate_string(rng)])
        if rng.random() < 0.6:
            u = rng.choice(["s", "100ms", "1s", "2s"])
            a, b = "%d/%s" % (rng.randint(0, 20), u), "%d/%s" % (rng.randint(21, 90), u)
        return "calc.ramp %s %s %s %d" % (hx(a), hx(b), hx(dist(rng)), rng.choice([0, 1, S // 2, S, 10 * S, 3600 * S]))
    if m == "staged":
        return "calc.staged %d %s %s" % (rng.choice([0, -S, 1, 50 * 10**6, 10**8, S, 60 * S]), hx(stages_string(rng)), hx(dist(rng)))
    return "calc.gaussian %d %d %s %s" % (rng.choice([0, -1, 10**8, S, 60 * S]), rng.choice([0, -S, 1, 60 * S, 1800 * S]),
                                          hx(weights(rng)), hx(dist(rng)))


def enc_stage(d):
    if not d:
        return "-"
    out = []
    for k, v in d.items():
        if k in ("mode", "srate", "erate", "rate", "dist", "weights", "stages"):
            out.append("%s=%s" % (k, hx(v)))
        elif k == "params":
            out.append("params=%s" % ("+".join("%s:%s" % (hx(a), hx(b)) for a, b in v) or "-"))
        else:
            out.append("%s=%d" % (k, v))
    return ",".join(out)


MODE_FIELDS = {
    "constant": ["rate", "dist"],
    "ramp": ["srate", "erate", "dist"],
    "staged": ["stages", "freq", "dist"],
    "gaussian": ["volume", "repeat", "freq", "peak", "weights", "stddev", "dist"],
    "users": [],
}


def field_value(rng, f, valid):
    if f == "rate":
        return rate_string(rng, valid)
    if f == "srate":
        return rng.choice(["1/s", "5/s", "0/s", "10/100ms"]) if valid else rate_string(rng, False)
    if f == "erate":
        return rng.choice(["10/s", "50/s", "3/s", "20/100ms"]) if valid else rate_string(rng, False)
    if f == "dist":
        return dist(rng, valid)
    if f == "stages":
        return stages_string(rng, valid)
    if f == "weights":
        return rng.choice(["", "1,2", "1.0,1.0"]) if valid else rng.choice(["a", "1,b"])
    if f == "freq":
        return rng.choice([S, 10**8, 5 * 10**7]) if valid else rng.choice([0, -S])
    if f == "stddev":
        return rng.choice([60 * S, 1800 * S]) if valid else rng.choice([0, -S])
    if f in ("repeat", "peak"):
        return rng.choice([3600 * S, 600 * S])
    if f == "volume":
        return rng.choice([1000, 86400])
    raise KeyError(f)


def plan_case(rng, valid_bias=0.7, with_start=None):
    nst = rng.choice([1, 1, 2, 3, 4, 6])
    top = {"scenario": "scn", "maxdur": rng.choice([10 * S, 3600 * S]), "conc": rng.choice([1, 2, 50, 100]),
           "maxit": rng.choice([0, 0, 100]), "igndrop": rng.choice([0, 1])}
    if rng.random() < 0.4:
        top["maxfail"] = rng.randint(0, 9)
    if rng.random() < 0.4:
        top["maxfailrate"] = rng.randint(0, 100)
    dflt = {}
    if rng.random() < 0.6:
        dflt["mode"] = rng.choice(list(MODE_FIELDS))
    if rng.random() < 0.5:
        dflt["dur"] = rng.choice([S, 5 * S, 60 * S, 7])
    if rng.random() < 0.4:
        dflt["params"] = [("K%d" % i, "dv%d" % i) for i in range(rng.randint(0, 2))]
    if rng.random() < 0.3:
        dflt["jitter"] = rng.choice([0, 5])
    if rng.random() < 0.2:
        dflt["conc"] = rng.choice([1, 7, 0, -1] if rng.random() < 0.3 else [1, 7])
    for f in ("rate", "dist", "freq", "stages"):
        if rng.random() < 0.35:
            dflt[f] = field_value(rng, f, True)
    stages = []
    for _ in range(nst):
        st = {}
        valid = rng.random() < valid_bias
        mode = dflt.get("mode") if ("mode" in dflt and rng.random() < 0.4) else rng.choice(list(MODE_FIELDS) + (["bogus"] if not valid and rng.random() < 0.2 else []))
        if not (mode == dflt.get("mode") and rng.random() < 0.7):
            st["mode"] = mode
        if "dur" not in dflt or rng.random() < 0.7 or (not valid and rng.random() < 0.1):
            if valid or rng.random() < 0.8:
                st["dur"] = rng.choice([S, 2 * S, 10 * S, 50 * 10**6, 1, 0] if valid else [S, 0, -S])
        for f in MODE_FIELDS.get(mode, []):
            have_default = f in dflt
            omit = (have_default and rng.random() < 0.6) or (not valid and rng.random() < 0.15)
            if not omit:
                st[f] = field_value(rng, f, valid or rng.random() < 0.6)
        if mode == "users" and rng.random() < 0.5:
            st["conc"] = rng.choice([1, 3, 20]) if valid else rng.choice([0, -1, 1])
        if rng.random() < 0.3:
            st["jitter"] = rng.choice([0, 10])
        if rng.random() < 0.35:
            st["params"] = [("K%d" % i, "sv%d" % i) for i in range(rng.randint(0, 3))]
        stages.append(st)
    if not valid_bias > 0.99 and rng.random() < 0.08:
        k = rng.choice(["scenario", "maxdur", "conc", "maxit", "igndrop"])
        top.pop(k)
    if rng.random() < 0.05:
        top["conc"] = rng.choice([0, -3])
    # restart instant relative to stage-start
    now = 0
    use_start = rng.random() < 0.6 if with_start is None else with_start
    if use_start:
        top["start"] = rng.choice([0, 5 * S, -3 * S])
        durs = [st.get("dur", dflt.get("dur", 0)) for st in stages]
        cum = 0
        pts = [top["start"] - 1, top["start"], top["start"] + 1]
        for d in durs:
            cum += d
            pts += [top["start"] + cum - 1, top["start"] + cum, top["start"] + cum + 1]
        now = rng.choice(pts)
    else:
        now = rng.choice([0, 123 * S])
    topenc = ",".join("%s=%s" % (k, hx(v) if k == "scenario" else str(v)) for k, v in top.items())
    return "plan %d %s %s %s" % (now, topenc or "-", enc_stage(dflt), " ".join(enc_stage(s) for s in stages))


# ----------------------------------------------------------------------------- command lines (op `cli`)

CLI_UNITS = ["s", "100ms", "50ms", "250ms", "1s", "0.1s", "500ms", "m", "150ms"]
CLI_DURS = ["150ms", "200ms", "300ms", "0.25s", "120ms"]


def cli_rate(rng, valid=True):
    if not valid:
        return rate_string(rng, False)
    n = rng.choice(["0", "1", "3", "5", "10", "007", "24"])
    k = rng.random()
    if k < 0.15:
        return n
    return n + "/" + rng.choice(CLI_UNITS)


def cli_case(rng, focus=None):
    """One command line for F1.ExecuteWithArgs. focus: None | 'verdict' | 'limits' | 'file' | 'reject'."""
    kv = {}
    mode = rng.choice(["constant"] * 8 + ["staged"] * 3 + ["ramp"] * 3 + ["users"] * 3 + ["gaussian"] + ["file"] * 2)
    if focus == "verdict":
        mode = rng.choice(["constant", "users", "file"])
    if focus == "limits":
        mode = rng.choice(["users", "constant", "file"])
    if focus == "file":
        mode = "file"
    bad = (rng.random() < 0.3) if focus is None else (focus == "reject")
    if focus == "reject" and mode == "file":
        mode = "constant"
    kv["mode"] = mode
    setupfail = rng.choice([1, 2]) if rng.random() < 0.06 else 0
    if setupfail:
        kv["setupfail"] = setupfail
    elif rng.random() < 0.08 or (focus == "verdict" and rng.random() < 0.2):
        kv["tdfail"] = rng.choice([1, 2, 3])
    # ---- common flags
    if mode != "file":
        if rng.random() < 0.9:
            d = rng.choice(CLI_DURS)
            kv["dur"] = hx(d)
        if rng.random() < 0.75:
            kv["conc"] = rng.choice([1, 2, 3, 5, 8])
        if rng.random() < 0.35:
            kv["maxit"] = rng.choice([1, 3, 7, 20])
        if rng.random() < 0.4:
            kv["maxfail"] = rng.choice([0, 1, 2, 5])
        if rng.random() < 0.4:
            kv["maxfailrate"] = rng.choice([0, 10, 34, 50, 100])
        if rng.random() < 0.4:
            kv["igndrop"] = 1
        if rng.random() < 0.6:
            kv["failevery"] = rng.choice([2, 3, 5])
    valid = not bad
    if "failevery" in kv and rng.random() < 0.5:
        kv["failkind"] = rng.choice(["panicerr", "panicstr", "nilmap", "errorf", "errunhash", "panicunhash", "paniclong", "panicint", "panicis", "panicnilptr", "errnil", "fatalnil", "timefail", "timeerr"])
    if rng.random() < 0.15:
        kv["combine"] = 1
    if rng.random() < 0.08:
        kv["twice"] = 1
    if rng.random() < 0.15 and not bad:
        kv["logfile"] = rng.choice(["good", "bad"])
    if mode == "constant":
        if rng.random() < 0.9 or not valid:
            kv["rate"] = hx(cli_rate(rng, valid or rng.random() < 0.5))
        if rng.random() < 0.8:
            kv["dist"] = hx(dist(rng, valid or rng.random() < 0.6))
        if rng.random() < 0.3:
            kv["bodyms"] = rng.choice([5, 30])
        if (valid and kv.get("dist") in (hx("none"), hx("regular")) and "rate" in kv and "maxit" not in kv and not setupfail
                and "bodyms" not in kv and kv.get("conc", 100) >= 5 and "twice" not in kv):
            kv["exact"] = 1
        if valid and kv.get("dist") == hx("none") and "rate" in kv:
            kv["meaning"] = 1
        elif valid and "rate" in kv and "dist" in kv:
            kv["meaningmax"] = 1
        if valid and "maxit" not in kv and not setupfail:
            kv["timing"] = 1
    elif mode == "staged":
        if rng.random() < 0.85:
            kv["stages"] = hx(rng.choice(["0s:5,200ms:5", "0s:2, 100ms:8, 100ms:0", "100ms:10", "0s:1,1s:1"]) if valid or rng.random() < 0.5
                              else stages_string(rng, False))
        if rng.random() < 0.8:
            kv["freq"] = hx(rng.choice(["50ms", "100ms", "1s", "40ms"]) if valid or rng.random() < 0.5
                            else rng.choice(["0s", "-1s", "x", "0"]))
        if rng.random() < 0.7:
            kv["dist"] = hx(dist(rng, valid or rng.random() < 0.6))
    elif mode == "ramp":
        u = rng.choice(["s", "100ms", "50ms"])
        a, b = rng.randint(0, 6), rng.randint(7, 20)
        if rng.random() < 0.5:
            a, b = b, a
        if not valid and rng.random() < 0.5:
            k = rng.random()
            if k < 0.3:
                b = a                                    # equal rates
            elif k < 0.6:
                kv["erate"] = hx("%d/%s" % (b, "2s"))    # different units
            else:
                kv["srate"] = hx(rate_string(rng, False))
        kv.setdefault("srate", hx("%d/%s" % (a, u)))
        kv.setdefault("erate", hx("%d/%s" % (b, u)))
        if rng.random() < 0.8:
            kv["rampdur"] = hx(rng.choice(["0", "0s", "200ms", "1s", "150ms", "20ms"]))
        if rng.random() < 0.7:
            kv["dist"] = hx(dist(rng, valid or rng.random() < 0.6))
    elif mode == "gaussian":
        kv["freq"] = hx(rng.choice(["100ms", "50ms"]) if valid else rng.choice(["0s", "100ms"]))
        if rng.random() < 0.6:
            kv["weights"] = hx(weights(rng))
        if rng.random() < 0.5:
            kv["stddev"] = hx(rng.choice(["1h", "30m"]) if valid else rng.choice(["0s", "-1s", "1h"]))
        if rng.random() < 0.7:
            kv["dist"] = hx(dist(rng, valid or rng.random() < 0.6))
    elif mode == "users":
        kv["bodyms"] = rng.choice([0, 20, 40]) if "maxit" in kv else rng.choice([20, 40])
        kv.setdefault("conc", rng.choice([1, 2, 4, 6]))
        if kv["bodyms"] > 0 and "maxit" not in kv and not setupfail and not bad:
            kv["expectfull"] = 1
        if kv["bodyms"] == 0 and "maxit" in kv and not setupfail and not bad:
            kv["expectlimit"] = 1
        if "maxit" not in kv and not setupfail:
            kv["timing"] = 1
    else:  # file
        kv["fdur"] = rng.choice([250, 400, 600])
        kv["bodyms"] = rng.choice([1, 5, 20])
        kv["conc"] = rng.choice([1, 2, 4])
        if rng.random() < 0.5:
            kv["maxit"] = rng.choice([2, 5, 12])
        if rng.random() < 0.5:
            kv["maxfail"] = rng.choice([0, 1, 3])
        if rng.random() < 0.5:
            kv["maxfailrate"] = rng.choice([0, 20, 50])
        if rng.random() < 0.5:
            kv["igndrop"] = 1
        if rng.random() < 0.7:
            kv["failevery"] = rng.choice([2, 3, 4])
        sts = []
        for _ in range(rng.randint(1, 3)):
            if rng.random() < 0.5:
                sts.append("c:%d:%s" % (rng.choice([100, 150, 200]), rng.choice(["5/50ms", "3/100ms", "10/100ms"])))
            else:
                sts.append("u:%d:%d" % (rng.choice([100, 150, 200]), rng.choice([1, 2, 3])))
        kv["fstages"] = ";".join(sts)
        if all(s.startswith("u") for s in sts) and "maxit" in kv and not setupfail and kv["bodyms"] == 1:
            kv["expectlimit"] = 1
        if rng.random() < 0.3:        # every stage inherits one parameter from the default section
            kv["fshared"] = 1
        if rng.random() < 0.25:       # restarted late: the schedule began a while ago (some or all stages are over)
            kv["fstart"] = rng.choice([50, 120, 260, 7200000])
            kv.pop("expectlimit", None)
        if rng.random() < 0.2:
            kv["fdur"] = rng.choice([120, 180])      # the run ends inside a stage
        if "failevery" in kv and rng.random() < 0.5:
            kv["failkind"] = rng.choice(["panicerr", "panicstr", "nilmap", "errorf", "errunhash", "panicunhash", "paniclong", "panicint", "panicis", "panicnilptr", "errnil", "fatalnil", "timefail", "timeerr"])
        if rng.random() < 0.15:
            kv["combine"] = 1
        return "cli " + " ".join("%s=%s" % (k, v) for k, v in kv.items())
    # ---- ways the line itself is refused
    if bad:
        k = rng.random()
        if k < 0.2:
            kv["conc"] = rng.choice([0, -1, -100])
        elif k < 0.3:
            kv["scenario"] = 0
        elif k < 0.45:
            kv["dur"] = hx(rng.choice(["abc", "", "1", "1x"]))
        elif k < 0.7:
            kv["raw"] = hx(rng.choice(["--nope", "extra-positional", "--concurrency=abc", "--max-iterations=-1",
                                       "--max-failures-rate=x", "--jitter=much", "-z"]))
        for f in ("meaning", "timing", "expectfull", "expectlimit"):
            kv.pop(f, None)
    return "cli " + " ".join("%s=%s" % (k, v) for k, v in kv.items())


def cli_compare(rec):
    """cli cases: the correspondence is on accept/reject (the first token of both sides)."""
    i, m = rec["impl"].split(), rec["model"].split()
    if not i or not m or i[0] != m[0]:
        return "model=%s impl=%s" % (rec["model"], rec["impl"][:60])
    return None


def cli_verdict_case(rng):
    """A command line (or config file) whose run has exactly N iterations of which f fail, with each tolerance
    option placed on, just below and just above the boundary — so that every option decides the exit status."""
    n = rng.choice([4, 6, 9, 10, 12, 20])
    k = rng.choice([2, 3, 4, 5])
    f = n // k
    kv = {"mode": rng.choice(["users", "users", "file"]), "maxit": n, "failevery": k, "expectlimit": 1}
    which = rng.choice(["maxfail", "rate", "both", "none"])
    if which in ("maxfail", "both"):
        kv["maxfail"] = max(0, f + rng.choice([-1, 0, 0, 1]))
    if which in ("rate", "both"):
        kv["maxfailrate"] = min(100, max(0, 100 * f // n + rng.choice([-1, 0, 0, 1])))
    if rng.random() < 0.5:
        kv["igndrop"] = 1
    if rng.random() < 0.1:
        kv["tdfail"] = rng.choice([1, 2, 3])
    if kv["mode"] == "users":
        kv["conc"] = rng.choice([1, 2, 3])
        kv["bodyms"] = 0
        kv["dur"] = hx(rng.choice(["400ms", "500ms"]))
    else:
        kv["conc"] = rng.choice([1, 2])
        kv["bodyms"] = 1
        kv["fdur"] = 800
        kv["fstages"] = "u:600:%d" % rng.choice([1, 2])
    return "cli " + " ".join("%s=%s" % (a, b) for a, b in kv.items())


CLI_CORPUS_KEYS = {
    "C04": ("expectfull",),
    "C05": ("leakcheck", "retmax", "sigint"),
    "C08": ("maxfail", "igndrop", "failevery", "tdfail", "setupfail", "sigint", "bodyms=30", "profile1"),
    "C09": ("exact=1", "timing=1", "rate=%s" % hx("1/100ns")),
    "C12": ("exact=1", "meaningmax"),
    "C15": ("mode=file",),
    "C14": ("fpath=", "rate=%s" % hx("1/100ns"), "rate=%s" % hx("5/1us")),
    "C19": ("tdfail", "setupfail", "maxfailrate=19", "igndrop=1"),
    "C01": ("pushgw",),
    "C16": ("pushgw", "static"),
}


def cli_corpus_for(pid):
    keys = CLI_CORPUS_KEYS[pid]
    return [c for c in cli_corpus() if any(k in c for k in keys)]


def cli_corpus():
    c = lambda **kv: "cli " + " ".join("%s=%s" % (k.rstrip("_"), v) for k, v in kv.items())
    d200, none = hx("200ms"), hx("none")
    return [
        c(mode="constant"),                                                    # the registered defaults alone: 1/s, regular, 100 workers, 1 s
        c(mode="users", dur=d200, bodyms=20),                                  # default concurrency in users mode
        c(mode="constant", dur=d200, conc=0, rate=hx("5/100ms")),              # no worker: refused
        c(mode="users", dur=d200, conc=0),
        c(mode="users", dur=d200, conc=-1),
        c(mode="staged", dur=d200, conc=0),
        c(mode="ramp", dur=d200, conc=0, srate=hx("1/100ms"), erate=hx("5/100ms"), rampdur=d200),
        c(mode="constant", dur=d200, conc=1, scenario=0),                      # unknown scenario
        c(mode="ramp", dur=d200, conc=2, srate=hx("1/100ms"), erate=hx("5/100ms"), rampdur=hx("0"), dist=none),    # --ramp-duration 0: falls back to --max-duration
        c(mode="ramp", dur=d200, conc=2, srate=hx("1/100ms"), erate=hx("5/100ms"), rampdur=hx("0s")),
        c(mode="ramp", dur=hx("50ms"), conc=2, srate=hx("1/100ms"), erate=hx("5/100ms"), rampdur=hx("0")),          # … which is shorter than the unit: refused
        c(mode="ramp", dur=d200, conc=2, srate=hx("1/100ms"), erate=hx("5/100ms"), rampdur=hx("99ms")),
        c(mode="ramp", dur=d200, conc=2, srate=hx("1/s"), erate=hx("5/s")),                                         # default ramp duration 1 s = the unit
        c(mode="staged", dur=d200, conc=2),                                     # default stages and frequency
        c(mode="staged", dur=d200, conc=2, freq=hx("0s")),
        c(mode="staged", dur=d200, conc=2, freq=hx("-100ms")),
        c(mode="gaussian", dur=d200, conc=2, freq=hx("100ms")),
        c(mode="gaussian", dur=d200, conc=2, freq=hx("100ms"), stddev=hx("0s")),
        c(mode="constant", dur=d200, conc=3, rate=hx("6/100ms"), dist=none, meaning=1, timing=1),
        c(mode="constant", dur=d200, conc=3, rate=hx("4"), dist=none, meaning=1, timing=1),                         # bare N: per second
        c(mode="constant", dur=hx("350ms"), conc=3, rate=hx("2/150ms"), dist=none, meaning=1, timing=1),
        c(mode="constant", dur=d200, conc=1, rate=hx("10/50ms"), dist=none, bodyms=30),                             # drops without --ignore-dropped
        c(mode="constant", dur=d200, conc=1, rate=hx("10/50ms"), dist=none, bodyms=30, igndrop=1),
        c(mode="users", dur=hx("400ms"), conc=2, maxit=10, failevery=5, maxfail=2, bodyms=0, expectlimit=1),        # 2 failures tolerated
        c(mode="users", dur=hx("400ms"), conc=2, maxit=10, failevery=5, maxfail=1, bodyms=0, expectlimit=1),
        c(mode="users", dur=hx("400ms"), conc=2, maxit=10, failevery=5, maxfailrate=20, bodyms=0, expectlimit=1),   # exactly 20 %
        c(mode="users", dur=hx("400ms"), conc=2, maxit=10, failevery=5, maxfailrate=19, bodyms=0, expectlimit=1),
        c(mode="file", fdur=800, conc=2, maxit=10, failevery=5, maxfail=2, bodyms=1, fstages="u:600:2", expectlimit=1),
        c(mode="file", fdur=800, conc=2, maxit=10, failevery=5, maxfailrate=20, bodyms=1, fstages="u:600:2", expectlimit=1),
        c(mode="file", fdur=800, conc=2, maxit=10, failevery=5, maxfail=1, bodyms=1, fstages="u:600:2", expectlimit=1),
        c(mode="file", fdur=300, conc=1, bodyms=30, fstages="c:200:10/50ms"),                                        # drops, ignore-dropped off
        c(mode="file", fdur=300, conc=1, bodyms=30, igndrop=1, fstages="c:200:10/50ms"),
        c(mode="users", dur=d200, conc=2, bodyms=10, tdfail=1),                # failing teardown fails the run
        c(mode="users", dur=d200, conc=2, bodyms=10, tdfail=2),
        c(mode="users", dur=d200, conc=2, bodyms=10, setupfail=1),
        c(mode="users", dur=d200, conc=2, bodyms=10, setupfail=2),
        c(mode="users", dur=hx("400ms"), conc=2, maxit=10, failevery=2, maxfailrate=100, bodyms=0, expectlimit=1),   # 100 % tolerated
        c(mode="users", dur=hx("400ms"), conc=2, maxit=10, failevery=1, maxfailrate=100, bodyms=0, expectlimit=1),
        c(mode="users", dur=hx("400ms"), conc=2, maxit=10, failevery=2, maxfailrate=150, bodyms=0, expectlimit=1),
        c(mode="users", dur=hx("2s"), conc=2, bodyms=10, failevery=3, sigint=100),                                   # Ctrl-C: the exit status still follows the verdict
        c(mode="users", dur=hx("2s"), conc=2, bodyms=10, sigint=100),
        c(mode="constant", dur=hx("2s"), conc=1, rate=hx("10/50ms"), dist=none, bodyms=30, sigint=150),             # interrupted with drops
        c(mode="users", dur=d200, conc=2, bodyms=5, failevery=2, failkind="panicerr", logfile="bad"),               # the scenario log cannot be opened
        c(mode="users", dur=d200, conc=2, bodyms=5, failevery=2, failkind="errorf", logfile="bad"),
        c(mode="users", dur=d200, conc=2, bodyms=5, failevery=2, failkind="nilmap", logfile="good"),
        c(mode="users", dur=d200, conc=2, bodyms=5, maxit=8, failevery=2, failkind="panicerr", combine=1),          # combined scenario: panics with an error value
        c(mode="users", dur=d200, conc=2, bodyms=5, maxit=8, failevery=3, failkind="nilmap", combine=1, twice=1),  # … executed twice on one F1
        c(mode="users", dur=d200, conc=1, bodyms=0, maxit=5, combine=1, twice=1, expectlimit=1),
        c(mode="gaussian", dur=hx("1200ms"), conc=4, freq=hx("500ms"), timing=1),                                    # ticks every 100 ms sub-tick, not every --iteration-frequency
        c(mode="staged", dur=hx("1200ms"), conc=4, freq=hx("400ms"), stages=hx("0s:4,2s:4"), timing=1),
        c(mode="constant", dur=hx("1200ms"), conc=4, rate=hx("5/s"), meaningmax=1, timing=1),                       # regular distribution: 5 per second, not 10
        c(mode="file", fdur=800, conc=2, bodyms=5, fstages="c:150:3/50ms;u:150:2", fstart=7200000),                   # restarted after the last stage: nothing to run, no error
        c(mode="file", fdur=800, conc=2, bodyms=5, fstages="c:150:3/50ms;u:150:2", fstart=200),
        c(mode="file", fdur=4000, conc=2, bodyms=5, fstages="c:150:3/50ms;u:150:2", fstart=7200000, retmax=2000),     # … and the trigger's duration is still the whole plan's, not 0: the run ends with the plan, not with max-duration
        c(mode="file", fdur=4000, conc=2, bodyms=5, fstages="c:300:3/50ms;c:300:3/50ms", fstart=450, retmax=2300),
        c(mode="file", fdur=250, conc=2, bodyms=5, fstages="c:150:3/50ms;c:300:3/50ms;u:150:2", fshared=1),           # shared parameter, run ends inside stage 2
        c(mode="file", fdur=800, conc=2, bodyms=1, maxit=4, fstages="u:150:2;c:300:3/50ms", fshared=1),
        c(mode="constant", dur=hx("650ms"), conc=20, rate=hx("7/s"), dist=hx("regular"), exact=1, timing=1),       # the k-th tick requests the k-th value of the profile
        c(mode="constant", dur=hx("350ms"), conc=20, rate=hx("7/s"), dist=hx("regular"), exact=1),
        c(mode="constant", dur=hx("650ms"), conc=20, rate=hx("7/s"), dist=hx("regular"), exact=1, timing=1, igndrop=1),   # C09k: no evaluation outside the cadence, whatever the flags
        c(mode="constant", dur=hx("450ms"), conc=30, rate=hx("13/500ms"), dist=hx("regular"), exact=1, igndrop=1),
        c(mode="constant", dur=hx("450ms"), conc=30, rate=hx("13/500ms"), dist=hx("regular"), exact=1),
        c(mode="constant", dur=hx("450ms"), conc=30, rate=hx("4/100ms"), dist=none, exact=1, leakcheck=1),
        c(mode="users", dur=d200, conc=3, bodyms=5, leakcheck=1),                                                   # nothing of the command remains after it returned
        c(mode="constant", dur=d200, conc=3, rate=hx("3/50ms"), dist=none, leakcheck=1, failevery=2),
        c(mode="users", dur=hx("900ms"), conc=10500, bodyms=400, expectfull=1),
        c(mode="users", dur=hx("600ms"), conc=101, bodyms=250, expectfull=1),                                       # one more than a round number of users
        c(mode="users", dur=hx("600ms"), conc=250, bodyms=250, expectfull=1),
        c(mode="users", dur=hx("4s"), conc=2, bodyms=20, sigint=300),                                               # Ctrl-C long before max-duration                                      # every one of 10 500 users runs
        c(mode="file", fdur=6000, conc=2, maxit=3, bodyms=5, fstages="c:3000:5/100ms", retmax=1500),                 # the limit ends a config-file run at once
        c(mode="users", dur=d200, conc=2, bodyms=3, maxit=20, failevery=3, pushgw="ok", static=1),                  # what reaches the push gateway: counts and labels
        c(mode="constant", dur=hx("300ms"), conc=1, rate=hx("10/50ms"), dist=none, bodyms=30, igndrop=1, pushgw="fail1", static=1),
        c(mode="file", fdur=500, conc=2, bodyms=2, maxit=9, failevery=2, fstages="u:300:2", pushgw="ok", static=1),
        c(mode="users", dur=d200, conc=1, bodyms=1, maxit=5, pushgw="ok", timestage="iteration", expectlimit=1),    # D23 (known finding): a timed stage named like the reserved label value
        c(mode="users", dur=d200, conc=1, bodyms=1, maxit=5, pushgw="ok", timestage="checkout", expectlimit=1),     # ... any other stage name leaves the iteration series alone
        c(mode="users", dur=d200, conc=2, bodyms=3, pushgw="down", leakcheck=0),
        c(mode="users", dur=d200, conc=2, bodyms=3, maxit=12, failevery=4, pushgw="ok", pushurl="bare", static=1),   # PROMETHEUS_PUSH_GATEWAY=host:port
        c(mode="file", fdur=300, conc=1, bodyms=1, fstages="c:200:1/50ms", fpath="dir"),                              # the config path is a directory: refused, not a crash
        c(mode="file", fdur=300, conc=1, bodyms=1, fstages="u:200:1", fpath="missing"),
        c(mode="users", dur=hx("400ms"), conc=2, maxit=10, failevery=5, bodyms=0, expectlimit=1, profile="cpu"),    # a failed run is a failed command with profiling on, too
        c(mode="users", dur=hx("400ms"), conc=2, maxit=10, failevery=5, bodyms=0, expectlimit=1, profile="mem"),
        c(mode="users", dur=d200, conc=2, bodyms=10, tdfail=1, profile="mem"),
        c(mode="users", dur=d200, conc=2, bodyms=1, maxit=6, expectlimit=1, twice=1, profile1="cpu"),               # D20: a plain command after a profiled one on the same F1
        c(mode="users", dur=d200, conc=2, bodyms=1, maxit=6, failevery=3, expectlimit=1, twice=1, profile1="cpu"),
        c(mode="users", dur=d200, conc=2, bodyms=1, maxit=6, expectlimit=1, twice=1, profile1="mem"),
        c(mode="users", dur=hx("600ms"), conc=10, maxit=3, bodyms=5, expectlimit=1, retmax=3000),                  # more users than iterations left: the run still ends
        c(mode="constant", dur=hx("150ms"), conc=2, rate=hx("1/100ns"), dist=none, bodyms=1),     # C14k: a tick far shorter than it takes to start the pool is still a positive tick
        c(mode="constant", dur=hx("150ms"), conc=2, rate=hx("5/1us"), dist=none, bodyms=1),
        c(mode="constant", dur=d200, conc=2, raw=hx("--nope")),
        c(mode="constant", dur=d200, conc=2, raw=hx("extra-positional")),
    ]


def plan_compare(rec):
    """plan cases: equality, except that the model's `same=` token has `*` where it cannot say."""
    i, m = rec["impl"].split(), rec["model"].split()
    if len(i) != len(m):
        return "model=%s impl=%s" % (rec["model"], rec["impl"])
    for x, y in zip(i, m):
        if x.startswith("same=") and y.startswith("same="):
            xs, ys = x[5:].split(","), y[5:].split(",")
            if len(xs) != len(ys) or any(b != "*" and a != b for a, b in zip(xs, ys)):
                return "model=%s impl=%s" % (rec["model"], rec["impl"])
        elif x != y:
            return "model=%s impl=%s" % (rec["model"], rec["impl"])
    return None


def jitter_plan_case(rng):
    """config files about jitter inheritance: a default section with (or without) jitter, constant stages with
    distribution none that spell jitter 0, spell another value, or omit it."""
    dflt = {"mode": "constant", "dist": "none", "dur": S}
    if rng.random() < 0.8:
        dflt["jitter"] = rng.choice([0, 20, 50, 90])
    if rng.random() < 0.5:
        dflt["rate"] = "%d/s" % rng.choice([40, 100, 1000])
    stages = []
    for _ in range(rng.randint(1, 4)):
        st = {}
        if "rate" not in dflt or rng.random() < 0.6:
            st["rate"] = "%d/%s" % (rng.choice([30, 100, 500]), rng.choice(["s", "100ms"]))
        k = rng.random()
        if k < 0.45:
            st["jitter"] = 0
        elif k < 0.65:
            st["jitter"] = rng.choice([10, 50])
        if rng.random() < 0.2:
            st["dist"] = rng.choice(["none", "regular"])
        if rng.random() < 0.15:
            st["mode"] = rng.choice(["staged", "ramp"])
            st["stages"] = "0s:100,10s:100"
            st["freq"] = S
            st["srate"], st["erate"] = "10/s", "100/s"
        stages.append(st)
    top = "scenario=%s,maxdur=%d,conc=2,maxit=0,igndrop=1" % (hx("scn"), 10 * S)
    return "plan 0 %s %s %s" % (top, enc_stage(dflt), " ".join(enc_stage(s) or "-" for s in stages))


def pipeline_case(rng, jitter=None, cycles=None):
    """the composed constant-rate pipeline (ParseRate -> WithJitter -> NewDistribution) over whole cycles"""
    r = "%d/%s" % (rng.choice([0, 1, 3, 7, 10, 100, 999, 12345]), rng.choice(["s", "500ms", "200ms", "1500ms", "100ms", "50ms", "2s", "10s", "m"]))
    jn, jd = jitter if jitter is not None else rng.choice([(0, 1), (1, 2), (5, 1), (20, 1), (50, 1), (75, 1), (799, 8)])
    d = rng.choice(["none", "regular", "regular", "random", "random"])
    c = cycles if cycles is not None else rng.choice([1, 2, 10, 100, 400])
    mode = rng.choice(["constant", "constant", "staged"])
    if mode == "staged" and r.split("/")[1] in ("m",):       # --iterationFrequency takes a duration, not a bare unit
        mode = "constant"
    return "pipeline %s %d %d %s %d %s" % (hx(r), jn, jd, hx(d), c, mode)
