"""Generator of scenario programs for the `scn` op (shared by C06, C07, C20)."""
FAILS = ["F", "E", "N", "A", "Q", "Pe", "Ps", "Pv", "Pr", "Pn"]
STOPS = ["N", "A", "Q", "Pe", "Ps", "Pv", "Pr", "Pn"]


def prog(rng, n, ncl, pfail=0.25, preg=0.3, plog=0.3):
    acts = []
    for _ in range(n):
        r = rng.random()
        if r < preg and ncl > 0:
            acts.append("r%d" % rng.randint(1, ncl))
        elif r < preg + pfail:
            f = rng.choice(FAILS)
            acts.append(("W" + f) if rng.random() < 0.15 else f)
        elif r < preg + pfail + plog:
            acts.append("L%d" % rng.randint(0, 99))
    return ".".join(acts) if acts else "_"


def cleanups(rng, ncl, pbad=0.35):
    out = []
    for c in range(1, ncl + 1):
        if rng.random() < pbad:
            p = prog(rng, rng.randint(1, 3), ncl, pfail=0.7, preg=0.1, plog=0.2)
        else:
            p = prog(rng, rng.randint(0, 2), 0, pfail=0.0, preg=0.0, plog=1.0)
        out.append("c%d=%s" % (c, p))
    return ";".join(out) if out else "-"


def case(rng, ncomp=None, setup_fail=0.15, body_fail=0.3, iters=None):
    ncomp = ncomp or rng.choice([1, 1, 1, 2, 3, 4])
    ncl = rng.choice([0, 2, 3, 5])
    iters = iters if iters is not None else rng.choice([0, 1, 2, 3, 5, 8])
    comps = []
    for _ in range(ncomp):
        s = prog(rng, rng.randint(0, 3), ncl, pfail=setup_fail / max(1, ncomp), preg=0.4, plog=0.3)
        nb = rng.choice([1, 1, 2, 3])
        bodies = [prog(rng, rng.randint(0, 5), ncl, pfail=body_fail / max(1, ncomp) + 0.05, preg=0.35, plog=0.3)
                  for _ in range(nb)]
        comps.append(s + "/" + "|".join(bodies))
    return "scn %d %s %s" % (iters, ";".join(comps), cleanups(rng, ncl))


def features(casestr):
    a = casestr.replace("W", "").split()
    f = set()
    comps = a[2].split(";")
    if len(comps) > 1:
        f.add("combined")
    for c in comps:
        s, b = c.split("/", 1)
        if any(x in STOPS for x in s.split(".")):
            f.add("setup_stops")
        if any(x in FAILS for x in s.split(".")):
            f.add("setup_fails")
        if "r" in "".join(x[0] for x in s.split(".") if x != "_"):
            f.add("setup_registers")
        for body in b.split("|"):
            acts = body.split(".")
            if any(x in STOPS for x in acts):
                f.add("body_stops")
            if any(x.startswith("P") for x in acts):
                f.add("body_panics")
            if any(x in FAILS for x in acts):
                f.add("body_fails")
            if sum(1 for x in acts if x.startswith("r")) >= 2:
                f.add("body_registers_2plus")
    if a[3] != "-":
        for c in a[3].split(";"):
            p = c.split("=", 1)[1].split(".")
            if any(x in STOPS for x in p):
                f.add("cleanup_stops")
            if any(x.startswith("r") for x in p):
                f.add("cleanup_registers")
    return f
