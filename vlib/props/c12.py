"""C12 — distributing a rate over sub-ticks neither creates nor loses iterations."""
from ..core import hx, ints

ID = "C12"
PROPS = ["F1Verif.Props.C12", "F1Verif.Props.FactsC12", "F1Verif.Props.Pipeline", "F1Verif.Props.RefineC12", "F1Verif.Props.RefineC12Grid", "F1Verif.Props.FloatSpec", "F1Verif.Props.C12Float", "F1Verif.Props.FactsC09", "F1Verif.Props.RefineC09W", "F1Verif.Props.RefineC14B"]
RULE = ("engine A on api.NewDistribution (scripted rate and random sources): small (N<=40, r<=200) near-exhaustive "
        "sampling, larger random (N up to 864000, r up to 1e7) in summary form, time-varying rates over several cycles, "
        "random sources inside and beyond range, pass-through intervals, invalid kinds/intervals; outputs compared "
        "bit-for-bit with the as-written Float model, the exact model run alongside (float_gap_events), Spec evaluated "
        "on the implementation's outputs. Non-trivial: a distributed (non pass-through) case with a positive rate; "
        "distinct = distinct case lines.")
ASSUMPTIONS = ["regular distribution: theorems are about the exact-arithmetic model; binary64 rounding is modelled "
               "(bit-exact Float model in the driver) but not verified; outputs of the two layers are compared on every case",
               "rates and random outputs are non-negative (negative ones are outside the quantifier and skipped by Spec)",
               "int overflow outside the model"]
MS = 1000000


def dist(kind, iv_ns, steps, rates, rands=(), gaps=()):
    g = (" " + ",".join("%d:%d" % (i, e) for i, e in gaps)) if gaps else ""
    return "dist %s %d %d %s %s%s" % (kind, iv_ns, steps, ints(rates), ints(rands), g)


def corpus():
    return [
        "run prop=C09 mode=constant rate=3/100ms intervalms=100 dur=1200 conc=10 body=1 sloweval=3:250",      # C12k: one tick loop, one evaluation at a time - a slow evaluation delays the next, it does not overlap it
        "run prop=C09 mode=constant rate=4/200ms dist=regular dur=1500 conc=10 body=1 sloweval=4:350",
        "distsum regular %d 6 24178880,24178880,99999999,99999999,24178881,50000000" % (900 * MS),   # C12l: tens of millions per interval still sum exactly
        "distsum regular %d 4 76831407,76831407,99999999,12345678" % (3100 * MS),
        dist("regular", 900 * MS, 18, [7, 3]),
        "pipeline %s 30 1 %s 40 staged" % (hx("1000/s"), hx("regular")),       # jitter is applied to the rate, the result is distributed — in every builder
        "pipeline %s 20 1 %s 40 constant" % (hx("100/s"), hx("regular")),
        "pipeline %s 50 1 %s 25 staged" % (hx("300/500ms"), hx("regular")),
        dist("regular", 1000 * MS, 30, [7, 3, 9], (), [(4, 2500 * MS), (17, 1001 * MS)]),     # a tick 2.5 s late in the middle of a cycle
        dist("random", 1000 * MS, 30, [7, 3, 9], [2, 1, 0, 3, 1, 0, 0, 2, 1, 1, 0, 0, 1, 2, 0, 0, 0, 0, 3, 1, 2, 1, 1, 0, 0, 1, 0, 0, 0, 0], [(4, 2500 * MS)]),
        dist("random", 500 * MS, 25, [0, 7, 0, 0, 5], [3, 1, 2, 0, 1, 2, 0, 1, 1, 0]),         # zero-rate cycles still last N sub-ticks
        dist("regular", 1000 * MS, 40, [5, 15, 12, 8]),
        dist("regular", 215 * MS, 6, [1, 1, 1]),
        dist("random", 1000 * MS, 10, [28], [0, 1, 0, 0, 1, 0, 0, 0, 7]),
        dist("random", 200 * MS, 2, [1], [5]),
        dist("random", 1000 * MS, 20, [5, -5], [2, 1, 0, 9, 9, 9, 9, 9, 9, 9, 9, 9]),   # D13: negative rate
        dist("none", 1000 * MS, 3, [4, 5, 6]),
        dist("regular", 100 * MS, 3, [4, 5, 6]),
        dist("regular", 0, 3, [1]),          # D9: non-positive interval must be rejected
        dist("random", -5 * MS, 3, [1]),
        dist("bogus", 1000 * MS, 3, [1]),
        # many consecutive cycles: the accumulator must restart at every cycle (residue 998e-7 per cycle
        # would otherwise add up to a whole extra iteration after ~10^4 cycles)
        "distsum regular %d 10100 100" % (999 * 100 * MS),
        # D15 (known findings): outside the envelope
        "distsum regular %d 1 1" % (2 * 10**6 * 10**9),
        "distsum regular %d 3 960315879,960315879,960315879" % (700 * MS),
    ] + __import__("vlib.props._plan", fromlist=["x"]).cli_corpus_for("C12")


def generate(rng, tier):
    n = {"quick": 1200, "thorough": 30000, "search": 15000}[tier]
    out = []
    for _ in range(n // 2):
        N = rng.choice([2, 3, 4, 5, 7, 9, 10, 10, 12, 25, 40, rng.randint(2, 60)])
        iv = N * 100 * MS + rng.choice([0, 0, 1, 15 * MS, 99 * MS])
        cyc = rng.randint(1, 4)
        steps = N * cyc + rng.choice([0, 0, 0, rng.randint(0, N - 1)])
        kind = rng.choice(["regular", "regular", "random"])
        rates = [rng.choice([0, 1, 2, N - 1, N, N + 1, 2 * N + 1, rng.randint(0, 200), rng.randint(0, 5000)])
                 for _ in range(cyc + 1)]
        rands = []
        if kind == "random":
            rem = rates[0]
            for i in range(steps + 2):
                mode = rng.random()
                if mode < 0.6:
                    rands.append(rng.randint(0, max(0, rem)))
                elif mode < 0.8:
                    rands.append(0)
                else:
                    rands.append(rng.randint(0, 3 * max(1, rem)))   # beyond range: clamped
        gaps = ()
        if rng.random() < 0.3:        # late ticks / pauses / a clock stepping back: cycles are counted in calls, not in wall-clock
            gaps = sorted((rng.randint(0, max(0, steps - 1)), rng.choice([iv + 1, 3 * iv, 250 * MS, 60_000 * MS, -iv, -2 * iv]))
                          for _ in range(rng.randint(1, 3)))
        out.append(dist(kind, iv, steps, rates, rands, gaps))
    for _ in range(n // 6):
        iv = rng.choice([1, 50 * MS, 100 * MS, 100 * MS, 99 * MS, 100 * MS + 1, 101 * MS, 199 * MS, 200 * MS])
        out.append(dist(rng.choice(["none", "regular", "random"]), iv, rng.randint(1, 6),
                        [rng.randint(0, 50) for _ in range(6)], [rng.randint(0, 5) for _ in range(6)]))
    for _ in range(n // 6):
        out.append(dist("none", rng.choice([100, 250, 1000, 60000]) * MS, rng.randint(1, 8),
                        [rng.randint(0, 1000) for _ in range(8)]))
    big = {"quick": 12, "thorough": 150, "search": 60}[tier]
    for _ in range(big):
        N = rng.choice([600, 1200, 6000, 36000, rng.randint(100, 50000), rng.randint(50000, 864000)])
        cyc = 1 if N > 100000 else rng.randint(1, 3)
        rates = [rng.choice([1, 2, N - 1, N + 1, rng.randint(0, 10**4), rng.randint(0, 10**7)]) for _ in range(cyc)]
        out.append("distsum regular %d %d %s" % (N * 100 * MS, cyc, ints(rates)))
    from . import _plan
    for _ in range({"quick": 40, "thorough": 600, "search": 200}[tier]):      # the composed pipeline, no jitter: exact totals
        out.append(_plan.pipeline_case(rng, jitter=(0, 1)))
    for _ in range({"quick": 30, "thorough": 400, "search": 120}[tier]):      # … and with jitter: a regular distribution stays even within each cycle
        out.append(_plan.pipeline_case(rng))
    rest = n - len(out)
    for _ in range(max(0, rest)):
        N = rng.randint(2, 12)
        out.append(dist("regular", N * 100 * MS, N, [rng.randint(0, 3 * N)]))
    return out


def ok(spec):
    return spec == "ok" or spec == "ok:gap"


def compare(rec):
    if rec["case"].startswith("cli "):
        from . import _plan
        return _plan.cli_compare(rec)
    if rec["model"] == "-":
        return None
    return None if rec["impl"] == rec["model"] else "model=%s impl=%s" % (rec["model"], rec["impl"])


def nontrivial_key(rec):
    a = rec["case"].split()
    if a[0] in ("distsum", "pipeline", "cli"):
        return rec["case"]
    if a[1] in ("regular", "random") and int(a[2]) > 100 * MS and any(int(x) > 0 for x in a[4].split(",") if x != "-"):
        return rec["case"]
    return None


def signature(rec):
    a = rec["case"].split()
    if a[0] in ("pipeline", "cli"):
        return rec["case"]
    if a[0] == "distsum":
        N = int(a[2]) // (100 * MS)
        rmax = max(int(x) for x in a[4].split(","))
        if N > 10**7:
            return "C12:regular:N>1e7"
        if rmax > 10**8:
            return "C12:regular:rate>1e8"
    return rec["case"]


def distribution(recs):
    d = {"regular": 0, "random": 0, "none": 0, "passthrough_interval": 0, "summary_form": 0, "err": 0,
         "float_gap_events": 0}
    for r in recs:
        a = r["case"].split()
        if a[0] == "distsum":
            d["summary_form"] += 1
        elif a[0] in ("pipeline", "cli"):
            d[a[0]] = d.get(a[0], 0) + 1
        elif a[1] in d:
            d[a[1]] += 1
            if int(a[2]) <= 100 * MS:
                d["passthrough_interval"] += 1
        if r["impl"] == "err":
            d["err"] += 1
        if r["spec"] == "ok:gap":
            d["float_gap_events"] += 1
    return d

MANIFEST = {
 "text": "For the exact-arithmetic model of the regular distribution: every cycle sums to its rate whenever N*(ceil(S*r/N)/S - r/N) < 1 (C12_regular_sum), in particular for all N <= 10^7 (C12_regular_sum_envelope, C12_regular_all_cycles over any number of cycles with time-varying rates), outputs non-negative and even, one evaluation per cycle; false beyond (C12_regular_beyond, a known finding). For the random distribution (integers only, model = code): C12_random_cycle for every random source with non-negative outputs. Induction over steps and cycles, no bound on N, rates or cycles. Tie: bit-exact Float model vs api.NewDistribution on every run, exact model run alongside.",
 "note": "Three layers, all tied to the regenerated closure (Props/RefineC12): exact arithmetic (every N <= 10^7, C12_regular_all_cycles via regStepG_rat_grid), binary64 executed by the driver bit-for-bit against Go on every run, and - new - rounded arithmetic as a theorem: for ANY arithmetic satisfying FPSpec (Props/FloatSpec: monotone rounding with relative error 2^-53, exact on integers up to 2^53 and under Sterbenz' condition; the standard model of floating point without underflow/overflow, of which exact rationals are an instance) a cycle of N <= 10^6 sub-ticks with 0 <= r <= 10^7 emits exactly r (C12_float_cycle_exact, C12_generated_cycle_float). That Go's float64 satisfies FPSpec on the magnitudes that occur here (0 or between 1e-7 and 1e15) is IEEE 754 conformance, assumed. Known findings outside the envelope (N > 1e7; rate > 1e8 per tick). int overflow outside the model.",
 "technique": "Lean 4 theorems: induction (invariant acc + S*emitted = k*ceil(S*r/N)) for exact arithmetic; refinement of the regenerated MiniGo closure; error analysis over an abstract floating-point specification (FPSpec) for rounded arithmetic; + bit-exact model/implementation correspondence"}
