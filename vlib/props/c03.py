"""C03 — max-iterations is a hard ceiling; iteration ids are unique and gapless."""
from ..core import hx
ID = "C03"
PROPS = ["F1Verif.Props.C03", "F1Verif.Props.FactsC03", "F1Verif.Props.CPool", "F1Verif.Props.RefineC03", "F1Verif.Props.RefineC02W", "F1Verif.Props.RefineC15F", "F1Verif.Props.RefineC18N"]
RULE = ("engine A: sequential NextIteration histories for limits 0..50 and call counts around the limit (model and Spec); "
        "hook-free stress: 4-64 goroutines racing NextIteration for the last ids, hundreds of rounds with small limits; "
        "real pools: trigger pools (several ticks) and continuous (users) pools with T.Iteration recorded by the scenario, "
        "with and without limit, stopped by cancel or by the limit; Spec: ids exactly 1..k, k <= limit, k = limit when "
        "work kept being requested, and no id handed out without being run while the limit was not reached. Non-trivial: "
        "a concurrent case (stress or pool) or a sequential case that crosses the limit; distinct = distinct case lines.")
ASSUMPTIONS = ["atomic.Uint64.Add is a single atomic increment (Go memory model); uint64 overflow outside the model",
               "file-mode stages sharing one counter and one set of ids are exercised by whole runs (run op, mode=file) with iterations that outlive their stage"]


def corpus():
    return ["plan 0 scenario=73,maxdur=10000000000,conc=10,maxit=3,igndrop=0 mode=%s,dist=%s dur=1000000000,rate=%s" % (hx("constant"), hx("none"), hx("5/100ms")),   # C03n: a limit below the concurrency is still the limit
            "plan 0 scenario=73,maxdur=10000000000,conc=100,maxit=1,igndrop=1 mode=%s dur=1000000000,conc=5" % hx("users"),
            "cli mode=file fdur=900 conc=10 maxit=3 bodyms=5 fstages=c:700:5/100ms expectlimit=1",       # … also through the command: `run file` with limits.max-iterations below limits.concurrency
            "cli mode=file fdur=900 conc=6 maxit=2 bodyms=5 fstages=u:700:6 expectlimit=1",
            "iter.seq 18446744073709551615 5", "iter.seq 9223372036854775808 4", "iter.seq 9223372036854775809 4",
            "run prop=C03 mode=users dur=600 conc=2 maxit=10 failsetupat=3 expectlimit=1",      # C03k: the scenario fails its *setup* handle while iterations run: every id is still an invocation
            "run prop=C03 mode=constant rate=4/100ms dist=none dur=900 conc=3 maxit=12 failsetupat=2 expectlimit=1",
            "iter.seq 3 5", "iter.seq 0 9", "iter.seq 1 1", "iter.seq 7 7", "iter.seq 7 0",
            "iter.stress 1 16 40 300", "iter.stress 3 16 40 300",
            "pool.ids 3 users 16 10 0 20", "pool.ids 0 users 5 15 0 3",
            "pool.ids 7 trigger 100 6 3 5", "pool.ids 17 trigger 100 8 5 3",
            # config-file stages share one counter; iterations that outlive their stage keep their own id
            "run prop=C03 mode=file dur=3000 conc=2 file=c:250:4/250ms;c:250:4/250ms;c:200:2/100ms body=200",
            "run prop=C03 mode=file dur=3000 conc=3 maxit=11 file=u:200:3;c:300:3/100ms;u:2000:2 body=5 expectlimit=1",
            "run prop=C03 mode=constant rate=5/50ms dur=400 conc=4 body=10 maxit=17 expectlimit=1",
            "run prop=C03 mode=users conc=5 dur=400 body=3 maxit=40 expectlimit=1",
            # through the command line: the limit of a config file, a combined scenario executed twice on one F1
            "cli mode=file fdur=800 conc=2 maxit=7 bodyms=1 fstages=c:150:5/50ms;u:500:2 expectlimit=1",
            "cli mode=file fdur=800 conc=2 maxit=9 bodyms=1 fstages=u:600:2 expectlimit=1",
            "cli mode=users dur=%s conc=1 bodyms=0 maxit=5 combine=1 twice=1 expectlimit=1" % hx("300ms"),
            "cli mode=users dur=%s conc=3 bodyms=0 maxit=17 expectlimit=1" % hx("300ms")]


def generate(rng, tier):
    n = {"quick": 400, "thorough": 5000, "search": 2000}[tier]
    out = []
    for _ in range(n):
        N = rng.choice([0, 1, 2, 3, 7, 17, rng.randint(1, 50)])
        k = max(0, N + rng.choice([-2, -1, 0, 1, 2, 5])) if rng.random() < 0.7 else rng.randint(0, 60)
        out.append("iter.seq %d %d" % (N, k))
    m = {"quick": 10, "thorough": 150, "search": 60}[tier]
    for _ in range(m):
        out.append("iter.stress %d %d %d %d" % (rng.choice([1, 2, 3, 5, 100]), rng.choice([4, 16, 64]),
                                                 rng.choice([5, 40]), rng.choice([100, 300])))
        out.append("pool.ids %d users %d %d 0 %d" % (rng.choice([0, 1, 3, 10, 1000]), rng.choice([2, 5, 16, 64]),
                                                     rng.choice([3, 10]), rng.choice([3, 10])))
        out.append("pool.ids %d trigger %d %d %d %d" % (rng.choice([0, 1, 7, 17, 50]), rng.choice([1, 4, 100]),
                                                        rng.randint(1, 10), rng.randint(1, 9), rng.choice([2, 5])))
    for _ in range({"quick": 4, "thorough": 60, "search": 12}[tier]):
        k = rng.randint(2, 4)
        stages = ";".join(rng.choice(["c:%d:%d/%dms" % (rng.choice([150, 250]), rng.randint(1, 4), rng.choice([50, 100, 250])),
                                      "u:%d:%d" % (rng.choice([150, 250]), rng.randint(1, 3))]) for _ in range(k))
        out.append("run prop=C03 mode=file dur=4000 conc=%d file=%s body=%d%s" % (
            rng.choice([1, 2, 4]), stages, rng.choice([5, 120, 220]), rng.choice(["", "", " maxit=%d" % rng.randint(3, 15)])))
    from . import _plan
    for _ in range({"quick": 6, "thorough": 60, "search": 16}[tier]):
        out.append(_plan.cli_verdict_case(rng) + rng.choice(["", " combine=1", " combine=1 twice=1", " twice=1"]))
    return out


def compare(rec):
    if rec["case"].startswith("cli "):
        from . import _plan
        return _plan.cli_compare(rec)
    if rec["case"].startswith("plan "):
        from . import _plan
        return _plan.plan_compare(rec)
    if rec["model"] == "-":
        return None
    return None if rec["impl"] == rec["model"] else "model=%s impl=%s" % (rec["model"], rec["impl"])


def nontrivial_key(rec):
    a = rec["case"].split()
    if a[0] != "iter.seq":
        return rec["case"]
    return rec["case"] if int(a[1]) > 0 and int(a[2]) > int(a[1]) else None


def distribution(recs):
    d = {"iter.seq": 0, "iter.stress": 0, "pool.ids": 0, "limit_reached": 0}
    for r in recs:
        a = r["case"].split()
        d[a[0]] = d.get(a[0], 0) + 1
        if a[0] in ("run", "cli"):
            d["limit_reached"] += "maxit=" in r["case"]
        elif a[0] == "iter.seq":
            d["limit_reached"] += int(a[1]) > 0 and int(a[2]) > int(a[1])
        elif "counter=" in r["impl"]:
            c = int(r["impl"].split("counter=")[1].split()[0])
            d["limit_reached"] += int(a[1]) > 0 and c > int(a[1])
    return d


MANIFEST = {
 "text": "NextIteration is one atomic increment and a comparison on the returned value, so concurrent histories are sequences of calls; for every limit N and number of calls k the ids handed out are exactly 1..min(k,N) (1..k without limit): distinct, gapless, at most N, exactly N when requests continue (C03_ids, C03_ceiling, C03_exact_on_limit, C03_distinct), and the limit-reached flag is raised exactly by a refused call (C03_reached_iff_refused). Users mode: on the continuous-pool model (any number of workers, every schedule of takes, completions, cancellation from outside and the watcher that raises the stop flag) at most N iterations start (C03_users_ceiling) and, when every worker has returned and nothing but the limit stopped the pool, exactly N (C03_users_exact). Induction over the number of calls / the schedule. Tie: sequential histories vs the model, concurrent stress on the real counter, ids observed inside real trigger and continuous pools.",
 "note": "The atomicity of the increment is Go's (assumed) and is additionally tied by the regenerated skeleton of NextIteration; that every pool of a run shares the counter and resets the handle with the id right before the body is a statement-order fact plus the pool.ids runs.",
 "technique": "Lean 4 theorems by induction over call sequences + correspondence (sequential, concurrent stress, real pools)"}
