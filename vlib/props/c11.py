"""C11 — gaussian profile delivers the configured volume per window and peaks on time."""
from ..core import fbits, hx
ID = "C11"
PROPS = ["F1Verif.Props.C11", "F1Verif.Props.FactsC11", "F1Verif.Props.RefineC11", "F1Verif.Props.RefineC11Q", "F1Verif.Props.RefineC15", "F1Verif.Props.RefineC14G"]
RULE = ("engine A on gaussian.NewCalculator(...).For over window-aligned synthetic timestamps: volumes 10^2..10^6, repeat "
        "windows 1 min..1 h, tick frequencies dividing them, peaks on and off the tick grid (including second half of a "
        "tick), standard deviations >= frequency, weight lists of 0-7 entries over several windows of the weight cycle; "
        "the harness also returns the real PDF/CDF values, from which the driver recomputes multiplier, weight selection "
        "and carry bit-exactly (Float) and compares every tick; Spec on the implementation's outputs: non-negative, no "
        "tick more than one above the tick nearest the peak, each window's total within 1 (+1e-6 relative) of the total "
        "of the exact rates for that window's weight, and within 1 % of the configured volume (scaled by the weight over the mean) "
        "whenever the bell lies inside the window and is resolved by the ticks. Non-trivial: >= 2 windows or weights present; distinct = distinct cases.")
ASSUMPTIONS = ["the density and CDF values are inputs of the bit-exact model (taken from the real Distribution) and are checked on every tick against independent computations in the driver: the closed form with libm's exp (relative 1e-9) and the Abramowitz-Stegun erf approximation (absolute 1e-6)",
               "theorems are over exact arithmetic (Q); the binary64 evaluation of the carry is modelled bit-exactly in the driver, not verified",
               "the size of the discretisation error itself (Riemann sum vs probability mass) is measured per run, not proved"]
S = 10**9
UNIX_TO_ABS = 62135596800 * S


def aligned_start(rep_ns, nweights):
    cyc = rep_ns * max(1, nweights)
    abs_t = ((UNIX_TO_ABS + 1_700_000_000 * S) // cyc + 1) * cyc
    return abs_t - UNIX_TO_ABS


def case(vol, rep, freq, peak, sd, ws, windows, shift=0):
    n = (rep // freq) * windows
    return "gauss %s %d %d %d %d %s %d %d" % (fbits(vol), rep, freq, peak, sd, ",".join(fbits(w) for w in ws) or "-",
                                              aligned_start(rep, len(ws)) + shift, n)


def scase(vol, rep, freq, peak, sd, wstr, nweights, windows):
    """weights given as the string a user types; nweights = how many entries count"""
    from ..core import hx
    n = (rep // freq) * windows
    return "gauss %s %d %d %d %d s:%s %d %d" % (fbits(vol), rep, freq, peak, sd, hx(wstr), aligned_start(rep, nweights), n)


def corpus():
    return [
        case(100000.0, 86400 * S, 60 * S, 14 * 3600 * S, 3600 * S, [], 1),
        case(100000.0, 86400 * S, 600 * S, 14 * 3600 * S + 40 * S, 3 * 3600 * S, [1.0, 2.0, 3.0, 4.0, 5.0, 6.0, 7.0], 7),   # weekly weights, daily windows
        case(1000000.0, 3600 * S, 60 * S, 1800 * S + 40 * S, 300 * S, [], 2),       # peak in the second half of a tick
        case(23499.0, 600 * S, S, 300 * S, 75 * S, [1.0, 1.0], 2),
        "gauss %s %d %d %d 0 - 0 3" % (fbits(100.0), 60 * S, S, 30 * S),
        case(100000.0, 3600 * S, 60 * S, 1800 * S, 600 * S, [1.0, 2.0, 3.0, 4.0], 3) + " 60:1",     # window 1 is never seen (a stalled tick loop): window 2 still gets its own weight
        case(100000.0, 3600 * S, 60 * S, 1800 * S, 600 * S, [1.0, 2.0, 3.0, 4.0], 3) + " 120:5",
        case(50000.0, 600 * S, 10 * S, 300 * S, 60 * S, [3.0, 1.0, 2.0], 4) + " 60:2",
        case(100000.0, 3600 * S, 60 * S, 1800 * S, 600 * S, [2.0], 2),               # a single weight is its own mean
        case(100000.0, 3600 * S, 60 * S, 1800 * S, 600 * S, [0.5], 1),
        case(100000.0, 168 * 3600 * S, 3600 * S, 84 * 3600 * S, 12 * 3600 * S, [], 2),   # weekly window (does not divide the zero-time/epoch distance)
        case(50000.0, 7 * 3600 * S, 600 * S, 3 * 3600 * S, 3600 * S, [1.0, 3.0], 2),
        # the --weights string as typed: a zero is a weight like any other ("no load at weekends")
        scase(1000.0, 3600 * S, 60 * S, 1800 * S, 600 * S, "2,0,1,1", 4, 4),
        scase(1000.0, 3600 * S, 60 * S, 1800 * S, 600 * S, "1,0", 2, 4),
        scase(1000.0, 3600 * S, 60 * S, 1800 * S, 600 * S, "0.5,,2", 2, 2),
        # the gaussian trigger on the command line: its rate function is made for the 100 ms sub-ticks of the
        # distribution and must be ticked at that interval, whatever --iteration-frequency says
        "cli mode=gaussian dur=%s conc=4 freq=%s timing=1" % (hx("1200ms"), hx("500ms")),
        "cli mode=gaussian dur=%s conc=4 freq=%s dist=%s timing=1" % (hx("1300ms"), hx("200ms"), hx("none")),
    ]


def generate(rng, tier):
    n = {"quick": 40, "thorough": 900, "search": 300}[tier]
    out = []
    for _ in range(n):
        # windows that divide the distance between Go's zero time and the Unix epoch, and windows that do not (7 h, 36 h, a week, 11 min)
        rep = rng.choice([60 * S, 600 * S, 3600 * S, 86400 * S, 7 * 3600 * S, 36 * 3600 * S, 168 * 3600 * S, 660 * S])
        freq = rng.choice([f for f in (S, 10 * S, 60 * S, 600 * S) if rep % f == 0 and rep // f >= 6 and rep // f <= 3600])
        peak = rng.choice([0, rep // 2, rep // 3, rng.randint(0, rep - 1), (rng.randint(0, rep // freq - 1)) * freq + freq // 2 + rng.randint(1, max(1, freq // 2 - 1))])
        sd = rng.choice([freq, 2 * freq, 5 * freq, rep // 8, rep // 3, rep])
        k = rng.choice([0, 0, 1, 1, 2, 3, 4, 7])
        ws = [rng.choice([1.0, 2.0, 0.5, 3.0, float(i + 1)]) for i in range(k)]
        windows = rng.choice([1, 2, 3]) if not ws else len(ws) + rng.choice([0, 1])
        if (rep // freq) * windows > 9000:
            windows = max(1, 9000 // (rep // freq))
        if ws and rng.random() < 0.4:
            strs = [rng.choice(["0", "1", "2", "0.5", "3", "1.5", "10"]) for _ in ws]
            if all(x == "0" for x in strs):
                strs[0] = "1"
            out.append(scase(rng.choice([100.0, 1e4, 23499.0]), rep, freq, peak, sd, ",".join(strs), len(strs), windows))
        else:
            out.append(case(rng.choice([100.0, 1e4, 23499.0, 1e6]), rep, freq, peak, sd, ws, windows))
            if len(ws) > 1 and windows > 1 and rng.random() < 0.5:      # a window (or several) that this calculator never sees
                out[-1] += " %d:%d" % ((rep // freq) * rng.randint(1, windows - 1), rng.randint(1, 2 * len(ws)))
    return out


def nontrivial_key(rec):
    a = rec["case"].split()
    if a[0] == "cli":
        return rec["case"]
    if a[6] != "-" or int(a[8]) > 2 * (int(a[2]) // max(1, int(a[3]))) - 1:
        return rec["case"]
    return None


def compare(rec):
    if rec["case"].startswith("cli "):
        from . import _plan
        return _plan.cli_compare(rec)
    if rec["model"] == "-":
        return None
    it, mt = rec["impl"].split(), rec["model"].split()
    if len(it) >= 3 and len(mt) >= 3 and it[2] == mt[2]:
        return None
    return None if rec["impl"] == rec["model"] else "model outs differ from implementation outs"


def distribution(recs):
    d = {"cases": 0, "with_weights": 0, "ticks_total": 0, "peak_off_grid": 0}
    for r in recs:
        a = r["case"].split()
        if a[0] == "cli":
            d["command_lines"] = d.get("command_lines", 0) + 1
            continue
        d["cases"] += 1
        d["with_weights"] += a[6] != "-"
        d["ticks_total"] += int(a[8])
        d["peak_off_grid"] += int(a[4]) % max(1, int(a[3])) != 0
    return d


MANIFEST = {
 "text": "For every rate sequence (exact arithmetic): the emitted total over any span equals the total of the exact rates minus the remainder still carried, which stays in [0,1) — nothing fractional is ever lost (C11_carry, C11_total_close, rem_range); non-negative rates never yield a negative request (C11_nonneg); no tick requests more than one above the tick with the highest rate (C11_peak); one window's total is within 1 of V*(w/mean w) times the ratio Riemann-sum/probability-mass (C11_volume); the weight loop terminates and selects index floor(t/window) mod len counted from Go's zero time (C11_weight_index via weightIndexLoop_spec). Tie: every tick of the real calculator recomputed bit-exactly from the real PDF/CDF values (multiplier, weight selection, carry), Spec on the real outputs.",
 "note": "Partial: exp/erfc values come from the real Distribution and are cross-checked against the closed form (libm exp) and an erf approximation; float rounding of the carry is modelled, not verified; the magnitude of the discretisation error is measured by the driver on each run rather than bounded by a theorem.",
 "technique": "Lean 4 theorems over Q (telescoping carry, floor bounds; Mathlib) + bit-exact correspondence with oracle inputs"}
