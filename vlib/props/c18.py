"""C18 — the periodic progress runner fires only while running; quiescent after Stop."""
ID = "C18"
PROPS = ["F1Verif.Props.C18", "F1Verif.Props.FactsC18", "F1Verif.Props.RefineC18", "F1Verif.Props.RefineC19R", "F1Verif.Props.RefineC18L", "F1Verif.Props.RefineC18N"]
RULE = ("engine B on the real raterun.Runner: Stop called while the function is executing (gated), while a due tick is "
        "parked at the raterun.dispatch yield point, between ticks, and cancellation instead of Stop — Stop must not return "
        "before the function has, nothing may be invoked afterwards; a slow function keeping a tick pending across a "
        "schedule switch (timer and Restart) must not be invoked with the new schedule's frequency before one of its ticks "
        "is due; invocation counts against elapsed time. Non-trivial: every case interleaves Stop/switch with a tick; "
        "distinct = distinct parameter tuples.")
ASSUMPTIONS = ["time.Ticker / time.Timer deliver at most one buffered value and never early (Go runtime)",
               "weak fairness of the scheduler: an enabled goroutine eventually runs",
               "timing parameters are lower bounds (a stalled scheduler can only delay events); the 'due tick' interleaving is made deterministic by the hook"]


def corpus():
    return [
        "result.stress 800",            # C18k: the progress function (Progress, HasDroppedIterations) against the run loop's writers: nobody waits forever
        "raterun.stop inflight 5 40 10", "raterun.stop due 5 40 10", "raterun.stop idle 5 40 10",
            "raterun.stop cancel 5 40 10", "raterun.switch 10 60 30 0", "raterun.switch 10 60 30 1",
            "raterun.order 1 40 300 120 100 15 650", "raterun.order 1 30 150 10 150 70 500",     # C18n: start delays that are not increasing - the list's order is the order
            "raterun.count 10 120", "raterun.newstart 350 100 400", "raterun.newstart 150 50 300",
            # the runner's user: an interrupted run must still wait for a progress tick that is being reported
            "run prop=C18 mode=constant rate=2/100ms dur=2500 conc=2 body=5 cancel=1100 stallprogress=500",
            "run prop=C18 mode=users conc=2 dur=1400 body=5 stallprogress=300",
            "run prop=C18 mode=users conc=2 dur=1300 body=5 stallprint=2500",                                  # a slow terminal holds the progress line beyond the end of the run
            "run prop=C18 mode=constant rate=1/100ms dur=4000 conc=2 block=1 timeout=2300 cancel=300"]      # cancelled early, a blocked iteration keeps Do waiting: no progress tick in between


def generate(rng, tier):
    n = {"quick": 14, "thorough": 200, "search": 60}[tier]
    out = []
    for _ in range(n):
        k = rng.random()
        if k < 0.6:
            out.append("raterun.stop %s %d %d %d" % (rng.choice(["inflight", "due", "idle", "cancel"]),
                                                     rng.choice([1, 2, 5, 10]), rng.choice([20, 40, 60]), rng.choice([5, 10])))
        elif k < 0.85:
            out.append("raterun.switch %d %d %d %d" % (rng.choice([5, 10]), rng.choice([40, 60, 90]), rng.choice([20, 30]), rng.choice([0, 1])))
        else:
            out.append("raterun.count %d %d" % (rng.choice([5, 10, 20]), rng.choice([60, 120])))
    return out


def nontrivial_key(rec):
    return rec["case"]


def distribution(recs):
    d = {}
    for r in recs:
        a = r["case"].split()
        k = a[0] + (":" + a[1] if a[0] == "raterun.stop" else "")
        d[k] = d.get(k, 0) + 1
    return d


MANIFEST = {
 "engine": "lean-proof + scripted schedules (hooks)",
 "text": "Event model of the runner goroutine (select over restart / next-schedule timer / ticker / cancellation, timers as environment events, buffered restart channel): for every event sequence the function is invoked at most once per due tick and never before Start (C18_once_per_tick), the timer walks to the next schedule and Restart goes back to the first (C18_schedule_walk), once Stop has returned the goroutine has exited, the function was not executing at that moment and can never be invoked again (C18_quiescent, C18_no_call_after_stop), and a cancelled runner can always exit (C18_no_leak). Inductive invariant over all schedules of events. The pre-repair runner (stopped closed when Start returned) has a kernel-checked counterexample (legacy_stop_does_not_wait) that is replayed on the real code through the raterun.dispatch hook. The goroutine of Runner.Start, raterun.New and newSchedules are regenerated and carried by rlLoop_spec / runner_loop_refines / runnerRounds_shape / runner_New_refines / schedules_new_refines: for every script of select choices one invocation per tick received, schedule changes on timer and restart, nothing after the cancellation, the schedule list kept as given.",
 "note": "Go's timers/tickers, channel semantics and scheduler fairness are assumed. The tie is by scripted interleavings at the hook and by timing lower bounds on the real runner; the placement of close(stopped) is additionally tied by a regenerated statement-order fact.",
 "technique": "Lean 4 inductive invariant over an event semantics + scripted-schedule correspondence through verif hooks"}
