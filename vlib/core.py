"""Orchestrator core: builds, pipeline (harness -> driver), audit, evidence, replays.

Everything a registered command needs lives under /verif (scratch in /verif/build).
"""
import fcntl
import hashlib
import json
import os
import tempfile
import random
import re
import shutil
import subprocess
import sys
import time

VERIF = os.path.dirname(os.path.dirname(os.path.abspath(__file__)))
REPO = os.environ.get("VERIF_REPO", "/repo")
LEAN = os.path.join(VERIF, "lean")
BUILD = os.path.join(VERIF, "build")
F1MODEL = os.path.join(LEAN, ".lake", "build", "bin", "f1model")
ALLOWED_AXIOMS = {"propext", "Classical.choice", "Quot.sound"}
FORBIDDEN = re.compile(
    r"\bsorry\b|\badmit\b|^\s*axiom\s|native_decide|bv_decide|implemented_by|\bunsafe\s|maxHeartbeats\s+0")

TRUSTED_BASE = [
    "Lean 4.33.0 kernel; axioms allowed: propext, Classical.choice, Quot.sound (audited with #print axioms on every run)",
    "hand-written Lean model tied to /repo by a correspondence check on every run (Go harness compiled into the module with -overlay, Lean driver f1model, python diff)",
    "go/ast fact extractor (facts/) whose output is re-proved equal to the model's expectations",
]


def goenv():
    e = dict(os.environ)
    e.update({"GOFLAGS": "-mod=mod", "GOPROXY": "off", "GOSUMDB": "off", "GOTOOLCHAIN": "local",
              "CGO_ENABLED": "0"})
    return e


class Lock:
    def __init__(self, name):
        os.makedirs(BUILD, exist_ok=True)
        self.path = os.path.join(BUILD, name + ".lock")

    def __enter__(self):
        self.f = open(self.path, "w")
        fcntl.flock(self.f, fcntl.LOCK_EX)
        return self

    def __exit__(self, *a):
        fcntl.flock(self.f, fcntl.LOCK_UN)
        self.f.close()


def sh(cmd, cwd=None, env=None, timeout=None, input=None):
    p = subprocess.run(cmd, cwd=cwd, env=env, timeout=timeout, input=input,
                       stdout=subprocess.PIPE, stderr=subprocess.STDOUT, text=True)
    return p.returncode, p.stdout


# ----------------------------------------------------------------------------- builds

def scratch():
    d = os.path.join(BUILD, "run-%d" % os.getpid())
    if not os.path.isdir(d):
        # leftovers of runs that were killed (a timeout, an interrupted matrix): remove those whose process is gone
        try:
            for name in os.listdir(BUILD):
                if name.startswith("run-") and name[4:].isdigit() and not os.path.exists("/proc/%s" % name[4:]):
                    shutil.rmtree(os.path.join(BUILD, name), ignore_errors=True)
        except OSError:
            pass
        # … and the temporary directories of harness processes that died before their deferred clean-up (a case that kills
        # its process is run in a process of its own, but its directory stays): those older than an hour
        try:
            import glob
            for t in glob.glob(os.path.join(tempfile.gettempdir(), "f1verif-*")):
                if time.time() - os.path.getmtime(t) > 3600:
                    shutil.rmtree(t, ignore_errors=True)
        except OSError:
            pass
    os.makedirs(d, exist_ok=True)
    return d


def cleanup_scratch():
    shutil.rmtree(os.path.join(BUILD, "run-%d" % os.getpid()), ignore_errors=True)


def build_harness(tags="verif"):
    """Compile /verif/harness into /repo's module (virtual package internal/zzverif)."""
    d = scratch()
    replace = {}
    hdir = os.path.join(VERIF, "harness")
    for f in sorted(os.listdir(hdir)):
        if f.endswith(".go"):
            replace[os.path.join(REPO, "internal", "zzverif", f)] = os.path.join(hdir, f)
    inj = os.path.join(hdir, "inject")
    if os.path.isdir(inj):
        for root, _, files in os.walk(inj):
            for f in files:
                if f.endswith(".go"):
                    rel = os.path.relpath(os.path.join(root, f), inj)
                    replace[os.path.join(REPO, rel)] = os.path.join(root, f)
    ov = os.path.join(d, "overlay.json")
    with open(ov, "w") as fh:
        json.dump({"Replace": replace}, fh)
    out = os.path.join(d, "harness")
    cmd = ["go", "build", "-mod=readonly", "-tags", tags, "-overlay", ov, "-o", out, "./internal/zzverif"]
    env = goenv()
    env["GOFLAGS"] = ""
    with Lock("gobuild"):
        rc, log = sh(cmd, cwd=REPO, env=env, timeout=600)
    return (out if rc == 0 else None), log


def write_if_changed(path, content):
    try:
        with open(path) as fh:
            if fh.read() == content:
                return False
    except FileNotFoundError:
        pass
    os.makedirs(os.path.dirname(path), exist_ok=True)
    tmp = path + ".tmp%d" % os.getpid()
    with open(tmp, "w") as fh:
        fh.write(content)
    os.replace(tmp, path)
    return True


def gen_facts():
    """Regenerate lean/F1Verif/Generated/Facts.lean from /repo's current tree."""
    fdir = os.path.join(VERIF, "facts")
    if not os.path.isdir(fdir):
        return True, ""
    with Lock("gobuild"):
        env = goenv()
        env["GOFLAGS"] = "-mod=mod"
        rc, out = sh(["go", "run", ".", REPO], cwd=fdir, env=env, timeout=300)
    if rc != 0:
        return False, out
    # the extractor prints several files, separated by `-- ===FILE <name>===` lines; the first is Facts.lean
    parts = re.split(r"^-- ===FILE (\S+)===\n", out, flags=re.M)
    files = {"Facts.lean": parts[0]}
    for i in range(1, len(parts) - 1, 2):
        files[parts[i]] = parts[i + 1]
    with Lock("lake"):
        for name, content in files.items():
            write_if_changed(os.path.join(LEAN, "F1Verif", "Generated", name), content)
    return True, ""


def lake_build(targets):
    with Lock("lake"):
        rc, log = sh(["lake", "build"] + targets, cwd=LEAN, timeout=3600)
    return rc == 0, log


def strip_comments(src):
    # nested block comments are rare in this code base; handle one level + line comments
    src = re.sub(r"/-.*?-/", "", src, flags=re.S)
    src = re.sub(r"--.*", "", src)
    return src


def forbidden_hits():
    hits = []
    for root, _, files in os.walk(os.path.join(LEAN, "F1Verif")):
        for f in files:
            if f.endswith(".lean"):
                p = os.path.join(root, f)
                for i, line in enumerate(strip_comments(open(p).read()).splitlines(), 1):
                    if FORBIDDEN.search(line):
                        hits.append("%s:%d:%s" % (os.path.relpath(p, LEAN), i, line.strip()))
    return hits


def theorems_in(module):
    path = os.path.join(LEAN, module.replace(".", "/") + ".lean")
    src = strip_comments(open(path).read())
    ns = []
    names = []
    for line in src.splitlines():
        m = re.match(r"\s*namespace\s+(\S+)", line)
        if m:
            ns.append(m.group(1))
            continue
        m = re.match(r"\s*end\s+(\S+)", line)
        if m and ns and ns[-1] == m.group(1):
            ns.pop()
            continue
        m = re.match(r"\s*(?:private\s+|protected\s+)?theorem\s+(\S+)", line)
        if m:
            names.append(".".join(ns + [m.group(1)]))
    return names


def audit(modules):
    """#print axioms for every theorem of the given Props modules. Returns
    (dict theorem -> sorted axiom list, log)."""
    thms = []
    for m in modules:
        thms += theorems_in(m)
    src = "\n".join("import " + m for m in modules) + "\n" + \
        "\n".join("#print axioms %s" % t for t in thms) + "\n"
    d = scratch()
    p = os.path.join(d, "Audit.lean")
    with open(p, "w") as fh:
        fh.write(src)
    with Lock("lake"):
        rc, out = sh(["lake", "env", "lean", p], cwd=LEAN, timeout=1200)
    res = {}
    # output: "'name' depends on axioms: [a, b]" or "'name' does not depend on any axioms"
    for m in re.finditer(r"'([^']+)' depends on axioms: \[([^\]]*)\]", out, flags=re.S):
        res[m.group(1)] = sorted(a.strip() for a in m.group(2).replace("\n", " ").split(",") if a.strip())
    for m in re.finditer(r"'([^']+)' does not depend on any axioms", out):
        res[m.group(1)] = []
    return thms, res, (out if rc != 0 else "")


def leanchecker(modules):
    with Lock("lake"):
        rc, out = sh(["lake", "env", "leanchecker"] + modules, cwd=LEAN, timeout=3600)
    return rc == 0, out


# ----------------------------------------------------------------------------- pipeline

SLOW_OPS = ("run ", "cli ")     # wall-clock cases: spread over parallel harness processes


def run_pipeline(harness, cases, timeout=1800):
    """cases: list of case strings `op args…` (no id). Returns list of records."""
    ids = ["%d" % i for i in range(len(cases))]
    inp = "".join("%s %s\n" % (i, c) for i, c in zip(ids, cases))
    env = goenv()
    env.setdefault("GOMEMLIMIT", "6GiB")
    # whole-run cases take wall-clock time: spread them over parallel harness processes
    slow = [i for i, c in zip(ids, cases) if c.startswith(SLOW_OPS)]
    fast_inp = "".join("%s %s\n" % (i, c) for i, c in zip(ids, cases) if not c.startswith(SLOW_OPS))
    impl = {}
    slow_results = {}
    threads = []
    if slow:
        import threading
        # a command line that sets up the process-wide metrics instance (push gateway / static labels) gets a process
        # of its own: that instance is built once per process, by the first command that runs in it
        # (so does a command line that is expected to be able to kill its process: it must not take others with it)
        solo = [i for i in slow if cases[int(i)].startswith("cli ") and
                (" pushgw=" in cases[int(i)] or " failkind=paniccyclic" in cases[int(i)])]
        slow_shared = [i for i in slow if i not in set(solo)]
        k = max(1, min(len(slow_shared), int(os.environ.get("VERIF_PAR", "12"))))
        chunks = [c for c in (slow_shared[j::k] for j in range(k)) if c] + [[i] for i in solo]

        def work(chunk):
            sub = "".join("%s %s\n" % (i, cases[int(i)]) for i in chunk)
            try:
                q = subprocess.run([harness], input=sub, stdout=subprocess.PIPE, stderr=subprocess.PIPE,
                                   text=True, timeout=timeout, env=env)
                for line in q.stdout.splitlines():
                    parts = line.split("\t")
                    if len(parts) >= 2:
                        slow_results[parts[0]] = parts[1]
            except subprocess.TimeoutExpired:
                pass
        sem = threading.Semaphore(int(os.environ.get("VERIF_PAR", "12")) + 4)

        def gated(chunk):
            with sem:
                work(chunk)
        for ch in chunks:
            t = threading.Thread(target=gated, args=(ch,))
            t.start()
            threads.append(t)
    p = subprocess.run([harness], input=fast_inp, stdout=subprocess.PIPE, stderr=subprocess.PIPE,
                       text=True, timeout=timeout, env=env)
    for t in threads:
        t.join()
    for i in slow:
        impl[i] = slow_results.get(i, "crash:process")
    for line in p.stdout.splitlines():
        parts = line.split("\t")
        if len(parts) >= 2:
            impl[parts[0]] = parts[1]
    stderr_tail = p.stderr[-2000:]
    # a case that killed the harness process: re-run the remaining ones alone
    missing = [i for i in ids if i not in impl and not cases[int(i)].startswith(SLOW_OPS)]
    if missing and p.returncode != 0:
        first = missing[0]
        impl[first] = "crash:process"
        rest = missing[1:]
        if rest:
            sub = run_pipeline_impl_only(harness, [cases[int(i)] for i in rest], timeout)
            for i, r in zip(rest, sub):
                impl[i] = r
    for i in ids:
        impl.setdefault(i, "no-output")
    dinp = "".join("%s %s | %s\n" % (i, c, impl[i]) for i, c in zip(ids, cases))
    q = subprocess.run([F1MODEL], input=dinp, stdout=subprocess.PIPE, stderr=subprocess.PIPE,
                       text=True, timeout=timeout)
    model = {}
    for line in q.stdout.splitlines():
        parts = line.split("\t")
        if len(parts) >= 3:
            model[parts[0]] = (parts[1], parts[2])
    recs = []
    for i, c in zip(ids, cases):
        m, s = model.get(i, ("no-output", "FAIL driver-no-output"))
        recs.append({"case": c, "impl": impl[i], "model": m, "spec": s})
    return recs, stderr_tail + (q.stderr[-2000:] if q.returncode != 0 else "")


def run_pipeline_impl_only(harness, cases, timeout):
    out = []
    for c in cases:
        try:
            p = subprocess.run([harness], input="0 %s\n" % c, stdout=subprocess.PIPE,
                               stderr=subprocess.PIPE, text=True, timeout=timeout, env=goenv())
            parts = p.stdout.strip().split("\t")
            out.append(parts[1] if len(parts) >= 2 else "crash:process")
        except subprocess.TimeoutExpired:
            out.append("timeout")
    return out


# ----------------------------------------------------------------------------- known findings

def load_known():
    p = os.path.join(VERIF, "known_findings.json")
    if not os.path.exists(p):
        return []
    return json.load(open(p)).get("findings", [])


# ----------------------------------------------------------------------------- hexing

def hx(s):
    if isinstance(s, str):
        s = s.encode()
    return s.hex() if s else "-"


def fbits(x):
    import struct
    return "%x" % struct.unpack("<Q", struct.pack("<d", float(x)))[0]


def ints(l):
    return ",".join(str(int(v)) for v in l) if l else "-"
