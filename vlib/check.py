"""`bin/check Cxx [--tier quick|thorough] [--replay f]` — one run of one property's check."""
import argparse
import hashlib
import importlib
import json
import os
import random
import sys
import time
import traceback

from . import core


# ops whose cases are also executed on the MiniGo programs regenerated from /repo (driver ops `mg.<op>`)
MG_OPS = ("verdict ", "iter.seq ", "jobcounter ", "dist ", "staged ", "ramp ", "gauss ", "scn ", "plan ")


def default_compare(rec):
    if rec["model"] == "-":       # op without a model run: Spec alone decides
        return None
    if rec["impl"] != rec["model"]:
        return "model=%s impl=%s" % (rec["model"], rec["impl"])
    return None


class Ctx:
    """What an extra engine gets to work with."""

    def __init__(self, prop, tier, seed, harness):
        self.prop, self.tier, self.seed, self.harness = prop, tier, seed, harness
        self.rng = random.Random(seed * 1000003 + 17)


def write_replay(pid, payload):
    os.makedirs(os.path.join(core.VERIF, "replays"), exist_ok=True)
    blob = json.dumps(payload, sort_keys=True, indent=1)
    h = hashlib.sha1(blob.encode()).hexdigest()[:12]
    path = os.path.join(core.VERIF, "replays", "%s-%s.json" % (pid, h))
    with open(path, "w") as fh:
        fh.write(blob + "\n")
    return path


def load_prop(pid):
    return importlib.import_module("vlib.props." + pid.lower())


def evaluate(prop, recs):
    """split records into spec failures and mere disagreements"""
    compare = getattr(prop, "compare", default_compare)
    fails, diffs = [], []
    for r in recs:
        if not r["spec"].startswith("ok"):
            r["why"] = r["spec"]
            fails.append(r)
        else:
            d = compare(r)
            if d:
                r["why"] = "correspondence: " + d
                diffs.append(r)
    return fails, diffs


def run_check(pid, tier, seed, replay=None):
    t0 = time.time()
    prop = load_prop(pid)
    level = getattr(prop, "LEVEL", "proof")
    out_lines = []
    violations = []          # list of (replay payload, suffix)
    known_hits = []
    cov = {"obligations": 0, "discharged": 0, "trusted_base": list(core.TRUSTED_BASE),
           "checker_cmd": "cd /verif/lean && lake build %s && lake env lean <#print axioms of every theorem>" % " ".join(prop.PROPS),
           "evaluations": 0, "distinct_nontrivial": 0, "rule": prop.RULE, "samples": [],
           "traces_validated_against_impl": 0, "disagreements_checked": 0}
    known = [k for k in core.load_known() if k.get("property") == pid and k.get("status") == "known"]
    known_sigs = {k["signature"]: k for k in known}
    broken = []              # names of obligations / correspondences that no longer check

    try:
        # ---- 1. facts + proof obligations
        ok, log = core.gen_facts()
        if not ok:
            broken.append({"what": "facts extractor failed on the current tree", "log": log[-1500:]})
        targets = list(prop.PROPS) + list(getattr(prop, "ALSO", [])) + ["f1model"]
        ok, log = core.lake_build(targets)
        thms = []
        if not ok:
            broken.append({"what": "lake build failed (a proof obligation no longer checks)",
                           "log": "\n".join(l for l in log.splitlines() if "error" in l.lower())[-3000:] or log[-3000:]})
            for m in prop.PROPS:
                thms += core.theorems_in(m)
            cov["obligations"] = len(thms)
            # the driver may be stale but usable; try building it alone
            core.lake_build(["f1model"])
        else:
            thms, axioms, alog = core.audit(prop.PROPS)
            cov["obligations"] = len(thms)
            bad = {t: axioms.get(t) for t in thms
                   if t not in axioms or not set(axioms[t]) <= core.ALLOWED_AXIOMS}
            cov["discharged"] = len(thms) - len(bad)
            cov["axioms"] = {t: axioms.get(t, []) for t in thms}
            if bad:
                broken.append({"what": "axiom audit: theorems missing or using disallowed axioms", "detail": bad,
                               "log": alog[-1500:]})
            hits = core.forbidden_hits()
            if hits:
                broken.append({"what": "forbidden construct in lean sources", "detail": hits[:20]})
                cov["discharged"] = 0
            if tier == "thorough" and not replay:
                ok, log = core.leanchecker(prop.PROPS)
                cov["leanchecker"] = "ok" if ok else "FAILED"
                if not ok:
                    broken.append({"what": "leanchecker rejected the compiled proofs", "log": log[-1500:]})

        # ---- 2. harness from the current tree
        harness, hlog = core.build_harness()
        if harness is None:
            broken.append({"what": "harness no longer compiles against /repo (tie broken)",
                           "log": hlog[-3000:]})

        # ---- 3. tie: functional correspondence + spec monitors
        recs = []
        fails, diffs = [], []
        extra_stats = {}
        extra_stats_mg = {}
        if harness is not None and os.path.exists(core.F1MODEL):
            rng = random.Random(seed)
            if replay:
                cases = [c["case"] for c in replay.get("cases", [])]
            else:
                cases = list(prop.corpus()) + list(prop.generate(rng, tier))
                if tier == "thorough":     # several independent generator passes (fresh PRNG streams derived from the seed)
                    for k in range(1, int(os.environ.get("VERIF_THOROUGH_ROUNDS", getattr(prop, "THOROUGH_ROUNDS", 3)))):
                        cases += list(prop.generate(random.Random(seed * 104729 + k), tier))
            if cases:
                recs, err = core.run_pipeline(harness, cases)
                # a case whose *harness* gave up waiting (a scripted step that found no worker parked within its few seconds,
                # a whole-run case cut off by the per-case timeout) says nothing yet: on a starved machine these waits run out
                # although the code is fine. Such cases are run once more, alone, after everything else has finished; only
                # what they show then is judged.
                again = [i for i, r in enumerate(recs) if str(r.get("impl", "")).startswith(("script-timeout", "timeout"))]
                if again and len(again) <= 40:
                    time.sleep(2)
                    for i in again:
                        r2, _ = core.run_pipeline(harness, [recs[i]["case"]])
                        if r2:
                            r2[0]["retried_alone_after"] = recs[i]["impl"]
                            recs[i] = r2[0]
                fails, diffs = evaluate(prop, recs)
            # ---- 3b. the regenerated MiniGo programs, executed on the same cases (translator + semantics vs the real code)
            mirror = ["mg." + c for c in cases if c.startswith(MG_OPS)]
            if mirror:
                cap = 800 if tier == "quick" else 8000
                if len(mirror) > cap:
                    stepm = len(mirror) / float(cap)
                    mirror = [mirror[int(i * stepm)] for i in range(cap)]
                mrecs, _ = core.run_pipeline(harness, mirror)
                mg_bad = [r for r in mrecs if r["impl"] != r["model"]]
                for r in mg_bad:
                    r["why"] = "correspondence: regenerated MiniGo program says %s, implementation says %s" % (r["model"], r["impl"])
                    r["mg"] = True
                diffs += mg_bad
                extra_stats_mg = {"minigo_cases": len(mrecs), "minigo_disagreements": len(mg_bad)}
            else:
                extra_stats_mg = {}
            # ---- 4. further engines (scripted schedules, whole runs)
            if hasattr(prop, "extra") and not (replay and not replay.get("extra")):
                ctx = Ctx(prop, tier, seed, harness)
                ctx.replay = replay
                ex = prop.extra(ctx)
                fails += ex.get("fails", [])
                diffs += ex.get("diffs", [])
                extra_stats = ex.get("stats", {})
                recs += ex.get("recs", [])

            # ---- 5. search when something no longer checks and no failing input is in hand
            if (broken or diffs) and not fails and not replay:
                for k in range(1, 4 if tier == "quick" else 8):
                    rng2 = random.Random(seed * 7919 + k)
                    more = list(prop.generate(rng2, "search"))
                    if not more:
                        break
                    r2, _ = core.run_pipeline(harness, more)
                    f2, d2 = evaluate(prop, r2)
                    cov["disagreements_checked"] += len(d2)
                    recs += r2
                    if f2:
                        fails += f2
                        break

        # ---- 6. classify
        psig = getattr(prop, "signature", lambda r: r["case"])
        sig = lambda r: r["case"] if r.get("mg") else psig(r)
        new_fails = []
        for r in fails:
            s = sig(r)
            if s in known_sigs:
                known_hits.append((s, known_sigs[s]))
            else:
                new_fails.append(r)
        new_diffs = []
        for r in diffs:
            s = sig(r)
            if s in known_sigs:
                known_hits.append((s, known_sigs[s]))
            else:
                new_diffs.append(r)

        shrink = getattr(prop, "shrink", None)
        if new_fails:
            r = new_fails[0]
            if shrink and harness:
                try:
                    r = shrink(r, lambda cs: evaluate(prop, core.run_pipeline(harness, cs)[0])[0])
                except Exception:
                    pass
            payload = {"property": pid, "tier": tier, "seed": seed, "kind": "failing-input",
                       "cases": [{k: r.get(k) for k in ("case", "impl", "model", "spec", "why", "script") if k in r}],
                       "extra": bool(r.get("extra")),
                       "other_failing_cases": [x["case"] for x in new_fails[1:6]],
                       "how": "bin/check %s --replay <this file>" % pid}
            violations.append((payload, ""))
        elif broken or new_diffs:
            payload = {"property": pid, "tier": tier, "seed": seed, "kind": "no-failing-input-found",
                       "no_longer_checks": broken + [{"what": "correspondence model/implementation",
                                                      "first_differing_cases": [
                                                          {k: x.get(k) for k in ("case", "impl", "model", "why")}
                                                          for x in new_diffs[:5]]}] if new_diffs else broken,
                       "cases": [{k: x.get(k) for k in ("case", "impl", "model", "spec", "why")} for x in new_diffs[:5]],
                       "how": "bin/check %s --replay <this file>" % pid}
            violations.append((payload, " no-failing-input-found"))

        # ---- 7. coverage
        nontriv = getattr(prop, "nontrivial_key", lambda r: r["case"])
        keys = set()
        for r in recs:
            k = nontriv(r)
            if k is not None:
                keys.add(k)
        cov["evaluations"] = len(recs)
        cov["distinct_nontrivial"] = len(keys)
        cov["disagreements_checked"] += len(diffs)
        cov["traces_validated_against_impl"] = len(recs)
        step = max(1, len(recs) // 6)
        cov["samples"] = [{k: r.get(k) for k in ("case", "impl", "model", "spec")} for r in recs[::step][:8]]
        if not cov["samples"]:
            cov["samples"] = [{"obligations": thms[:10]}]
        cov.update(extra_stats)
        cov.update(extra_stats_mg)
        if hasattr(prop, "distribution"):
            cov["distribution"] = prop.distribution(recs)
    except Exception as e:  # the machinery itself broke: never report that as "held"
        traceback.print_exc()
        payload = {"property": pid, "tier": tier, "seed": seed, "kind": "no-failing-input-found",
                   "no_longer_checks": [{"what": "check machinery raised", "detail": repr(e)}]}
        violations.append((payload, " no-failing-input-found"))

    seen = set()
    for s, k in known_hits:
        if s not in seen:
            seen.add(s)
            print("KNOWN-FINDING: property=%s %s" % (pid, k.get("what", s)))
    rc = 0
    for payload, suffix in violations:
        path = write_replay(pid, payload)
        print("VIOLATION property=%s replay=%s%s" % (pid, path, suffix))
        # (the replay file says it all; these lines are for a log that is read without the file at hand)
        for c in (payload.get("cases") or [])[:3]:
            print("  failing case: %s" % str(c.get("case"))[:400])
            print("    impl: %s" % str(c.get("impl"))[:600])
            print("    why: %s" % str(c.get("why") or c.get("spec"))[:400])
        for b in (payload.get("no_longer_checks") or [])[:3]:
            print("  no longer checks: %s" % json.dumps(b, ensure_ascii=False)[:600])
        rc = 1

    if not replay:
        ev = {"property_id": pid, "tier": tier if tier in ("quick", "thorough") else "quick", "seed": seed,
              "level": level, "coverage": cov,
              "assumptions": list(getattr(prop, "ASSUMPTIONS", [])),
              "wall_s": round(time.time() - t0, 2), "violations": len(violations),
              "known_findings_seen": sorted(seen)}
        os.makedirs(os.path.join(core.VERIF, "evidence"), exist_ok=True)
        with open(os.path.join(core.VERIF, "evidence", pid + ".json"), "w") as fh:
            json.dump(ev, fh, indent=1, sort_keys=True)
            fh.write("\n")
    core.cleanup_scratch()
    if rc == 0:
        print("ok property=%s tier=%s seed=%d obligations=%d/%d cases=%d distinct=%d wall=%.1fs" % (
            pid, tier, seed, cov["discharged"], cov["obligations"], cov["evaluations"],
            cov["distinct_nontrivial"], time.time() - t0))
    return rc


def main(argv=None):
    ap = argparse.ArgumentParser()
    ap.add_argument("property")
    ap.add_argument("--tier", default=os.environ.get("VERIF_TIER", "quick"))
    ap.add_argument("--replay")
    a = ap.parse_args(argv)
    seed = int(os.environ.get("VERIF_SEED", "1"))
    replay = json.load(open(a.replay)) if a.replay else None
    tier = a.tier if a.tier in ("quick", "thorough") else "quick"
    sys.exit(run_check(a.property.upper(), tier, seed, replay))
