module f1verif/facts

go 1.22
