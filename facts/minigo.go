// Translator from the Go source of f1's sequential cores to the MiniGo deep embedding
// (lean/F1Verif/Model/MiniGo.lean). Pure syntax: one case per go/ast node kind, no types (go/types would need
// the module's dependencies loaded); the two places where a type matters are decided from declarations in the same
// package: which struct fields are sync/atomic cells, and which named calls are built-in arithmetic.
// Anything outside the fragment becomes `.unsupported "<text>"`, which the Lean semantics turns into an error — so a
// theorem about the function stops checking instead of silently speaking about something else.
package main

import (
	"bytes"
	"fmt"
	"go/ast"
	"go/parser"
	"go/printer"
	"go/token"
	"path/filepath"
	"strconv"
	"strings"
)

type mgWant struct {
	file, recv, name string
	closure          string // when set: translate the function literal assigned to this variable (body) and the statements before it (init)
	lean             string
}

var mgWants = []mgWant{
	{"internal/run/result.go", "Result", "Failed", "", "result_Failed"},
	{"internal/run/result.go", "Result", "HasDroppedIterations", "", "result_HasDropped"},
	{"internal/progress/stats.go", "Snapshot", "Iterations", "", "snapshot_Iterations"},
	{"internal/progress/stats.go", "Snapshot", "IterationsStarted", "", "snapshot_IterationsStarted"},
	{"internal/workers/pool_manager.go", "PoolManager", "NextIteration", "", "manager_NextIteration"},
	{"internal/workers/pool_manager.go", "PoolManager", "MaxIterationsReached", "", "manager_MaxIterationsReached"},
	{"internal/workers/trigger_pool.go", "jobCounter", "set", "", "jobCounter_set"},
	{"internal/workers/trigger_pool.go", "jobCounter", "none", "", "jobCounter_none"},
	{"internal/workers/trigger_pool.go", "jobCounter", "take", "", "jobCounter_take"},
	{"internal/workers/trigger_pool.go", "TriggerPool", "running", "", "pool_running"},
	{"internal/workers/trigger_pool.go", "TriggerPool", "stop", "", "pool_stop"},
	{"internal/workers/trigger_pool.go", "TriggerPool", "maxIterationsReached", "", "pool_maxIterationsReached"},
	{"internal/progress/average.go", "IterationDurations", "Add", "", "average_Add"},
	{"internal/progress/average.go", "IterationDurations", "Update", "", "average_Update"},
	{"internal/progress/average.go", "IterationDurations", "Reset", "", "average_Reset"},
	{"internal/progress/average.go", "IterationDurations", "average", "", "average_average"},
	{"internal/progress/average.go", "IterationDurations", "drain", "", "average_drain"},
	{"internal/trigger/api/iteration_distribution.go", "", "withRandomDistribution", "distributedRateFn", "dist_random"},
	{"internal/trigger/api/iteration_distribution.go", "", "withRegularDistribution", "distributedRateFn", "dist_regular"},
	{"internal/trigger/api/iteration_jitter.go", "", "WithJitter", "return", "jitter"},
	{"internal/trigger/ramp/ramp_rate.go", "", "CalculateRampRate", "rateFn", "ramp_rateFn"},
	{"internal/trigger/staged/calculator.go", "RateCalculator", "Rate", "", "staged_Rate"},
	{"internal/trigger/gaussian/gaussian_rate.go", "Calculator", "For", "", "gauss_For"},
	{"internal/raterun/runner.go", "schedules", "start", "", "schedules_start"},
	{"internal/raterun/runner.go", "schedules", "currentFrequency", "", "schedules_currentFrequency"},
	{"internal/raterun/runner.go", "schedules", "startFirst", "", "schedules_startFirst"},
	{"internal/raterun/runner.go", "schedules", "startNext", "", "schedules_startNext"},
	{"internal/raterun/runner.go", "schedules", "stop", "", "schedules_stop"},
	{"internal/raterun/runner.go", "Runner", "Stop", "", "runner_Stop"},
	{"internal/raterun/runner.go", "Runner", "Restart", "", "runner_Restart"},
	{"internal/workers/active_scenario.go", "ActiveScenario", "Run", "", "active_Run"},
	{"internal/workers/active_scenario.go", "ActiveScenario", "Setup", "", "active_Setup"},
	{"internal/workers/active_scenario.go", "ActiveScenario", "RecordDroppedIteration", "", "active_RecordDropped"},
	{"pkg/f1/testing/t.go", "T", "Fail", "", "t_Fail"},
	{"pkg/f1/testing/t.go", "T", "FailNow", "", "t_FailNow"},
	{"pkg/f1/testing/t.go", "T", "Reset", "", "t_Reset"},
	{"pkg/f1/testing/t.go", "T", "Failed", "", "t_Failed"},
	{"pkg/f1/testing/t.go", "T", "TeardownFailed", "", "t_TeardownFailed"},
	{"internal/trigger/file/file_parser.go", "ConfigFile", "validateCommonFields", "", "file_validateCommonFields"},
	{"internal/trigger/file/file_parser.go", "Stage", "validateCommonFieldsOfStage", "", "file_validateCommonFieldsOfStage"},
	{"internal/trigger/file/file_parser.go", "Stage", "validateConstantStage", "", "file_validateConstantStage"},
	{"internal/trigger/file/file_parser.go", "Stage", "validateRampStage", "", "file_validateRampStage"},
	{"internal/trigger/file/file_parser.go", "Stage", "validateStagedStage", "", "file_validateStagedStage"},
	{"internal/trigger/file/file_parser.go", "Stage", "validateGaussianStage", "", "file_validateGaussianStage"},
	{"internal/trigger/file/file_parser.go", "Stage", "validateUsersStage", "", "file_validateUsersStage"},
	{"pkg/f1/f1_scenarios.go", "", "CombineScenarios", "return", "combine_setup"},
	{"pkg/f1/f1_scenarios.go", "", "CombineScenarios", "return/return", "combine_iter"},
	{"internal/trigger/file/file_parser.go", "", "ParseConfigFile", "", "file_ParseConfigFile"},
	{"internal/trigger/file/stages_worker.go", "", "newStagesWorker", "return", "file_stagesWorker"},
	{"internal/trigger/file/file_rate.go", "", "newDryRun", "return", "file_dryRun"},
	{"internal/workers/trigger_pool.go", "TriggerPool", "sendJobsForExecution", "", "pool_sendJobs"},
	{"internal/workers/trigger_pool.go", "TriggerPool", "Trigger", "", "pool_Trigger"},
	{"internal/workers/trigger_pool.go", "TriggerPool", "waitForNewJobs", "", "pool_waitForNewJobs"},
	{"internal/workers/trigger_pool.go", "TriggerPool", "run", "", "pool_run"},
	{"internal/workers/continuous_pool.go", "ContinuousPool", "startWorker", "", "cpool_startWorker"},
	{"internal/workers/continuous_pool.go", "ContinuousPool", "Start", "", "cpool_Start"},
	{"internal/workers/trigger_pool.go", "TriggerPool", "Start", "", "pool_Start"},
	{"internal/workers/continuous_pool.go", "ContinuousPool", "maxIterationsReached", "", "cpool_maxIterationsReached"},
	{"internal/run/run_cmd.go", "", "runCmdExecute", "return", "cmd_execute"},
	{"internal/trigger/staged/calculator.go", "RateCalculator", "add", "", "staged_add"},
	{"internal/trigger/staged/calculator.go", "RateCalculator", "MaxDuration", "", "staged_MaxDuration"},
	{"internal/metrics/result.go", "", "Result", "", "metrics_Result"},
	{"internal/run/views/result.go", "ResultData", "Log", "", "views_Result_Log"},
	{"internal/run/views/progress.go", "ProgressData", "Log", "", "views_Progress_Log"},
	{"internal/run/result.go", "Result", "Summary", "", "result_Summary"},
	{"internal/run/result.go", "Result", "Progress", "", "result_Progress"},
	{"internal/run/result.go", "Result", "SnapshotProgress", "", "result_SnapshotProgress"},
	{"internal/run/result.go", "Result", "GetTotals", "", "result_GetTotals"},
	{"internal/run/result.go", "Result", "Snapshot", "", "result_Snapshot"},
	{"internal/run/result.go", "Result", "AddError", "", "result_AddError"},
	{"pkg/f1/profiling.go", "profiling", "start", "", "profiling_start"},
	{"pkg/f1/profiling.go", "profiling", "stop", "", "profiling_stop"},
	{"pkg/f1/testing/t.go", "T", "teardown", "", "t_teardown"},
	{"pkg/f1/testing/t.go", "T", "Cleanup", "", "t_Cleanup"},
	{"pkg/f1/testing/t.go", "", "handlePanic", "", "t_handlePanic"},
	{"pkg/f1/testing/t.go", "", "CheckResults", "", "t_CheckResults"},
	{"internal/progress/stats.go", "Stats", "Record", "", "stats_Record"},
	{"internal/progress/stats.go", "Stats", "Snapshot", "", "stats_Snapshot"},
	{"internal/progress/stats.go", "Stats", "Total", "", "stats_Total"},
	{"internal/progress/average.go", "DurationStats", "Record", "", "durationStats_Record"},
	{"internal/trigger/api/iteration_worker.go", "", "NewIterationWorker", "return", "api_iterationWorker"},
	{"internal/workers/pool_manager.go", "PoolManager", "WaitForCompletion", "", "manager_WaitForCompletion"},
	{"internal/workers/pool_manager.go", "PoolManager", "WaitForCompletion", "#0", "manager_waiter"},
	{"internal/trigger/file/stages_worker.go", "", "runStage", "#0", "file_stageGoroutine"},
	{"internal/trigger/file/stages_worker.go", "", "setEnvs", "", "file_setEnvs"},
	{"internal/trigger/file/stages_worker.go", "", "unsetEnvs", "", "file_unsetEnvs"},
	{"internal/trigger/file/file_rate.go", "", "Rate", "#0", "file_New"},
	{"internal/run/test_runner.go", "", "NewRun", "", "run_NewRun"},
	{"internal/workers/active_scenario.go", "", "NewActiveScenario", "", "active_New"},
	{"internal/workers/active_scenario.go", "ActiveScenario", "Teardown", "", "active_Teardown"},
	{"internal/trigger/constant/constant_rate.go", "", "CalculateConstantRate", "", "calc_constant"},
	{"internal/trigger/staged/staged_rate.go", "", "CalculateStagedRate", "", "calc_staged"},
	{"internal/trigger/ramp/ramp_rate.go", "", "CalculateRampRate", "", "calc_ramp"},
	{"internal/trigger/api/iteration_distribution.go", "", "NewDistribution", "", "api_NewDistribution"},
	{"internal/trigger/api/iteration_distribution.go", "", "withRegularDistribution", "", "dist_regular_outer"},
	{"internal/trigger/api/iteration_distribution.go", "", "withRandomDistribution", "", "dist_random_outer"},
	{"internal/trigger/gaussian/gaussian_rate.go", "", "CalculateGaussianRate", "", "calc_gaussian"},
	{"internal/raterun/runner.go", "", "New", "", "runner_New"},
	{"internal/raterun/runner.go", "", "newSchedules", "", "schedules_new"},
	{"internal/workers/pool_manager.go", "", "New", "", "manager_New"},
	{"internal/workers/trigger_pool.go", "", "newTriggerPool", "", "pool_new"},
	{"internal/workers/continuous_pool.go", "", "newContinuousPool", "", "cpool_new"},
	{"pkg/f1/f1.go", "F1", "execute", "", "f1_execute"},
	{"pkg/f1/f1.go", "", "newSignalContext", "", "f1_newSignalContext"},
	{"pkg/f1/f1.go", "", "newSignalContext", "#0", "f1_signalLoop"},
	{"internal/workers/trigger_pool.go", "TriggerPool", "Start", "#0", "pool_stopper"},
	{"internal/workers/continuous_pool.go", "ContinuousPool", "Start", "#0", "cpool_watcher"},
	{"internal/trigger/file/stages_worker.go", "", "runStage", "", "file_runStage"},
	{"internal/trigger/users/users_rate.go", "", "NewWorker", "return", "users_NewWorker"},
	{"internal/trigger/users/users_rate.go", "", "Rate", "#0/trigger", "users_trigger"},
	{"internal/raterun/runner.go", "Runner", "Start", "#0", "runner_loop"},
	{"internal/run/test_runner.go", "", "newProgressRunner", "#0", "run_progressTick"},
	{"internal/run/test_runner.go", "", "newProgressRunner", "#0/#0", "run_progressWarn"},
	{"internal/run/test_runner.go", "Run", "Do", "#0", "run_metricsLoop"},
	{"internal/run/test_runner.go", "Run", "run", "", "run_run"},
	{"internal/run/test_runner.go", "Run", "Do", "", "run_Do"},
	{"internal/run/test_runner.go", "Run", "teardownActiveScenario", "", "run_teardown"},
	{"internal/run/test_runner.go", "Run", "reportSetupFailure", "", "run_reportSetupFailure"},
	{"internal/run/test_runner.go", "Run", "pushMetrics", "", "run_pushMetrics"},
	{"internal/run/test_runner.go", "Run", "printSummary", "", "run_printSummary"},
	{"internal/run/test_runner.go", "Run", "fail", "", "run_fail"},
}

var timeConsts = map[string]string{"Nanosecond": "1", "Microsecond": "1000", "Millisecond": "1000000",
	"Second": "1000000000", "Minute": "60000000000", "Hour": "3600000000000"}

// method names that are effects (trace only) when used as statements
var effectMethods = map[string]bool{"Lock": true, "Unlock": true, "RLock": true, "RUnlock": true, "Broadcast": true,
	"Wait": true, "Done": true, "At": true, "Signal": true}

// niladic methods with a fixed arithmetic meaning, and calls with arguments that are built-in arithmetic
var builtin1 = map[string]bool{"Milliseconds": true, "IsZero": true, "Nanoseconds": true}
var builtin2 = map[string]bool{"Sub": true, "Add": true, "Before": true, "After": true, "Truncate": true}
var mathFns = map[string]int{"math.Ceil": 1, "math.Floor": 1, "math.Round": 1, "math.Max": 2, "math.Min": 2}

// functions whose result is not a function of the program state: oracles
var oracle0 = map[string]bool{"rand.Float64": true, "time.Now": true, "xtime.NanoTime": true}

// functions of pkg/f1/testing whose body calls recover(): deferring one of them ends a panic of the deferring function
var recoverers = map[string]bool{}

func findRecoverers(repo string) {
	recoverers = map[string]bool{}
	matches, _ := filepath.Glob(filepath.Join(repo, "pkg/f1/testing", "*.go"))
	for _, m := range matches {
		if strings.HasSuffix(m, "_test.go") {
			continue
		}
		f, err := parser.ParseFile(token.NewFileSet(), m, nil, 0)
		if err != nil {
			continue
		}
		for _, d := range f.Decls {
			fd, ok := d.(*ast.FuncDecl)
			if !ok || fd.Body == nil || fd.Recv != nil {
				continue
			}
			ast.Inspect(fd.Body, func(n ast.Node) bool {
				if _, isLit := n.(*ast.FuncLit); isLit {
					return false
				}
				if call, ok := n.(*ast.CallExpr); ok {
					if id, ok := call.Fun.(*ast.Ident); ok && id.Name == "recover" && id.Obj == nil {
						recoverers[fd.Name.Name] = true
					}
				}
				return true
			})
		}
	}
}

type mgCtx struct {
	fset       *token.FileSet
	atomics    map[string]bool     // struct field names declared with a sync/atomic type in this package
	rename     map[string]string   // receiver / parameters → recv, arg0, …
	alias      map[string]string   // x := a.b.c (never reassigned)  →  x stands for a.b.c
	opaque     map[string]bool     // locals holding the result of an external call: their fields are projections (`.field`)
	inLoop     int                 // > 0 inside a loop body: niladic methods are read again every time (oracles)
	loopN      *int                // numbering of the hidden index variables of range loops
	selN       *int                // numbering of the select statements of the function
	body       ast.Node            // the function being translated
	pkgDir     string              // directory of the file, relative to the repository
	pkgDecls   []ast.Decl          // the declarations of the file being translated
	structs    map[string][]string // struct types of the package: their field names
	structVars map[string][]string // parameters of such a type: their fields
}

// the identifier a selector chain is rooted in (nil if it is not one)
func rootIdent(e ast.Expr) *ast.Ident {
	switch x := e.(type) {
	case *ast.Ident:
		return x
	case *ast.SelectorExpr:
		return rootIdent(x.X)
	case *ast.ParenExpr:
		return rootIdent(x.X)
	case *ast.StarExpr:
		return rootIdent(x.X)
	}
	return nil
}

func rootName(e ast.Expr) string {
	if r := rootIdent(e); r != nil {
		return r.Name
	}
	return ""
}

// the variables of range loops: calling one is a call of a function *value* taken from a slice (a dynamic call, logged
// with the function as first argument). Calls of function-typed parameters stay oracles named after the parameter.
var dynVars = map[string]bool{}

// locals that hold a copy of a slice element (`cur := xs[i]`): their fields are copied one by one, and a call of a
// function-typed field (`cur.Rate(t)`) is a dynamic call
var structLocals = map[string]bool{}

// struct fields that hold the user's functions: calling through one is a dynamic call (it may panic)
var funcFields = map[string]bool{"RunFn": true, "ScenarioFn": true}

func isFuncValue(e ast.Expr) bool {
	if sel, ok := e.(*ast.SelectorExpr); ok {
		if id, ok := sel.X.(*ast.Ident); ok && structLocals[id.Name] {
			return true
		}
		if funcFields[sel.Sel.Name] && rootIdent(sel) != nil {
			return true
		}
	}
	id, ok := e.(*ast.Ident)
	return ok && id.Obj != nil && id.Obj.Kind == ast.Var && dynVars[id.Name]
}

// the fields of the local `name` that the function reads
func fieldsUsed(body ast.Node, name string) []string {
	seen := map[string]bool{}
	var out []string
	methods := map[*ast.SelectorExpr]bool{} // x.m(…): a method call, not a field read
	ast.Inspect(body, func(n ast.Node) bool {
		if call, ok := n.(*ast.CallExpr); ok {
			if sel, ok := call.Fun.(*ast.SelectorExpr); ok {
				if id, ok := sel.X.(*ast.Ident); ok && id.Name == name && !funcFields[sel.Sel.Name] && sel.Sel.Name != "Rate" {
					methods[sel] = true
				}
			}
		}
		return true
	})
	ast.Inspect(body, func(n ast.Node) bool {
		if sel, ok := n.(*ast.SelectorExpr); ok && !methods[sel] {
			if id, ok := sel.X.(*ast.Ident); ok && id.Name == name && !seen[sel.Sel.Name] {
				seen[sel.Sel.Name] = true
				out = append(out, sel.Sel.Name)
			}
		}
		return true
	})
	return out
}

// does e contain a call of a local function value?
func dynCallIn(e ast.Expr) *ast.CallExpr {
	var found *ast.CallExpr
	ast.Inspect(e, func(n ast.Node) bool {
		if call, ok := n.(*ast.CallExpr); ok && isFuncValue(call.Fun) && found == nil {
			found = call
		}
		return true
	})
	return found
}

func (c *mgCtx) exprList(es []ast.Expr) string {
	var parts []string
	for _, e := range es {
		parts = append(parts, c.expr(e))
	}
	return "[" + strings.Join(parts, ", ") + "]"
}

func leanStrList(xs []string) string {
	var parts []string
	for _, x := range xs {
		parts = append(parts, leanStr(x))
	}
	return "[" + strings.Join(parts, ", ") + "]"
}

// `f(args)` for a local function value f: logged under "$dyn" with f as first argument; the oracle "$dyn.panics"
// decides whether the callee panics
func (c *mgCtx) dynCall(dsts []string, call *ast.CallExpr) string {
	args := append([]ast.Expr{call.Fun}, call.Args...)
	r := "(.callS " + leanStrList(dsts) + " \"$dyn\" \"$dyn.panics\" " + c.exprList(args) + ")"
	if sel, ok := call.Fun.(*ast.SelectorExpr); ok && funcFields[sel.Sel.Name] {
		// the user's function: where the call starts is marked among the effects (clock reads around it are effects too)
		return "(.seq (.effect " + leanStr(c.path(sel)+"(…)") + ") " + r + ")"
	}
	return r
}

// the callee of a static call as (name, receiver-as-first-argument?)
func (c *mgCtx) staticCallee(call *ast.CallExpr) (string, []ast.Expr, bool) {
	switch f := call.Fun.(type) {
	case *ast.Ident:
		if isFuncValue(f) {
			return "", nil, false
		}
		return f.Name, call.Args, true
	case *ast.SelectorExpr:
		if id, ok := f.X.(*ast.Ident); ok && id.Obj == nil && c.rename[id.Name] == "" && c.alias[id.Name] == "" {
			return id.Name + "." + f.Sel.Name, call.Args, true // package function
		}
		if c.path(f.X) != "" {
			return f.Sel.Name, append([]ast.Expr{f.X}, call.Args...), true // method: the receiver is the first argument
		}
		if inner, ok := f.X.(*ast.CallExpr); ok && len(inner.Args) == 0 {
			// x.A().B(args): the receiver is itself a niladic call
			return f.Sel.Name, append([]ast.Expr{inner}, call.Args...), true
		}
	}
	return "", nil, false
}

func (c *mgCtx) text(n ast.Node) string {
	var buf bytes.Buffer
	printer.Fprint(&buf, c.fset, n)
	return strings.Join(strings.Fields(buf.String()), " ")
}

// path of a selector chain rooted in an identifier, "" if it is not one
func (c *mgCtx) path(e ast.Expr) string {
	switch x := e.(type) {
	case *ast.Ident:
		if r, ok := c.rename[x.Name]; ok {
			return r
		}
		if a, ok := c.alias[x.Name]; ok {
			return a
		}
		return x.Name
	case *ast.SelectorExpr:
		p := c.path(x.X)
		if p == "" {
			return ""
		}
		return p + "." + x.Sel.Name
	case *ast.ParenExpr:
		return c.path(x.X)
	case *ast.StarExpr:
		return c.path(x.X)
	case *ast.UnaryExpr:
		if x.Op == token.AND {
			return c.path(x.X)
		}
	}
	return ""
}

func lastField(p string) string {
	if i := strings.LastIndex(p, "."); i >= 0 {
		return p[i+1:]
	}
	return p
}

var binOps = map[token.Token]string{token.ADD: "add", token.SUB: "sub", token.MUL: "mul", token.QUO: "quo",
	token.REM: "rem", token.LSS: "lt", token.LEQ: "le", token.GTR: "gt", token.GEQ: "ge", token.EQL: "eq",
	token.NEQ: "ne", token.LAND: "land", token.LOR: "lor"}

func (c *mgCtx) unsupportedE(n ast.Node) string { return "(.unsupported " + leanStr(c.text(n)) + ")" }

func leanInt(s string) string {
	s = strings.ReplaceAll(s, "_", "")
	if v, err := strconv.ParseInt(s, 0, 64); err == nil {
		if v < 0 {
			return fmt.Sprintf("(.int (%d))", v)
		}
		return fmt.Sprintf("(.int %d)", v)
	}
	return ""
}

func leanFloatLit(s string) string {
	s = strings.ReplaceAll(s, "_", "")
	mant, exp := s, 0
	if i := strings.IndexAny(s, "eE"); i >= 0 {
		e, err := strconv.Atoi(s[i+1:])
		if err != nil {
			return ""
		}
		mant, exp = s[:i], e
	}
	if i := strings.Index(mant, "."); i >= 0 {
		frac := mant[i+1:]
		mant = mant[:i] + frac
		exp -= len(frac)
	}
	mant = strings.TrimLeft(mant, "0")
	if mant == "" {
		mant = "0"
	}
	for _, r := range mant {
		if r < '0' || r > '9' {
			return ""
		}
	}
	if exp < 0 {
		return fmt.Sprintf("(.flit %s (%d))", mant, exp)
	}
	return fmt.Sprintf("(.flit %s %d)", mant, exp)
}

func (c *mgCtx) expr(e ast.Expr) string {
	switch x := e.(type) {
	case *ast.ParenExpr:
		return c.expr(x.X)
	case *ast.BasicLit:
		switch x.Kind {
		case token.INT:
			if s := leanInt(x.Value); s != "" {
				return s
			}
		case token.FLOAT:
			if s := leanFloatLit(x.Value); s != "" {
				return s
			}
		case token.STRING:
			return ".fresh" // an opaque non-nil value: no program in the fragment looks inside a string
		}
		return c.unsupportedE(e)
	case *ast.Ident:
		switch x.Name {
		case "true":
			return "(.bool true)"
		case "false":
			return "(.bool false)"
		case "nil":
			return ".nil"
		}
		return "(.var " + leanStr(c.path(x)) + ")"
	case *ast.SelectorExpr:
		if ix, ok := x.X.(*ast.IndexExpr); ok {
			// x.items[i].Field
			if p := c.path(ix.X); p != "" {
				return "(.index " + leanStr(p) + " " + c.expr(ix.Index) + " " + leanStr(x.Sel.Name) + ")"
			}
			return c.unsupportedE(e)
		}
		if id, ok := x.X.(*ast.Ident); ok && id.Obj == nil {
			if id.Name == "time" {
				if v, ok := timeConsts[x.Sel.Name]; ok {
					return "(.int " + v + ")"
				}
			}
			if id.Name == "math" && x.Sel.Name == "Pi" {
				return "(.flit 3141592653589793 (-15))"
			}
		}
		if r := rootIdent(x); r != nil && c.opaque[r.Name] {
			return "(.field " + c.expr(x.X) + " " + leanStr(x.Sel.Name) + ")"
		}
		if p := c.path(x); p != "" {
			return "(.var " + leanStr(p) + ")"
		}
		return c.unsupportedE(e)
	case *ast.StarExpr:
		return c.expr(x.X)
	case *ast.UnaryExpr:
		switch x.Op {
		case token.NOT:
			return "(.not " + c.expr(x.X) + ")"
		case token.SUB:
			if bl, ok := x.X.(*ast.BasicLit); ok && bl.Kind == token.INT {
				if s := leanInt("-" + bl.Value); s != "" {
					return s
				}
			}
			return "(.neg " + c.expr(x.X) + ")"
		case token.ADD:
			return c.expr(x.X)
		case token.AND:
			if _, ok := x.X.(*ast.CompositeLit); ok {
				return ".fresh"
			}
			return c.expr(x.X)
		}
		return c.unsupportedE(e)
	case *ast.BinaryExpr:
		if x.Op == token.EQL || x.Op == token.NEQ {
			// s == "" / s != "": the length of the string against 0
			for _, pair := range [][2]ast.Expr{{x.X, x.Y}, {x.Y, x.X}} {
				if bl, ok := pair[1].(*ast.BasicLit); ok && bl.Kind == token.STRING && (bl.Value == `""` || bl.Value == "``") {
					if id, isId := pair[0].(*ast.Ident); isId && dynVars[id.Name] {
						// the element a range loop is at: its length is a projection of the value
						return "(.bin ." + binOps[x.Op] + " (.field (.var " + leanStr(c.path(id)) + ") \"len()\") (.int 0))"
					}
					if p := c.path(pair[0]); p != "" {
						return "(.bin ." + binOps[x.Op] + " (.len " + leanStr(p) + ") (.int 0))"
					}
				}
			}
		}
		if op, ok := binOps[x.Op]; ok {
			return "(.bin ." + op + " " + c.expr(x.X) + " " + c.expr(x.Y) + ")"
		}
		return c.unsupportedE(e)
	case *ast.IndexExpr:
		// a slice of scalars: x.items[i]
		if p := c.path(x.X); p != "" {
			return "(.index " + leanStr(p) + " " + c.expr(x.Index) + " \"\")"
		}
		return c.unsupportedE(e)
	case *ast.FuncLit:
		return ".fresh"
	case *ast.CompositeLit:
		return ".fresh"
	case *ast.CallExpr:
		return c.call(x)
	}
	return c.unsupportedE(e)
}

// niladic methods used for their result that are not reads of the environment: the call itself matters
var effectfulNiladic = map[string]bool{"stop": true}

func (c *mgCtx) call(x *ast.CallExpr) string {
	// conversions
	switch f := x.Fun.(type) {
	case *ast.Ident:
		if f.Name == "len" && len(x.Args) == 1 {
			if p := c.path(x.Args[0]); p != "" {
				return "(.len " + leanStr(p) + ")"
			}
		}
		if f.Name == "make" && len(x.Args) >= 1 {
			if _, isChan := x.Args[0].(*ast.ChanType); isChan {
				return ".fresh" // a new channel
			}
			if _, isSlice := x.Args[0].(*ast.ArrayType); isSlice && len(x.Args) == 3 {
				if bl, ok := x.Args[1].(*ast.BasicLit); ok && bl.Value == "0" {
					return ".fresh" // make([]T, 0, n): a new, empty slice (its elements arrive by append)
				}
			}
		}
		switch f.Name {
		case "int", "int64", "uint64", "float64", "int32", "uint32", "uint":
			if len(x.Args) == 1 {
				return "(.conv " + leanStr(f.Name) + " " + c.expr(x.Args[0]) + ")"
			}
		}
	case *ast.SelectorExpr:
		if id, ok := f.X.(*ast.Ident); ok && id.Obj == nil && id.Name == "time" && f.Sel.Name == "Duration" && len(x.Args) == 1 {
			return "(.conv \"time.Duration\" " + c.expr(x.Args[0]) + ")"
		}
	}
	sel, isSel := x.Fun.(*ast.SelectorExpr)
	if isSel {
		recv := c.path(sel.X)
		m := sel.Sel.Name
		// package-level functions: math.*, rand.*
		if id, ok := sel.X.(*ast.Ident); ok && id.Obj == nil && c.rename[id.Name] == "" && c.alias[id.Name] == "" {
			q := id.Name + "." + m
			if n, ok := mathFns[q]; ok && len(x.Args) == n {
				if n == 1 {
					return "(.builtin1 " + leanStr(q) + " " + c.expr(x.Args[0]) + ")"
				}
				return "(.builtin2 " + leanStr(q) + " " + c.expr(x.Args[0]) + " " + c.expr(x.Args[1]) + ")"
			}
			if q == "fmt.Errorf" || q == "errors.New" {
				return ".fresh" // a new non-nil error
			}
			if len(x.Args) == 0 {
				return "(.call0 " + leanStr(q) + ")"
			}
			if len(x.Args) == 1 {
				return "(.call1 " + leanStr(q) + " " + c.expr(x.Args[0]) + ")"
			}
			if len(x.Args) == 2 {
				return "(.call2 " + leanStr(q) + " " + c.expr(x.Args[0]) + " " + c.expr(x.Args[1]) + ")"
			}
			return c.unsupportedE(x)
		}
		if recv != "" && c.atomics[lastField(recv)] {
			switch {
			case m == "Load" && len(x.Args) == 0:
				return "(.load " + leanStr(recv) + ")"
			case m == "Swap" && len(x.Args) == 1:
				return "(.swap " + leanStr(recv) + " " + c.expr(x.Args[0]) + ")"
			case m == "Add" && len(x.Args) == 1:
				return "(.addFetch " + leanStr(recv) + " " + c.expr(x.Args[0]) + ")"
			}
			return c.unsupportedE(x)
		}
		if recv != "" {
			switch {
			case len(x.Args) == 0 && builtin1[m]:
				return "(.builtin1 " + leanStr(m) + " (.var " + leanStr(recv) + "))"
			case len(x.Args) == 0 && c.opaque[rootName(sel.X)]:
				return "(.field " + c.expr(sel.X) + " " + leanStr(m+"()") + ")" // a niladic method of a call result: a projection
			case len(x.Args) == 0 && (c.inLoop > 0 || effectfulNiladic[m]):
				return "(.call0 " + leanStr(recv+"."+m) + ")" // read again on every iteration / a call that does something: an oracle, counted
			case len(x.Args) == 0:
				return "(.var " + leanStr(recv+"."+m+"()") + ")" // a niladic method: a read of the environment
			case len(x.Args) == 1 && builtin2[m]:
				return "(.builtin2 " + leanStr(m) + " (.var " + leanStr(recv) + ") " + c.expr(x.Args[0]) + ")"
			case len(x.Args) == 1:
				return "(.call1 " + leanStr(recv+"."+m) + " " + c.expr(x.Args[0]) + ")"
			case len(x.Args) == 2:
				return "(.call2 " + leanStr(recv+"."+m) + " " + c.expr(x.Args[0]) + " " + c.expr(x.Args[1]) + ")"
			}
		}
		// method on a call result: startTime.Add(duration).Before(now)
		if inner, ok := sel.X.(*ast.CallExpr); ok {
			switch {
			case len(x.Args) == 0 && builtin1[m]:
				return "(.builtin1 " + leanStr(m) + " " + c.call(inner) + ")"
			case len(x.Args) == 1 && builtin2[m]:
				return "(.builtin2 " + leanStr(m) + " " + c.call(inner) + " " + c.expr(x.Args[0]) + ")"
			}
		}
		return c.unsupportedE(x)
	}
	if id, ok := x.Fun.(*ast.Ident); ok {
		name := c.path(id)
		switch len(x.Args) {
		case 0:
			return "(.call0 " + leanStr(name) + ")"
		case 1:
			return "(.call1 " + leanStr(name) + " " + c.expr(x.Args[0]) + ")"
		case 2:
			return "(.call2 " + leanStr(name) + " " + c.expr(x.Args[0]) + " " + c.expr(x.Args[1]) + ")"
		}
	}
	return c.unsupportedE(x)
}

// the oracle (a package-level niladic call such as xtime.NanoTime) evaluated inside e, "" if none
func oracleIn(e ast.Expr) string {
	found := ""
	ast.Inspect(e, func(n ast.Node) bool {
		if call, ok := n.(*ast.CallExpr); ok && len(call.Args) == 0 {
			if sel, ok := call.Fun.(*ast.SelectorExpr); ok {
				if id, ok := sel.X.(*ast.Ident); ok && oracle0[id.Name+"."+sel.Sel.Name] {
					found = id.Name + "." + sel.Sel.Name
				}
			}
		}
		return true
	})
	return found
}

func seq(parts []string) string {
	if len(parts) == 0 {
		return ".skip"
	}
	if len(parts) == 1 {
		return parts[0]
	}
	return "(.seq " + parts[0] + "\n  " + seq(parts[1:]) + ")"
}

func (c *mgCtx) unsupportedS(n ast.Node) string { return "(.unsupported " + leanStr(c.text(n)) + ")" }

func (c *mgCtx) block(list []ast.Stmt) string {
	var parts []string
	for _, s := range list {
		parts = append(parts, c.stmt(s))
	}
	return seq(parts)
}

func zeroOf(t ast.Expr) string {
	if id, ok := t.(*ast.Ident); ok {
		switch id.Name {
		case "int", "int64", "uint64", "int32", "uint32", "uint":
			return "(.int 0)"
		case "float64", "float32":
			return "(.flit 0 0)"
		case "bool":
			return "(.bool false)"
		}
	}
	return ".nil"
}

// a call of a package-level function with three or more arguments, used as a value: it becomes a statement of its own
// (`callS`, whose arguments are logged) and the value is read from a temporary
func (c *mgCtx) naryPkgCall(e ast.Expr) (string, []ast.Expr, bool) {
	call, ok := e.(*ast.CallExpr)
	if !ok || len(call.Args) < 3 {
		return "", nil, false
	}
	if fid, isId := call.Fun.(*ast.Ident); isId && fid.Name == "make" {
		return "", nil, false
	}
	if fid, isId := call.Fun.(*ast.Ident); isId {
		// f(a, b, c, …): a function of this package (declared in this file or another one), not a function value
		if c.rename[fid.Name] == "" && c.alias[fid.Name] == "" && (fid.Obj == nil || fid.Obj.Kind == ast.Fun) && !isFuncValue(call.Fun) {
			return fid.Name, call.Args, true
		}
		return "", nil, false
	}
	sel, ok := call.Fun.(*ast.SelectorExpr)
	if !ok {
		return "", nil, false
	}
	id, ok := sel.X.(*ast.Ident)
	if !ok || id.Obj != nil || c.rename[id.Name] != "" || c.alias[id.Name] != "" {
		// x.y.M(a, b, c, …): a method of something this function holds
		if recv := c.path(sel.X); recv != "" && !isFuncValue(call.Fun) {
			return recv + "." + sel.Sel.Name, call.Args, true
		}
		return "", nil, false
	}
	return id.Name + "." + sel.Sel.Name, call.Args, true
}

func (c *mgCtx) callStmt(call *ast.CallExpr, deferred bool) string {
	// func() { … }() — a block with its own deferred calls
	if fl, isLit := call.Fun.(*ast.FuncLit); isLit && len(call.Args) == 0 && !deferred {
		return "(.scope " + c.block(fl.Body.List) + ")"
	}
	if isFuncValue(call.Fun) && !deferred {
		return c.dynCall(nil, call)
	}
	if ix, isIdx := call.Fun.(*ast.IndexExpr); isIdx && !deferred {
		// xs[i](args): a call of a function value taken from a slice
		if c.path(ix.X) != "" {
			return c.dynCall(nil, call)
		}
	}
	if deferred {
		name := ""
		switch f := call.Fun.(type) {
		case *ast.Ident:
			if strings.HasSuffix(c.pkgDir, "pkg/f1/testing") {
				name = f.Name
			}
		case *ast.SelectorExpr:
			if id, ok := f.X.(*ast.Ident); ok && id.Obj == nil && id.Name == "testing" {
				name = f.Sel.Name
			}
		}
		if name != "" && recoverers[name] {
			return "(.deferRecover " + leanStr(c.text(call.Fun)) + ")"
		}
	}
	if id, isId := call.Fun.(*ast.Ident); isId && len(call.Args) >= 1 && deferred && c.rename[id.Name] == "" && id.Name != "close" {
		// defer f(args): the arguments are evaluated now, the call happens when the function leaves
		var parts []string
		for _, a := range call.Args {
			parts = append(parts, "(.eval "+c.expr(a)+")")
		}
		parts = append(parts, "(.deferEffect "+leanStr(id.Name+"(…)")+")")
		return seq(parts)
	}
	if id, isId := call.Fun.(*ast.Ident); isId && len(call.Args) >= 2 && !deferred {
		return "(.callS [] " + leanStr(id.Name) + " \"\" " + c.exprList(call.Args) + ")"
	}
	sel, ok := call.Fun.(*ast.SelectorExpr)
	mk := func(w string) string {
		if deferred {
			return "(.deferEffect " + leanStr(w) + ")"
		}
		return "(.effect " + leanStr(w) + ")"
	}
	if ok {
		recv := c.path(sel.X)
		m := sel.Sel.Name
		if id, isId := sel.X.(*ast.Ident); isId && id.Name == "verifhook" && len(call.Args) == 1 {
			if bl, ok := call.Args[0].(*ast.BasicLit); ok {
				if s, err := strconv.Unquote(bl.Value); err == nil {
					return mk("hook " + s)
				}
			}
		}
		if recv != "" && c.atomics[lastField(recv)] && !deferred {
			switch {
			case m == "Store" && len(call.Args) == 1:
				return "(.store " + leanStr(recv) + " " + c.expr(call.Args[0]) + ")"
			case (m == "Add" || m == "Swap") && len(call.Args) == 1:
				return "(.eval " + c.expr(call) + ")"
			}
			return c.unsupportedS(call)
		}
		if recv != "" && (effectMethods[m] || len(call.Args) == 0) {
			return mk(recv + "." + m)
		}
		if deferred && recv != "" { // a deferred call: its arguments are evaluated now, its effect comes at the end of the scope
			return mk(recv + "." + m)
		}
		if recv != "" && len(call.Args) >= 1 && !deferred {
			var hoisted []string
			args := make([]ast.Expr, len(call.Args))
			copy(args, call.Args)
			for i, a := range args {
				if fn, fargs, ok := c.naryPkgCall(a); ok {
					tmp := "$call" + strconv.Itoa(i)
					hoisted = append(hoisted, "(.callS "+leanStrList([]string{tmp})+" "+leanStr(fn)+" \"\" "+c.exprList(fargs)+")")
					args[i] = &ast.Ident{Name: tmp}
				}
			}
			if len(hoisted) > 0 {
				call2 := *call
				call2.Args = args
				return seq(append(hoisted, c.callStmt(&call2, false)))
			}
			// several arguments: they are evaluated left to right into `$arg.<callee>.<i>`, then the call is an effect
			var parts []string
			for i, a := range call.Args {
				parts = append(parts, "(.assign "+leanStr("$arg."+recv+"."+m+"."+strconv.Itoa(i))+" "+c.expr(a)+")")
			}
			parts = append(parts, mk(recv+"."+m+"(…)"))
			return seq(parts)
		}
		return c.unsupportedS(call)
	}
	if id, ok := call.Fun.(*ast.Ident); ok && len(call.Args) <= 1 {
		if len(call.Args) == 1 {
			return "(.seq (.eval " + c.expr(call.Args[0]) + ") " + mk(c.path(id)+"(…)") + ")"
		}
		return mk(c.path(id))
	}
	return c.unsupportedS(call)
}

// the text of a channel expression in a select, with the receiver and the parameters renamed (recv, arg0, …)
func (c *mgCtx) src(e ast.Expr) string {
	if p := c.path(e); p != "" {
		return p
	}
	if call, ok := e.(*ast.CallExpr); ok {
		var as []string
		for _, a := range call.Args {
			as = append(as, c.src(a))
		}
		return c.src(call.Fun) + "(" + strings.Join(as, ", ") + ")"
	}
	var b strings.Builder
	_ = printer.Fprint(&b, c.fset, e)
	return b.String()
}

// the body of a loop in which `if cond { continue }` statements stand at the top level: what follows such a statement runs
// only when cond is false (the loop's own step - index increment, post statement - is appended by the caller and always runs)
func (c *mgCtx) loopBody(list []ast.Stmt) string {
	for i, st := range list {
		ifs, ok := st.(*ast.IfStmt)
		if !ok || ifs.Else != nil || ifs.Init != nil || len(ifs.Body.List) != 1 {
			continue
		}
		br, ok := ifs.Body.List[0].(*ast.BranchStmt)
		if !ok || br.Tok != token.CONTINUE || br.Label != nil {
			continue
		}
		rest := "(.ite " + c.expr(ifs.Cond) + "\n  .skip\n  " + c.loopBody(list[i+1:]) + ")"
		if i == 0 {
			return rest
		}
		return seq([]string{c.block(list[:i]), rest})
	}
	return c.block(list)
}

func (c *mgCtx) assignTo(lhs ast.Expr, rhs string) string {
	if id, ok := lhs.(*ast.Ident); ok && id.Name == "_" {
		return "(.eval " + rhs + ")"
	}
	p := c.path(lhs)
	if p == "" {
		return c.unsupportedS(lhs)
	}
	return "(.assign " + leanStr(p) + " " + rhs + ")"
}

func (c *mgCtx) stmt(s ast.Stmt) string {
	switch x := s.(type) {
	case *ast.BlockStmt:
		return c.block(x.List)
	case *ast.EmptyStmt:
		return ".skip"
	case *ast.SendStmt:
		if p := c.path(x.Chan); p != "" {
			return "(.seq (.eval " + c.expr(x.Value) + ") (.effect " + leanStr("send "+p) + "))"
		}
		return c.unsupportedS(s)
	case *ast.ExprStmt:
		if call, ok := x.X.(*ast.CallExpr); ok {
			return c.callStmt(call, false)
		}
		if u, ok := x.X.(*ast.UnaryExpr); ok && u.Op == token.ARROW { // <-ch: wait for the channel
			if p := c.path(u.X); p != "" {
				return "(.effect " + leanStr("receive "+p) + ")"
			}
			if _, isCall := u.X.(*ast.CallExpr); isCall { // <-x.Done(): the channel is the result of a call
				return "(.effect " + leanStr("receive "+c.src(u.X)) + ")"
			}
		}
		return c.unsupportedS(s)
	case *ast.DeferStmt:
		return c.callStmt(x.Call, true)
	case *ast.GoStmt:
		// `go f(args)` / `go func() { … }()`: the arguments are evaluated now; that a goroutine is started here is an effect
		// (what the goroutine does is not part of this function's sequential meaning)
		if _, isLit := x.Call.Fun.(*ast.FuncLit); isLit {
			return "(.effect \"go func\")"
		}
		var parts []string
		for _, a := range x.Call.Args {
			parts = append(parts, "(.eval "+c.expr(a)+")")
		}
		name := c.path(x.Call.Fun)
		if name == "" {
			return c.unsupportedS(s)
		}
		parts = append(parts, "(.effect "+leanStr("go "+name)+")")
		return seq(parts)
	case *ast.IncDecStmt:
		op := "add"
		if x.Tok == token.DEC {
			op = "sub"
		}
		return c.assignTo(x.X, "(.bin ."+op+" "+c.expr(x.X)+" (.int 1))")
	case *ast.AssignStmt:
		if len(x.Lhs) == len(x.Rhs) && len(x.Lhs) > 1 && (x.Tok == token.ASSIGN || x.Tok == token.DEFINE) {
			// parallel assignment: every right-hand side is evaluated before anything is assigned
			var parts []string
			for i, r := range x.Rhs {
				parts = append(parts, "(.assign "+leanStr("$t"+strconv.Itoa(i))+" "+c.expr(r)+")")
			}
			for i, l := range x.Lhs {
				parts = append(parts, c.assignTo(l, "(.var "+leanStr("$t"+strconv.Itoa(i))+")"))
			}
			return seq(parts)
		}
		if len(x.Lhs) >= 2 && len(x.Rhs) == 1 && (x.Tok == token.ASSIGN || x.Tok == token.DEFINE) {
			if ta, isTA := x.Rhs[0].(*ast.TypeAssertExpr); isTA && len(x.Lhs) == 2 && ta.Type != nil {
				// v, ok := x.(T)
				a, b := c.path(x.Lhs[0]), c.path(x.Lhs[1])
				if a == "" || b == "" {
					return c.unsupportedS(s)
				}
				return "(.callS " + leanStrList([]string{a, b}) + " " + leanStr("assert."+c.text(ta.Type)) + " \"\" [" + c.expr(ta.X) + "])"
			}
			// several results of one call
			call, ok := x.Rhs[0].(*ast.CallExpr)
			if !ok {
				return c.unsupportedS(s)
			}
			var dsts []string
			for _, l := range x.Lhs {
				p := c.path(l)
				if p == "" {
					return c.unsupportedS(s)
				}
				dsts = append(dsts, p)
			}
			if isFuncValue(call.Fun) {
				return c.dynCall(dsts, call)
			}
			if fn, args, ok := c.staticCallee(call); ok {
				var pre []string
				for _, a := range args {
					cl, isLit := a.(*ast.CompositeLit)
					if !isLit {
						continue
					}
					// T{F: e, …} as an argument: its fields become observable as `$lit.<T>.<F>`
					for _, el := range cl.Elts {
						if kv, ok := el.(*ast.KeyValueExpr); ok {
							if k, ok := kv.Key.(*ast.Ident); ok {
								pre = append(pre, "(.assign "+leanStr("$lit."+c.text(cl.Type)+"."+k.Name)+" "+c.expr(kv.Value)+")")
							}
						}
					}
				}
				r := "(.callS " + leanStrList(dsts) + " " + leanStr(fn) + " \"\" " + c.exprList(args) + ")"
				return seq(append(pre, r))
			}
			return c.unsupportedS(s)
		}
		if len(x.Lhs) != 1 || len(x.Rhs) != 1 {
			return c.unsupportedS(s)
		}
		if fn, fargs, ok := c.naryPkgCall(x.Rhs[0]); ok && (x.Tok == token.ASSIGN || x.Tok == token.DEFINE) {
			if p := c.path(x.Lhs[0]); p != "" {
				return "(.callS " + leanStrList([]string{p}) + " " + leanStr(fn) + " \"\" " + c.exprList(fargs) + ")"
			}
		}
		if call, ok := x.Rhs[0].(*ast.CallExpr); ok && x.Tok != token.ADD_ASSIGN {
			if id, ok := call.Fun.(*ast.Ident); ok && id.Name == "append" && id.Obj == nil && len(call.Args) == 2 {
				// xs = append(xs, e)
				arr := c.path(x.Lhs[0])
				if arr == "" || arr != c.path(call.Args[0]) {
					return c.unsupportedS(s)
				}
				if dc, ok := call.Args[1].(*ast.CallExpr); ok && isFuncValue(dc.Fun) {
					return "(.seq " + c.dynCall([]string{"$elem"}, dc) + " (.append " + leanStr(arr) + " (.var \"$elem\")))"
				}
				if dynCallIn(call.Args[1]) != nil {
					return c.unsupportedS(s)
				}
				if vid, ok := call.Args[1].(*ast.Ident); ok && c.structVars[vid.Name] != nil {
					// a struct value: appended field by field
					var fs []string
					for _, f := range c.structVars[vid.Name] {
						fs = append(fs, "("+leanStr(f)+", (.var "+leanStr(c.path(vid)+"."+f)+"))")
					}
					return "(.appendRec " + leanStr(arr) + " [" + strings.Join(fs, ", ") + "])"
				}
				return "(.append " + leanStr(arr) + " " + c.expr(call.Args[1]) + ")"
			}
			if isFuncValue(call.Fun) {
				if p := c.path(x.Lhs[0]); p != "" {
					return c.dynCall([]string{p}, call)
				}
				return c.unsupportedS(s)
			}
		}
		switch x.Tok {
		case token.ASSIGN, token.DEFINE:
			if id, ok := x.Lhs[0].(*ast.Ident); ok && x.Tok == token.DEFINE {
				if _, aliased := c.alias[id.Name]; aliased {
					return ".skip"
				}
				if u, ok := x.Rhs[0].(*ast.UnaryExpr); ok && u.Op == token.AND {
					if cl, ok := u.X.(*ast.CompositeLit); ok && len(cl.Elts) > 0 {
						// x := &T{F: e, …}: the fields the new value is made of become observable as `$new.x.F`
						var parts []string
						okAll := true
						for _, el := range cl.Elts {
							kv, ok := el.(*ast.KeyValueExpr)
							if !ok {
								okAll = false
								break
							}
							k, ok := kv.Key.(*ast.Ident)
							if !ok {
								okAll = false
								break
							}
							parts = append(parts, "(.assign "+leanStr("$new."+id.Name+"."+k.Name)+" "+c.expr(kv.Value)+")")
						}
						if okAll {
							parts = append(parts, "(.assign "+leanStr(c.path(id))+" .fresh)")
							return seq(parts)
						}
					}
				}
				if ix, isIdx := x.Rhs[0].(*ast.IndexExpr); isIdx && c.body != nil {
					// cur := xs[i] for a slice of structs: a copy, field by field (those the function reads)
					if arr := c.path(ix.X); arr != "" {
						if fs := fieldsUsed(c.body, id.Name); len(fs) > 0 {
							structLocals[id.Name] = true
							parts := []string{"(.assign \"$idx\" " + c.expr(ix.Index) + ")"}
							for _, f := range fs {
								parts = append(parts, "(.assign "+leanStr(id.Name+"."+f)+" (.index "+leanStr(arr)+" (.var \"$idx\") "+leanStr(f)+"))")
							}
							return seq(parts)
						}
					}
				}
			}
			if o := oracleIn(x.Rhs[0]); o != "" { // a clock read: its place among the effects is part of the meaning
				return "(.seq (.effect " + leanStr(o) + ") " + c.assignTo(x.Lhs[0], c.expr(x.Rhs[0])) + ")"
			}
			return c.assignTo(x.Lhs[0], c.expr(x.Rhs[0]))
		case token.ADD_ASSIGN, token.SUB_ASSIGN, token.MUL_ASSIGN, token.QUO_ASSIGN:
			op := map[token.Token]string{token.ADD_ASSIGN: "add", token.SUB_ASSIGN: "sub", token.MUL_ASSIGN: "mul", token.QUO_ASSIGN: "quo"}[x.Tok]
			return c.assignTo(x.Lhs[0], "(.bin ."+op+" "+c.expr(x.Lhs[0])+" "+c.expr(x.Rhs[0])+")")
		}
		return c.unsupportedS(s)
	case *ast.DeclStmt:
		gd, ok := x.Decl.(*ast.GenDecl)
		if !ok || gd.Tok != token.VAR {
			return c.unsupportedS(s)
		}
		var parts []string
		for _, sp := range gd.Specs {
			vs := sp.(*ast.ValueSpec)
			for i, nm := range vs.Names {
				if i < len(vs.Values) {
					parts = append(parts, c.assignTo(nm, c.expr(vs.Values[i])))
				} else {
					parts = append(parts, c.assignTo(nm, zeroOf(vs.Type)))
				}
			}
		}
		return seq(parts)
	case *ast.IfStmt:
		els := ".skip"
		if x.Else != nil {
			els = c.stmt(x.Else)
		}
		r := "(.ite " + c.expr(x.Cond) + "\n  " + c.block(x.Body.List) + "\n  " + els + ")"
		if x.Init != nil {
			return "(.seq " + c.stmt(x.Init) + " " + r + ")"
		}
		return r
	case *ast.ForStmt:
		if x.Init == nil && x.Post == nil && x.Cond == nil && !hasBranch(x.Body) {
			// for { … }: left only by return (or a panic)
			c.inLoop++
			r := "(.while (.bool true)\n  " + c.block(x.Body.List) + ")"
			c.inLoop--
			return r
		}
		if x.Init == nil && x.Post == nil && x.Cond != nil {
			c.inLoop++
			r := "(.while " + c.expr(x.Cond) + "\n  " + c.block(x.Body.List) + ")"
			c.inLoop--
			return r
		}
		if x.Init != nil && x.Post != nil && x.Cond != nil && !hasBranch(x.Body) {
			// for init; cond; post { body }  =  init; for cond { body; post }  (no continue / break inside)
			c.inLoop++
			r := seq([]string{c.stmt(x.Init), "(.while " + c.expr(x.Cond) + "\n  (.seq " + c.block(x.Body.List) + "\n  " + c.stmt(x.Post) + "))"})
			c.inLoop--
			return r
		}
		return c.unsupportedS(s)
	case *ast.SelectStmt:
		// `select`: the runtime picks one of the ready cases. Which one is the oracle's choice (`$select<k>`, k numbering the
		// selects of the function in source order); which communications were offered is logged as an effect, so that a theorem
		// can speak about the alternatives a wait has (a wait without a timeout alternative is a different trace).
		k := *c.selN
		*c.selN++
		sel := "$select" + strconv.Itoa(k)
		var offered []string
		type arm struct{ body string }
		var arms []arm
		for _, cl := range x.Body.List {
			cc, ok := cl.(*ast.CommClause)
			if !ok {
				return c.unsupportedS(s)
			}
			var pre []string
			label := "default"
			switch cm := cc.Comm.(type) {
			case nil:
			case *ast.ExprStmt:
				u, ok := cm.X.(*ast.UnaryExpr)
				if !ok || u.Op != token.ARROW {
					return c.unsupportedS(s)
				}
				label = c.src(u.X)
				pre = append(pre, "(.effect "+leanStr("receive "+label)+")")
			case *ast.AssignStmt:
				if len(cm.Rhs) != 1 {
					return c.unsupportedS(s)
				}
				u, ok := cm.Rhs[0].(*ast.UnaryExpr)
				if !ok || u.Op != token.ARROW {
					return c.unsupportedS(s)
				}
				label = c.src(u.X)
				pre = append(pre, "(.effect "+leanStr("receive "+label)+")")
				for _, l := range cm.Lhs {
					pre = append(pre, c.assignTo(l, ".fresh"))
				}
			case *ast.SendStmt:
				label = "send " + c.src(cm.Chan)
				pre = append(pre, "(.eval "+c.expr(cm.Value)+")", "(.effect "+leanStr(label)+")")
			default:
				return c.unsupportedS(s)
			}
			offered = append(offered, label)
			arms = append(arms, arm{seq(append(pre, c.block(cc.Body)))})
		}
		r := "(.unsupported \"select: no such case\")"
		for i := len(arms) - 1; i >= 0; i-- {
			r = "(.ite (.bin .eq (.var " + leanStr(sel) + ") (.int " + strconv.Itoa(i) + "))\n  " + arms[i].body + "\n  " + r + ")"
		}
		return seq([]string{
			"(.effect " + leanStr("select{"+strings.Join(offered, " | ")+"}") + ")",
			"(.callS [" + leanStr(sel) + "] " + leanStr(sel) + " \"\" [])",
			r,
		})
	case *ast.SwitchStmt:
		if x.Init != nil || hasBranch(x.Body) {
			return c.unsupportedS(s)
		}
		var pre []string
		if x.Tag != nil {
			pre = append(pre, "(.assign \"$tag\" "+c.expr(x.Tag)+")")
		}
		type arm struct{ cond, body string }
		var arms []arm
		def := ".skip"
		for _, cl := range x.Body.List {
			cc, ok := cl.(*ast.CaseClause)
			if !ok {
				return c.unsupportedS(s)
			}
			if cc.List == nil {
				def = c.block(cc.Body)
				continue
			}
			cond := ""
			for _, v := range cc.List {
				one := c.expr(v)
				if x.Tag != nil {
					one = "(.bin .eq (.var \"$tag\") " + one + ")"
				}
				if cond == "" {
					cond = one
				} else {
					cond = "(.bin .lor " + cond + " " + one + ")"
				}
			}
			arms = append(arms, arm{cond, c.block(cc.Body)})
		}
		r := def
		for i := len(arms) - 1; i >= 0; i-- {
			r = "(.ite " + arms[i].cond + "\n  " + arms[i].body + "\n  " + r + ")"
		}
		return seq(append(pre, r))
	case *ast.RangeStmt:
		if id, ok := x.X.(*ast.Ident); ok && x.Value == nil && c.intTyped(id.Name) {
			// for [i :=] range n  (n an integer): n is evaluated once
			k := strconv.Itoa(*c.loopN)
			*c.loopN++
			iv, nv := "$i"+k, "$n"+k
			var body []string
			if kid, ok := x.Key.(*ast.Ident); ok && kid.Name != "_" {
				body = append(body, "(.assign "+leanStr(c.path(kid))+" (.var "+leanStr(iv)+"))")
			}
			c.inLoop++
			body = append(body, c.block(x.Body.List))
			c.inLoop--
			body = append(body, "(.assign "+leanStr(iv)+" (.bin .add (.var "+leanStr(iv)+") (.int 1)))")
			return seq([]string{"(.assign " + leanStr(nv) + " " + c.expr(x.X) + ")", "(.assign " + leanStr(iv) + " (.int 0))",
				"(.while (.bin .lt (.var " + leanStr(iv) + ") (.var " + leanStr(nv) + "))\n  " + seq(body) + ")"})
		}
		arr := c.path(x.X)
		if arr == "" || (x.Tok != token.DEFINE && x.Key != nil) {
			return c.unsupportedS(s)
		}
		k := strconv.Itoa(*c.loopN)
		*c.loopN++
		iv, nv := "$i"+k, "$n"+k
		var body []string
		isMap := false
		if xid, ok := x.X.(*ast.Ident); ok && c.mapTyped(xid.Name) {
			isMap = true
		}
		if id, ok := x.Key.(*ast.Ident); ok && id.Name != "_" {
			if isMap {
				body = append(body, "(.assign "+leanStr(c.path(id))+" (.index "+leanStr(arr)+" (.var "+leanStr(iv)+") \"key\"))")
			} else {
				body = append(body, "(.assign "+leanStr(c.path(id))+" (.var "+leanStr(iv)+"))")
			}
		} else if x.Key != nil && !ok {
			return c.unsupportedS(s)
		}
		if id, ok := x.Value.(*ast.Ident); ok && id.Name != "_" {
			if fs := fieldsUsed(x.Body, id.Name); len(fs) > 0 {
				// the element is a struct: a copy, field by field (those the body reads)
				for _, f := range fs {
					body = append(body, "(.assign "+leanStr(id.Name+"."+f)+" (.index "+leanStr(arr)+" (.var "+leanStr(iv)+") "+leanStr(f)+"))")
				}
			} else {
				body = append(body, "(.assign "+leanStr(c.path(id))+" (.index "+leanStr(arr)+" (.var "+leanStr(iv)+") \"\"))")
			}
		} else if x.Value != nil && !ok {
			return c.unsupportedS(s)
		}
		c.inLoop++
		if id, ok := x.Value.(*ast.Ident); ok {
			dynVars[id.Name] = true
		}
		body = append(body, c.loopBody(x.Body.List))
		if id, ok := x.Value.(*ast.Ident); ok {
			delete(dynVars, id.Name)
		}
		c.inLoop--
		body = append(body, "(.assign "+leanStr(iv)+" (.bin .add (.var "+leanStr(iv)+") (.int 1)))")
		// the length is read once, before the first iteration
		return seq([]string{"(.assign " + leanStr(nv) + " (.len " + leanStr(arr) + "))", "(.assign " + leanStr(iv) + " (.int 0))",
			"(.while (.bin .lt (.var " + leanStr(iv) + ") (.var " + leanStr(nv) + "))\n  " + seq(body) + ")"})
	case *ast.ReturnStmt:
		switch len(x.Results) {
		case 0:
			return ".ret0"
		case 1:
			if cl, ok := x.Results[0].(*ast.CompositeLit); ok {
				// return T{F: e, …}: the fields of the result, then return
				var parts []string
				for _, el := range cl.Elts {
					kv, ok := el.(*ast.KeyValueExpr)
					if !ok {
						return c.unsupportedS(s)
					}
					k, ok := kv.Key.(*ast.Ident)
					if !ok {
						return c.unsupportedS(s)
					}
					parts = append(parts, "(.assign "+leanStr("$ret."+k.Name)+" "+c.expr(kv.Value)+")")
				}
				parts = append(parts, ".ret0")
				return seq(parts)
			}
			if u, ok := x.Results[0].(*ast.UnaryExpr); ok && u.Op == token.AND {
				if cl, ok := u.X.(*ast.CompositeLit); ok && len(cl.Elts) > 0 {
					// return &T{F: e, …}: the fields of the result, then return
					var parts []string
					okAll := true
					for _, el := range cl.Elts {
						kv, ok := el.(*ast.KeyValueExpr)
						if !ok {
							okAll = false
							break
						}
						k, ok := kv.Key.(*ast.Ident)
						if !ok {
							okAll = false
							break
						}
						parts = append(parts, "(.assign "+leanStr("$ret."+k.Name)+" "+c.expr(kv.Value)+")")
					}
					if okAll {
						parts = append(parts, "(.ret1 .fresh)")
						return seq(parts)
					}
				}
			}
			if call, ok := x.Results[0].(*ast.CallExpr); ok {
				// return f(T{F: e, …}): the fields of the literal become observable as `$lit.<T>.<F>`, then the call
				var pre []string
				for _, a := range call.Args {
					if cl, isLit := a.(*ast.CompositeLit); isLit {
						for _, el := range cl.Elts {
							if kv, ok := el.(*ast.KeyValueExpr); ok {
								if k, ok := kv.Key.(*ast.Ident); ok {
									pre = append(pre, "(.assign "+leanStr("$lit."+c.text(cl.Type)+"."+k.Name)+" "+c.expr(kv.Value)+")")
								}
							}
						}
					}
				}
				if len(pre) > 0 {
					return seq(append(pre, "(.ret1 "+c.expr(x.Results[0])+")"))
				}
			}
			return "(.ret1 " + c.expr(x.Results[0]) + ")"
		case 2:
			if u, ok := x.Results[0].(*ast.UnaryExpr); ok && u.Op == token.AND {
				if cl, ok := u.X.(*ast.CompositeLit); ok && len(cl.Elts) > 0 {
					// return &T{F: e, …}, x: the fields of the result, then return
					var parts []string
					for _, el := range cl.Elts {
						kv, ok := el.(*ast.KeyValueExpr)
						if !ok {
							return c.unsupportedS(s)
						}
						k, ok := kv.Key.(*ast.Ident)
						if !ok {
							return c.unsupportedS(s)
						}
						if inner, isLit := kv.Value.(*ast.CompositeLit); isLit && len(inner.Elts) > 0 {
							// a nested literal F: U{G: e, …}: its fields as `$ret.F.G`
							okAll := true
							for _, iel := range inner.Elts {
								ikv, ok := iel.(*ast.KeyValueExpr)
								if !ok {
									okAll = false
									break
								}
								ik, ok := ikv.Key.(*ast.Ident)
								if !ok {
									okAll = false
									break
								}
								parts = append(parts, "(.assign "+leanStr("$ret."+k.Name+"."+ik.Name)+" "+c.expr(ikv.Value)+")")
							}
							if okAll {
								continue
							}
						}
						parts = append(parts, "(.assign "+leanStr("$ret."+k.Name)+" "+c.expr(kv.Value)+")")
					}
					parts = append(parts, "(.ret2 .fresh "+c.expr(x.Results[1])+")")
					return seq(parts)
				}
			}
			return "(.ret2 " + c.expr(x.Results[0]) + " " + c.expr(x.Results[1]) + ")"
		case 3:
			return "(.ret3 " + c.expr(x.Results[0]) + " " + c.expr(x.Results[1]) + " " + c.expr(x.Results[2]) + ")"
		}
		return c.unsupportedS(s)
	}
	return c.unsupportedS(s)
}

var intTypes = map[string]bool{"int": true, "int64": true, "uint64": true, "int32": true, "uint32": true, "uint": true}

// is the local or parameter `name` of the function being translated declared with an integer type? Parameters by their
// declared type; locals defined from a call by the declared result type of a function or method of that name in the package
// a parameter declared with a map type: ranging over it yields keys, not indices (the model keeps a map as a list of
// (key, value) entries in the order this particular iteration visits them - any order, as Go promises none)
func (c *mgCtx) mapTyped(name string) bool {
	fd, ok := c.body.(*ast.FuncDecl)
	if !ok {
		return false
	}
	for _, p := range fd.Type.Params.List {
		for _, nm := range p.Names {
			if nm.Name == name {
				_, isMap := p.Type.(*ast.MapType)
				return isMap
			}
		}
	}
	return false
}

func (c *mgCtx) intTyped(name string) bool {
	fd, ok := c.body.(*ast.FuncDecl)
	if !ok {
		return false
	}
	for _, p := range fd.Type.Params.List {
		for _, nm := range p.Names {
			if nm.Name == name {
				id, ok := p.Type.(*ast.Ident)
				return ok && intTypes[id.Name]
			}
		}
	}
	res := false
	ast.Inspect(fd.Body, func(n ast.Node) bool {
		as, ok := n.(*ast.AssignStmt)
		if !ok || as.Tok != token.DEFINE || len(as.Lhs) != 1 || len(as.Rhs) != 1 {
			return true
		}
		if id, ok := as.Lhs[0].(*ast.Ident); !ok || id.Name != name {
			return true
		}
		call, ok := as.Rhs[0].(*ast.CallExpr)
		if !ok {
			return true
		}
		callee := ""
		switch f := call.Fun.(type) {
		case *ast.Ident:
			callee = f.Name
		case *ast.SelectorExpr:
			callee = f.Sel.Name
		}
		for _, d := range c.pkgDecls {
			if g, ok := d.(*ast.FuncDecl); ok && g.Name.Name == callee && g.Type.Results != nil && len(g.Type.Results.List) == 1 {
				if id, ok := g.Type.Results.List[0].Type.(*ast.Ident); ok && intTypes[id.Name] {
					res = true
				}
			}
		}
		return true
	})
	return res
}

// break / continue / goto / fallthrough anywhere inside (function literals excluded)
func hasBranch(n ast.Node) bool {
	found := false
	ast.Inspect(n, func(m ast.Node) bool {
		if _, isLit := m.(*ast.FuncLit); isLit {
			return false
		}
		if _, ok := m.(*ast.BranchStmt); ok {
			found = true
		}
		return true
	})
	return found
}

// struct types declared in a file: name → field names
func structTypes(af *ast.File, out map[string][]string) {
	for _, d := range af.Decls {
		gd, ok := d.(*ast.GenDecl)
		if !ok || gd.Tok != token.TYPE {
			continue
		}
		for _, sp := range gd.Specs {
			ts, ok := sp.(*ast.TypeSpec)
			if !ok {
				continue
			}
			st, ok := ts.Type.(*ast.StructType)
			if !ok {
				continue
			}
			var fs []string
			for _, f := range st.Fields.List {
				for _, nm := range f.Names {
					fs = append(fs, nm.Name)
				}
			}
			out[ts.Name.Name] = fs
		}
	}
}

// struct fields of the package declared with a sync/atomic type
func atomicFields(af *ast.File) map[string]bool {
	out := map[string]bool{}
	ast.Inspect(af, func(n ast.Node) bool {
		st, ok := n.(*ast.StructType)
		if !ok {
			return true
		}
		for _, f := range st.Fields.List {
			if sel, ok := f.Type.(*ast.SelectorExpr); ok {
				if id, ok := sel.X.(*ast.Ident); ok && id.Name == "atomic" {
					for _, nm := range f.Names {
						out[nm.Name] = true
					}
				}
			}
		}
		return true
	})
	return out
}

// idents assigned (not defined) anywhere in the function
func reassigned(fd ast.Node) map[string]bool {
	out := map[string]bool{}
	ast.Inspect(fd, func(n ast.Node) bool {
		switch x := n.(type) {
		case *ast.AssignStmt:
			if x.Tok != token.DEFINE {
				for _, l := range x.Lhs {
					if id, ok := l.(*ast.Ident); ok {
						out[id.Name] = true
					}
				}
			}
		case *ast.IncDecStmt:
			if id, ok := x.X.(*ast.Ident); ok {
				out[id.Name] = true
			}
		case *ast.UnaryExpr:
			if x.Op == token.AND {
				if id, ok := x.X.(*ast.Ident); ok {
					out[id.Name] = true
				}
			}
		}
		return true
	})
	return out
}

func translateMiniGo(repo string) string {
	var out strings.Builder
	out.WriteString("/- GENERATED by /verif/facts (MiniGo translator) from the current /repo working tree. Do not edit; never committed. -/\nimport F1Verif.Model.MiniGo\nnamespace F1.Generated.MG\nopen F1.MiniGo\n\n")
	findRecoverers(repo)
	cache := map[string]*ast.File{}
	fsets := map[string]*token.FileSet{}
	atomCache := map[string]map[string]bool{}
	structCache := map[string]map[string][]string{}
	for _, w := range mgWants {
		af := cache[w.file]
		if af == nil {
			fset := token.NewFileSet()
			f, err := parser.ParseFile(fset, filepath.Join(repo, w.file), nil, 0)
			if err != nil {
				fmt.Fprintf(&out, "def %s : Stmt := .unsupported %s\n\n", w.lean, leanStr("cannot parse "+w.file))
				continue
			}
			cache[w.file], fsets[w.file] = f, fset
			af = f
			// atomic fields: every file of the package directory
			dir := filepath.Dir(filepath.Join(repo, w.file))
			at := map[string]bool{}
			matches, _ := filepath.Glob(filepath.Join(dir, "*.go"))
			for _, m := range matches {
				if strings.HasSuffix(m, "_test.go") {
					continue
				}
				if g, err := parser.ParseFile(token.NewFileSet(), m, nil, 0); err == nil {
					for k := range atomicFields(g) {
						at[k] = true
					}
				}
			}
			atomCache[w.file] = at
			sts := map[string][]string{}
			for _, m := range matches {
				if strings.HasSuffix(m, "_test.go") {
					continue
				}
				if g, err := parser.ParseFile(token.NewFileSet(), m, nil, 0); err == nil {
					structTypes(g, sts)
				}
			}
			structCache[w.file] = sts
		}
		var fd *ast.FuncDecl
		for _, d := range af.Decls {
			if f, ok := d.(*ast.FuncDecl); ok && f.Name.Name == w.name && recvName(f) == w.recv && f.Body != nil {
				fd = f
			}
		}
		if fd == nil {
			fmt.Fprintf(&out, "def %s : Stmt := .unsupported %s\n\n", w.lean, leanStr("function not found"))
			continue
		}
		loopN := 0
		c := &mgCtx{fset: fsets[w.file], atomics: atomCache[w.file], rename: map[string]string{}, alias: map[string]string{},
			opaque: map[string]bool{}, loopN: &loopN, selN: new(int), body: fd, pkgDir: filepath.Dir(w.file), pkgDecls: af.Decls,
			structs: structCache[w.file], structVars: map[string][]string{}}
		structLocals = map[string]bool{}
		// locals that receive the results of a call with several results
		ast.Inspect(fd.Body, func(nd ast.Node) bool {
			if as, ok := nd.(*ast.AssignStmt); ok && len(as.Lhs) >= 2 && len(as.Rhs) == 1 {
				if _, isCall := as.Rhs[0].(*ast.CallExpr); isCall {
					for _, l := range as.Lhs {
						if id, ok := l.(*ast.Ident); ok && id.Name != "_" {
							c.opaque[id.Name] = true
						}
					}
				}
			}
			return true
		})
		if fd.Recv != nil && len(fd.Recv.List) > 0 && len(fd.Recv.List[0].Names) > 0 {
			c.rename[fd.Recv.List[0].Names[0].Name] = "recv"
		}
		n := 0
		for _, p := range fd.Type.Params.List {
			for _, nm := range p.Names {
				c.rename[nm.Name] = "arg" + strconv.Itoa(n)
				if id, ok := p.Type.(*ast.Ident); ok && c.structs[id.Name] != nil {
					c.structVars[nm.Name] = c.structs[id.Name] // a struct passed by value: its fields are variables `argN.F`
				}
				n++
			}
		}
		// aliases: `x := <selector chain>` with x never reassigned nor address-taken, and the chain never assigned
		re := reassigned(fd)
		assignedPaths := map[string]bool{}
		ast.Inspect(fd.Body, func(nd ast.Node) bool {
			if as, ok := nd.(*ast.AssignStmt); ok {
				for _, l := range as.Lhs {
					if _, isSel := l.(*ast.SelectorExpr); isSel {
						if p := c.path(l); p != "" {
							assignedPaths[p] = true
						}
					}
				}
			}
			return true
		})
		ast.Inspect(fd.Body, func(nd ast.Node) bool {
			as, ok := nd.(*ast.AssignStmt)
			if !ok || as.Tok != token.DEFINE || len(as.Lhs) != 1 || len(as.Rhs) != 1 {
				return true
			}
			id, ok := as.Lhs[0].(*ast.Ident)
			if !ok || re[id.Name] {
				return true
			}
			if _, isSel := as.Rhs[0].(*ast.SelectorExpr); isSel {
				if r := rootIdent(as.Rhs[0]); r != nil && c.opaque[r.Name] {
					return true
				}
				if p := c.path(as.Rhs[0]); p != "" && !c.atomics[lastField(p)] && !assignedPaths[p] {
					c.alias[id.Name] = p
				}
			}
			return true
		})
		if w.closure == "" {
			fmt.Fprintf(&out, "def %s : Stmt :=\n  %s\n\n", w.lean, c.block(fd.Body.List))
			continue
		}
		// closure: statements before the function literal (init) and its body; "a/b" descends into nested literals
		list := fd.Body.List
		var init []ast.Stmt
		var lit *ast.FuncLit
		cc := c
		prefixes := []string{"carg", "darg", "earg"}
		steps := strings.Split(w.closure, "/")
		for depth, step := range steps {
			init, lit = nil, nil
			for _, st := range list {
				if as, ok := st.(*ast.AssignStmt); ok && len(as.Lhs) == 1 && len(as.Rhs) == 1 {
					if id, ok := as.Lhs[0].(*ast.Ident); ok && id.Name == step {
						if fl, ok := as.Rhs[0].(*ast.FuncLit); ok {
							lit = fl
							break
						}
					}
				}
				if strings.HasPrefix(step, "#") { // "#k": the k-th function literal of this statement list, in source order
					k, _ := strconv.Atoi(step[1:])
					var found *ast.FuncLit
					n := 0
					for _, st2 := range list {
						ast.Inspect(st2, func(nd ast.Node) bool {
							if fl, ok := nd.(*ast.FuncLit); ok {
								if n == k && found == nil {
									found = fl
								}
								n++
								return false
							}
							return true
						})
						if found != nil {
							break
						}
						init = append(init, st2)
					}
					lit = found
					break
				}
				if rs, ok := st.(*ast.ReturnStmt); ok && step == "return" && len(rs.Results) == 1 {
					if fl, ok := rs.Results[0].(*ast.FuncLit); ok {
						lit = fl
						break
					}
				}
				init = append(init, st)
			}
			if lit == nil {
				break
			}
			if depth == len(steps)-1 {
				fmt.Fprintf(&out, "def %s_init : Stmt :=\n  %s\n\n", w.lean, cc.block(init))
			}
			c2 := &mgCtx{fset: c.fset, atomics: c.atomics, rename: map[string]string{}, alias: c.alias, opaque: c.opaque, loopN: c.loopN, selN: c.selN, body: c.body, pkgDir: c.pkgDir, pkgDecls: c.pkgDecls, structs: c.structs, structVars: c.structVars}
			for k, v := range cc.rename {
				c2.rename[k] = v
			}
			m := 0
			for _, p := range lit.Type.Params.List {
				for _, nm := range p.Names {
					c2.rename[nm.Name] = prefixes[depth%len(prefixes)] + strconv.Itoa(m)
					m++
				}
			}
			cc = c2
			list = lit.Body.List
		}
		if lit == nil {
			fmt.Fprintf(&out, "def %s_init : Stmt := .unsupported %s\n\ndef %s_body : Stmt := .unsupported %s\n\n",
				w.lean, leanStr("closure not found"), w.lean, leanStr("closure not found"))
			continue
		}
		fmt.Fprintf(&out, "def %s_body : Stmt :=\n  %s\n\n", w.lean, cc.block(lit.Body.List))
	}
	out.WriteString("end F1.Generated.MG\n")
	return out.String()
}
