// Translator from the Go source of f1's sequential cores to the MiniGo deep embedding
// (lean/F1Verif/Model/MiniGo.lean). Pure syntax: one case per go/ast node kind, no types (go/types would need
// the module's dependencies loaded); the two places where a type matters are decided from declarations in the same
// package: which struct fields are sync/atomic cells, and which named calls are built-in arithmetic.
// Anything outside the fragment becomes `.unsupported "<text>"`, which the Lean semantics turns into an error — so a
// theorem about the function stops checking instead of silently speaking about something else.
package main

import (
	"bytes"
	"fmt"
	"go/ast"
	"go/parser"
	"go/printer"
	"go/token"
	"path/filepath"
	"strconv"
	"strings"
)

type mgWant struct {
	file, recv, name string
	closure          string // when set: translate the function literal assigned to this variable (body) and the statements before it (init)
	lean             string
}

var mgWants = []mgWant{
	{"internal/run/result.go", "Result", "Failed", "", "result_Failed"},
	{"internal/run/result.go", "Result", "HasDroppedIterations", "", "result_HasDropped"},
	{"internal/progress/stats.go", "Snapshot", "Iterations", "", "snapshot_Iterations"},
	{"internal/progress/stats.go", "Snapshot", "IterationsStarted", "", "snapshot_IterationsStarted"},
	{"internal/workers/pool_manager.go", "PoolManager", "NextIteration", "", "manager_NextIteration"},
	{"internal/workers/pool_manager.go", "PoolManager", "MaxIterationsReached", "", "manager_MaxIterationsReached"},
	{"internal/workers/trigger_pool.go", "jobCounter", "set", "", "jobCounter_set"},
	{"internal/workers/trigger_pool.go", "jobCounter", "none", "", "jobCounter_none"},
	{"internal/workers/trigger_pool.go", "jobCounter", "take", "", "jobCounter_take"},
	{"internal/workers/trigger_pool.go", "TriggerPool", "running", "", "pool_running"},
	{"internal/workers/trigger_pool.go", "TriggerPool", "stop", "", "pool_stop"},
	{"internal/workers/trigger_pool.go", "TriggerPool", "maxIterationsReached", "", "pool_maxIterationsReached"},
	{"internal/progress/average.go", "IterationDurations", "Add", "", "average_Add"},
	{"internal/progress/average.go", "IterationDurations", "Update", "", "average_Update"},
	{"internal/progress/average.go", "IterationDurations", "Reset", "", "average_Reset"},
	{"internal/progress/average.go", "IterationDurations", "average", "", "average_average"},
	{"internal/progress/average.go", "IterationDurations", "drain", "", "average_drain"},
	{"internal/trigger/api/iteration_distribution.go", "", "withRandomDistribution", "distributedRateFn", "dist_random"},
	{"internal/trigger/api/iteration_distribution.go", "", "withRegularDistribution", "distributedRateFn", "dist_regular"},
	{"internal/trigger/api/iteration_jitter.go", "", "WithJitter", "return", "jitter"},
	{"internal/trigger/ramp/ramp_rate.go", "", "CalculateRampRate", "rateFn", "ramp_rateFn"},
	{"internal/trigger/staged/calculator.go", "RateCalculator", "Rate", "", "staged_Rate"},
	{"internal/trigger/gaussian/gaussian_rate.go", "Calculator", "For", "", "gauss_For"},
	{"internal/raterun/runner.go", "schedules", "start", "", "schedules_start"},
	{"internal/raterun/runner.go", "schedules", "currentFrequency", "", "schedules_currentFrequency"},
	{"internal/workers/active_scenario.go", "ActiveScenario", "Run", "", "active_Run"},
	{"internal/workers/active_scenario.go", "ActiveScenario", "Setup", "", "active_Setup"},
	{"internal/workers/active_scenario.go", "ActiveScenario", "RecordDroppedIteration", "", "active_RecordDropped"},
	{"pkg/f1/testing/t.go", "T", "Fail", "", "t_Fail"},
	{"pkg/f1/testing/t.go", "T", "FailNow", "", "t_FailNow"},
	{"pkg/f1/testing/t.go", "T", "Reset", "", "t_Reset"},
	{"pkg/f1/testing/t.go", "T", "Failed", "", "t_Failed"},
	{"pkg/f1/testing/t.go", "T", "TeardownFailed", "", "t_TeardownFailed"},
	{"internal/trigger/file/file_parser.go", "ConfigFile", "validateCommonFields", "", "file_validateCommonFields"},
	{"internal/trigger/file/file_parser.go", "Stage", "validateCommonFieldsOfStage", "", "file_validateCommonFieldsOfStage"},
	{"internal/trigger/file/file_parser.go", "Stage", "validateConstantStage", "", "file_validateConstantStage"},
	{"internal/trigger/file/file_parser.go", "Stage", "validateRampStage", "", "file_validateRampStage"},
	{"internal/trigger/file/file_parser.go", "Stage", "validateStagedStage", "", "file_validateStagedStage"},
	{"internal/trigger/file/file_parser.go", "Stage", "validateGaussianStage", "", "file_validateGaussianStage"},
	{"internal/trigger/file/file_parser.go", "Stage", "validateUsersStage", "", "file_validateUsersStage"},
}

var timeConsts = map[string]string{"Nanosecond": "1", "Microsecond": "1000", "Millisecond": "1000000",
	"Second": "1000000000", "Minute": "60000000000", "Hour": "3600000000000"}

// method names that are effects (trace only) when used as statements
var effectMethods = map[string]bool{"Lock": true, "Unlock": true, "RLock": true, "RUnlock": true, "Broadcast": true,
	"Wait": true, "Done": true, "At": true, "Signal": true}

// niladic methods with a fixed arithmetic meaning, and calls with arguments that are built-in arithmetic
var builtin1 = map[string]bool{"Milliseconds": true, "IsZero": true, "Nanoseconds": true}
var builtin2 = map[string]bool{"Sub": true, "Add": true, "Before": true, "After": true, "Truncate": true}
var mathFns = map[string]int{"math.Ceil": 1, "math.Floor": 1, "math.Round": 1, "math.Max": 2, "math.Min": 2}

// functions whose result is not a function of the program state: oracles
var oracle0 = map[string]bool{"rand.Float64": true, "time.Now": true, "xtime.NanoTime": true}

type mgCtx struct {
	fset    *token.FileSet
	atomics map[string]bool   // struct field names declared with a sync/atomic type in this package
	rename  map[string]string // receiver / parameters → recv, arg0, …
	alias   map[string]string // x := a.b.c (never reassigned)  →  x stands for a.b.c
}

func (c *mgCtx) text(n ast.Node) string {
	var buf bytes.Buffer
	printer.Fprint(&buf, c.fset, n)
	return strings.Join(strings.Fields(buf.String()), " ")
}

// path of a selector chain rooted in an identifier, "" if it is not one
func (c *mgCtx) path(e ast.Expr) string {
	switch x := e.(type) {
	case *ast.Ident:
		if r, ok := c.rename[x.Name]; ok {
			return r
		}
		if a, ok := c.alias[x.Name]; ok {
			return a
		}
		return x.Name
	case *ast.SelectorExpr:
		p := c.path(x.X)
		if p == "" {
			return ""
		}
		return p + "." + x.Sel.Name
	case *ast.ParenExpr:
		return c.path(x.X)
	case *ast.StarExpr:
		return c.path(x.X)
	case *ast.UnaryExpr:
		if x.Op == token.AND {
			return c.path(x.X)
		}
	}
	return ""
}

func lastField(p string) string {
	if i := strings.LastIndex(p, "."); i >= 0 {
		return p[i+1:]
	}
	return p
}

var binOps = map[token.Token]string{token.ADD: "add", token.SUB: "sub", token.MUL: "mul", token.QUO: "quo",
	token.REM: "rem", token.LSS: "lt", token.LEQ: "le", token.GTR: "gt", token.GEQ: "ge", token.EQL: "eq",
	token.NEQ: "ne", token.LAND: "land", token.LOR: "lor"}

func (c *mgCtx) unsupportedE(n ast.Node) string { return "(.unsupported " + leanStr(c.text(n)) + ")" }

func leanInt(s string) string {
	s = strings.ReplaceAll(s, "_", "")
	if v, err := strconv.ParseInt(s, 0, 64); err == nil {
		if v < 0 {
			return fmt.Sprintf("(.int (%d))", v)
		}
		return fmt.Sprintf("(.int %d)", v)
	}
	return ""
}

func leanFloatLit(s string) string {
	s = strings.ReplaceAll(s, "_", "")
	mant, exp := s, 0
	if i := strings.IndexAny(s, "eE"); i >= 0 {
		e, err := strconv.Atoi(s[i+1:])
		if err != nil {
			return ""
		}
		mant, exp = s[:i], e
	}
	if i := strings.Index(mant, "."); i >= 0 {
		frac := mant[i+1:]
		mant = mant[:i] + frac
		exp -= len(frac)
	}
	mant = strings.TrimLeft(mant, "0")
	if mant == "" {
		mant = "0"
	}
	for _, r := range mant {
		if r < '0' || r > '9' {
			return ""
		}
	}
	if exp < 0 {
		return fmt.Sprintf("(.flit %s (%d))", mant, exp)
	}
	return fmt.Sprintf("(.flit %s %d)", mant, exp)
}

func (c *mgCtx) expr(e ast.Expr) string {
	switch x := e.(type) {
	case *ast.ParenExpr:
		return c.expr(x.X)
	case *ast.BasicLit:
		switch x.Kind {
		case token.INT:
			if s := leanInt(x.Value); s != "" {
				return s
			}
		case token.FLOAT:
			if s := leanFloatLit(x.Value); s != "" {
				return s
			}
		case token.STRING:
			return ".fresh" // an opaque non-nil value: no program in the fragment looks inside a string
		}
		return c.unsupportedE(e)
	case *ast.Ident:
		switch x.Name {
		case "true":
			return "(.bool true)"
		case "false":
			return "(.bool false)"
		case "nil":
			return ".nil"
		}
		return "(.var " + leanStr(c.path(x)) + ")"
	case *ast.SelectorExpr:
		if ix, ok := x.X.(*ast.IndexExpr); ok {
			// x.items[i].Field
			if p := c.path(ix.X); p != "" {
				return "(.index " + leanStr(p) + " " + c.expr(ix.Index) + " " + leanStr(x.Sel.Name) + ")"
			}
			return c.unsupportedE(e)
		}
		if id, ok := x.X.(*ast.Ident); ok && id.Obj == nil {
			if id.Name == "time" {
				if v, ok := timeConsts[x.Sel.Name]; ok {
					return "(.int " + v + ")"
				}
			}
			if id.Name == "math" && x.Sel.Name == "Pi" {
				return "(.flit 3141592653589793 (-15))"
			}
		}
		if p := c.path(x); p != "" {
			return "(.var " + leanStr(p) + ")"
		}
		return c.unsupportedE(e)
	case *ast.StarExpr:
		return c.expr(x.X)
	case *ast.UnaryExpr:
		switch x.Op {
		case token.NOT:
			return "(.not " + c.expr(x.X) + ")"
		case token.SUB:
			if bl, ok := x.X.(*ast.BasicLit); ok && bl.Kind == token.INT {
				if s := leanInt("-" + bl.Value); s != "" {
					return s
				}
			}
			return "(.neg " + c.expr(x.X) + ")"
		case token.ADD:
			return c.expr(x.X)
		case token.AND:
			if _, ok := x.X.(*ast.CompositeLit); ok {
				return ".fresh"
			}
			return c.expr(x.X)
		}
		return c.unsupportedE(e)
	case *ast.BinaryExpr:
		if op, ok := binOps[x.Op]; ok {
			return "(.bin ." + op + " " + c.expr(x.X) + " " + c.expr(x.Y) + ")"
		}
		return c.unsupportedE(e)
	case *ast.IndexExpr:
		// a slice of scalars: x.items[i]
		if p := c.path(x.X); p != "" {
			return "(.index " + leanStr(p) + " " + c.expr(x.Index) + " \"\")"
		}
		return c.unsupportedE(e)
	case *ast.FuncLit:
		return ".fresh"
	case *ast.CompositeLit:
		return ".fresh"
	case *ast.CallExpr:
		return c.call(x)
	}
	return c.unsupportedE(e)
}

func (c *mgCtx) call(x *ast.CallExpr) string {
	// conversions
	switch f := x.Fun.(type) {
	case *ast.Ident:
		if f.Name == "len" && len(x.Args) == 1 {
			if p := c.path(x.Args[0]); p != "" {
				return "(.len " + leanStr(p) + ")"
			}
		}
		switch f.Name {
		case "int", "int64", "uint64", "float64", "int32", "uint32", "uint":
			if len(x.Args) == 1 {
				return "(.conv " + leanStr(f.Name) + " " + c.expr(x.Args[0]) + ")"
			}
		}
	case *ast.SelectorExpr:
		if id, ok := f.X.(*ast.Ident); ok && id.Obj == nil && id.Name == "time" && f.Sel.Name == "Duration" && len(x.Args) == 1 {
			return "(.conv \"time.Duration\" " + c.expr(x.Args[0]) + ")"
		}
	}
	sel, isSel := x.Fun.(*ast.SelectorExpr)
	if isSel {
		recv := c.path(sel.X)
		m := sel.Sel.Name
		// package-level functions: math.*, rand.*
		if id, ok := sel.X.(*ast.Ident); ok && id.Obj == nil && c.rename[id.Name] == "" && c.alias[id.Name] == "" {
			q := id.Name + "." + m
			if n, ok := mathFns[q]; ok && len(x.Args) == n {
				if n == 1 {
					return "(.builtin1 " + leanStr(q) + " " + c.expr(x.Args[0]) + ")"
				}
				return "(.builtin2 " + leanStr(q) + " " + c.expr(x.Args[0]) + " " + c.expr(x.Args[1]) + ")"
			}
			if q == "fmt.Errorf" || q == "errors.New" {
				return ".fresh" // a new non-nil error
			}
			if oracle0[q] && len(x.Args) == 0 {
				return "(.call0 " + leanStr(q) + ")"
			}
			if len(x.Args) == 1 {
				return "(.call1 " + leanStr(q) + " " + c.expr(x.Args[0]) + ")"
			}
			if len(x.Args) == 2 {
				return "(.call2 " + leanStr(q) + " " + c.expr(x.Args[0]) + " " + c.expr(x.Args[1]) + ")"
			}
			return c.unsupportedE(x)
		}
		if recv != "" && c.atomics[lastField(recv)] {
			switch {
			case m == "Load" && len(x.Args) == 0:
				return "(.load " + leanStr(recv) + ")"
			case m == "Swap" && len(x.Args) == 1:
				return "(.swap " + leanStr(recv) + " " + c.expr(x.Args[0]) + ")"
			case m == "Add" && len(x.Args) == 1:
				return "(.addFetch " + leanStr(recv) + " " + c.expr(x.Args[0]) + ")"
			}
			return c.unsupportedE(x)
		}
		if recv != "" {
			switch {
			case len(x.Args) == 0 && builtin1[m]:
				return "(.builtin1 " + leanStr(m) + " (.var " + leanStr(recv) + "))"
			case len(x.Args) == 0:
				return "(.var " + leanStr(recv+"."+m+"()") + ")" // a niladic method: a read of the environment
			case len(x.Args) == 1 && builtin2[m]:
				return "(.builtin2 " + leanStr(m) + " (.var " + leanStr(recv) + ") " + c.expr(x.Args[0]) + ")"
			case len(x.Args) == 1:
				return "(.call1 " + leanStr(recv+"."+m) + " " + c.expr(x.Args[0]) + ")"
			case len(x.Args) == 2:
				return "(.call2 " + leanStr(recv+"."+m) + " " + c.expr(x.Args[0]) + " " + c.expr(x.Args[1]) + ")"
			}
		}
		// method on a call result: startTime.Add(duration).Before(now)
		if inner, ok := sel.X.(*ast.CallExpr); ok {
			switch {
			case len(x.Args) == 0 && builtin1[m]:
				return "(.builtin1 " + leanStr(m) + " " + c.call(inner) + ")"
			case len(x.Args) == 1 && builtin2[m]:
				return "(.builtin2 " + leanStr(m) + " " + c.call(inner) + " " + c.expr(x.Args[0]) + ")"
			}
		}
		return c.unsupportedE(x)
	}
	if id, ok := x.Fun.(*ast.Ident); ok {
		name := c.path(id)
		switch len(x.Args) {
		case 0:
			return "(.call0 " + leanStr(name) + ")"
		case 1:
			return "(.call1 " + leanStr(name) + " " + c.expr(x.Args[0]) + ")"
		case 2:
			return "(.call2 " + leanStr(name) + " " + c.expr(x.Args[0]) + " " + c.expr(x.Args[1]) + ")"
		}
	}
	return c.unsupportedE(x)
}

// the oracle (a package-level niladic call such as xtime.NanoTime) evaluated inside e, "" if none
func oracleIn(e ast.Expr) string {
	found := ""
	ast.Inspect(e, func(n ast.Node) bool {
		if call, ok := n.(*ast.CallExpr); ok && len(call.Args) == 0 {
			if sel, ok := call.Fun.(*ast.SelectorExpr); ok {
				if id, ok := sel.X.(*ast.Ident); ok && oracle0[id.Name+"."+sel.Sel.Name] {
					found = id.Name + "." + sel.Sel.Name
				}
			}
		}
		return true
	})
	return found
}

func seq(parts []string) string {
	if len(parts) == 0 {
		return ".skip"
	}
	if len(parts) == 1 {
		return parts[0]
	}
	return "(.seq " + parts[0] + "\n  " + seq(parts[1:]) + ")"
}

func (c *mgCtx) unsupportedS(n ast.Node) string { return "(.unsupported " + leanStr(c.text(n)) + ")" }

func (c *mgCtx) block(list []ast.Stmt) string {
	var parts []string
	for _, s := range list {
		parts = append(parts, c.stmt(s))
	}
	return seq(parts)
}

func zeroOf(t ast.Expr) string {
	if id, ok := t.(*ast.Ident); ok {
		switch id.Name {
		case "int", "int64", "uint64", "int32", "uint32", "uint":
			return "(.int 0)"
		case "float64", "float32":
			return "(.flit 0 0)"
		case "bool":
			return "(.bool false)"
		}
	}
	return ".nil"
}

func (c *mgCtx) callStmt(call *ast.CallExpr, deferred bool) string {
	// func() { … }() — a block with its own deferred calls
	if fl, isLit := call.Fun.(*ast.FuncLit); isLit && len(call.Args) == 0 && !deferred {
		return "(.scope " + c.block(fl.Body.List) + ")"
	}
	sel, ok := call.Fun.(*ast.SelectorExpr)
	mk := func(w string) string {
		if deferred {
			return "(.deferEffect " + leanStr(w) + ")"
		}
		return "(.effect " + leanStr(w) + ")"
	}
	if ok {
		recv := c.path(sel.X)
		m := sel.Sel.Name
		if id, isId := sel.X.(*ast.Ident); isId && id.Name == "verifhook" && len(call.Args) == 1 {
			if bl, ok := call.Args[0].(*ast.BasicLit); ok {
				if s, err := strconv.Unquote(bl.Value); err == nil {
					return mk("hook " + s)
				}
			}
		}
		if recv != "" && c.atomics[lastField(recv)] && !deferred {
			switch {
			case m == "Store" && len(call.Args) == 1:
				return "(.store " + leanStr(recv) + " " + c.expr(call.Args[0]) + ")"
			case (m == "Add" || m == "Swap") && len(call.Args) == 1:
				return "(.eval " + c.expr(call) + ")"
			}
			return c.unsupportedS(call)
		}
		if recv != "" && (effectMethods[m] || len(call.Args) == 0) {
			return mk(recv + "." + m)
		}
		if deferred && recv != "" { // a deferred call: its arguments are evaluated now, its effect comes at the end of the scope
			return mk(recv + "." + m)
		}
		if recv != "" && len(call.Args) == 1 && !deferred {
			// a call with an argument whose result is dropped: an effect carrying its argument's evaluation
			return "(.seq (.eval " + c.expr(call.Args[0]) + ") " + mk(recv+"."+m+"(…)") + ")"
		}
		if recv != "" && len(call.Args) > 1 && !deferred {
			// several arguments: they are evaluated left to right into `$arg.<callee>.<i>`, then the call is an effect
			var parts []string
			for i, a := range call.Args {
				parts = append(parts, "(.assign "+leanStr("$arg."+recv+"."+m+"."+strconv.Itoa(i))+" "+c.expr(a)+")")
			}
			parts = append(parts, mk(recv+"."+m+"(…)"))
			return seq(parts)
		}
		return c.unsupportedS(call)
	}
	if id, ok := call.Fun.(*ast.Ident); ok && len(call.Args) <= 1 {
		if len(call.Args) == 1 {
			return "(.seq (.eval " + c.expr(call.Args[0]) + ") " + mk(c.path(id)+"(…)") + ")"
		}
		return mk(c.path(id))
	}
	return c.unsupportedS(call)
}

func (c *mgCtx) assignTo(lhs ast.Expr, rhs string) string {
	if id, ok := lhs.(*ast.Ident); ok && id.Name == "_" {
		return "(.eval " + rhs + ")"
	}
	p := c.path(lhs)
	if p == "" {
		return c.unsupportedS(lhs)
	}
	return "(.assign " + leanStr(p) + " " + rhs + ")"
}

func (c *mgCtx) stmt(s ast.Stmt) string {
	switch x := s.(type) {
	case *ast.BlockStmt:
		return c.block(x.List)
	case *ast.EmptyStmt:
		return ".skip"
	case *ast.ExprStmt:
		if call, ok := x.X.(*ast.CallExpr); ok {
			return c.callStmt(call, false)
		}
		return c.unsupportedS(s)
	case *ast.DeferStmt:
		return c.callStmt(x.Call, true)
	case *ast.IncDecStmt:
		op := "add"
		if x.Tok == token.DEC {
			op = "sub"
		}
		return c.assignTo(x.X, "(.bin ."+op+" "+c.expr(x.X)+" (.int 1))")
	case *ast.AssignStmt:
		if len(x.Lhs) == len(x.Rhs) && len(x.Lhs) > 1 && (x.Tok == token.ASSIGN || x.Tok == token.DEFINE) {
			// parallel assignment: every right-hand side is evaluated before anything is assigned
			var parts []string
			for i, r := range x.Rhs {
				parts = append(parts, "(.assign "+leanStr("$t"+strconv.Itoa(i))+" "+c.expr(r)+")")
			}
			for i, l := range x.Lhs {
				parts = append(parts, c.assignTo(l, "(.var "+leanStr("$t"+strconv.Itoa(i))+")"))
			}
			return seq(parts)
		}
		if len(x.Lhs) != 1 || len(x.Rhs) != 1 {
			return c.unsupportedS(s)
		}
		switch x.Tok {
		case token.ASSIGN, token.DEFINE:
			if id, ok := x.Lhs[0].(*ast.Ident); ok && x.Tok == token.DEFINE {
				if _, aliased := c.alias[id.Name]; aliased {
					return ".skip"
				}
			}
			if o := oracleIn(x.Rhs[0]); o != "" { // a clock read: its place among the effects is part of the meaning
				return "(.seq (.effect " + leanStr(o) + ") " + c.assignTo(x.Lhs[0], c.expr(x.Rhs[0])) + ")"
			}
			return c.assignTo(x.Lhs[0], c.expr(x.Rhs[0]))
		case token.ADD_ASSIGN, token.SUB_ASSIGN, token.MUL_ASSIGN, token.QUO_ASSIGN:
			op := map[token.Token]string{token.ADD_ASSIGN: "add", token.SUB_ASSIGN: "sub", token.MUL_ASSIGN: "mul", token.QUO_ASSIGN: "quo"}[x.Tok]
			return c.assignTo(x.Lhs[0], "(.bin ."+op+" "+c.expr(x.Lhs[0])+" "+c.expr(x.Rhs[0])+")")
		}
		return c.unsupportedS(s)
	case *ast.DeclStmt:
		gd, ok := x.Decl.(*ast.GenDecl)
		if !ok || gd.Tok != token.VAR {
			return c.unsupportedS(s)
		}
		var parts []string
		for _, sp := range gd.Specs {
			vs := sp.(*ast.ValueSpec)
			for i, nm := range vs.Names {
				if i < len(vs.Values) {
					parts = append(parts, c.assignTo(nm, c.expr(vs.Values[i])))
				} else {
					parts = append(parts, c.assignTo(nm, zeroOf(vs.Type)))
				}
			}
		}
		return seq(parts)
	case *ast.IfStmt:
		els := ".skip"
		if x.Else != nil {
			els = c.stmt(x.Else)
		}
		r := "(.ite " + c.expr(x.Cond) + "\n  " + c.block(x.Body.List) + "\n  " + els + ")"
		if x.Init != nil {
			return "(.seq " + c.stmt(x.Init) + " " + r + ")"
		}
		return r
	case *ast.ForStmt:
		if x.Init == nil && x.Post == nil && x.Cond != nil {
			return "(.while " + c.expr(x.Cond) + "\n  " + c.block(x.Body.List) + ")"
		}
		return c.unsupportedS(s)
	case *ast.ReturnStmt:
		switch len(x.Results) {
		case 0:
			return ".ret0"
		case 1:
			if cl, ok := x.Results[0].(*ast.CompositeLit); ok {
				// return T{F: e, …}: the fields of the result, then return
				var parts []string
				for _, el := range cl.Elts {
					kv, ok := el.(*ast.KeyValueExpr)
					if !ok {
						return c.unsupportedS(s)
					}
					k, ok := kv.Key.(*ast.Ident)
					if !ok {
						return c.unsupportedS(s)
					}
					parts = append(parts, "(.assign "+leanStr("$ret."+k.Name)+" "+c.expr(kv.Value)+")")
				}
				parts = append(parts, ".ret0")
				return seq(parts)
			}
			return "(.ret1 " + c.expr(x.Results[0]) + ")"
		case 2:
			return "(.ret2 " + c.expr(x.Results[0]) + " " + c.expr(x.Results[1]) + ")"
		}
		return c.unsupportedS(s)
	}
	return c.unsupportedS(s)
}

// struct fields of the package declared with a sync/atomic type
func atomicFields(af *ast.File) map[string]bool {
	out := map[string]bool{}
	ast.Inspect(af, func(n ast.Node) bool {
		st, ok := n.(*ast.StructType)
		if !ok {
			return true
		}
		for _, f := range st.Fields.List {
			if sel, ok := f.Type.(*ast.SelectorExpr); ok {
				if id, ok := sel.X.(*ast.Ident); ok && id.Name == "atomic" {
					for _, nm := range f.Names {
						out[nm.Name] = true
					}
				}
			}
		}
		return true
	})
	return out
}

// idents assigned (not defined) anywhere in the function
func reassigned(fd ast.Node) map[string]bool {
	out := map[string]bool{}
	ast.Inspect(fd, func(n ast.Node) bool {
		switch x := n.(type) {
		case *ast.AssignStmt:
			if x.Tok != token.DEFINE {
				for _, l := range x.Lhs {
					if id, ok := l.(*ast.Ident); ok {
						out[id.Name] = true
					}
				}
			}
		case *ast.IncDecStmt:
			if id, ok := x.X.(*ast.Ident); ok {
				out[id.Name] = true
			}
		case *ast.UnaryExpr:
			if x.Op == token.AND {
				if id, ok := x.X.(*ast.Ident); ok {
					out[id.Name] = true
				}
			}
		}
		return true
	})
	return out
}

func translateMiniGo(repo string) string {
	var out strings.Builder
	out.WriteString("/- GENERATED by /verif/facts (MiniGo translator) from the current /repo working tree. Do not edit; never committed. -/\nimport F1Verif.Model.MiniGo\nnamespace F1.Generated.MG\nopen F1.MiniGo\n\n")
	cache := map[string]*ast.File{}
	fsets := map[string]*token.FileSet{}
	atomCache := map[string]map[string]bool{}
	for _, w := range mgWants {
		af := cache[w.file]
		if af == nil {
			fset := token.NewFileSet()
			f, err := parser.ParseFile(fset, filepath.Join(repo, w.file), nil, 0)
			if err != nil {
				fmt.Fprintf(&out, "def %s : Stmt := .unsupported %s\n\n", w.lean, leanStr("cannot parse "+w.file))
				continue
			}
			cache[w.file], fsets[w.file] = f, fset
			af = f
			// atomic fields: every file of the package directory
			dir := filepath.Dir(filepath.Join(repo, w.file))
			at := map[string]bool{}
			matches, _ := filepath.Glob(filepath.Join(dir, "*.go"))
			for _, m := range matches {
				if strings.HasSuffix(m, "_test.go") {
					continue
				}
				if g, err := parser.ParseFile(token.NewFileSet(), m, nil, 0); err == nil {
					for k := range atomicFields(g) {
						at[k] = true
					}
				}
			}
			atomCache[w.file] = at
		}
		var fd *ast.FuncDecl
		for _, d := range af.Decls {
			if f, ok := d.(*ast.FuncDecl); ok && f.Name.Name == w.name && recvName(f) == w.recv && f.Body != nil {
				fd = f
			}
		}
		if fd == nil {
			fmt.Fprintf(&out, "def %s : Stmt := .unsupported %s\n\n", w.lean, leanStr("function not found"))
			continue
		}
		c := &mgCtx{fset: fsets[w.file], atomics: atomCache[w.file], rename: map[string]string{}, alias: map[string]string{}}
		if fd.Recv != nil && len(fd.Recv.List) > 0 && len(fd.Recv.List[0].Names) > 0 {
			c.rename[fd.Recv.List[0].Names[0].Name] = "recv"
		}
		n := 0
		for _, p := range fd.Type.Params.List {
			for _, nm := range p.Names {
				c.rename[nm.Name] = "arg" + strconv.Itoa(n)
				n++
			}
		}
		// aliases: `x := <selector chain>` with x never reassigned nor address-taken
		re := reassigned(fd)
		ast.Inspect(fd.Body, func(nd ast.Node) bool {
			as, ok := nd.(*ast.AssignStmt)
			if !ok || as.Tok != token.DEFINE || len(as.Lhs) != 1 || len(as.Rhs) != 1 {
				return true
			}
			id, ok := as.Lhs[0].(*ast.Ident)
			if !ok || re[id.Name] {
				return true
			}
			if _, isSel := as.Rhs[0].(*ast.SelectorExpr); isSel {
				if p := c.path(as.Rhs[0]); p != "" && !c.atomics[lastField(p)] {
					c.alias[id.Name] = p
				}
			}
			return true
		})
		if w.closure == "" {
			fmt.Fprintf(&out, "def %s : Stmt :=\n  %s\n\n", w.lean, c.block(fd.Body.List))
			continue
		}
		// closure: statements before the function literal (init) and its body
		var init []ast.Stmt
		var lit *ast.FuncLit
		for _, st := range fd.Body.List {
			if as, ok := st.(*ast.AssignStmt); ok && len(as.Lhs) == 1 && len(as.Rhs) == 1 {
				if id, ok := as.Lhs[0].(*ast.Ident); ok && id.Name == w.closure {
					if fl, ok := as.Rhs[0].(*ast.FuncLit); ok {
						lit = fl
						break
					}
				}
			}
			if rs, ok := st.(*ast.ReturnStmt); ok && w.closure == "return" && len(rs.Results) == 1 {
				if fl, ok := rs.Results[0].(*ast.FuncLit); ok {
					lit = fl
					break
				}
			}
			init = append(init, st)
		}
		if lit == nil {
			fmt.Fprintf(&out, "def %s_init : Stmt := .unsupported %s\n\ndef %s_body : Stmt := .unsupported %s\n\n",
				w.lean, leanStr("closure not found"), w.lean, leanStr("closure not found"))
			continue
		}
		fmt.Fprintf(&out, "def %s_init : Stmt :=\n  %s\n\n", w.lean, c.block(init))
		c2 := &mgCtx{fset: c.fset, atomics: c.atomics, rename: map[string]string{}, alias: c.alias}
		for k, v := range c.rename {
			c2.rename[k] = v
		}
		m := 0
		for _, p := range lit.Type.Params.List {
			for _, nm := range p.Names {
				c2.rename[nm.Name] = "carg" + strconv.Itoa(m)
				m++
			}
		}
		fmt.Fprintf(&out, "def %s_body : Stmt :=\n  %s\n\n", w.lean, c2.block(lit.Body.List))
	}
	out.WriteString("end F1.Generated.MG\n")
	return out.String()
}
