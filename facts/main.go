// Command facts regenerates lean/F1Verif/Generated/Facts.lean from the current /repo tree
// (standard library only). For every anchored function it emits the normalised source of its body:
// comments and blank lines dropped, gofmt layout, and every identifier that is declared inside the
// function (receiver, parameters, locals) renamed v0, v1, … in order of first appearance — so
// renaming a local changes nothing, while any change to what the function does changes the fact.
// It also emits the two text/templates and a few named constants.
package main

import (
	"bytes"
	"fmt"
	"go/ast"
	"go/parser"
	"go/printer"
	"go/token"
	"os"
	"path/filepath"
	"sort"
	"strconv"
	"strings"
)

type want struct{ file, recv, name, lean string }

var wants = []want{
	{"internal/progress/average.go", "IterationDurations", "Add", "average_Add"},
	{"internal/progress/average.go", "IterationDurations", "Update", "average_Update"},
	{"internal/progress/average.go", "IterationDurations", "drain", "average_drain"},
	{"internal/progress/average.go", "IterationDurations", "Snapshot", "average_Snapshot"},
	{"internal/progress/average.go", "IterationDurations", "average", "average_average"},
	{"internal/progress/average.go", "DurationStats", "CollectLifetime", "average_CollectLifetime"},
	{"internal/progress/average.go", "DurationStats", "Record", "average_Record"},
	{"internal/progress/stats.go", "Stats", "Record", "stats_Record"},
	{"internal/progress/stats.go", "Stats", "Snapshot", "stats_Snapshot"},
	{"internal/progress/stats.go", "Stats", "Total", "stats_Total"},
	{"internal/workers/active_scenario.go", "ActiveScenario", "Run", "active_Run"},
	{"internal/workers/active_scenario.go", "ActiveScenario", "Setup", "active_Setup"},
	{"internal/workers/active_scenario.go", "ActiveScenario", "RecordDroppedIteration", "active_RecordDropped"},
	{"internal/workers/trigger_pool.go", "TriggerPool", "Trigger", "pool_Trigger"},
	{"internal/workers/trigger_pool.go", "TriggerPool", "Start", "pool_Start"},
	{"internal/workers/trigger_pool.go", "TriggerPool", "running", "pool_running"},
	{"internal/workers/trigger_pool.go", "TriggerPool", "stop", "pool_stop"},
	{"internal/workers/trigger_pool.go", "TriggerPool", "maxIterationsReached", "pool_maxIterationsReached"},
	{"internal/workers/trigger_pool.go", "TriggerPool", "sendJobsForExecution", "pool_sendJobs"},
	{"internal/workers/trigger_pool.go", "TriggerPool", "waitForNewJobs", "pool_waitForNewJobs"},
	{"internal/workers/trigger_pool.go", "TriggerPool", "run", "pool_run"},
	{"internal/workers/trigger_pool.go", "jobCounter", "set", "jobCounter_set"},
	{"internal/workers/trigger_pool.go", "jobCounter", "none", "jobCounter_none"},
	{"internal/workers/trigger_pool.go", "jobCounter", "take", "jobCounter_take"},
	{"internal/workers/pool_manager.go", "PoolManager", "NextIteration", "manager_NextIteration"},
	{"internal/workers/pool_manager.go", "PoolManager", "MaxIterationsReached", "manager_MaxIterationsReached"},
	{"internal/workers/pool_manager.go", "PoolManager", "makeIterationStatePool", "manager_makeIterationStatePool"},
	{"internal/workers/pool_manager.go", "PoolManager", "WaitForCompletion", "manager_WaitForCompletion"},
	{"internal/workers/continuous_pool.go", "ContinuousPool", "Start", "cpool_Start"},
	{"internal/workers/continuous_pool.go", "ContinuousPool", "startWorker", "cpool_startWorker"},
	{"internal/raterun/runner.go", "Runner", "Start", "runner_Start"},
	{"internal/raterun/runner.go", "Runner", "Stop", "runner_Stop"},
	{"internal/raterun/runner.go", "Runner", "Restart", "runner_Restart"},
	{"internal/raterun/runner.go", "schedules", "start", "schedules_start"},
	{"internal/run/test_runner.go", "Run", "Do", "run_Do"},
	{"internal/run/test_runner.go", "Run", "run", "run_run"},
	{"internal/run/test_runner.go", "Run", "teardownActiveScenario", "run_teardown"},
	{"internal/run/test_runner.go", "Run", "reportSetupFailure", "run_reportSetupFailure"},
	{"internal/run/result.go", "Result", "Failed", "result_Failed"},
	{"internal/run/result.go", "Result", "Summary", "result_Summary"},
	{"internal/run/result.go", "Result", "Teardown", "result_Teardown"},
	{"internal/run/result.go", "Result", "Error", "result_Error"},
	{"internal/run/result.go", "Result", "SnapshotProgress", "result_SnapshotProgress"},
	{"internal/run/result.go", "Result", "GetTotals", "result_GetTotals"},
	{"internal/trigger/api/iteration_worker.go", "", "NewIterationWorker", "api_NewIterationWorker"},
	{"internal/trigger/api/iteration_distribution.go", "", "withRegularDistribution", "api_withRegularDistribution"},
	{"internal/trigger/api/iteration_distribution.go", "", "withRandomDistribution", "api_withRandomDistribution"},
	{"internal/trigger/api/iteration_jitter.go", "", "WithJitter", "api_WithJitter"},
	{"internal/trigger/file/stages_worker.go", "", "newStagesWorker", "file_newStagesWorker"},
	{"internal/trigger/file/stages_worker.go", "", "runStage", "file_runStage"},
	{"pkg/f1/testing/t.go", "T", "teardown", "t_teardown"},
	{"pkg/f1/testing/t.go", "T", "Reset", "t_Reset"},
	{"pkg/f1/testing/t.go", "T", "Fail", "t_Fail"},
	{"pkg/f1/testing/t.go", "T", "FailNow", "t_FailNow"},
	{"pkg/f1/testing/t.go", "T", "Time", "t_Time"},
	{"pkg/f1/testing/t.go", "", "CheckResults", "t_CheckResults"},
	{"pkg/f1/testing/t.go", "", "handlePanic", "t_handlePanic"},
	{"pkg/f1/f1_scenarios.go", "", "CombineScenarios", "f1_CombineScenarios"},
	{"internal/log/attrs.go", "", "IterationStatsGroup", "log_IterationStatsGroup"},
	{"internal/metrics/metrics.go", "", "getStaticMetricLabelValues", "metrics_labelValues"},
	{"internal/metrics/metrics.go", "", "getStaticMetricLabelKeys", "metrics_labelKeys"},
	{"internal/metrics/metrics.go", "", "sortedKeys", "metrics_sortedKeys"},
	{"internal/metrics/metrics.go", "Metrics", "RecordIterationResult", "metrics_RecordIterationResult"},
	{"internal/metrics/metrics.go", "Metrics", "Reset", "metrics_Reset"},
}

func recvName(fd *ast.FuncDecl) string {
	if fd.Recv == nil || len(fd.Recv.List) == 0 {
		return ""
	}
	t := fd.Recv.List[0].Type
	if s, ok := t.(*ast.StarExpr); ok {
		t = s.X
	}
	if ix, ok := t.(*ast.IndexExpr); ok {
		t = ix.X
	}
	if id, ok := t.(*ast.Ident); ok {
		return id.Name
	}
	return ""
}

func leanStr(s string) string {
	var b strings.Builder
	b.WriteByte('"')
	for _, r := range s {
		switch r {
		case '\\':
			b.WriteString("\\\\")
		case '"':
			b.WriteString("\\\"")
		case '\n':
			b.WriteString("\\n")
		case '\t':
			b.WriteString("\\t")
		case '\r':
			b.WriteString("\\r")
		default:
			if r < 0x20 {
				fmt.Fprintf(&b, "\\x%02x", r)
			} else {
				b.WriteRune(r)
			}
		}
	}
	b.WriteByte('"')
	return b.String()
}

func leanList(name string, lines []string) string {
	var b strings.Builder
	fmt.Fprintf(&b, "def %s : List String := [\n", name)
	for i, l := range lines {
		b.WriteString("  " + leanStr(l))
		if i < len(lines)-1 {
			b.WriteString(",")
		}
		b.WriteString("\n")
	}
	b.WriteString("]\n\n")
	return b.String()
}

// skeleton returns the normalised lines of a function (signature line + body).
func skeleton(fset *token.FileSet, fd *ast.FuncDecl) []string {
	names := map[*ast.Object]string{}
	n := 0
	var todo []*ast.Ident
	rename := func(id *ast.Ident) {
		if id.Obj == nil || id.Obj.Kind != ast.Var || id.Name == "_" {
			return
		}
		if _, ok := names[id.Obj]; !ok {
			// Object.Pos() looks the name up in the declaration, so decide before anything is renamed
			if id.Obj.Pos() < fd.Pos() || id.Obj.Pos() > fd.End() {
				return
			}
			names[id.Obj] = "v" + strconv.Itoa(n)
			n++
		}
		todo = append(todo, id)
	}
	var visit func(node ast.Node) bool
	visit = func(node ast.Node) bool {
		switch x := node.(type) {
		case *ast.SelectorExpr:
			// only the root of a selector chain can be a local; field and method names stay
			ast.Inspect(x.X, visit)
			return false
		case *ast.KeyValueExpr:
			if _, isIdent := x.Key.(*ast.Ident); !isIdent {
				ast.Inspect(x.Key, visit)
			}
			ast.Inspect(x.Value, visit)
			return false
		case *ast.Ident:
			rename(x)
		}
		return true
	}
	ast.Inspect(fd, visit)
	for _, id := range todo {
		id.Name = names[id.Obj]
	}
	fd.Doc = nil
	var buf bytes.Buffer
	cfg := printer.Config{Mode: printer.RawFormat, Tabwidth: 1}
	if err := cfg.Fprint(&buf, fset, fd); err != nil {
		panic(err)
	}
	var out []string
	for _, l := range strings.Split(buf.String(), "\n") {
		l = strings.TrimSpace(l)
		if i := strings.Index(l, "//"); i >= 0 && !strings.Contains(l[:i], "\"") {
			l = strings.TrimSpace(l[:i])
		}
		if l == "" {
			continue
		}
		out = append(out, strings.Join(strings.Fields(l), " "))
	}
	return out
}

func main() {
	repo := "/repo"
	if len(os.Args) > 1 {
		repo = os.Args[1]
	}
	var out strings.Builder
	out.WriteString("/- GENERATED by /verif/facts from the current /repo working tree. Do not edit; never committed. -/\nnamespace F1.Generated\n\n")
	byFile := map[string][]want{}
	for _, w := range wants {
		byFile[w.file] = append(byFile[w.file], w)
	}
	files := make([]string, 0, len(byFile))
	for f := range byFile {
		files = append(files, f)
	}
	sort.Strings(files)
	missing := []string{}
	for _, f := range files {
		fset := token.NewFileSet()
		// no comments: they are not part of the facts
		af, err := parser.ParseFile(fset, filepath.Join(repo, f), nil, 0)
		if err != nil {
			fmt.Fprintln(os.Stderr, "facts: cannot parse", f, err)
			os.Exit(1)
		}
		for _, w := range byFile[f] {
			found := false
			for _, d := range af.Decls {
				fd, ok := d.(*ast.FuncDecl)
				if !ok || fd.Name.Name != w.name || recvName(fd) != w.recv || fd.Body == nil {
					continue
				}
				out.WriteString(leanList("skel_"+w.lean, skeleton(fset, fd)))
				found = true
			}
			if !found {
				missing = append(missing, w.lean)
				out.WriteString(leanList("skel_"+w.lean, []string{"<function not found>"}))
			}
		}
	}
	// templates and named constants
	strConst := func(file, name string) (string, bool) {
		fset := token.NewFileSet()
		af, err := parser.ParseFile(fset, filepath.Join(repo, file), nil, 0)
		if err != nil {
			return "", false
		}
		for _, d := range af.Decls {
			gd, ok := d.(*ast.GenDecl)
			if !ok {
				continue
			}
			for _, sp := range gd.Specs {
				vs, ok := sp.(*ast.ValueSpec)
				if !ok {
					continue
				}
				for i, nm := range vs.Names {
					if nm.Name == name && i < len(vs.Values) {
						var buf bytes.Buffer
						printer.Fprint(&buf, fset, vs.Values[i])
						return buf.String(), true
					}
				}
			}
		}
		return "", false
	}
	for _, t := range [][3]string{{"internal/run/views/result.go", "resultTemplate", "tmpl_result"},
		{"internal/run/views/progress.go", "progressTemplate", "tmpl_progress"}} {
		v, ok := strConst(t[0], t[1])
		s := "<template not found>"
		if ok {
			if u, err := strconv.Unquote(v); err == nil {
				s = u
			}
		}
		out.WriteString(leanList(t[2], strings.Split(s, "\n")))
	}
	for _, c := range [][3]string{
		{"internal/run/test_runner.go", "nextIterationWindow", "const_nextIterationWindow"},
		{"internal/trigger/file/stages_worker.go", "safeDurationBeforeNextStage", "const_safeDurationBeforeNextStage"},
		{"internal/run/run_cmd.go", "waitForCompletionTimeout", "const_waitForCompletionTimeout"},
	} {
		v, ok := strConst(c[0], c[1])
		if !ok {
			v = "<constant not found>"
		}
		fmt.Fprintf(&out, "def %s : String := %s\n\n", c[2], leanStr(strings.Join(strings.Fields(v), " ")))
	}
	fmt.Fprintf(&out, "def missing : List String := [%s]\n\n", strings.Join(func() []string {
		r := []string{}
		for _, m := range missing {
			r = append(r, leanStr(m))
		}
		return r
	}(), ", "))
	out.WriteString("end F1.Generated\n")
	fmt.Print(out.String())
}
