// Command facts regenerates lean/F1Verif/Generated/Facts.lean from the current /repo tree
// (standard library only). For every anchored function it emits the normalised source of its body:
// comments and blank lines dropped, gofmt layout, and every identifier that is declared inside the
// function (receiver, parameters, locals) renamed v0, v1, … in order of first appearance — so
// renaming a local changes nothing, while any change to what the function does changes the fact.
// It also emits the two text/templates and a few named constants.
package main

import (
	"bytes"
	"fmt"
	"go/ast"
	"go/parser"
	"go/printer"
	"go/token"
	"os"
	"path/filepath"
	"sort"
	"strconv"
	"strings"
)

type want struct{ file, recv, name, lean string }

var wants = []want{
	{"internal/progress/average.go", "IterationDurations", "Add", "average_Add"},
	{"internal/progress/average.go", "IterationDurations", "Update", "average_Update"},
	{"internal/progress/average.go", "IterationDurations", "drain", "average_drain"},
	{"internal/progress/average.go", "IterationDurations", "Snapshot", "average_Snapshot"},
	{"internal/progress/average.go", "IterationDurations", "average", "average_average"},
	{"internal/progress/average.go", "DurationStats", "CollectLifetime", "average_CollectLifetime"},
	{"internal/progress/average.go", "DurationStats", "Record", "average_Record"},
	{"internal/progress/stats.go", "Stats", "Record", "stats_Record"},
	{"internal/progress/stats.go", "Stats", "Snapshot", "stats_Snapshot"},
	{"internal/progress/stats.go", "Stats", "Total", "stats_Total"},
	{"internal/workers/active_scenario.go", "ActiveScenario", "Run", "active_Run"},
	{"internal/workers/active_scenario.go", "ActiveScenario", "Setup", "active_Setup"},
	{"internal/workers/active_scenario.go", "ActiveScenario", "RecordDroppedIteration", "active_RecordDropped"},
	{"internal/workers/trigger_pool.go", "TriggerPool", "Trigger", "pool_Trigger"},
	{"internal/workers/trigger_pool.go", "TriggerPool", "Start", "pool_Start"},
	{"internal/workers/trigger_pool.go", "TriggerPool", "running", "pool_running"},
	{"internal/workers/trigger_pool.go", "TriggerPool", "stop", "pool_stop"},
	{"internal/workers/trigger_pool.go", "TriggerPool", "maxIterationsReached", "pool_maxIterationsReached"},
	{"internal/workers/trigger_pool.go", "TriggerPool", "sendJobsForExecution", "pool_sendJobs"},
	{"internal/workers/trigger_pool.go", "TriggerPool", "waitForNewJobs", "pool_waitForNewJobs"},
	{"internal/workers/trigger_pool.go", "TriggerPool", "run", "pool_run"},
	{"internal/workers/trigger_pool.go", "jobCounter", "set", "jobCounter_set"},
	{"internal/workers/trigger_pool.go", "jobCounter", "none", "jobCounter_none"},
	{"internal/workers/trigger_pool.go", "jobCounter", "take", "jobCounter_take"},
	{"internal/workers/pool_manager.go", "PoolManager", "NextIteration", "manager_NextIteration"},
	{"internal/workers/pool_manager.go", "PoolManager", "MaxIterationsReached", "manager_MaxIterationsReached"},
	{"internal/workers/pool_manager.go", "PoolManager", "makeIterationStatePool", "manager_makeIterationStatePool"},
	{"internal/workers/pool_manager.go", "PoolManager", "WaitForCompletion", "manager_WaitForCompletion"},
	{"internal/workers/continuous_pool.go", "ContinuousPool", "Start", "cpool_Start"},
	{"internal/workers/continuous_pool.go", "ContinuousPool", "startWorker", "cpool_startWorker"},
	{"internal/raterun/runner.go", "Runner", "Start", "runner_Start"},
	{"internal/raterun/runner.go", "Runner", "Stop", "runner_Stop"},
	{"internal/raterun/runner.go", "Runner", "Restart", "runner_Restart"},
	{"internal/raterun/runner.go", "schedules", "start", "schedules_start"},
	{"internal/run/test_runner.go", "Run", "Do", "run_Do"},
	{"internal/run/test_runner.go", "Run", "run", "run_run"},
	{"internal/run/test_runner.go", "Run", "teardownActiveScenario", "run_teardown"},
	{"internal/run/test_runner.go", "Run", "reportSetupFailure", "run_reportSetupFailure"},
	{"internal/run/result.go", "Result", "Failed", "result_Failed"},
	{"internal/run/result.go", "Result", "Summary", "result_Summary"},
	{"internal/run/result.go", "Result", "Teardown", "result_Teardown"},
	{"internal/run/result.go", "Result", "Error", "result_Error"},
	{"internal/run/result.go", "Result", "SnapshotProgress", "result_SnapshotProgress"},
	{"internal/run/result.go", "Result", "GetTotals", "result_GetTotals"},
	{"internal/trigger/api/iteration_worker.go", "", "NewIterationWorker", "api_NewIterationWorker"},
	{"internal/trigger/api/iteration_distribution.go", "", "withRegularDistribution", "api_withRegularDistribution"},
	{"internal/trigger/api/iteration_distribution.go", "", "withRandomDistribution", "api_withRandomDistribution"},
	{"internal/trigger/api/iteration_jitter.go", "", "WithJitter", "api_WithJitter"},
	{"internal/trigger/file/stages_worker.go", "", "newStagesWorker", "file_newStagesWorker"},
	{"internal/trigger/file/stages_worker.go", "", "runStage", "file_runStage"},
	{"pkg/f1/testing/t.go", "T", "teardown", "t_teardown"},
	{"pkg/f1/testing/t.go", "T", "Reset", "t_Reset"},
	{"pkg/f1/testing/t.go", "T", "Fail", "t_Fail"},
	{"pkg/f1/testing/t.go", "T", "FailNow", "t_FailNow"},
	{"pkg/f1/testing/t.go", "T", "Time", "t_Time"},
	{"pkg/f1/testing/t.go", "", "CheckResults", "t_CheckResults"},
	{"pkg/f1/testing/t.go", "", "handlePanic", "t_handlePanic"},
	{"pkg/f1/f1_scenarios.go", "", "CombineScenarios", "f1_CombineScenarios"},
	{"internal/log/attrs.go", "", "IterationStatsGroup", "log_IterationStatsGroup"},
	{"internal/metrics/metrics.go", "", "getStaticMetricLabelValues", "metrics_labelValues"},
	{"internal/metrics/metrics.go", "", "getStaticMetricLabelKeys", "metrics_labelKeys"},
	{"internal/metrics/metrics.go", "", "sortedKeys", "metrics_sortedKeys"},
	{"internal/metrics/metrics.go", "Metrics", "RecordIterationResult", "metrics_RecordIterationResult"},
	{"internal/metrics/metrics.go", "Metrics", "Reset", "metrics_Reset"},
	// --- second batch: callers, constructors, parsers and builders around the modelled cores
	{"internal/run/result.go", "Result", "Progress", "result_Progress"},
	{"internal/run/result.go", "Result", "HasDroppedIterations", "result_HasDropped"},
	{"internal/run/result.go", "Result", "Setup", "result_Setup"},
	{"internal/run/result.go", "Result", "MaxDurationElapsed", "result_MaxDurationElapsed"},
	{"internal/run/result.go", "Result", "Interrupted", "result_Interrupted"},
	{"internal/run/result.go", "Result", "RecordStarted", "result_RecordStarted"},
	{"internal/run/result.go", "Result", "RecordTestFinished", "result_RecordTestFinished"},
	{"internal/run/result.go", "Result", "MaxIterationsReached", "result_MaxIterationsReached"},
	{"internal/run/result.go", "Result", "duration", "result_duration"},
	{"internal/run/result.go", "Result", "AddError", "result_AddError"},
	{"internal/run/result.go", "Result", "Snapshot", "result_Snapshot"},
	{"internal/run/result.go", "", "NewResult", "result_New"},
	{"internal/run/test_runner.go", "", "newProgressRunner", "run_newProgressRunner"},
	{"internal/run/test_runner.go", "", "NewRun", "run_NewRun"},
	{"internal/run/test_runner.go", "Run", "fail", "run_fail"},
	{"internal/run/test_runner.go", "Run", "printSummary", "run_printSummary"},
	{"internal/run/run_cmd.go", "", "Cmd", "runcmd_Cmd"},
	{"internal/run/run_cmd.go", "", "runCmdExecute", "runcmd_Execute"},
	{"internal/trigger/rate/rate.go", "", "ParseRate", "rate_ParseRate"},
	{"internal/trigger/rate/rate.go", "", "startsWithLetter", "rate_startsWithLetter"},
	{"internal/trigger/staged/stage.go", "", "ParseStages", "staged_ParseStages"},
	{"internal/trigger/staged/calculator.go", "", "NewRateCalculator", "staged_NewRateCalculator"},
	{"internal/trigger/staged/calculator.go", "RateCalculator", "addRange", "staged_addRange"},
	{"internal/trigger/staged/calculator.go", "RateCalculator", "add", "staged_add"},
	{"internal/trigger/staged/calculator.go", "RateCalculator", "Rate", "staged_Rate"},
	{"internal/trigger/staged/calculator.go", "RateCalculator", "MaxDuration", "staged_MaxDuration"},
	{"internal/trigger/staged/staged_rate.go", "", "Rate", "staged_Builder"},
	{"internal/trigger/staged/staged_rate.go", "", "CalculateStagedRate", "staged_Calculate"},
	{"internal/trigger/ramp/ramp_rate.go", "", "Rate", "ramp_Builder"},
	{"internal/trigger/ramp/ramp_rate.go", "", "CalculateRampRate", "ramp_Calculate"},
	{"internal/trigger/constant/constant_rate.go", "", "Rate", "constant_Builder"},
	{"internal/trigger/constant/constant_rate.go", "", "CalculateConstantRate", "constant_Calculate"},
	{"internal/trigger/users/users_rate.go", "", "Rate", "users_Builder"},
	{"internal/trigger/users/users_rate.go", "", "NewWorker", "users_NewWorker"},
	{"internal/trigger/gaussian/gaussian_rate.go", "", "Rate", "gauss_Builder"},
	{"internal/trigger/gaussian/gaussian_rate.go", "", "CalculateGaussianRate", "gauss_Calculate"},
	{"internal/trigger/gaussian/gaussian_rate.go", "Calculator", "For", "gauss_For"},
	{"internal/trigger/gaussian/gaussian_rate.go", "", "NewCalculator", "gauss_NewCalculator"},
	{"internal/trigger/gaussian/gaussian_rate.go", "", "CalculateVolume", "gauss_CalculateVolume"},
	{"internal/trigger/gaussian/gaussian_rate.go", "", "parseRateToTPS", "gauss_parseRateToTPS"},
	{"internal/gaussian/gaussian.go", "", "NewDistribution", "gdist_New"},
	{"internal/gaussian/gaussian.go", "Distribution", "Exponent", "gdist_Exponent"},
	{"internal/gaussian/gaussian.go", "Distribution", "PDF", "gdist_PDF"},
	{"internal/gaussian/gaussian.go", "Distribution", "CDF", "gdist_CDF"},
	{"internal/trigger/api/iteration_distribution.go", "", "NewDistribution", "api_NewDistribution"},
	{"internal/trigger/file/file_parser.go", "", "ParseConfigFile", "file_ParseConfigFile"},
	{"internal/trigger/file/file_parser.go", "Stage", "parseStage", "file_parseStage"},
	{"internal/trigger/file/file_parser.go", "ConfigFile", "validateCommonFields", "file_validateCommonFields"},
	{"internal/trigger/file/file_parser.go", "Stage", "validateCommonFieldsOfStage", "file_validateCommonFieldsOfStage"},
	{"internal/trigger/file/file_parser.go", "Stage", "validateConstantStage", "file_validateConstantStage"},
	{"internal/trigger/file/file_parser.go", "Stage", "validateRampStage", "file_validateRampStage"},
	{"internal/trigger/file/file_parser.go", "Stage", "validateStagedStage", "file_validateStagedStage"},
	{"internal/trigger/file/file_parser.go", "Stage", "validateGaussianStage", "file_validateGaussianStage"},
	{"internal/trigger/file/file_parser.go", "Stage", "validateUsersStage", "file_validateUsersStage"},
	{"internal/trigger/file/file_rate.go", "", "Rate", "file_Builder"},
	{"internal/trigger/file/stages_worker.go", "", "setEnvs", "file_setEnvs"},
	{"internal/trigger/file/stages_worker.go", "", "unsetEnvs", "file_unsetEnvs"},
	{"internal/workers/pool_manager.go", "", "New", "manager_New"},
	{"internal/workers/pool_manager.go", "PoolManager", "NewTriggerPool", "manager_NewTriggerPool"},
	{"internal/workers/pool_manager.go", "PoolManager", "NewContinuousPool", "manager_NewContinuousPool"},
	{"internal/workers/trigger_pool.go", "", "newTriggerPool", "pool_new"},
	{"internal/workers/continuous_pool.go", "", "newContinuousPool", "cpool_new"},
	{"internal/workers/continuous_pool.go", "ContinuousPool", "maxIterationsReached", "cpool_maxIterationsReached"},
	{"internal/workers/active_scenario.go", "", "NewActiveScenario", "active_New"},
	{"internal/workers/active_scenario.go", "ActiveScenario", "newIterationState", "active_newIterationState"},
	{"internal/workers/active_scenario.go", "ActiveScenario", "TeardownFailed", "active_TeardownFailed"},
	{"internal/workers/active_scenario.go", "ActiveScenario", "Failed", "active_Failed"},
	{"pkg/f1/testing/t.go", "T", "Cleanup", "t_Cleanup"},
	{"pkg/f1/testing/t.go", "T", "Errorf", "t_Errorf"},
	{"pkg/f1/testing/t.go", "T", "Error", "t_Error"},
	{"pkg/f1/testing/t.go", "T", "Fatalf", "t_Fatalf"},
	{"pkg/f1/testing/t.go", "T", "Fatal", "t_Fatal"},
	{"pkg/f1/testing/t.go", "T", "Failed", "t_Failed"},
	{"pkg/f1/testing/t.go", "T", "TeardownFailed", "t_TeardownFailed"},
	{"pkg/f1/testing/t.go", "", "recordTime", "t_recordTime"},
	{"pkg/f1/testing/t.go", "", "NewTWithOptions", "t_NewTWithOptions"},
	{"internal/progress/average.go", "IterationDurations", "Reset", "average_Reset"},
	{"internal/progress/stats.go", "Snapshot", "Iterations", "snapshot_Iterations"},
	{"internal/progress/stats.go", "Snapshot", "IterationsStarted", "snapshot_IterationsStarted"},
	{"internal/metrics/metrics.go", "", "buildMetrics", "metrics_build"},
	{"internal/metrics/metrics.go", "", "NewInstance", "metrics_NewInstance"},
	{"internal/metrics/metrics.go", "Metrics", "RecordSetupResult", "metrics_RecordSetupResult"},
	{"internal/metrics/metrics.go", "Metrics", "RecordIterationStage", "metrics_RecordIterationStage"},
	{"internal/raterun/runner.go", "", "New", "runner_New"},
	{"internal/raterun/runner.go", "", "newSchedules", "schedules_new"},
	{"internal/raterun/runner.go", "schedules", "startFirst", "schedules_startFirst"},
	{"internal/raterun/runner.go", "schedules", "startNext", "schedules_startNext"},
	{"internal/raterun/runner.go", "schedules", "currentFrequency", "schedules_currentFrequency"},
	{"internal/raterun/runner.go", "schedules", "stop", "schedules_stop"},
	{"internal/raterun/runner.go", "schedules", "timeUntilNextSchedule", "schedules_timeUntilNextSchedule"},
	{"internal/raterun/runner.go", "schedules", "currentScheduleTicker", "schedules_currentScheduleTicker"},
	{"internal/run/views/result.go", "ResultData", "Log", "views_ResultLog"},
	{"internal/run/views/result.go", "Views", "Result", "views_Result"},
	{"internal/run/views/progress.go", "ProgressData", "Log", "views_ProgressLog"},
	{"internal/run/views/progress.go", "Views", "Progress", "views_Progress"},
	{"internal/run/views/templates.go", "", "render", "views_render"},
	{"pkg/f1/f1.go", "F1", "execute", "f1_execute"},
	{"pkg/f1/f1.go", "F1", "ExecuteWithArgs", "f1_ExecuteWithArgs"},
	{"pkg/f1/root_cmd.go", "", "buildRootCmd", "f1_buildRootCmd"},
	{"internal/trigger/configure.go", "", "GetBuilders", "trigger_GetBuilders"},
}

func recvName(fd *ast.FuncDecl) string {
	if fd.Recv == nil || len(fd.Recv.List) == 0 {
		return ""
	}
	t := fd.Recv.List[0].Type
	if s, ok := t.(*ast.StarExpr); ok {
		t = s.X
	}
	if ix, ok := t.(*ast.IndexExpr); ok {
		t = ix.X
	}
	if id, ok := t.(*ast.Ident); ok {
		return id.Name
	}
	return ""
}

func leanStr(s string) string {
	var b strings.Builder
	b.WriteByte('"')
	for _, r := range s {
		switch r {
		case '\\':
			b.WriteString("\\\\")
		case '"':
			b.WriteString("\\\"")
		case '\n':
			b.WriteString("\\n")
		case '\t':
			b.WriteString("\\t")
		case '\r':
			b.WriteString("\\r")
		default:
			if r < 0x20 {
				fmt.Fprintf(&b, "\\x%02x", r)
			} else {
				b.WriteRune(r)
			}
		}
	}
	b.WriteByte('"')
	return b.String()
}

func leanList(name string, lines []string) string {
	var b strings.Builder
	fmt.Fprintf(&b, "def %s : List String := [\n", name)
	for i, l := range lines {
		b.WriteString("  " + leanStr(l))
		if i < len(lines)-1 {
			b.WriteString(",")
		}
		b.WriteString("\n")
	}
	b.WriteString("]\n\n")
	return b.String()
}

// skeleton returns the normalised lines of a function (signature line + body).
func skeleton(fset *token.FileSet, fd *ast.FuncDecl) []string {
	names := map[*ast.Object]string{}
	n := 0
	var todo []*ast.Ident
	rename := func(id *ast.Ident) {
		if id.Obj == nil || id.Obj.Kind != ast.Var || id.Name == "_" {
			return
		}
		if _, ok := names[id.Obj]; !ok {
			// Object.Pos() looks the name up in the declaration, so decide before anything is renamed
			if id.Obj.Pos() < fd.Pos() || id.Obj.Pos() > fd.End() {
				return
			}
			names[id.Obj] = "v" + strconv.Itoa(n)
			n++
		}
		todo = append(todo, id)
	}
	var visit func(node ast.Node) bool
	visit = func(node ast.Node) bool {
		switch x := node.(type) {
		case *ast.SelectorExpr:
			// only the root of a selector chain can be a local; field and method names stay
			ast.Inspect(x.X, visit)
			return false
		case *ast.KeyValueExpr:
			if _, isIdent := x.Key.(*ast.Ident); !isIdent {
				ast.Inspect(x.Key, visit)
			}
			ast.Inspect(x.Value, visit)
			return false
		case *ast.Ident:
			rename(x)
		}
		return true
	}
	ast.Inspect(fd, visit)
	for _, id := range todo {
		id.Name = names[id.Obj]
	}
	fd.Doc = nil
	var buf bytes.Buffer
	cfg := printer.Config{Mode: printer.RawFormat, Tabwidth: 1}
	if err := cfg.Fprint(&buf, fset, fd); err != nil {
		panic(err)
	}
	var out []string
	for _, l := range strings.Split(buf.String(), "\n") {
		l = strings.TrimSpace(l)
		if i := strings.Index(l, "//"); i >= 0 && !strings.Contains(l[:i], "\"") {
			l = strings.TrimSpace(l[:i])
		}
		if l == "" {
			continue
		}
		out = append(out, strings.Join(strings.Fields(l), " "))
	}
	return out
}

// ---- a small translator: the body of Run.Do as a list of F1.Lifecycle.Stmt (statement order and defers) ----

func calleeName(e ast.Expr) string {
	c, ok := e.(*ast.CallExpr)
	if !ok {
		return ""
	}
	switch f := c.Fun.(type) {
	case *ast.SelectorExpr:
		return f.Sel.Name
	case *ast.Ident:
		return f.Name
	}
	return ""
}

var deferActs = map[string]string{"Close": "closeLog", "printSummary": "printSummary", "teardownActiveScenario": "teardown"}
var callActs = map[string]string{"Display": "welcome", "Reset": "resetMetrics", "Setup": "setup", "pushMetrics": "pushMetrics",
	"RecordStarted": "recordStarted", "Start": "startProgress", "run": "runAndWait", "Stop": "stopProgress",
	"close": "stopPushTicker", "GetTotals": "getTotals", "reportSetupFailure": "reportSetupFailure"}

func actOf(m map[string]string, name string) string {
	if a, ok := m[name]; ok {
		return "." + a
	}
	return ".other"
}

func translateDo(fd *ast.FuncDecl) []string {
	var out []string
	for _, st := range fd.Body.List {
		switch s := st.(type) {
		case *ast.DeferStmt:
			out = append(out, ".defer "+actOf(deferActs, calleeName(s.Call)))
		case *ast.ExprStmt:
			out = append(out, ".act "+actOf(callActs, calleeName(s.X)))
		case *ast.GoStmt:
			out = append(out, ".act .startPushTicker")
		case *ast.IfStmt:
			// `if … { …; return … }`: the calls of the branch, then the function returns
			n := len(s.Body.List)
			if n > 0 {
				if ret, ok := s.Body.List[n-1].(*ast.ReturnStmt); ok {
					var acts []string
					for _, b := range s.Body.List[:n-1] {
						if es, ok := b.(*ast.ExprStmt); ok {
							acts = append(acts, actOf(callActs, calleeName(es.X)))
						}
					}
					for _, r := range ret.Results {
						if nm := calleeName(r); nm != "" {
							acts = append(acts, actOf(callActs, nm))
						}
					}
					out = append(out, ".retIf ["+strings.Join(acts, ", ")+"]")
					continue
				}
			}
			out = append(out, ".act .other")
		case *ast.AssignStmt, *ast.DeclStmt, *ast.ReturnStmt:
			// pure constructions (views, contexts, channels) and the final return
		default:
			out = append(out, ".act .other")
		}
	}
	return out
}

func main() {
	repo := "/repo"
	if len(os.Args) > 1 {
		repo = os.Args[1]
	}
	var out strings.Builder
	out.WriteString("/- GENERATED by /verif/facts from the current /repo working tree. Do not edit; never committed. -/\nnamespace F1.Generated\n\n")
	byFile := map[string][]want{}
	for _, w := range wants {
		byFile[w.file] = append(byFile[w.file], w)
	}
	files := make([]string, 0, len(byFile))
	for f := range byFile {
		files = append(files, f)
	}
	sort.Strings(files)
	missing := []string{}
	for _, f := range files {
		fset := token.NewFileSet()
		// no comments: they are not part of the facts
		af, err := parser.ParseFile(fset, filepath.Join(repo, f), nil, 0)
		if err != nil {
			fmt.Fprintln(os.Stderr, "facts: cannot parse", f, err)
			os.Exit(1)
		}
		for _, w := range byFile[f] {
			found := false
			for _, d := range af.Decls {
				fd, ok := d.(*ast.FuncDecl)
				if !ok || fd.Name.Name != w.name || recvName(fd) != w.recv || fd.Body == nil {
					continue
				}
				out.WriteString(leanList("skel_"+w.lean, skeleton(fset, fd)))
				found = true
			}
			if !found {
				missing = append(missing, w.lean)
				out.WriteString(leanList("skel_"+w.lean, []string{"<function not found>"}))
			}
		}
	}
	// templates and named constants
	strConst := func(file, name string) (string, bool) {
		fset := token.NewFileSet()
		af, err := parser.ParseFile(fset, filepath.Join(repo, file), nil, 0)
		if err != nil {
			return "", false
		}
		for _, d := range af.Decls {
			gd, ok := d.(*ast.GenDecl)
			if !ok {
				continue
			}
			for _, sp := range gd.Specs {
				vs, ok := sp.(*ast.ValueSpec)
				if !ok {
					continue
				}
				for i, nm := range vs.Names {
					if nm.Name == name && i < len(vs.Values) {
						var buf bytes.Buffer
						printer.Fprint(&buf, fset, vs.Values[i])
						return buf.String(), true
					}
				}
			}
		}
		return "", false
	}
	for _, t := range [][3]string{{"internal/run/views/result.go", "resultTemplate", "tmpl_result"},
		{"internal/run/views/progress.go", "progressTemplate", "tmpl_progress"}} {
		v, ok := strConst(t[0], t[1])
		s := "<template not found>"
		if ok {
			if u, err := strconv.Unquote(v); err == nil {
				s = u
			}
		}
		out.WriteString(leanList(t[2], strings.Split(s, "\n")))
	}
	for _, c := range [][3]string{
		{"internal/run/test_runner.go", "nextIterationWindow", "const_nextIterationWindow"},
		{"internal/trigger/file/stages_worker.go", "safeDurationBeforeNextStage", "const_safeDurationBeforeNextStage"},
		{"internal/run/run_cmd.go", "waitForCompletionTimeout", "const_waitForCompletionTimeout"},
	} {
		v, ok := strConst(c[0], c[1])
		if !ok {
			v = "<constant not found>"
		}
		fmt.Fprintf(&out, "def %s : String := %s\n\n", c[2], leanStr(strings.Join(strings.Fields(v), " ")))
	}
	fmt.Fprintf(&out, "def missing : List String := [%s]\n\n", strings.Join(func() []string {
		r := []string{}
		for _, m := range missing {
			r = append(r, leanStr(m))
		}
		return r
	}(), ", "))
	out.WriteString("end F1.Generated\n")
	// second generated file: Run.Do translated
	out.WriteString("-- ===FILE DoBody.lean===\n")
	out.WriteString("/- GENERATED by /verif/facts (translator for Run.Do) from the current /repo working tree. Do not edit; never committed. -/\nimport F1Verif.Model.Lifecycle\nnamespace F1.Generated\nopen F1.Lifecycle\n\n")
	stmts := []string{}
	{
		fset := token.NewFileSet()
		af, err := parser.ParseFile(fset, filepath.Join(repo, "internal/run/test_runner.go"), nil, 0)
		if err == nil {
			for _, d := range af.Decls {
				if fd, ok := d.(*ast.FuncDecl); ok && fd.Name.Name == "Do" && recvName(fd) == "Run" && fd.Body != nil {
					stmts = translateDo(fd)
				}
			}
		}
	}
	out.WriteString("def doBody : List Stmt := [\n  " + strings.Join(stmts, ",\n  ") + "]\n\nend F1.Generated\n")
	// third generated file: the sequential cores translated to MiniGo
	out.WriteString("-- ===FILE MiniGo.lean===\n")
	out.WriteString(translateMiniGo(repo))
	fmt.Print(out.String())
}
