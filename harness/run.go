package main

import (
	"runtime"
	"context"
	"errors"
	"fmt"
	"io"
	"log/slog"
	"os"
	"sort"
	"strconv"
	"strings"
	"sync"
	"sync/atomic"
	"time"

	"github.com/prometheus/client_golang/prometheus"
	"go.uber.org/goleak"

	"github.com/form3tech-oss/f1/v2/internal/envsettings"
	"github.com/form3tech-oss/f1/v2/internal/metrics"
	"github.com/form3tech-oss/f1/v2/internal/options"
	"github.com/form3tech-oss/f1/v2/internal/run"
	"github.com/form3tech-oss/f1/v2/internal/trigger/api"
	"github.com/form3tech-oss/f1/v2/internal/trigger/constant"
	"github.com/form3tech-oss/f1/v2/internal/trigger/file"
	"github.com/form3tech-oss/f1/v2/internal/trigger/gaussian"
	"github.com/form3tech-oss/f1/v2/internal/trigger/ramp"
	"github.com/form3tech-oss/f1/v2/internal/trigger/staged"
	"github.com/form3tech-oss/f1/v2/internal/trigger/users"
	"github.com/form3tech-oss/f1/v2/internal/ui"
	"github.com/form3tech-oss/f1/v2/internal/verifhook"
	"github.com/form3tech-oss/f1/v2/pkg/f1"
	"github.com/form3tech-oss/f1/v2/pkg/f1/scenarios"
	f1testing "github.com/form3tech-oss/f1/v2/pkg/f1/testing"
)

// captureHandler records structured log messages (progress lines, warnings) with a timestamp.
type captureHandler struct {
	mu      sync.Mutex
	records []capRec
	stall   func(msg string) // optional: called before a record is stored
}

type capRec struct {
	at      time.Time // when the record was stored (after a stall, if any)
	arrived time.Time // when the handler was entered
	msg     string
}

func (h *captureHandler) Enabled(context.Context, slog.Level) bool { return true }
func (h *captureHandler) Handle(_ context.Context, r slog.Record) error {
	arrived := time.Now()
	if h.stall != nil {
		h.stall(r.Message)
	}
	h.mu.Lock()
	h.records = append(h.records, capRec{time.Now(), arrived, r.Message})
	h.mu.Unlock()
	return nil
}
func (h *captureHandler) WithAttrs([]slog.Attr) slog.Handler { return h }
func (h *captureHandler) WithGroup(string) slog.Handler      { return h }

func (h *captureHandler) countArrivedAfter(msg string, t time.Time) int {
	h.mu.Lock()
	defer h.mu.Unlock()
	n := 0
	for _, r := range h.records {
		if r.msg == msg && r.arrived.After(t) {
			n++
		}
	}
	return n
}

func (h *captureHandler) countAfter(msg string, t time.Time) int {
	h.mu.Lock()
	defer h.mu.Unlock()
	n := 0
	for _, r := range h.records {
		if r.msg == msg && r.at.After(t) {
			n++
		}
	}
	return n
}

func ms(s string) time.Duration { return time.Duration(atoi(s)) * time.Millisecond }

// slowWriter is a terminal that takes its time: the first line written >= 900 ms after t0 is held for `hold`
// (or until shortly after Do has returned); `after` counts writes that complete after Do returned.
type slowWriter struct {
	t0         time.Time
	hold       time.Duration
	once       sync.Once
	doReturned *atomic.Int64
	after      atomic.Int64
}

func (w *slowWriter) Write(b []byte) (int, error) {
	if !w.t0.IsZero() && time.Since(w.t0) >= 900*time.Millisecond {
		w.once.Do(func() {
			dl := time.Now().Add(w.hold)
			for time.Now().Before(dl) && w.doReturned.Load() == 0 {
				time.Sleep(2 * time.Millisecond)
			}
			if w.doReturned.Load() != 0 {
				time.Sleep(20 * time.Millisecond)
			}
		})
	}
	if r := w.doReturned.Load(); r != 0 && time.Now().UnixNano() > r+int64(10*time.Millisecond) {
		w.after.Add(1)
	}
	return len(b), nil
}

type rateLog struct {
	mu    sync.Mutex
	times []time.Time
	vals  []int
}

func init() {
	// run k=v … — one real Run.Do in-process. Keys (defaults in brackets):
	//  mode[constant] rate[10/100ms] dist[none] stages freq start end rampdur  (trigger)
	//  dur[600] conc[10] maxit[0] igndrop[1] timeout[3000]                      (options, ms)
	//  body[0]  comma list of body durations in ms, cycled by iteration id
	//  block[0] iteration id (>0) whose body blocks until 2 s after Do returned (for the completion timeout)
	//  failevery[0] cleanup[0](ms slept in a per-iteration cleanup) setupfail[0] setupcleanups[2]
	//  cancel[-1] (ms after start at which the caller's context is cancelled)
	//  stallprogress[0] (ms: the log sink stalls the first progress line for that long)
	//  file=<stage list> for mode=file: kind:durMs:arg;…  kinds: c (constant, arg = rate), u (users, arg = n), z (constant 0/s)
	register("run", func(a []string) string {
		p := map[string]string{"mode": "constant", "rate": "10/100ms", "dist": "none", "dur": "600", "conc": "10",
			"maxit": "0", "igndrop": "1", "timeout": "3000", "body": "0", "block": "0", "failevery": "0", "cleanup": "0",
			"setupfail": "0", "setupcleanups": "2", "cancel": "-1", "stallprogress": "0", "stallprint": "0", "maxfail": "0", "maxfailrate": "0"}
		for _, kv := range a {
			if i := strings.IndexByte(kv, '='); i > 0 {
				p[kv[:i]] = kv[i+1:]
			}
		}
		var bodies []time.Duration
		for _, b := range strings.Split(p["body"], ",") {
			bodies = append(bodies, ms(b))
		}
		failEvery, blockID := atoi(p["failevery"]), p["block"]
		cleanupD := ms(p["cleanup"])
		conc := atoi(p["conc"])

		var mu sync.Mutex
		var seq atomic.Int64
		type iterRec struct {
			id               string
			startSeq, endSeq int64
			start            time.Time
			bodyDone         atomic.Bool
			cleanups         atomic.Int64
		}
		var idChanged, cleanupEarly atomic.Int64
		trackCleanup := p["trackcleanup"] == "1"
		iters := map[string]*iterRec{}
		var started, finished, inflight, maxflight, shared, truthS, truthF, envBad atomic.Int64
		live := map[*f1testing.T]int{}
		var setupCount atomic.Int64
		var setupSeq, teardownFirstSeq, lastCleanupSeq atomic.Int64
		teardownOrder := []int{}
		unblock := make(chan struct{})

		var setupT0 *f1testing.T
		scenarioFn := func(t *f1testing.T) f1testing.RunFn {
			setupT0 = t
			setupCount.Add(1)
			setupSeq.Store(seq.Add(1))
			n := atoi(p["setupcleanups"])
			for i := 1; i <= n; i++ {
				i := i
				t.Cleanup(func() {
					s := seq.Add(1)
					teardownFirstSeq.CompareAndSwap(0, s)
					mu.Lock()
					teardownOrder = append(teardownOrder, i)
					mu.Unlock()
				})
			}
			if p["setupfail"] == "1" {
				t.FailNow()
			}
			if p["setupfail"] == "2" {
				var m map[string]int
				m["x"] = 1 //nolint
			}
			return func(t *f1testing.T) {
				id := t.Iteration
				rec := &iterRec{id: id, startSeq: seq.Add(1), start: time.Now()}
				started.Add(1)
				n := inflight.Add(1)
				for {
					m := maxflight.Load()
					if n <= m || maxflight.CompareAndSwap(m, n) {
						break
					}
				}
				mu.Lock()
				iters[id+"#"+strconv.FormatInt(rec.startSeq, 10)] = rec
				live[t]++
				if live[t] > 1 {
					shared.Add(1)
				}
				mu.Unlock()
				if ce := p["cleanupfail"]; ce != "" && ce != "0" && atoi(id)%atoi(ce) == 0 {
					t.Cleanup(func() { t.Fail() }) // an iteration cleanup that reports an error
				}
				if trackCleanup {
					t.Cleanup(func() {
						if !rec.bodyDone.Load() {
							cleanupEarly.Add(1)
						}
						rec.cleanups.Add(1)
					})
				}
				if cleanupD > 0 || p["cleanup"] == "0x" {
					t.Cleanup(func() {
						lastCleanupSeq.Store(seq.Add(1))
						time.Sleep(cleanupD)
					})
				}
				num := atoi(id)
				defer func() {
					if t.Iteration != id {
						idChanged.Add(1)
					}
					rec.bodyDone.Store(true)
					mu.Lock()
					live[t]--
					mu.Unlock()
					inflight.Add(-1)
					rec.endSeq = seq.Add(1)
					finished.Add(1)
				}()
				if v, ok := p["failsetupat"]; ok && v == id && setupT0 != nil {
					// the scenario reports a broken environment through the handle it was set up with; the iterations go on
					setupT0.Fail()
				}
				if id == blockID {
					<-unblock
				} else if d := bodies[(num-1)%len(bodies)]; d > 0 {
					time.Sleep(d)
				}
				if failEvery > 0 && num%failEvery == 0 {
					truthF.Add(1)
					switch p["failkind"] {
					case "panicerr":
						panic(fmt.Errorf("scripted error panic"))
					case "panicstr":
						panic("scripted string panic")
					case "nilmap":
						var m map[string]int
						m["x"] = 1 //nolint
					case "errorf":
						t.Errorf("scripted %s", "errorf")
						return
					case "errunhash": // an error whose dynamic type is not hashable (a slice type); does not stop the iteration
						t.Error(sliceError{"scripted", "unhashable"})
						return
					case "panicunhash":
						panic(sliceError{"scripted", "unhashable", "panic"})
					case "paniclong": // a long message in a multi-byte script
						panic(errors.New(strings.Repeat("ошибка запроса ", 20))) // 300 runes, 580 bytes
					case "panicint":
						panic(42)
					case "panicis": // an error that claims to be every other error
						panic(matchesAnything{})
					case "panicnilptr": // a typed nil pointer whose Error method dereferences its receiver
						var e *nilReceiverError
						panic(e)
					case "errnil": // t.Error(nil): marks the failure, does not stop the iteration
						t.Error(nil)
						return
					case "fatalnil":
						t.Fatal(nil)
					case "foreignfailnow": // a failed assertion on the handle the scenario was set up with, made by an iteration
						setupT0.FailNow()
					case "paniccyclic": // a panic value that contains itself
						m := map[string]any{}
						m["self"] = m
						panic(m)
					case "timefail": // the failure is raised inside a timed stage
						initGlobalMetrics()
						t.Time("stage", func() { t.FailNow() })
					case "timeerr":
						initGlobalMetrics()
						t.Time("stage", func() { t.Errorf("scripted %s", "errorf in a timed stage") })
						return
					default:
						t.FailNow()
					}
				}
				truthS.Add(1)
			}
		}

		// trigger
		rl := &rateLog{}
		slowIdx, slowMs := -1, 0
		if v, ok := p["sloweval"]; ok { // <index>:<ms> — the index-th evaluation takes that long
			f := strings.SplitN(v, ":", 2)
			slowIdx, slowMs = atoi(f[0]), atoi(f[1])
		}
		// evaluations of the rate function that began while another one was still running: the function a trigger hands to the
		// tick loop keeps state between calls (carried fractions, the position in a cycle) and is written for one caller
		var inEval, evalOverlap atomic.Int64
		wrap := func(fn api.RateFunction) api.RateFunction {
			return func(t time.Time) int {
				if inEval.Add(1) > 1 {
					evalOverlap.Add(1)
				}
				defer inEval.Add(-1)
				rl.mu.Lock()
				idx := len(rl.times)
				rl.mu.Unlock()
				if idx == slowIdx {
					time.Sleep(time.Duration(slowMs) * time.Millisecond)
				}
				v := fn(t)
				rl.mu.Lock()
				rl.times = append(rl.times, time.Now())
				rl.vals = append(rl.vals, v)
				rl.mu.Unlock()
				return v
			}
		}
		var trig *api.Trigger
		var interval time.Duration
		var fileParams []map[string]string
		switch p["mode"] {
		case "constant":
			r, err := constant.CalculateConstantRate(0, p["rate"], p["dist"])
			if err != nil {
				return "trigger-err"
			}
			interval = r.IterationDuration
			rf := wrap(r.Rate)
			trig = &api.Trigger{Trigger: api.NewIterationWorker(r.IterationDuration, rf), DryRun: rf}
		case "staged":
			r, err := staged.CalculateStagedRate(0, ms(p["freq"]), p["stages"], p["dist"], nil)
			if err != nil {
				return "trigger-err"
			}
			interval = r.IterationDuration
			rf := wrap(r.Rate)
			trig = &api.Trigger{Trigger: api.NewIterationWorker(r.IterationDuration, rf), Duration: r.Duration, DryRun: rf}
		case "ramp":
			r, err := ramp.CalculateRampRate(p["start"], p["end"], p["dist"], ms(p["rampdur"]), 0)
			if err != nil {
				return "trigger-err"
			}
			interval = r.IterationDuration
			rf := wrap(r.Rate)
			trig = &api.Trigger{Trigger: api.NewIterationWorker(r.IterationDuration, rf), DryRun: rf}
		case "gaussian":
			r, err := gaussian.CalculateGaussianRate(50000, 0, time.Minute, ms(p["freq"]), 30*time.Second, 10*time.Second, "", p["dist"])
			if err != nil {
				return "trigger-err"
			}
			interval = r.IterationDuration
			rf := wrap(r.Rate)
			trig = &api.Trigger{Trigger: api.NewIterationWorker(r.IterationDuration, rf), Duration: r.Duration, DryRun: rf}
		case "users":
			// the trigger the `users` sub-command builds (its worker count is the run's concurrency option)
			b := users.Rate()
			ut, err := b.New(b.Flags)
			if err != nil {
				return "trigger-err"
			}
			trig = ut
		case "file":
			var sb strings.Builder
			fmt.Fprintf(&sb, "scenario: s\nlimits:\n  max-duration: %sms\n  concurrency: %d\n  max-iterations: %s\n  ignore-dropped: true\nstages:\n",
				p["dur"], conc, p["maxit"])
			for i, st := range strings.Split(p["file"], ";") {
				f := strings.Split(st, ":")
				key := fmt.Sprintf("F1VERIF_STAGE_%d", i)
				fileParams = append(fileParams, map[string]string{key: "v" + strconv.Itoa(i), "F1VERIF_STAGE": strconv.Itoa(i)})
				switch f[0] {
				case "c":
					fmt.Fprintf(&sb, "  - mode: constant\n    duration: %sms\n    rate: %s\n    distribution: none\n", f[1], f[2])
				case "z":
					fmt.Fprintf(&sb, "  - mode: constant\n    duration: %sms\n    rate: 0/s\n    distribution: none\n", f[1])
				case "u":
					fmt.Fprintf(&sb, "  - mode: users\n    duration: %sms\n    concurrency: %s\n", f[1], f[2])
				}
				fmt.Fprintf(&sb, "    parameters:\n      %s: v%d\n      F1VERIF_STAGE: \"%d\"\n", key, i, i)
				if p["badparam"] == "1" { // one more parameter, which the operating system refuses to export (a key with '=')
					fmt.Fprintf(&sb, "      \"F1VERIF=BAD\": x\n")
				}
			}
			rs, err := file.ParseConfigFile([]byte(sb.String()), time.Now())
			if err != nil {
				return "trigger-err:" + strings.ReplaceAll(err.Error(), " ", "_")
			}
			wt, _ := file.VerifTrigger(rs)().(api.WorkTriggerer)
			trig = &api.Trigger{Trigger: wt, Duration: rs.VerifTotalDuration()}
		default:
			return "bad-mode"
		}

		// output capture
		ch := &captureHandler{}
		var doReturned atomic.Int64 // unix nano
		if st := ms(p["stallprogress"]); st > 0 {
			var once sync.Once
			ch.stall = func(msg string) {
				if msg == "progress" {
					once.Do(func() {
						dl := time.Now().Add(st)
						for time.Now().Before(dl) && doReturned.Load() == 0 {
							time.Sleep(2 * time.Millisecond)
						}
						if doReturned.Load() != 0 {
							time.Sleep(20 * time.Millisecond) // make "after the return" unambiguous
						}
					})
				}
			}
		}
		out := ui.NewOutput(slog.New(ch), ui.NewDiscardPrinter(), false, false)
		// stallprint=<ms>: the run is interactive and not verbose, so progress goes to the terminal printer; the first
		// line written >= 900 ms into the run (the first progress tick) is held by the "terminal" for that long
		var sw *slowWriter
		verbose := true
		if st := ms(p["stallprint"]); st > 0 {
			sw = &slowWriter{hold: st, doReturned: &doReturned}
			out = ui.NewOutput(slog.New(ch), ui.NewPrinter(sw, io.Discard), true, true)
			verbose = false
		}
		m := metrics.NewInstance(prometheus.NewRegistry(), true, nil)
		topFn := f1testing.ScenarioFn(scenarioFn)
		var setupHandle atomic.Pointer[f1testing.T]
		var gotSetupHandle atomic.Int64
		if p["combine"] == "1" { // the scenario is one component of a combined scenario; a second one watches the handles
			second := func(st *f1testing.T) f1testing.RunFn {
				setupHandle.Store(st)
				return func(it *f1testing.T) {
					if it == setupHandle.Load() || it.Iteration == "setup" {
						gotSetupHandle.Add(1)
					}
				}
			}
			topFn = f1.CombineScenarios(scenarioFn, second)
		}
		scs := scenarios.New().Add(&scenarios.Scenario{Name: "s", ScenarioFn: topFn})
		opts := options.RunOptions{Scenario: "s", MaxDuration: ms(p["dur"]), Concurrency: conc, Verbose: verbose,
			MaxIterations: atou64(p["maxit"]), IgnoreDropped: p["igndrop"] == "1", MaxFailures: atou64(p["maxfail"]),
			MaxFailuresRate: atoi(p["maxfailrate"])}
		if p["prerun"] == "1" { // an earlier run of another scenario on the same metrics instance
			other := scenarios.New().Add(&scenarios.Scenario{Name: "other", ScenarioFn: func(*f1testing.T) f1testing.RunFn {
				return func(t *f1testing.T) {
					if atoi(t.Iteration)%2 == 0 {
						t.Fail()
					}
				}
			}})
			o2 := options.RunOptions{Scenario: "other", MaxDuration: time.Second, Concurrency: 2, Verbose: true, MaxIterations: 5}
			pr, err := run.NewRun(o2, other, &api.Trigger{Trigger: users.NewWorker(2)}, time.Second, envsettings.Settings{}, m,
				ui.NewOutput(slog.New(&captureHandler{}), ui.NewDiscardPrinter(), false, false))
			if err != nil {
				return "newrun-err"
			}
			if _, err := pr.Do(context.Background()); err != nil {
				return "prerun-err"
			}
		}
		if p["prerun"] == "2" { // an earlier run of the *same* scenario name (3 quick iterations) on the same metrics instance
			same := scenarios.New().Add(&scenarios.Scenario{Name: "s", ScenarioFn: func(*f1testing.T) f1testing.RunFn {
				return func(t *f1testing.T) {
					if atoi(t.Iteration)%2 == 0 {
						t.Fail()
					}
				}
			}})
			o2 := options.RunOptions{Scenario: "s", MaxDuration: time.Second, Concurrency: 2, Verbose: true, MaxIterations: 4}
			pr, err := run.NewRun(o2, same, &api.Trigger{Trigger: users.NewWorker(2)}, time.Second, envsettings.Settings{}, m,
				ui.NewOutput(slog.New(&captureHandler{}), ui.NewDiscardPrinter(), false, false))
			if err != nil {
				return "newrun-err"
			}
			if _, err := pr.Do(context.Background()); err != nil {
				return "prerun-err"
			}
		}
		settings := envsettings.Settings{}
		if !verbose { // the scenario log goes to a file: keep it in a scratch directory
			d, err := os.MkdirTemp("", "f1verif-run")
			if err != nil {
				return "harness-tempdir"
			}
			defer os.RemoveAll(d)
			settings.Log.FilePath = d + "/scenario.log"
		}
		var gw *fakeGateway
		if mode, ok := p["pushgw"]; ok { // metrics are pushed to a gateway on the loopback interface
			gw = newFakeGateway(mode)
			defer gw.srv.Close()
			settings.Prometheus.PushGateway = gw.srv.URL
		}
		before := goleak.IgnoreCurrent()
		r, err := run.NewRun(opts, scs, trig, ms(p["timeout"]), settings, m, out)
		if err != nil {
			return "newrun-err"
		}
		ctx, cancel := context.WithCancel(context.Background())
		defer cancel()
		// cancel=<ms>: the caller cancels that long after the run was started — armed right after t0 below, so that the
		// cancellation instant and the return time are measured from the same origin
		armCancel := func(t0 time.Time) {
			if c := atoi(p["cancel"]); c >= 0 {
				go func() { time.Sleep(time.Until(t0.Add(time.Duration(c) * time.Millisecond))); cancel() }()
			}
		}
		// file mode: at every accepted tick (yield point pool.trigger.accepted, i.e. while a stage triggers)
		// the stage's own parameters must be in the environment, nobody else's, and stages must not go backwards
		var stageSeqBad atomic.Int64
		var stageFirstTick []atomic.Int64 // unix nano of the first accepted tick of each stage
		if p["mode"] == "file" {
			stageFirstTick = make([]atomic.Int64, len(fileParams))
			lastStage := -1
			verifhook.Set(func(point string) {
				if point != "pool.trigger.accepted" {
					return
				}
				si := os.Getenv("F1VERIF_STAGE")
				i, err := strconv.Atoi(si)
				if err != nil || i >= len(fileParams) {
					envBad.Add(1)
					return
				}
				stageFirstTick[i].CompareAndSwap(0, time.Now().UnixNano())
				for j := range fileParams {
					v, ok := os.LookupEnv(fmt.Sprintf("F1VERIF_STAGE_%d", j))
					if (j == i) != ok || (j == i && v != "v"+strconv.Itoa(i)) {
						envBad.Add(1)
					}
				}
				if i < lastStage {
					stageSeqBad.Add(1)
				}
				lastStage = i
			})
			defer verifhook.Set(nil)
		}
		// wedge=1: replay of the end-of-run deadlock schedule — a due progress tick is held at raterun.dispatch
		// until the controller sits between the nested read locks of a final rendering (result.nested)
		if p["wedge"] == "1" {
			mainAtNested := make(chan struct{})
			var onceN, onceD sync.Once
			var dispatchParked atomic.Bool
			verifhook.Set(func(point string) {
				switch point {
				case "raterun.dispatch":
					onceD.Do(func() {
						dispatchParked.Store(true)
						select {
						case <-mainAtNested:
						case <-time.After(2500 * time.Millisecond):
						}
					})
				case "result.nested":
					if dispatchParked.Load() {
						onceN.Do(func() {
							close(mainAtNested)
							time.Sleep(60 * time.Millisecond) // let the tick request the write lock
						})
					}
				}
			})
			defer verifhook.Set(nil)
		}
		if v, ok := p["procs"]; ok { // run with that many Ps (1: the goroutines of the run take turns on one processor)
			old := runtime.GOMAXPROCS(atoi(v))
			defer runtime.GOMAXPROCS(old)
		}
		// how long this process went without being scheduled during the run (the longest gap a 2 ms heartbeat saw): the
		// monitor widens its wall-clock bounds by it, so a stalled machine does not look like a late iteration
		var maxGap atomic.Int64
		hbStop := make(chan struct{})
		go func() {
			last := time.Now()
			for {
				select {
				case <-hbStop:
					return
				default:
				}
				time.Sleep(2 * time.Millisecond)
				now := time.Now()
				if g := int64(now.Sub(last)) - int64(2*time.Millisecond); g > maxGap.Load() {
					maxGap.Store(g)
				}
				last = now
			}
		}()
		defer close(hbStop)
		t0 := time.Now()
		armCancel(t0)
		if sw != nil {
			sw.t0 = t0
		}
		type doRes struct {
			res *run.Result
			err error
		}
		doneCh := make(chan doRes, 1)
		go func() { res, err := r.Do(ctx); doneCh <- doRes{res, err} }()
		var dr doRes
		select {
		case dr = <-doneCh:
		case <-time.After(ms(p["dur"]) + ms(p["timeout"]) + 8*time.Second):
			close(unblock)
			return "never-returned"
		}
		ret := time.Since(t0)
		retAt := time.Now()
		doReturned.Store(retAt.UnixNano())
		startedAtRet, finishedAtRet := started.Load(), finished.Load()
		inflightAtRet := inflight.Load()
		seqAtRet := seq.Load()
		// environment after the run
		envAfter := "clean"
		for _, pm := range fileParams {
			for k := range pm {
				if _, ok := os.LookupEnv(k); ok {
					envAfter = "dirty"
				}
			}
		}
		time.Sleep(150 * time.Millisecond)
		startedAfter := started.Load() - startedAtRet
		progressAfter := ch.countAfter("progress", retAt)
		// progress lines later than 80 ms after the caller's cancellation (the reporter is bound to the run's context)
		progressAfterCancel := 0
		if c := atoi(p["cancel"]); c >= 0 {
			progressAfterCancel = ch.countArrivedAfter("progress", t0.Add(time.Duration(c+80)*time.Millisecond))
		}
		printAfter := 0
		if sw != nil {
			printAfter = int(sw.after.Load())
		}
		close(unblock)
		leak := 0
		if blockID == "0" {
			if err := goleak.Find(before, goleak.IgnoreTopFunction("time.Sleep")); err != nil {
				leak = 1
				if os.Getenv("VERIF_DEBUG") != "" {
					fmt.Fprintln(os.Stderr, err)
				}
			}
		}
		// ids
		mu.Lock()
		var ids []uint64
		lastIterEnd := int64(0)
		for _, it := range iters {
			ids = append(ids, atou64(it.id))
			if it.endSeq > lastIterEnd {
				lastIterEnd = it.endSeq
			}
		}
		order := append([]int(nil), teardownOrder...)
		mu.Unlock()
		d, mn, mx := idStats(ids)
		gapless := d == len(ids) && (len(ids) == 0 || (mn == 1 && mx == uint64(len(ids))))
		lastStart := int64(-1)
		cleanupBad := 0
		mu.Lock()
		for _, it := range iters {
			if trackCleanup && it.cleanups.Load() != 1 {
				cleanupBad++
			}
			if ms := it.start.Sub(t0).Milliseconds(); ms > lastStart {
				lastStart = ms
			}
		}
		mu.Unlock()
		// lifecycle order
		setupFirst := 1
		for _, it := range iters {
			if it.startSeq < setupSeq.Load() {
				setupFirst = 0
			}
		}
		tdLast := 1
		if tfs := teardownFirstSeq.Load(); tfs != 0 && inflightAtRet == 0 && tfs < lastIterEnd {
			tdLast = 0
		}
		tdOrder := 1
		want := atoi(p["setupcleanups"])
		if len(order) != want {
			tdOrder = 0
		}
		for i := range order {
			if order[i] != want-i {
				tdOrder = 0
			}
		}
		_ = seqAtRet
		// cadence: evaluation j (0-based) happens no earlier than j-1 intervals after the first (1 ms timer slack)
		cadence := "ok"
		rl.mu.Lock()
		sum := 0
		for j, t := range rl.times {
			sum += rl.vals[j]
			if interval > 0 && j >= 1 && t.Sub(rl.times[0]) < time.Duration(j)*interval-2*time.Millisecond {
				cadence = "bad@" + strconv.Itoa(j)
			}
		}
		evals := len(rl.times)
		lastVal := 0
		if evals > 0 {
			lastVal = rl.vals[evals-1]
		}
		firstEvalAfterSetup := 1
		rl.mu.Unlock()
		if dr.err != nil || dr.res == nil {
			return "do-returned-an-error"
		}
		sn := dr.res.Snapshot()
		g := gatherCounts(m.Registry)
		stageStarts := "-"
		if len(stageFirstTick) > 0 {
			var parts []string
			for i := range stageFirstTick {
				if v := stageFirstTick[i].Load(); v == 0 {
					parts = append(parts, "x")
				} else {
					parts = append(parts, strconv.FormatInt((v-t0.UnixNano())/1e6, 10))
				}
			}
			stageStarts = strings.Join(parts, ",")
		}
		pushed := "-"
		if gw != nil {
			pg, acc := gw.counts()
			pushed = fmt.Sprintf("%d/%d/%d/%d", pg.succ, pg.fail, pg.dropped, acc)
		}
		failed, hasErr := 0, 0
		if dr.res.Failed() {
			failed = 1
		}
		if dr.res.Error() != nil {
			hasErr = 1
		}
		_ = firstEvalAfterSetup
		_ = sort.Ints
		return fmt.Sprintf("ret=%d started=%d finished=%d inflight=%d startedAfter=%d progressAfter=%d gapless=%s maxid=%d "+
			"maxflight=%d shared=%d res=%d/%d/%d truth=%d/%d metrics=%d/%d/%d/%d evals=%d sumrates=%d lastval=%d cadence=%s "+
			"setups=%d setupFirst=%d tdLast=%d tdOrder=%d failed=%d err=%d leak=%d envBad=%d envAfter=%s stageOrderBad=%d "+
			"laststart=%d trigdur=%d idchanged=%d cleanupBad=%d cleanupEarly=%d setupHandleInIteration=%d pushed=%s stagestarts=%s progressAfterCancel=%d printAfter=%d "+
			"durmin=%d durmax=%d metsumus=%d stall=%d evaloverlap=%d",
			ret.Milliseconds(), startedAtRet, finishedAtRet, inflightAtRet, startedAfter, progressAfter, boolTok(gapless), mx,
			maxflight.Load(), shared.Load(), sn.SuccessfulIterationDurations.Count, sn.FailedIterationDurations.Count,
			sn.DroppedIterationCount, truthS.Load(), truthF.Load(), g.succ, g.fail, g.dropped, g.setupSucc+g.setupFail,
			evals, sum, lastVal, cadence, setupCount.Load(), setupFirst, tdLast, tdOrder, failed, hasErr, leak,
			envBad.Load(), envAfter, stageSeqBad.Load(), lastStart, trig.Duration.Milliseconds(),
			idChanged.Load(), cleanupBad, cleanupEarly.Load(), gotSetupHandle.Load(), pushed, stageStarts, progressAfterCancel, printAfter,
			sn.SuccessfulIterationDurations.Min.Microseconds(), sn.SuccessfulIterationDurations.Max.Microseconds(), iterationSumMicros(m.Registry),
			time.Duration(maxGap.Load()).Milliseconds(), evalOverlap.Load())
	})
}
