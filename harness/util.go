package main

import (
	"encoding/hex"
	"math"
	"strconv"
	"strings"
)

func atoi(s string) int {
	n, err := strconv.Atoi(s)
	if err != nil {
		panic("harness: bad int " + s)
	}
	return n
}

func atoi64(s string) int64 {
	n, err := strconv.ParseInt(s, 10, 64)
	if err != nil {
		panic("harness: bad int64 " + s)
	}
	return n
}

func atou64(s string) uint64 {
	n, err := strconv.ParseUint(s, 10, 64)
	if err != nil {
		panic("harness: bad uint64 " + s)
	}
	return n
}

func unhex(s string) string {
	if s == "-" {
		return ""
	}
	b, err := hex.DecodeString(s)
	if err != nil {
		panic("harness: bad hex " + s)
	}
	return string(b)
}

func tohex(s string) string {
	if s == "" {
		return "-"
	}
	return hex.EncodeToString([]byte(s))
}

func floatOfHex(s string) float64 {
	n, err := strconv.ParseUint(s, 16, 64)
	if err != nil {
		panic("harness: bad float bits " + s)
	}
	return math.Float64frombits(n)
}

func floatHex(f float64) string {
	return strconv.FormatUint(math.Float64bits(f), 16)
}

func parseInts(s string) []int {
	if s == "-" {
		return nil
	}
	parts := strings.Split(s, ",")
	out := make([]int, len(parts))
	for i, p := range parts {
		out[i] = atoi(p)
	}
	return out
}

func intsTok(l []int) string {
	if len(l) == 0 {
		return "-"
	}
	parts := make([]string, len(l))
	for i, v := range l {
		parts[i] = strconv.Itoa(v)
	}
	return strings.Join(parts, ",")
}

func boolTok(b bool) string {
	if b {
		return "1"
	}
	return "0"
}

// sliceError is an error whose dynamic type cannot be hashed (map keys, == on interfaces holding it panic).
type sliceError []string

func (e sliceError) Error() string { return strings.Join(e, " ") }
