// Command zzverif is the implementation side of the correspondence check. It is compiled
// *into* the f1 module with `go build -overlay` (as the virtual package internal/zzverif)
// so that it can call internal/... packages of the current /repo working tree in-process.
//
// Protocol: one case per line on stdin, `<id> <op> <args…>`; one answer per line on stdout,
// `<id>\t<canonical implementation output>`. A panic inside a handler is recovered and
// reported as `crash:<kind>`.
package main

import (
	"bufio"
	"fmt"
	"os"
	"runtime/debug"
	"strings"
	"time"
)

type handler func(args []string) string

var handlers = map[string]handler{}

func register(op string, h handler) { handlers[op] = h }

func crashKind(r any) string {
	s := fmt.Sprint(r)
	switch {
	case strings.Contains(s, "divide by zero"):
		return "divzero"
	case strings.Contains(s, "slice bounds"), strings.Contains(s, "index out of range"):
		return "bounds"
	case strings.Contains(s, "nil pointer"), strings.Contains(s, "nil map"):
		return "nil"
	case strings.Contains(s, "non-positive interval"):
		return "ticker"
	case strings.Contains(s, "Intn"):
		return "intn"
	case strings.Contains(s, "makeslice"), strings.Contains(s, "len out of range"):
		return "makeslice"
	default:
		return "other"
	}
}

func runCase(h handler, args []string) (out string) {
	defer func() {
		if r := recover(); r != nil {
			if os.Getenv("VERIF_DEBUG") != "" {
				fmt.Fprintf(os.Stderr, "panic: %v\n%s\n", r, debug.Stack())
			}
			out = "crash:" + crashKind(r)
		}
	}()
	return h(args)
}

func main() {
	// `mg.<op>`: the same implementation-side handler; the driver answers from the regenerated MiniGo program
	for _, op := range []string{"verdict", "iter.seq", "jobcounter", "dist", "staged", "ramp", "gauss", "scn", "plan"} {
		if h, ok := handlers[op]; ok {
			handlers["mg."+op] = h
		}
	}
	debug.SetGCPercent(200)
	in := bufio.NewReaderSize(os.Stdin, 1<<20)
	out := bufio.NewWriterSize(os.Stdout, 1<<16)
	defer out.Flush()
	// the code under test prints (cobra usage, console summaries): keep it off the protocol channel
	if devnull, err := os.OpenFile(os.DevNull, os.O_WRONLY, 0); err == nil {
		os.Stdout = devnull
		if os.Getenv("VERIF_DEBUG") == "" {
			os.Stderr = devnull
		}
	}
	for {
		line, err := in.ReadString('\n')
		line = strings.TrimSpace(line)
		if line != "" {
			f := strings.Fields(line)
			if len(f) >= 2 {
				h, ok := handlers[f[1]]
				var res string
				if !ok {
					res = "bad-op"
				} else {
					done := make(chan string, 1)
					go func() { done <- runCase(h, f[2:]) }()
					select {
					case res = <-done:
					case <-time.After(caseTimeout(f[1])):
						res = "timeout"
					}
				}
				fmt.Fprintf(out, "%s\t%s\n", f[0], res)
				out.Flush()
			}
		}
		if err != nil {
			return
		}
	}
}

func caseTimeout(op string) time.Duration {
	if strings.HasPrefix(op, "run.") {
		return 60 * time.Second
	}
	// thousands of scripted rounds with spin-waits: 8 s on an idle machine, several times that next to other checks
	if strings.HasPrefix(op, "pool.") || strings.HasPrefix(op, "progress.stress") || strings.HasPrefix(op, "iter.stress") {
		return 150 * time.Second
	}
	return 20 * time.Second
}
