package main

import (
	"context"
	"fmt"
	"sync"
	"sync/atomic"
	"time"

	"github.com/form3tech-oss/f1/v2/internal/raterun"
	"github.com/form3tech-oss/f1/v2/internal/verifhook"
)

// event log with sequence numbers from one atomic counter
type evlog struct {
	mu  sync.Mutex
	evs []string
}

func (l *evlog) add(e string) {
	l.mu.Lock()
	l.evs = append(l.evs, e)
	l.mu.Unlock()
}

func (l *evlog) snapshot() []string {
	l.mu.Lock()
	defer l.mu.Unlock()
	return append([]string(nil), l.evs...)
}

func init() {
	// raterun.stop <mode> <freqMs> <holdMs> <graceMs>
	//   mode inflight: Stop is called while the function is executing (gated for holdMs)
	//   mode due:      Stop is called while a due tick is parked at raterun.dispatch
	//   mode idle:     Stop is called between ticks
	//   mode cancel:   the context is cancelled instead of Stop (no-leak check only)
	// output: stopEarly=<0|1> callsAfterStop=<n> inFnAtStopReturn=<0|1> alive=<0|1> calls=<n>
	register("raterun.stop", func(a []string) string {
		mode := a[0]
		freq := time.Duration(atoi(a[1])) * time.Millisecond
		hold := time.Duration(atoi(a[2])) * time.Millisecond
		grace := time.Duration(atoi(a[3])) * time.Millisecond

		var calls, inFn atomic.Int64
		entered := make(chan struct{}, 1024)
		release := make(chan struct{})
		gate := mode == "inflight"
		fn := func(time.Duration) {
			calls.Add(1)
			inFn.Add(1)
			defer inFn.Add(-1)
			select {
			case entered <- struct{}{}:
			default:
			}
			if gate {
				<-release
			}
		}
		r, err := raterun.New(fn, []raterun.Schedule{{StartDelay: 0, Frequency: freq}})
		if err != nil {
			return "err"
		}
		parked := make(chan struct{}, 1)
		resume := make(chan struct{})
		if mode == "due" {
			var once sync.Once
			verifhook.Set(func(p string) {
				if p == "raterun.dispatch" {
					once.Do(func() {
						parked <- struct{}{}
						<-resume
					})
				}
			})
			defer verifhook.Set(nil)
		}
		ctx, cancel := context.WithCancel(context.Background())
		defer cancel()
		r.Start(ctx)

		switch mode {
		case "inflight":
			<-entered
		case "due":
			<-parked
		case "idle", "cancel":
			<-entered
			time.Sleep(freq / 3)
		}
		if mode == "cancel" {
			cancel()
			time.Sleep(grace)
			c0 := calls.Load()
			time.Sleep(4*freq + grace)
			return fmt.Sprintf("stopEarly=0 callsAfterStop=%d inFnAtStopReturn=0 calls=%d", calls.Load()-c0, min64(c0, 1))
		}
		stopReturned := make(chan struct{})
		var inFnAtReturn int64
		var callsAtReturn int64
		go func() {
			r.Stop()
			inFnAtReturn = inFn.Load()
			callsAtReturn = calls.Load()
			close(stopReturned)
		}()
		stopEarly := 0
		if mode == "inflight" || mode == "due" {
			// Stop must not return while the function is executing / a dispatch is in progress
			select {
			case <-stopReturned:
				stopEarly = 1
			case <-time.After(hold):
			}
			if mode == "inflight" {
				close(release)
			} else {
				close(resume)
			}
		}
		select {
		case <-stopReturned:
		case <-time.After(10 * time.Second):
			return "stop-never-returned"
		}
		time.Sleep(4*freq + grace)
		after := calls.Load() - callsAtReturn
		if mode == "due" && stopEarly == 1 {
			// the parked dispatch ran after Stop had returned
			after = calls.Load() - callsAtReturn
		}
		return fmt.Sprintf("stopEarly=%d callsAfterStop=%d inFnAtStopReturn=%d calls=%d",
			stopEarly, after, inFnAtReturn, min64(calls.Load(), 1))
	})
}

func min64(a, b int64) int64 {
	if a < b {
		return a
	}
	return b
}

func init() {
	// raterun.switch <fastMs> <switchAfterMs> <fnMs> <restart 0|1> — a slow function keeps a tick of the fast
	// schedule pending while the runner moves to an hourly schedule (by timer, or back to an hourly first
	// schedule by Restart). No invocation may carry the hourly frequency within the observation window.
	register("raterun.switch", func(a []string) string {
		fast, after, fnD := ms(a[0]), ms(a[1]), ms(a[2])
		restart := a[3] == "1"
		var slowCalls, calls atomic.Int64
		fn := func(f time.Duration) {
			calls.Add(1)
			if f >= time.Hour {
				slowCalls.Add(1)
			}
			time.Sleep(fnD)
		}
		var sched []raterun.Schedule
		if restart {
			// first schedule hourly; the test starts on the second (fast) one via the timer, Restart goes back
			sched = []raterun.Schedule{{StartDelay: 0, Frequency: time.Hour}, {StartDelay: time.Millisecond, Frequency: fast}}
		} else {
			sched = []raterun.Schedule{{StartDelay: 0, Frequency: fast}, {StartDelay: after, Frequency: time.Hour}}
		}
		r, err := raterun.New(fn, sched)
		if err != nil {
			return "err"
		}
		ctx, cancel := context.WithCancel(context.Background())
		defer cancel()
		r.Start(ctx)
		if restart {
			time.Sleep(after)
			r.Restart()
		}
		time.Sleep(after + 6*fnD + 40*time.Millisecond)
		r.Stop()
		return fmt.Sprintf("callsWithHourlyFrequency=%d calls=%d", slowCalls.Load(), min64(calls.Load(), 1))
	})
	// raterun.newstart <pauseMs> <freqMs> <delayMs> — a pause between New and Start: nothing is armed before Start.
	// Schedules [{0, freq}, {delay, 1h}]. After Start the first invocation comes no earlier than one tick of the first
	// schedule, and the hourly schedule is not entered before its start delay has run from Start.
	register("raterun.newstart", func(a []string) string {
		pause, freq, delay := ms(a[0]), ms(a[1]), ms(a[2])
		var mu sync.Mutex
		var firstCall, firstHourly time.Time
		var calls atomic.Int64
		r, err := raterun.New(func(f time.Duration) {
			mu.Lock()
			if calls.Add(1) == 1 {
				firstCall = time.Now()
			}
			mu.Unlock()
		}, []raterun.Schedule{{StartDelay: 0, Frequency: freq}, {StartDelay: delay, Frequency: time.Hour}})
		if err != nil {
			return "err"
		}
		time.Sleep(pause)
		if calls.Load() != 0 {
			return "callsBeforeStart=1"
		}
		ctx, cancel := context.WithCancel(context.Background())
		defer cancel()
		t0 := time.Now()
		r.Start(ctx)
		// the number of invocations before the hourly schedule takes over tells when it did: about delay/freq
		time.Sleep(delay + 3*freq)
		r.Stop()
		_ = firstHourly
		mu.Lock()
		fc := firstCall
		mu.Unlock()
		early := 0
		if !fc.IsZero() && fc.Sub(t0) < freq-2*time.Millisecond {
			early = 1
		}
		// with the schedule armed at New, the switch to the hourly schedule comes `pause` early: fewer fast ticks
		// (reported only together with an early first call: on its own a low count can also come from a stalled process)
		want := int64(delay/freq) - 1
		fewer := 0
		if early == 1 && calls.Load() < want-1 {
			fewer = 1
		}
		return fmt.Sprintf("callsBeforeStart=0 firstCallBeforeOneTick=%d switchedBeforeStartDelay=%d calls=%d", early, fewer, min64(calls.Load(), 1))
	})
	// raterun.order <d1> <f1> <d2> <f2> <d3> <f3> <runMs> — three schedules (start delay, frequency; ms; the frequencies differ):
	// the frequencies the function is handed must appear in the order the list gives them, and schedule k not before the
	// start delays up to k have run (each delay counts from the start of the schedule before it)
	register("raterun.order", func(a []string) string {
		var scheds []raterun.Schedule
		for i := 0; i < 3; i++ {
			scheds = append(scheds, raterun.Schedule{StartDelay: ms(a[2*i]), Frequency: ms(a[2*i+1])})
		}
		runD := ms(a[6])
		var mu sync.Mutex
		type call struct {
			f  time.Duration
			at time.Duration
		}
		var calls []call
		t0 := time.Now()
		r, err := raterun.New(func(f time.Duration) {
			mu.Lock()
			calls = append(calls, call{f, time.Since(t0)})
			mu.Unlock()
		}, scheds)
		if err != nil {
			return "err"
		}
		ctx, cancel := context.WithCancel(context.Background())
		defer cancel()
		r.Start(ctx)
		time.Sleep(runD)
		r.Stop()
		mu.Lock()
		defer mu.Unlock()
		var seq []time.Duration
		first := map[time.Duration]time.Duration{}
		for _, c := range calls {
			if len(seq) == 0 || seq[len(seq)-1] != c.f {
				seq = append(seq, c.f)
			}
			if _, ok := first[c.f]; !ok {
				first[c.f] = c.at
			}
		}
		// (a schedule that is left before its first tick hands the function nothing: a subsequence, not a prefix)
		outOfOrder := 0
		j := 0
		for _, f := range seq {
			for j < 3 && scheds[j].Frequency != f {
				j++
			}
			if j == 3 {
				outOfOrder = 1
				break
			}
			j++
		}
		early := 0
		cum := time.Duration(0)
		for i := 0; i < 3; i++ {
			cum += scheds[i].StartDelay
			if at, ok := first[scheds[i].Frequency]; ok && i > 0 && at < cum-2*time.Millisecond {
				early = 1
			}
		}
		some := 0
		if len(calls) > 0 {
			some = 1
		}
		return fmt.Sprintf("outOfOrder=%d switchedBeforeStartDelay=%d someCalls=%d", outOfOrder, early, some)
	})
	// raterun.count <freqMs> <runMs> — at most one invocation per tick: calls <= 1 + elapsed/freq
	register("raterun.count", func(a []string) string {
		freq, runD := ms(a[0]), ms(a[1])
		var calls atomic.Int64
		r, err := raterun.New(func(time.Duration) { calls.Add(1) }, []raterun.Schedule{{StartDelay: 0, Frequency: freq}})
		if err != nil {
			return "err"
		}
		ctx, cancel := context.WithCancel(context.Background())
		defer cancel()
		t0 := time.Now()
		r.Start(ctx)
		time.Sleep(runD)
		r.Stop()
		el := time.Since(t0)
		ok := 1
		if calls.Load() > 1+int64(el/freq) {
			ok = 0
		}
		some := 0
		if calls.Load() > 0 {
			some = 1
		}
		return fmt.Sprintf("withinOnePerTick=%d someCalls=%d", ok, some)
	})
}
