package main

import (
	"fmt"
	"strings"
	"time"

	"github.com/spf13/pflag"

	"github.com/form3tech-oss/f1/v2/internal/trigger/ramp"
	"github.com/form3tech-oss/f1/v2/internal/trigger/staged"
)

var baseTime = time.Unix(1_700_000_000, 0)

func init() {
	// staged <d:t;d:t…> <startNs|-> <queries>  ->  <durationNs> <rates> | err
	register("staged", func(a []string) string {
		var parts []string
		if a[0] != "-" {
			for _, st := range strings.Split(a[0], ";") {
				dt := strings.SplitN(st, ":", 2)
				parts = append(parts, dt[0]+"ns:"+dt[1])
			}
		}
		var start *time.Time
		if a[1] != "-" {
			t := baseTime.Add(time.Duration(atoi64(a[1])))
			start = &t
		}
		rates, err := staged.CalculateStagedRate(0, time.Second, strings.Join(parts, ","), "none", start)
		if err != nil {
			return "err"
		}
		qs := parseInts(a[2])
		outs := make([]int, len(qs))
		for i, q := range qs {
			outs[i] = rates.Rate(baseTime.Add(time.Duration(q)))
		}
		return fmt.Sprintf("%d %s", int64(rates.Duration), intsTok(outs))
	})
	// bstaged <stages string hex> <queries> — the staged *builder* (flags --stages/--iterationFrequency/--distribution
	// none), its assembled rate function probed at the query offsets -> <durationNs> <rates> | err
	register("bstaged", func(a []string) string {
		b, _ := builderOf("staged")
		fs := pflag.NewFlagSet("verif", pflag.ContinueOnError)
		fs.AddFlagSet(b.Flags)
		if err := fs.Parse([]string{"--stages", unhex(a[0]), "--iterationFrequency", "1s", "--distribution", "none"}); err != nil {
			return "err"
		}
		trig, err := b.New(fs)
		if err != nil {
			return "err"
		}
		qs := parseInts(a[1])
		outs := make([]int, len(qs))
		for i, q := range qs {
			outs[i] = trig.DryRun(baseTime.Add(time.Duration(q)))
		}
		return fmt.Sprintf("%d %s", int64(trig.Duration), intsTok(outs))
	})
	// bramp <startRate> <endRate> <unitNs> <rampDurNs> <maxDurNs> <queries> — the ramp *builder* on
	// `--start-rate --end-rate --ramp-duration --max-duration --distribution none` -> <rates> | err
	register("bramp", func(a []string) string {
		b, _ := builderOf("ramp")
		fs := pflag.NewFlagSet("verif", pflag.ContinueOnError)
		fs.AddFlagSet(b.Flags)
		fs.DurationP("max-duration", "d", time.Second, "")
		eunit := a[2] // optional 7th argument: the end rate's own unit
		if len(a) > 6 {
			eunit = a[6]
		}
		args := []string{"--start-rate", a[0] + "/" + a[2] + "ns", "--end-rate", a[1] + "/" + eunit + "ns",
			"--ramp-duration", a[3] + "ns", "--max-duration", a[4] + "ns", "--distribution", "none"}
		if err := fs.Parse(args); err != nil {
			return "err"
		}
		trig, err := b.New(fs)
		if err != nil {
			return "err"
		}
		qs := parseInts(a[5])
		outs := make([]int, len(qs))
		for i, q := range qs {
			outs[i] = trig.DryRun(baseTime.Add(time.Duration(q)))
		}
		return intsTok(outs)
	})
	// ramp <startRate> <endRate> <unitNs> <durationNs> <queries> -> <durationNs> <intervalNs> <rates> | err
	register("ramp", func(a []string) string {
		rates, err := ramp.CalculateRampRate(a[0]+"/"+a[2]+"ns", a[1]+"/"+a[2]+"ns", "none",
			time.Duration(atoi64(a[3])), 0)
		if err != nil {
			return "err"
		}
		qs := parseInts(a[4])
		outs := make([]int, len(qs))
		base := baseTime
		if len(a) > 5 && a[5] == "zero" { // the queries start at the zero time.Time: a legal timestamp like any other
			base = time.Time{}
		}
		for i, q := range qs {
			outs[i] = rates.Rate(base.Add(time.Duration(q)))
		}
		return fmt.Sprintf("%d %d %s", int64(rates.Duration), int64(rates.IterationDuration), intsTok(outs))
	})
}
