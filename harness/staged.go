package main

import (
	"fmt"
	"strings"
	"time"

	"github.com/form3tech-oss/f1/v2/internal/trigger/ramp"
	"github.com/form3tech-oss/f1/v2/internal/trigger/staged"
)

var baseTime = time.Unix(1_700_000_000, 0)

func init() {
	// staged <d:t;d:t…> <startNs|-> <queries>  ->  <durationNs> <rates> | err
	register("staged", func(a []string) string {
		var parts []string
		if a[0] != "-" {
			for _, st := range strings.Split(a[0], ";") {
				dt := strings.SplitN(st, ":", 2)
				parts = append(parts, dt[0]+"ns:"+dt[1])
			}
		}
		var start *time.Time
		if a[1] != "-" {
			t := baseTime.Add(time.Duration(atoi64(a[1])))
			start = &t
		}
		rates, err := staged.CalculateStagedRate(0, time.Second, strings.Join(parts, ","), "none", start)
		if err != nil {
			return "err"
		}
		qs := parseInts(a[2])
		outs := make([]int, len(qs))
		for i, q := range qs {
			outs[i] = rates.Rate(baseTime.Add(time.Duration(q)))
		}
		return fmt.Sprintf("%d %s", int64(rates.Duration), intsTok(outs))
	})
	// ramp <startRate> <endRate> <unitNs> <durationNs> <queries> -> <durationNs> <intervalNs> <rates> | err
	register("ramp", func(a []string) string {
		rates, err := ramp.CalculateRampRate(a[0]+"/"+a[2]+"ns", a[1]+"/"+a[2]+"ns", "none",
			time.Duration(atoi64(a[3])), 0)
		if err != nil {
			return "err"
		}
		qs := parseInts(a[4])
		outs := make([]int, len(qs))
		for i, q := range qs {
			outs[i] = rates.Rate(baseTime.Add(time.Duration(q)))
		}
		return fmt.Sprintf("%d %d %s", int64(rates.Duration), int64(rates.IterationDuration), intsTok(outs))
	})
}
