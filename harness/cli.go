package main

import (
	"io"
	"context"
	"errors"
	"fmt"
	"log/slog"
	"os"
	"path/filepath"
	"strconv"
	"strings"
	"sync"
	"sync/atomic"
	"syscall"
	"time"

	"go.uber.org/goleak"

	"github.com/form3tech-oss/f1/v2/internal/metrics"
	"github.com/form3tech-oss/f1/v2/internal/verifhook"
	"github.com/form3tech-oss/f1/v2/pkg/f1"
	f1testing "github.com/form3tech-oss/f1/v2/pkg/f1/testing"
)

// summaryHandler keeps the structured-log form of the final summary: banner and iteration_stats.
type summaryHandler struct {
	mu     sync.Mutex
	banner string
	stats  map[string]uint64
	group  string
}

func (h *summaryHandler) Enabled(context.Context, slog.Level) bool { return true }
func (h *summaryHandler) Handle(_ context.Context, r slog.Record) error {
	var b string
	switch r.Message {
	case "Load Test Passed":
		b = "pass"
	case "Load Test Failed":
		b = "fail"
	default:
		return nil
	}
	h.mu.Lock()
	defer h.mu.Unlock()
	h.banner = b
	h.stats = map[string]uint64{}
	r.Attrs(func(a slog.Attr) bool {
		if a.Key == "iteration_stats" && a.Value.Kind() == slog.KindGroup {
			for _, g := range a.Value.Group() {
				if g.Value.Kind() == slog.KindUint64 {
					h.stats[g.Key] = g.Value.Uint64()
				}
			}
		}
		return true
	})
	return nil
}
func (h *summaryHandler) WithAttrs([]slog.Attr) slog.Handler { return h }
func (h *summaryHandler) WithGroup(string) slog.Handler      { return h }

func init() {
	// cli k=v … — one real F1.ExecuteWithArgs. See Drive/Cli.lean for the keys.
	register("cli", func(a []string) string {
		p := map[string]string{"failevery": "0", "bodyms": "0", "setupfail": "0", "scenario": "1"}
		for _, kv := range a {
			if i := strings.IndexByte(kv, '='); i > 0 {
				p[kv[:i]] = kv[i+1:]
			}
		}
		args := []string{"run", p["mode"]}
		// logfile=good|bad: run without --verbose, the scenario log goes to LOG_FILE_PATH (bad: a path that cannot be opened)
		var logDir string
		if lf, ok := p["logfile"]; ok {
			d, err := os.MkdirTemp("", "f1verif-log")
			if err != nil {
				return "harness-tempdir"
			}
			logDir = d
			defer os.RemoveAll(d)
			if lf == "bad" {
				os.Setenv("LOG_FILE_PATH", d) // a directory: the parent exists, opening it as a file fails
			} else {
				os.Setenv("LOG_FILE_PATH", filepath.Join(d, "scenario.log"))
			}
			defer os.Unsetenv("LOG_FILE_PATH")
		} else {
			args = append(args, "-v")
		}
		_ = logDir
		str := func(key, flag string) {
			if v, ok := p[key]; ok {
				args = append(args, flag, unhex(v))
			}
		}
		num := func(key, flag string) {
			if v, ok := p[key]; ok {
				args = append(args, flag+"="+v)
			}
		}
		var cleanupDir string
		var fileParams []string
		switch p["mode"] {
		case "file":
			var sb strings.Builder
			fmt.Fprintf(&sb, "scenario: s\nlimits:\n  max-duration: %sms\n  concurrency: %s\n  max-iterations: %s\n  ignore-dropped: %t\n",
				p["fdur"], p["conc"], orDefault(p, "maxit", "0"), p["igndrop"] == "1")
			if v, ok := p["maxfail"]; ok {
				fmt.Fprintf(&sb, "  max-failures: %s\n", v)
			}
			if v, ok := p["maxfailrate"]; ok {
				fmt.Fprintf(&sb, "  max-failures-rate: %s\n", v)
			}
			if v, ok := p["fstart"]; ok { // the schedule began <v> ms ago
				fmt.Fprintf(&sb, "schedule:\n  stage-start: %s\n", time.Now().Add(-time.Duration(atoi(v))*time.Millisecond).UTC().Format(time.RFC3339Nano))
			}
			if p["fshared"] == "1" { // every stage inherits the same parameter from the default section
				sb.WriteString("default:\n  parameters:\n    F1VERIF_CLI_SHARED: all\n")
				fileParams = append(fileParams, "F1VERIF_CLI_SHARED")
			}
			sb.WriteString("stages:\n")
			for i, st := range strings.Split(p["fstages"], ";") {
				f := strings.Split(st, ":")
				key := fmt.Sprintf("F1VERIF_CLI_%d", i)
				fileParams = append(fileParams, key)
				switch f[0] {
				case "c":
					fmt.Fprintf(&sb, "  - mode: constant\n    duration: %sms\n    rate: %s\n    distribution: none\n", f[1], f[2])
				case "u":
					fmt.Fprintf(&sb, "  - mode: users\n    duration: %sms\n    concurrency: %s\n", f[1], f[2])
				}
				if p["fshared"] != "1" {
					fmt.Fprintf(&sb, "    parameters:\n      %s: v%d\n", key, i)
				}
			}
			dir, err := os.MkdirTemp("", "f1verif-cli")
			if err != nil {
				return "harness-tempdir"
			}
			cleanupDir = dir
			path := filepath.Join(dir, "plan.yaml")
			if err := os.WriteFile(path, []byte(sb.String()), 0o600); err != nil {
				return "harness-tempfile"
			}
			if p["fpath"] == "dir" { // the path of a directory: it opens, reading it fails
				path = dir
			} else if p["fpath"] == "missing" {
				path = filepath.Join(dir, "no-such-plan.yaml")
			}
			args = append(args, path)
		default:
			str("rate", "--rate")
			str("dist", "--distribution")
			str("stages", "--stages")
			str("srate", "--start-rate")
			str("erate", "--end-rate")
			str("weights", "--weights")
			if p["mode"] == "gaussian" {
				str("freq", "--iteration-frequency")
			} else {
				str("freq", "--iterationFrequency")
			}
			str("rampdur", "--ramp-duration")
			str("stddev", "--standard-deviation")
			str("dur", "--max-duration")
			num("conc", "--concurrency")
			num("maxit", "--max-iterations")
			num("maxfail", "--max-failures")
			num("maxfailrate", "--max-failures-rate")
			if p["igndrop"] == "1" {
				args = append(args, "--ignore-dropped")
			}
			if v, ok := p["raw"]; ok {
				args = append(args, strings.Split(unhex(v), "\x1f")...)
			}
			if p["scenario"] == "0" {
				args = append(args, "nosuchscenario")
			} else {
				args = append(args, "s")
			}
		}
		if cleanupDir != "" {
			defer os.RemoveAll(cleanupDir)
		}
		if pr, ok := p["profile"]; ok { // --cpuprofile / --memprofile on the root command
			d, err := os.MkdirTemp("", "f1verif-prof")
			if err != nil {
				return "harness-tempdir"
			}
			defer os.RemoveAll(d)
			args = append([]string{"--" + pr + "profile", filepath.Join(d, pr+".prof")}, args...)
		}

		failEvery := atoi(p["failevery"])
		body := time.Duration(atoi(p["bodyms"])) * time.Millisecond
		var setups, started, inflight, maxflight, truthS, truthF atomic.Int64
		var cmdStart atomic.Int64 // UnixNano at which the command was handed to f1 (set just before ExecuteWithArgs)
		var setupAt atomic.Int64  // ms from there to the (first) call of the scenario's setup function: the command's own start-up
		setupAt.Store(-1)
		scenarioFn := func(t *f1testing.T) f1testing.RunFn {
			if setups.Add(1) == 1 {
				if cs := cmdStart.Load(); cs != 0 {
					setupAt.Store((time.Now().UnixNano() - cs) / 1e6)
				}
			}
			switch p["tdfail"] { // a cleanup registered during setup that fails at teardown
			case "1":
				t.Cleanup(func() { t.Fail() })
			case "2":
				t.Cleanup(func() { panic("scripted teardown panic") })
			case "3":
				t.Cleanup(func() { t.FailNow() })
			}
			switch p["setupfail"] {
			case "1":
				t.FailNow()
			case "2":
				panic("scripted setup panic")
			}
			return func(t *f1testing.T) {
				n := started.Add(1)
				cur := inflight.Add(1)
				for {
					m := maxflight.Load()
					if cur <= m || maxflight.CompareAndSwap(m, cur) {
						break
					}
				}
				defer inflight.Add(-1)
				if st, ok := p["timestage"]; ok { // the body times a stage of that name (T.Time records into the process-wide metrics)
					initGlobalMetrics()
					t.Time(st, func() { time.Sleep(body) })
				} else if body > 0 {
					time.Sleep(body)
				}
				id, _ := strconv.Atoi(t.Iteration)
				_ = n
				if failEvery > 0 && id%failEvery == 0 {
					truthF.Add(1)
					switch p["failkind"] {
					case "panicerr":
						panic(fmt.Errorf("scripted error panic"))
					case "panicstr":
						panic("scripted string panic")
					case "nilmap":
						var m map[string]int
						m["x"] = 1 //nolint
					case "errorf":
						t.Errorf("scripted %s", "errorf")
						return
					case "errunhash": // an error whose dynamic type is not hashable (a slice type); does not stop the iteration
						t.Error(sliceError{"scripted", "unhashable"})
						return
					case "panicunhash":
						panic(sliceError{"scripted", "unhashable", "panic"})
					case "paniclong": // a long message in a multi-byte script
						panic(errors.New(strings.Repeat("ошибка запроса ", 20))) // 300 runes, 580 bytes
					case "panicint":
						panic(42)
					case "panicis": // an error that claims to be every other error
						panic(matchesAnything{})
					case "panicnilptr": // a typed nil pointer whose Error method dereferences its receiver
						var e *nilReceiverError
						panic(e)
					case "errnil": // t.Error(nil): marks the failure, does not stop the iteration
						t.Error(nil)
						return
					case "fatalnil":
						t.Fatal(nil)
					case "paniccyclic": // a panic value that contains itself
						m := map[string]any{}
						m["self"] = m
						panic(m)
					case "panicstringer": // a typed nil pointer whose String method dereferences its receiver
						var e *nilReceiverStringer
						panic(e)
					case "timefail":
						initGlobalMetrics()
						t.Time("stage", func() { t.FailNow() })
					case "timeerr":
						initGlobalMetrics()
						t.Time("stage", func() { t.Errorf("scripted %s", "errorf in a timed stage") })
						return
					default:
						t.FailNow()
					}
				}
				truthS.Add(1)
			}
		}
		// pushgw=ok|fail1|down: PROMETHEUS_PUSH_GATEWAY points at a gateway on the loopback interface (this also switches
		// the iteration metrics on, as in production); static=1: the F1 instance gets three static metric labels
		var gw *fakeGateway
		if mode, ok := p["pushgw"]; ok {
			gw = newFakeGateway(mode)
			defer gw.srv.Close()
			u := gw.srv.URL
			if p["pushurl"] == "bare" { // host:port without a scheme: the push client adds http:// itself
				u = strings.TrimPrefix(u, "http://")
			}
			os.Setenv("PROMETHEUS_PUSH_GATEWAY", u)
			defer os.Unsetenv("PROMETHEUS_PUSH_GATEWAY")
		}
		staticLabels := map[string]string{"zone": "primary", "zone2": "secondary", "team": "x"}
		metricsFresh := metrics.Instance() == nil // the process-wide instance is built once, by the first command
		sh := &summaryHandler{}
		topFn := f1testing.ScenarioFn(scenarioFn)
		var laterRan atomic.Int64
		if p["combine"] == "1" { // the scenario is the first component of a combined one; the second counts its own calls
			topFn = f1.CombineScenarios(scenarioFn, func(*f1testing.T) f1testing.RunFn {
				return func(*f1testing.T) { laterRan.Add(1) }
			})
		}
		var app *f1.F1
		if p["loglevel"] == "silent" { // a caller's logger that drops everything, error records included
			app = f1.New().WithLogger(slog.New(slog.NewTextHandler(io.Discard, &slog.HandlerOptions{Level: slog.LevelError + 4}))).Add("s", topFn)
		} else if lf := p["logfmt"]; lf == "json" || lf == "text" { // f1's own logger in that format (banner and counts then come from the returned error and the truth counters)
			os.Setenv("F1_LOG_FORMAT", lf)
			if lv := p["loglevel"]; lv != "" { // … at the level F1_LOG_LEVEL names
				os.Setenv("F1_LOG_LEVEL", lv)
			}
			app = f1.New().Add("s", topFn)
			os.Unsetenv("F1_LOG_FORMAT")
			os.Unsetenv("F1_LOG_LEVEL")
		} else {
			app = f1.New().WithLogger(slog.New(sh)).Add("s", topFn)
		}
		if p["static"] == "1" {
			app = app.WithStaticMetrics(staticLabels)
		}
		// ticks accepted by the trigger pool (yield point pool.trigger.accepted)
		var ticks atomic.Int64
		verifhook.Set(func(point string) {
			if point == "pool.trigger.accepted" {
				ticks.Add(1)
			}
		})
		defer verifhook.Set(nil)
		// profile1=cpu|mem: only the first of two executions on the same F1 instance (twice=1) is profiled
		firstArgs := args
		if pr, ok := p["profile1"]; ok {
			d, err := os.MkdirTemp("", "f1verif-prof1")
			if err != nil {
				return "harness-tempdir"
			}
			defer os.RemoveAll(d)
			firstArgs = append([]string{"--" + pr + "profile", filepath.Join(d, pr+".prof")}, args...)
		}
		execWith := func(a []string) (error, bool) {
			done := make(chan error, 1)
			go func() { done <- app.ExecuteWithArgs(a) }()
			select {
			case err := <-done:
				return err, true
			case <-time.After(18 * time.Second):
				return nil, false
			}
		}
		exec := func() (error, bool) { return execWith(args) }
		if p["twice"] == "1" { // a first, unobserved execution on the same F1 instance
			if _, ok := execWith(firstArgs); !ok {
				return "never-returned"
			}
			setups.Store(0)
			started.Store(0)
			maxflight.Store(0)
			truthS.Store(0)
			truthF.Store(0)
			laterRan.Store(0)
			ticks.Store(0)
			sh.mu.Lock()
			sh.banner, sh.stats = "", nil
			sh.mu.Unlock()
		}
		leakBase := goleak.IgnoreCurrent()
		// the longest time this process went unscheduled during the command (2 ms heartbeat), see the run op
		var maxGap atomic.Int64
		hbStop := make(chan struct{})
		go func() {
			last := time.Now()
			for {
				select {
				case <-hbStop:
					return
				default:
				}
				time.Sleep(2 * time.Millisecond)
				now := time.Now()
				if g := int64(now.Sub(last)) - int64(2*time.Millisecond); g > maxGap.Load() {
					maxGap.Store(g)
				}
				last = now
			}
		}()
		defer close(hbStop)
		t0 := time.Now()
		cmdStart.Store(t0.UnixNano())
		if v, ok := p["sigint"]; ok { // interrupt the run like Ctrl-C, <v> ms after its setup has run
			go func() {
				for i := 0; i < 4000 && setups.Load() == 0; i++ {
					time.Sleep(500 * time.Microsecond)
				}
				if setups.Load() == 0 {
					return // never send a signal nobody is listening for
				}
				time.Sleep(time.Duration(atoi(v)) * time.Millisecond)
				_ = syscall.Kill(os.Getpid(), syscall.SIGINT)
			}()
		}
		err, ok := exec()
		if !ok {
			return "never-returned"
		}
		ret := time.Since(t0)
		inflightRet := inflight.Load() // iteration functions still executing when the command returned
		envAfter := "clean"
		for _, k := range fileParams {
			if _, ok := os.LookupEnv(k); ok {
				envAfter = "dirty"
			}
		}
		sh.mu.Lock()
		banner := sh.banner
		if banner == "" {
			banner = "none"
		}
		st := sh.stats
		sh.mu.Unlock()
		e := 0
		if err != nil {
			e = 1
			if os.Getenv("VERIF_DEBUG") != "" {
				fmt.Fprintln(os.Stderr, "cli:", args, "->", err)
			}
		}
		verdict := "accept"
		if e == 1 && setups.Load() == 0 {
			verdict = "reject"
		}
		// what reached the gateway with the last accepted push: counts per result, and the labels of every series
		pushed, labels := "-", "-"
		if gw != nil {
			pg, acc := gw.counts()
			pushed = fmt.Sprintf("%d/%d/%d/%d", pg.succ, pg.fail, pg.dropped, acc)
			if !metricsFresh {
				pushed = "skip" // whether iteration metrics exist at all was decided by the first command of this process
			}
			if p["static"] == "1" {
				switch {
				case !metricsFresh:
					labels = "skip" // an earlier command of this process built the metrics instance with its own labels
				case acc == 0:
					labels = "nopush"
				default:
					labels = gw.checkLabels("s", staticLabels)
				}
			}
		}
		leak := 0
		if p["leakcheck"] == "1" {
			if err := goleak.Find(leakBase, goleak.IgnoreTopFunction("time.Sleep")); err != nil {
				leak = 1
				if os.Getenv("VERIF_DEBUG") != "" {
					fmt.Fprintln(os.Stderr, err)
				}
			}
		}
		return fmt.Sprintf("%s err=%d banner=%s stats=%d/%d/%d truth=%d/%d setups=%d started=%d maxflight=%d ret=%d envAfter=%s ticks=%d later=%d leak=%d pushed=%s labels=%s stall=%d inflightret=%d setupat=%d",
			verdict, e, banner, st["successful"], st["failed"], st["dropped"], truthS.Load(), truthF.Load(), setups.Load(),
			started.Load(), maxflight.Load(), ret.Milliseconds(), envAfter, ticks.Load(), laterRan.Load(), leak, pushed, labels,
			time.Duration(maxGap.Load()).Milliseconds(), inflightRet, setupAt.Load())
	})
}

func orDefault(m map[string]string, k, d string) string {
	if v, ok := m[k]; ok {
		return v
	}
	return d
}
