package main

import (
	"fmt"
	"sync/atomic"
	"time"

	"github.com/form3tech-oss/f1/v2/internal/metrics"
	"github.com/form3tech-oss/f1/v2/internal/options"
	"github.com/form3tech-oss/f1/v2/internal/progress"
	"github.com/form3tech-oss/f1/v2/internal/run"
)

func init() {
	// result.stress <ms> — the two threads that use the Result's lock while the progress reporter is alive:
	// the reporter's tick body (SnapshotProgress, Progress, HasDroppedIterations) and the controller's calls in
	// Run.run before progressRunner.Stop() (RecordStarted, MaxDurationElapsed, Interrupted, MaxIterationsReached,
	// RecordTestFinished), plus iterations completing. Neither may ever wait for the other for good.
	register("result.stress", func(a []string) string {
		d := time.Duration(atoi(a[0])) * time.Millisecond
		stats := &progress.Stats{}
		res := run.NewResult(options.RunOptions{Scenario: "s", MaxDuration: time.Second}, sharedViews, stats)
		res.RecordStarted()
		var na, nb atomic.Int64
		var stop atomic.Bool
		go func() {
			for !stop.Load() {
				res.SnapshotProgress(time.Second)
				_ = res.Progress()
				_ = res.HasDroppedIterations()
				na.Add(1)
			}
		}()
		go func() {
			for !stop.Load() {
				res.RecordStarted()
				_ = res.MaxDurationElapsed()
				_ = res.Interrupted()
				_ = res.MaxIterationsReached()
				res.RecordTestFinished()
				nb.Add(1)
			}
		}()
		go func() {
			for !stop.Load() {
				stats.Record(metrics.SuccessResult, 1000)
				time.Sleep(50 * time.Microsecond)
			}
		}()
		// a wedge shows as neither counter moving over 100 consecutive watchdog wake-ups spanning >= 700 ms (counting
		// wake-ups keeps a frozen process from looking like a wedge); the stress proper runs for d, then the
		// watchdog gets the time it needs to tell a wedge that happened near the end
		wedged := 0
		end := time.Now().Add(d)
		la, lb, lastMove, still := int64(-1), int64(-1), time.Now(), 0
		for {
			time.Sleep(5 * time.Millisecond)
			ca, cb := na.Load(), nb.Load()
			if ca != la && cb != lb {
				la, lb, lastMove, still = ca, cb, time.Now(), 0
				if time.Now().After(end) {
					break
				}
				continue
			}
			still++
			if still >= 100 && time.Since(lastMove) > 700*time.Millisecond {
				wedged = 1
				break
			}
		}
		stop.Store(true)
		return fmt.Sprintf("wedged=%d reporterTicks=%d controllerRounds=%d", wedged, boolInt(na.Load() > 0), boolInt(nb.Load() > 0))
	})
}
