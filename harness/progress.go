package main

import (
	"fmt"
	"strconv"
	"strings"
	"sync"
	"sync/atomic"
	"time"

	"github.com/form3tech-oss/f1/v2/internal/metrics"
	"github.com/form3tech-oss/f1/v2/internal/options"
	"github.com/form3tech-oss/f1/v2/internal/progress"
	"github.com/form3tech-oss/f1/v2/internal/run"
	"github.com/form3tech-oss/f1/v2/internal/verifhook"
)

func snapTok(s progress.IterationDurationsSnapshot) string {
	return fmt.Sprintf("%d/%d/%d/%d", s.Count, int64(s.Average), int64(s.Min), int64(s.Max))
}

func fullSnap(s progress.Snapshot) string {
	return "P" + snapTok(s.SuccessfulIterationDurationsForPeriod) + ":S" + snapTok(s.SuccessfulIterationDurations) +
		":F" + snapTok(s.FailedIterationDurations) + ":D" + strconv.FormatUint(s.DroppedIterationCount, 10)
}

func recordOp(st *progress.Stats, op string) {
	switch op[0] {
	case 's':
		st.Record(metrics.SuccessResult, atoi64(op[1:]))
	case 'f':
		st.Record(metrics.FailedResult, atoi64(op[1:]))
	case 'd':
		st.Record(metrics.DroppedResult, 0)
	case 'u':
		st.Record(metrics.UnknownResult, atoi64(op[1:]))
	default:
		panic("harness: bad record op " + op)
	}
}

func init() {
	// progress.seq <op,op,…>  ops: s<ns> f<ns> d u<ns> (records)  S<period> (Snapshot)  T (Total)
	// output: one token per S/T op with the returned snapshot.
	register("progress.seq", func(a []string) string {
		st := &progress.Stats{}
		// snapshots and totals are taken the way a run takes them: through its Result
		res := run.NewResult(options.RunOptions{Scenario: "s"}, sharedViews, st)
		var out []string
		for _, op := range strings.Split(a[0], ",") {
			switch op[0] {
			case 'S':
				res.SnapshotProgress(time.Duration(atoi64(op[1:])))
				out = append(out, fullSnap(res.Snapshot()))
			case 'T':
				res.GetTotals()
				out = append(out, fullSnap(res.Snapshot()))
			default:
				recordOp(st, op)
			}
		}
		if len(out) == 0 {
			return "-"
		}
		return strings.Join(out, " ")
	})

	// progress.script <op;op;…> — like progress.seq, but a collect op may carry records that are
	// executed *inside* the progress.collect yield point of the collect of the named outcome:
	//   S<period>[s:op+op…][f:op+op…]   T[s:…][f:…]
	// (s: = while the successful accumulators are being collected, f: = the failed ones).
	register("progress.script", func(a []string) string {
		st := &progress.Stats{}
		var out []string
		for _, op := range strings.Split(a[0], ";") {
			head, inj := op, map[byte][]string{}
			if i := strings.IndexByte(op, '['); i >= 0 {
				head = op[:i]
				for _, grp := range strings.Split(strings.Trim(op[i:], "[]"), "][") {
					if len(grp) > 2 {
						inj[grp[0]] = strings.Split(grp[2:], "+")
					}
				}
			}
			switch head[0] {
			case 'S', 'T':
				n := 0
				verifhook.Set(func(point string) {
					if point != "progress.collect" {
						return
					}
					which := byte('s')
					if n == 1 {
						which = 'f'
					}
					n++
					for _, r := range inj[which] {
						recordOp(st, r)
					}
				})
				if head[0] == 'S' {
					out = append(out, fullSnap(st.Snapshot(time.Duration(atoi64(head[1:])))))
				} else {
					out = append(out, fullSnap(st.Total()))
				}
				verifhook.Set(nil)
			default:
				recordOp(st, head)
			}
		}
		if len(out) == 0 {
			return "-"
		}
		return strings.Join(out, " ")
	})

	// progress.stress <goroutines> <records per goroutine> <fail every k> <drop every k>
	// hook-free: recorders race with a snapshot loop; output = final Total plus ground truth.
	register("progress.stress", func(a []string) string {
		g, per, failEvery, dropEvery := atoi(a[0]), atoi(a[1]), atoi(a[2]), atoi(a[3])
		// a fifth argument `rising`: every record is longer than every earlier one, so every recorder is at every moment
		// about to publish a new maximum (and, counting down, a new minimum) — the contended path of Add
		rising := len(a) > 4 && a[4] == "rising"
		var clock atomic.Int64
		dur := func(k int) int64 {
			if rising {
				c := clock.Add(1)
				if k%2 == 0 {
					return 1_000_000_000 + c
				}
				return 1_000_000_000 - c
			}
			return int64(1 + k%977)
		}
		st := &progress.Stats{}
		var wg sync.WaitGroup
		var stop atomic.Bool
		var ns, nf, nd atomic.Int64
		snaps := 0
		done := make(chan struct{})
		go func() {
			defer close(done)
			for !stop.Load() {
				st.Snapshot(time.Second)
				snaps++
			}
		}()
		for w := 0; w < g; w++ {
			wg.Add(1)
			go func(w int) {
				defer wg.Done()
				for i := 0; i < per; i++ {
					k := w*per + i
					switch {
					case dropEvery > 0 && k%dropEvery == 0:
						st.Record(metrics.DroppedResult, 0)
						nd.Add(1)
					case failEvery > 0 && k%failEvery == 1:
						st.Record(metrics.FailedResult, dur(k))
						nf.Add(1)
					default:
						st.Record(metrics.SuccessResult, dur(k))
						ns.Add(1)
					}
				}
			}(w)
		}
		wg.Wait()
		stop.Store(true)
		<-done
		tot := st.Total()
		return fmt.Sprintf("%d %d %d / %d %d %d", tot.SuccessfulIterationDurations.Count,
			tot.FailedIterationDurations.Count, tot.DroppedIterationCount, ns.Load(), nf.Load(), nd.Load())
	})
}
