package main

import (
	"sort"
	"strconv"
	"strings"

	"github.com/prometheus/client_golang/prometheus"

	"github.com/form3tech-oss/f1/v2/internal/metrics"
)

func init() {
	// labels <k=v;…> (hex)  ->  <number of series> <static pairs sorted by name> | mixed
	register("labels", func(a []string) string {
		m := map[string]string{}
		if a[0] != "-" {
			for _, p := range strings.Split(a[0], ";") {
				kv := strings.SplitN(p, "=", 2)
				m[unhex(kv[0])] = unhex(kv[1])
			}
		}
		reg := prometheus.NewRegistry()
		inst := metrics.NewInstance(reg, true, m)
		inst.RecordSetupResult("scn", metrics.SuccessResult, 5)
		inst.RecordIterationResult("scn", metrics.SuccessResult, 7)
		inst.RecordIterationResult("scn", metrics.FailedResult, 7)
		inst.RecordIterationResult("scn", metrics.DroppedResult, 0)
		mfs, err := reg.Gather()
		if err != nil {
			panic(err)
		}
		var seen []string
		for _, mf := range mfs {
			for _, me := range mf.GetMetric() {
				type kv struct{ k, v string }
				var kvs []kv
				test := ""
				for _, l := range me.GetLabel() {
					switch l.GetName() {
					case "test":
						test = l.GetValue()
					case "stage", "result":
					default:
						kvs = append(kvs, kv{l.GetName(), l.GetValue()})
					}
				}
				if test != "scn" {
					return "mixed"
				}
				sort.Slice(kvs, func(i, j int) bool { return kvs[i].k < kvs[j].k })
				var pairs []string
				for _, p := range kvs {
					pairs = append(pairs, tohex(p.k)+"="+tohex(p.v))
				}
				tok := "-"
				if len(pairs) > 0 {
					tok = strings.Join(pairs, ";")
				}
				seen = append(seen, tok)
			}
		}
		for _, s := range seen {
			if s != seen[0] {
				return "mixed"
			}
		}
		if len(seen) == 0 {
			return "0 -"
		}
		return strconv.Itoa(len(seen)) + " " + seen[0]
	})
}
