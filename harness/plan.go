package main

import (
	"strconv"
	"fmt"
	"math"
	"os"
	"path/filepath"
	"sort"
	"strings"
	"time"

	"github.com/spf13/pflag"
	"gopkg.in/yaml.v3"

	"github.com/form3tech-oss/f1/v2/internal/trigger/api"
	"github.com/form3tech-oss/f1/v2/internal/trigger/constant"
	"github.com/form3tech-oss/f1/v2/internal/trigger/file"
	"github.com/form3tech-oss/f1/v2/internal/trigger/gaussian"
	"github.com/form3tech-oss/f1/v2/internal/trigger/ramp"
	"github.com/form3tech-oss/f1/v2/internal/trigger/staged"
)

func kvs(s string) map[string]string {
	m := map[string]string{}
	if s == "-" {
		return m
	}
	for _, p := range strings.Split(s, ",") {
		kv := strings.SplitN(p, "=", 2)
		if len(kv) == 2 {
			m[kv[0]] = kv[1]
		}
	}
	return m
}

func durStr(ns string) string { return ns + "ns" }

func stageYAML(s string) map[string]any {
	m := kvs(s)
	out := map[string]any{}
	str := map[string]string{"mode": "mode", "srate": "start-rate", "erate": "end-rate", "rate": "rate",
		"dist": "distribution", "weights": "weights", "stages": "stages"}
	for k, y := range str {
		if v, ok := m[k]; ok {
			out[y] = unhex(v)
		}
	}
	if v, ok := m["conc"]; ok {
		out["concurrency"] = atoi(v)
	}
	if v, ok := m["jitter"]; ok {
		out["jitter"] = float64(atoi(v))
	}
	if v, ok := m["volume"]; ok {
		out["volume"] = float64(atoi(v))
	}
	durs := map[string]string{"dur": "duration", "freq": "iteration-frequency", "repeat": "repeat", "peak": "peak",
		"stddev": "standard-deviation"}
	for k, y := range durs {
		if v, ok := m[k]; ok {
			out[y] = durStr(v)
		}
	}
	if v, ok := m["params"]; ok {
		pm := map[string]string{}
		if v != "-" {
			for _, p := range strings.Split(v, "+") {
				kv := strings.SplitN(p, ":", 2)
				pm[unhex(kv[0])] = unhex(kv[1])
			}
		}
		out["parameters"] = pm
	}
	return out
}

func paramsTok(m map[string]string) string {
	if len(m) == 0 {
		return "-"
	}
	keys := make([]string, 0, len(m))
	for k := range m {
		keys = append(keys, k)
	}
	sort.Strings(keys)
	parts := make([]string, len(keys))
	for i, k := range keys {
		parts[i] = tohex(k) + ":" + tohex(m[k])
	}
	return strings.Join(parts, "+")
}

// probeRate calls a rate function a few times; a panic is reported by runCase as crash.
func probeRate(fn api.RateFunction, interval time.Duration) string {
	s, _ := probeRateVals(fn, interval)
	return s
}

// probeRateVals also tells whether all probed values were equal (a constant rate without jitter must be).
func probeRateVals(fn api.RateFunction, interval time.Duration) (string, bool) {
	if interval <= 0 {
		return "badinterval", true
	}
	if fn == nil {
		return "nilrate", true
	}
	t := baseTime
	same := true
	first := 0
	for i := 0; i < 25; i++ {
		v := fn(t)
		if v == math.MinInt64 || v == math.MaxInt64 { // what int(NaN) / int(±Inf) give: not a rate anybody asked for
			return "nanrate", true
		}
		if i == 0 {
			first = v
		} else if v != first {
			same = false
		}
		t = t.Add(interval)
	}
	return probeTicker(interval), same
}

func probeTicker(interval time.Duration) string {
	// the trigger would create this ticker
	tk := time.NewTicker(interval)
	tk.Stop()
	return "ok"
}

func init() {
	// plan <nowNs> <top> <default> <stage>…
	// bfile <startAgoMs|-> <stages c:<ms>:<rate>|u:<ms>:<n>;…> — the `file` trigger *builder* (flags → file → ParseConfigFile →
	// api.Trigger) on a plan that began <startAgoMs> ago: the trigger's Duration and the options it hands to the runner
	// -> `dur=<ms> maxdur=<ms> conc=<n> maxit=<n>` | err
	register("bfile", func(a []string) string {
		var sb strings.Builder
		sb.WriteString("scenario: s\nlimits:\n  max-duration: 5s\n  concurrency: 3\n  max-iterations: 7\n  ignore-dropped: true\n")
		if a[0] != "-" {
			fmt.Fprintf(&sb, "schedule:\n  stage-start: %s\n", time.Now().Add(-time.Duration(atoi(a[0]))*time.Millisecond).UTC().Format(time.RFC3339Nano))
		}
		sb.WriteString("stages:\n")
		for _, st := range strings.Split(a[1], ";") {
			f := strings.Split(st, ":")
			switch f[0] {
			case "c":
				fmt.Fprintf(&sb, "  - mode: constant\n    duration: %sms\n    rate: %s\n    distribution: none\n", f[1], f[2])
			case "u":
				fmt.Fprintf(&sb, "  - mode: users\n    duration: %sms\n    concurrency: %s\n", f[1], f[2])
			}
		}
		dir, err := os.MkdirTemp("", "f1verif-bfile")
		if err != nil {
			return "harness-tempdir"
		}
		defer os.RemoveAll(dir)
		path := filepath.Join(dir, "plan.yaml")
		if err := os.WriteFile(path, []byte(sb.String()), 0o600); err != nil {
			return "harness-tempfile"
		}
		b, ok := builderOf("file")
		if !ok {
			return "no-builder"
		}
		fs := pflag.NewFlagSet("verif", pflag.ContinueOnError)
		fs.AddFlagSet(b.Flags)
		if err := fs.Parse([]string{path}); err != nil {
			return "err"
		}
		trig, err := b.New(fs)
		if err != nil {
			return "err"
		}
		return fmt.Sprintf("dur=%d maxdur=%d conc=%d maxit=%d", trig.Duration.Milliseconds(), trig.Options.MaxDuration.Milliseconds(),
			trig.Options.Concurrency, trig.Options.MaxIterations)
	})
	register("plan", func(a []string) string {
		now := baseTime.Add(time.Duration(atoi64(a[0])))
		top := kvs(a[1])
		doc := map[string]any{}
		if v, ok := top["scenario"]; ok {
			doc["scenario"] = unhex(v)
		}
		lim := map[string]any{}
		if v, ok := top["maxdur"]; ok {
			lim["max-duration"] = durStr(v)
		}
		if v, ok := top["conc"]; ok {
			lim["concurrency"] = atoi(v)
		}
		if v, ok := top["maxit"]; ok {
			lim["max-iterations"] = atou64(v)
		}
		if v, ok := top["maxfail"]; ok {
			lim["max-failures"] = atou64(v)
		}
		if v, ok := top["maxfailrate"]; ok {
			lim["max-failures-rate"] = atoi(v)
		}
		if v, ok := top["igndrop"]; ok {
			lim["ignore-dropped"] = v == "1"
		}
		doc["limits"] = lim
		if v, ok := top["start"]; ok {
			doc["schedule"] = map[string]any{"stage-start": baseTime.Add(time.Duration(atoi64(v))).UTC()}
		}
		if a[2] != "-" {
			doc["default"] = stageYAML(a[2])
		}
		var stages []any
		for _, s := range a[3:] {
			stages = append(stages, stageYAML(s))
		}
		if len(stages) > 0 {
			doc["stages"] = stages
		}
		content, err := yaml.Marshal(doc)
		if err != nil {
			panic(err)
		}
		rs, err := file.ParseConfigFile(content, now)
		if err != nil {
			return "err"
		}
		probe := "ok"
		var parts, vars []string
		for _, st := range rs.Stages {
			if st.UsersConcurrency == 0 {
				p, same := probeRateVals(st.Rate, st.IterationDuration)
				if p != "ok" {
					probe = p
				}
				vars = append(vars, boolTok(same))
			} else {
				vars = append(vars, "-")
				if st.UsersConcurrency < 1 {
					probe = "nousers"
				}
			}
			parts = append(parts, fmt.Sprintf("%d/%d/%d/%s", int64(st.StageDuration), int64(st.IterationDuration),
				st.UsersConcurrency, paramsTok(st.Params)))
		}
		stTok := "-"
		if len(parts) > 0 {
			stTok = strings.Join(parts, ";")
		}
		varsTok := "-"
		if len(vars) > 0 {
			varsTok = strings.Join(vars, ",")
		}
		return fmt.Sprintf("ok %s %d %d %d %d %d %d %s %s probe=%s same=%s", tohex(rs.Scenario), int64(rs.VerifTotalDuration()),
			int64(rs.MaxDuration), rs.Concurrency, rs.MaxIterations, rs.VerifMaxFailures(), rs.VerifMaxFailuresRate(),
			boolTok(rs.IgnoreDropped), stTok, probe, varsTok)
	})

	ratesOut := func(r *api.Rates, err error) string {
		if err != nil {
			return "err"
		}
		return fmt.Sprintf("ok %d probe=%s", int64(r.IterationDuration), probeRate(r.Rate, r.IterationDuration))
	}
	register("calc.constant", func(a []string) string {
		return ratesOut(constant.CalculateConstantRate(0, unhex(a[0]), unhex(a[1])))
	})
	// calc.constantj <rate> <dist> <jitter text>: the constant builder with a jitter spelt as `--jitter` / `jitter:` spell it
	register("calc.constantj", func(a []string) string {
		j, err := strconv.ParseFloat(unhex(a[2]), 64)
		if err != nil {
			return "err"
		}
		return ratesOut(constant.CalculateConstantRate(j, unhex(a[0]), unhex(a[1])))
	})
	register("calc.ramp", func(a []string) string {
		return ratesOut(ramp.CalculateRampRate(unhex(a[0]), unhex(a[1]), unhex(a[2]), time.Duration(atoi64(a[3])), 0))
	})
	register("calc.staged", func(a []string) string {
		return ratesOut(staged.CalculateStagedRate(0, time.Duration(atoi64(a[0])), unhex(a[1]), unhex(a[2]), nil))
	})
	register("calc.gaussian", func(a []string) string {
		return ratesOut(gaussian.CalculateGaussianRate(1000, 0, time.Hour, time.Duration(atoi64(a[0])), 30*time.Minute,
			time.Duration(atoi64(a[1])), unhex(a[2]), unhex(a[3])))
	})
}
