package main

import (
	"fmt"
	"strconv"
	"strings"
	"time"

	"github.com/form3tech-oss/f1/v2/internal/trigger/rate"
	"github.com/form3tech-oss/f1/v2/internal/trigger/staged"
)

func init() {
	register("atoi", func(a []string) string {
		n, err := strconv.Atoi(unhex(a[0]))
		if err != nil {
			return "err"
		}
		return "ok " + strconv.Itoa(n)
	})
	register("parsedur", func(a []string) string {
		d, err := time.ParseDuration(unhex(a[0]))
		if err != nil {
			return "err"
		}
		return "ok " + strconv.FormatInt(int64(d), 10)
	})
	register("parserate", func(a []string) string {
		r, u, err := rate.ParseRate(unhex(a[0]))
		if err != nil {
			return "err"
		}
		return fmt.Sprintf("ok %d %d", r, int64(u))
	})
	register("parsestages", func(a []string) string {
		st, err := staged.ParseStages(unhex(a[0]))
		if err != nil {
			return "err"
		}
		if len(st) == 0 {
			return "ok -"
		}
		var parts []string
		for _, s := range st {
			parts = append(parts, fmt.Sprintf("%d:%d", int64(s.Duration), s.EndTarget))
		}
		return "ok " + strings.Join(parts, ";")
	})
}
