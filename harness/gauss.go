package main

import (
	"fmt"
	"strconv"
	"strings"
	"time"

	igauss "github.com/form3tech-oss/f1/v2/internal/gaussian"
	"github.com/form3tech-oss/f1/v2/internal/trigger/gaussian"
)

func volTok(v float64) string {
	if v != v {
		return "nan"
	}
	if v > 1e300 || v < -1e300 {
		return "inf"
	}
	return strconv.FormatFloat(v, 'f', 0, 64)
}

func init() {
	// gaussvol <peak-rate hex> <peakNs> <stddevNs> — gaussian.CalculateVolume (the --peak-rate path) for the given
	// rate string and for the reference string 1000000000/s -> `<volume> <reference volume>` | err
	register("gaussvol", func(a []string) string {
		peak, sd := time.Duration(atoi64(a[1])), time.Duration(atoi64(a[2]))
		v, err := gaussian.CalculateVolume(unhex(a[0]), peak, sd)
		if err != nil {
			return "err"
		}
		ref, err := gaussian.CalculateVolume("1000000000/s", peak, sd)
		if err != nil {
			return "err"
		}
		return volTok(v) + " " + volTok(ref)
	})
	// gauss <volume bits> <repeatNs> <freqNs> <peakNs> <stddevNs> <weights bits csv|-> <startUnixNs> <n>
	register("gauss", func(a []string) string {
		vol := floatOfHex(a[0])
		rep, freq := time.Duration(atoi64(a[1])), time.Duration(atoi64(a[2]))
		peak, sd := time.Duration(atoi64(a[3])), time.Duration(atoi64(a[4]))
		var ws []float64
		var rateFn func(time.Time) int
		if strings.HasPrefix(a[5], "s:") { // the weights as a string, through the parser of CalculateGaussianRate
			rates, err := gaussian.CalculateGaussianRate(vol, 0, rep, freq, peak, sd, unhex(a[5][2:]), "none")
			if err != nil {
				return "err"
			}
			rateFn = rates.Rate
		} else {
			if a[5] != "-" {
				for _, w := range strings.Split(a[5], ",") {
					ws = append(ws, floatOfHex(w))
				}
			}
			calc, err := gaussian.NewCalculator(peak, sd, freq, ws, vol, rep)
			if err != nil {
				return "err"
			}
			rateFn = calc.For
		}
		dist, err := igauss.NewDistribution(float64(peak), float64(sd))
		if err != nil {
			return "err"
		}
		start := time.Unix(0, atoi64(a[6])).UTC()
		n := atoi(a[7])
		outs := make([]int, n)
		pdfs := make([]string, n)
		jumpAt, jumpBy := 0, time.Duration(0)
		if len(a) > 8 { // <k>:<w> — from tick k on the clock reads w whole windows later
			f := strings.SplitN(a[8], ":", 2)
			jumpAt, jumpBy = atoi(f[0]), time.Duration(atoi64(f[1]))*rep
		}
		for k := 0; k < n; k++ {
			t := start.Add(time.Duration(k) * freq)
			if jumpBy != 0 && k >= jumpAt {
				t = t.Add(jumpBy)
			}
			outs[k] = rateFn(t)
			pdfs[k] = floatHex(dist.PDF(float64(t.Sub(t.Truncate(rep)))))
		}
		p := "-"
		if n > 0 {
			p = strings.Join(pdfs, ",")
		}
		return fmt.Sprintf("%s %s %s %s", floatHex(dist.CDF(float64(rep-freq))), floatHex(dist.CDF(0)), intsTok(outs), p)
	})
}
