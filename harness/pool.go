package main

import (
	"context"
	"fmt"
	"strings"
	"sync"
	"sync/atomic"
	"time"

	"github.com/prometheus/client_golang/prometheus"

	"github.com/form3tech-oss/f1/v2/internal/log"
	"github.com/form3tech-oss/f1/v2/internal/metrics"
	"github.com/form3tech-oss/f1/v2/internal/progress"
	"github.com/form3tech-oss/f1/v2/internal/verifhook"
	"github.com/form3tech-oss/f1/v2/internal/workers"
	"github.com/form3tech-oss/f1/v2/pkg/f1/scenarios"
	f1testing "github.com/form3tech-oss/f1/v2/pkg/f1/testing"
)

type poolRig struct {
	stats     *progress.Stats
	manager   *workers.PoolManager
	pool      *workers.TriggerPool
	workerCtx context.Context
	cancel    context.CancelFunc
	gate      chan struct{}
	started   atomic.Int64
	completed atomic.Int64
	inflight  atomic.Int64
	maxFlight atomic.Int64
	idsMu     sync.Mutex
	ids       []string
	live      map[*f1testing.T]int // handles of iterations currently executing
	sharedHandle int
	accepted  atomic.Int64 // sum of numJobs of Trigger calls that passed the context check
}

func newPoolRigBase(limit uint64, gated bool) *poolRig {
	r := &poolRig{stats: &progress.Stats{}, gate: make(chan struct{}, 1<<16)}
	sc := &scenarios.Scenario{Name: "s"}
	sc.RunFn = func(t *f1testing.T) {
		r.started.Add(1)
		n := r.inflight.Add(1)
		for {
			m := r.maxFlight.Load()
			if n <= m || r.maxFlight.CompareAndSwap(m, n) {
				break
			}
		}
		r.idsMu.Lock()
		r.ids = append(r.ids, t.Iteration)
		if r.live == nil {
			r.live = map[*f1testing.T]int{}
		}
		r.live[t]++
		if r.live[t] > 1 {
			r.sharedHandle++
		}
		r.idsMu.Unlock()
		if gated {
			<-r.gate
		}
		r.idsMu.Lock()
		r.live[t]--
		r.idsMu.Unlock()
		r.inflight.Add(-1)
		r.completed.Add(1)
	}
	logger := log.NewDiscardLogger()
	m := metrics.NewInstance(prometheus.NewRegistry(), true, nil)
	as := workers.NewActiveScenario(sc, m, r.stats, logger, log.NewSlogLogrusLogger(logger))
	r.manager = workers.New(limit, as)
	return r
}

func newPoolRig(w int, limit uint64, gated bool) *poolRig {
	r := newPoolRigBase(limit, gated)
	r.pool = r.manager.NewTriggerPool(w)
	ctx, cancel := context.WithCancel(context.Background())
	r.cancel = cancel
	r.workerCtx = r.pool.Start(ctx)
	return r
}

// settle waits until the observable counters stop changing.
func (r *poolRig) settle() {
	last := [3]int64{-1, -1, -1}
	stable := 0
	for i := 0; i < 4000 && stable < 6; i++ {
		time.Sleep(500 * time.Microsecond)
		cur := [3]int64{r.started.Load(), r.completed.Load(), r.pool.VerifPending()}
		if cur == last {
			stable++
		} else {
			stable = 0
			last = cur
		}
	}
}

func init() {
	// pool.script <workers> <limit> <steps;…>
	//  t<n> trigger n (synchronous)          T<n> trigger n, parked at pool.trigger.accepted
	//  r    resume the parked trigger        x    cancel and wait until the pool has stopped
	//  f<k> let k in-flight bodies finish    s    settle
	//  L    park the next worker at pool.limit.discarded     l  resume it
	//  P    park the next worker at pool.worker.pretake      p  resume it
	// output: started dropped pending+ refused accepted stuckPending
	register("pool.script", func(a []string) string {
		w, limit := atoi(a[0]), atou64(a[1])
		r := newPoolRig(w, limit, true)
		type park struct {
			armed  atomic.Bool
			parked chan struct{}
			resume chan struct{}
		}
		mk := func() *park { return &park{parked: make(chan struct{}, 1), resume: make(chan struct{})} }
		pk := map[string]*park{"pool.trigger.accepted": mk(), "pool.limit.discarded": mk(), "pool.worker.pretake": mk()}
		verifhook.Set(func(point string) {
			p := pk[point]
			if p != nil && p.armed.CompareAndSwap(true, false) {
				p.parked <- struct{}{}
				<-p.resume
			}
		})
		defer verifhook.Set(nil)
		waitParked := func(p *park) bool {
			select {
			case <-p.parked:
				return true
			case <-time.After(3 * time.Second):
				return false
			}
		}
		trigDone := make(chan struct{}, 16)
		bad := ""
		for _, st := range strings.Split(a[2], ";") {
			if st == "" || bad != "" {
				continue
			}
			switch st[0] {
			case 't':
				n := atoi(st[1:])
				if r.workerCtx.Err() == nil {
					r.accepted.Add(int64(n))
				}
				r.pool.Trigger(r.workerCtx, n)
			case 'T':
				n := atoi(st[1:])
				p := pk["pool.trigger.accepted"]
				p.armed.Store(true)
				if r.workerCtx.Err() == nil {
					r.accepted.Add(int64(n))
				}
				go func() { r.pool.Trigger(r.workerCtx, n); trigDone <- struct{}{} }()
				if r.workerCtx.Err() == nil && !waitParked(p) {
					bad = "script-timeout:T"
				}
			case 'r':
				p := pk["pool.trigger.accepted"]
				p.resume <- struct{}{}
				select {
				case <-trigDone:
				case <-time.After(3 * time.Second):
					bad = "script-timeout:r"
				}
			case 'x':
				r.cancel()
				for i := 0; i < 6000 && !r.pool.VerifStopped(); i++ {
					time.Sleep(500 * time.Microsecond)
				}
				time.Sleep(3 * time.Millisecond)
			case 'f':
				k := atoi(st[1:])
				if fl := int(r.inflight.Load()); k > fl {
					k = fl // only bodies that are executing can finish
				}
				c0 := r.completed.Load()
				for i := 0; i < k; i++ {
					r.gate <- struct{}{}
				}
				for i := 0; i < 6000 && r.completed.Load() < c0+int64(k); i++ {
					time.Sleep(500 * time.Microsecond)
				}
			case 's':
				r.settle()
			case 'L':
				pk["pool.limit.discarded"].armed.Store(true)
			case 'l':
				select {
				case pk["pool.limit.discarded"].resume <- struct{}{}:
				case <-time.After(3 * time.Second):
					bad = "script-timeout:l"
				}
				for i := 0; i < 6000 && !r.pool.VerifStopped(); i++ {
					time.Sleep(500 * time.Microsecond)
				}
				time.Sleep(3 * time.Millisecond)
			case 'W': // wait until a worker is parked at the limit yield point
				if !waitParked(pk["pool.limit.discarded"]) {
					bad = "script-timeout:W"
				}
			case 'P':
				pk["pool.worker.pretake"].armed.Store(true)
			case 'Q': // wait until a worker is parked at pretake
				if !waitParked(pk["pool.worker.pretake"]) {
					bad = "script-timeout:Q"
				}
			case 'p':
				select {
				case pk["pool.worker.pretake"].resume <- struct{}{}:
				case <-time.After(3 * time.Second):
					bad = "script-timeout:p"
				}
			}
		}
		// wind down: stop triggering, let everything finish
		for _, p := range pk {
			p.armed.Store(false)
		}
		r.settle()
		startedBefore := r.started.Load()
		pendingBefore := r.pool.VerifPending()
		r.cancel()
		for i := 0; i < 6000 && !r.pool.VerifStopped(); i++ {
			time.Sleep(500 * time.Microsecond)
		}
		time.Sleep(2 * time.Millisecond)
		close(r.gate)
		for _, p := range pk {
			select {
			case p.resume <- struct{}{}:
			default:
			}
		}
		completedOK := 1
		select {
		case <-r.manager.WaitForCompletion():
		case <-time.After(5 * time.Second):
			completedOK = 0
		}
		_ = startedBefore
		_ = pendingBefore
		tot := r.stats.Total()
		refused := int64(0)
		if limit > 0 && r.manager.VerifIterationCounter() > limit {
			refused = int64(r.manager.VerifIterationCounter() - limit)
		}
		stuck := r.pool.VerifPending()
		if stuck < 0 {
			stuck = 0
		}
		if bad != "" {
			return bad
		}
		return fmt.Sprintf("started=%d dropped=%d stuck=%d refused=%d accepted=%d done=%d maxflight=%d",
			r.started.Load(), tot.DroppedIterationCount, stuck, refused, r.accepted.Load(), completedOK, r.maxFlight.Load())
	})
}

func init() {
	// jobcounter <ops> — the real pending-counter type, sequentially
	register("jobcounter", func(a []string) string {
		var c workers.VerifJobCounter
		var outs []string
		for _, op := range strings.Split(a[0], ",") {
			switch op[0] {
			case 's':
				outs = append(outs, fmt.Sprint(c.Set(atoi(op[1:]))))
			case 'n':
				outs = append(outs, boolTok(c.None()))
			case 't':
				outs = append(outs, boolTok(c.Take()))
			}
		}
		return strings.Join(outs, ",") + " " + fmt.Sprint(c.Raw())
	})

	// pool.stress <workers> <ticks> <maxJobs> <rounds> — hook-free: fast ticks against many workers with
	// instantaneous bodies, all ticks issued before cancel; requested must equal started + dropped.
	// pool.race <workers> <a> <b> <rounds> — a tick of b requests races with the pool's shutdown while a requests
	// are out (min(a, workers) of them executing, the rest pending). Whatever the interleaving, every request of
	// the first tick is started or dropped, and the racing tick is either refused whole or all of it is dropped or
	// started: started + dropped is a or a+b. Bodies are gated and released after the race. Three flavours, by round:
	//  0 free race of Trigger(b) against cancel();
	//  1 the tick is held at pool.trigger.accepted (past its context check) until the stop flag is up, then races
	//    stop()'s drain for the pool lock;
	//  2 the tick is accepted first; the workers it wakes are held at pool.worker.pretake until the stop flag is
	//    up, then race the drain for the pending requests.
	register("pool.race", func(a []string) string {
		w, na, nb, rounds := atoi(a[0]), atoi(a[1]), atoi(a[2]), atoi(a[3])
		bad, firstBad := 0, ""
		refused, acceptedB := 0, 0
		var mode atomic.Int32
		var armed, tickParked atomic.Bool
		var cur atomic.Pointer[poolRig]
		spinUntilStopped := func(max time.Duration) {
			r := cur.Load()
			dl := time.Now().Add(max)
			for !r.pool.VerifStopped() && time.Now().Before(dl) {
			}
		}
		verifhook.Set(func(point string) {
			if !armed.Load() {
				return
			}
			switch {
			case point == "pool.trigger.accepted" && mode.Load() == 1:
				tickParked.Store(true)
				spinUntilStopped(3 * time.Millisecond)
			case point == "pool.worker.pretake" && mode.Load() == 2:
				spinUntilStopped(2 * time.Millisecond)
			}
		})
		defer verifhook.Set(nil)
		for rd := 0; rd < rounds; rd++ {
			armed.Store(false)
			tickParked.Store(false)
			mode.Store(int32(rd % 3))
			r := newPoolRig(w, 0, true)
			cur.Store(r)
			if na > 0 {
				r.pool.Trigger(r.workerCtx, na)
				for i := 0; i < 4000 && r.started.Load() < int64(min(na, w)); i++ {
					time.Sleep(50 * time.Microsecond)
				}
			}
			x := uint32(rd)*2654435761 + 12345
			x ^= x >> 13
			spin := func(n uint32) {
				var v atomic.Int64
				for i := uint32(0); i < n; i++ {
					v.Add(1)
				}
			}
			armed.Store(true)
			switch mode.Load() {
			case 0:
				var wg sync.WaitGroup
				start := make(chan struct{})
				wg.Add(2)
				go func() { defer wg.Done(); <-start; spin(x % 197); r.pool.Trigger(r.workerCtx, nb) }()
				go func() { defer wg.Done(); <-start; spin((x >> 8) % 197); r.cancel() }()
				close(start)
				wg.Wait()
			case 1:
				done := make(chan struct{})
				go func() { r.pool.Trigger(r.workerCtx, nb); close(done) }()
				for i := 0; i < 100000 && !tickParked.Load(); i++ {
					spin(20)
				}
				r.cancel()
				<-done
			case 2:
				r.pool.Trigger(r.workerCtx, nb)
				spin(x % 97)
				r.cancel()
			}
			for i := 0; i < 4000 && !r.pool.VerifStopped(); i++ {
				time.Sleep(50 * time.Microsecond)
			}
			armed.Store(false)
			for i := 0; i < na+nb+w; i++ {
				r.gate <- struct{}{}
			}
			done := true
			select {
			case <-r.manager.WaitForCompletion():
			case <-time.After(5 * time.Second):
				done = false
			}
			// the drain records its drops one by one after the workers have gone: wait for a valid, stable total
			var tot progress.Snapshot
			var sum int64
			stable := 0
			for i := 0; i < 1500 && stable < 4; i++ {
				time.Sleep(200 * time.Microsecond)
				tot = r.stats.Total()
				s2 := r.started.Load() + int64(tot.DroppedIterationCount)
				if s2 == sum && (s2 == int64(na) || s2 == int64(na+nb)) {
					stable++
				} else {
					stable = 0
				}
				sum = s2
			}
			switch {
			case !done:
				bad++
				if firstBad == "" {
					firstBad = "workers-never-finished"
				}
			case sum == int64(na):
				refused++
			case sum == int64(na+nb):
				acceptedB++
			default:
				bad++
				if firstBad == "" {
					firstBad = fmt.Sprintf("flavour%d/started=%d/dropped=%d/of=%d+%d", rd%3, r.started.Load(), tot.DroppedIterationCount, na, nb)
				}
			}
			if bad >= 3 {
				break
			}
		}
		if firstBad == "" {
			firstBad = "-"
		}
		return fmt.Sprintf("diff=%d rounds=%d refused=%d accepted=%d first=%s", bad, rounds, refused, acceptedB, firstBad)
	})
	// pool.cancelledstart <users> <rounds> — a users pool started on a context that has already ended (a run interrupted
	// while the pool was being built) must not start a single iteration
	register("pool.cancelledstart", func(a []string) string {
		n, rounds := atoi(a[0]), atoi(a[1])
		total := int64(0)
		for rd := 0; rd < rounds; rd++ {
			r := newPoolRigBase(0, false)
			ctx, cancel := context.WithCancel(context.Background())
			cancel()
			cp := r.manager.NewContinuousPool(n)
			cp.Start(ctx)
			select {
			case <-r.manager.WaitForCompletion():
			case <-time.After(5 * time.Second):
				return "workers-never-finished"
			}
			total += r.started.Load()
		}
		return fmt.Sprintf("started=%d", total)
	})
	register("pool.stress", func(a []string) string {
		w, ticks, maxn, rounds := atoi(a[0]), atoi(a[1]), atoi(a[2]), atoi(a[3])
		for rd := 0; rd < rounds; rd++ {
			r := newPoolRig(w, 0, false)
			requested := int64(0)
			x := uint32(rd*7919 + 17)
			for i := 0; i < ticks; i++ {
				x = x*1664525 + 1013904223
				n := int(x>>16)%maxn + 1
				requested += int64(n)
				r.pool.Trigger(r.workerCtx, n)
				if x&7 == 0 {
					time.Sleep(time.Duration(x>>24) * time.Microsecond / 8)
				}
			}
			r.cancel()
			done := 1
			select {
			case <-r.manager.WaitForCompletion():
			case <-time.After(5 * time.Second):
				done = 0
			}
			for i := 0; i < 2000 && !r.pool.VerifStopped(); i++ {
				time.Sleep(100 * time.Microsecond)
			}
			time.Sleep(2 * time.Millisecond)
			tot := r.stats.Total()
			diff := requested - r.started.Load() - int64(tot.DroppedIterationCount)
			over := 0
			if r.maxFlight.Load() > int64(w) {
				over = 1
			}
			if diff != 0 || done == 0 || over == 1 || r.sharedHandle != 0 || rd == rounds-1 {
				return fmt.Sprintf("diff=%d done=%d overflight=%d shared=%d requested=%d", diff, done, over, r.sharedHandle, requested)
			}
		}
		return "diff=0 done=1 overflight=0 shared=0"
	})

	// pool.usable <workers> <rounds> — all workers must be usable: every round lets all W gated iterations
	// finish together (with k < W requests still pending) and, a swept few microseconds later, requests W
	// more; within the deadline W iterations must be executing.
	register("pool.usable", func(a []string) string {
		w, rounds := atoi(a[0]), atoi(a[1])
		r := newPoolRig(w, 0, true)
		defer func() { r.cancel(); close(r.gate) }()
		waitFlight := func(n int64) bool {
			dl := time.Now().Add(1500 * time.Millisecond)
			for time.Now().Before(dl) {
				if r.inflight.Load() == n {
					return true
				}
				time.Sleep(20 * time.Microsecond)
			}
			return false
		}
		r.pool.Trigger(r.workerCtx, w)
		if !waitFlight(int64(w)) {
			return "notUsable=initial"
		}
		for rd := 0; rd < rounds; rd++ {
			pendingBefore := rd % w // fewer requests than workers pending: some takes fail
			if pendingBefore > 0 {
				r.pool.Trigger(r.workerCtx, pendingBefore)
			}
			for i := 0; i < w; i++ {
				r.gate <- struct{}{}
			}
			// swept delay so that the tick lands while workers race for the pending requests / go to sleep
			for spin := 0; spin < (rd%40)*30; spin++ {
				_ = spin
			}
			if rd%3 == 0 {
				time.Sleep(time.Duration(rd%50) * time.Microsecond)
			}
			r.pool.Trigger(r.workerCtx, w)
			// all finished bodies + the new tick: W must be in flight again (possibly after the pendingBefore ones finish)
			ok := false
			dl := time.Now().Add(1500 * time.Millisecond)
			for time.Now().Before(dl) {
				if r.inflight.Load() == int64(w) && r.completed.Load() >= int64((rd+1)*w) {
					ok = true
					break
				}
				time.Sleep(20 * time.Microsecond)
			}
			if !ok {
				return fmt.Sprintf("notUsable=round%d inflight=%d", rd, r.inflight.Load())
			}
			// drain the extra started ones (pendingBefore) so that exactly W remain in flight
		}
		return fmt.Sprintf("notUsable=0 shared=%d", r.sharedHandle)
	})

	// pool.handles <pools> <workersEach> — several pools of one PoolManager (as the file trigger creates
	// one per stage) running iterations at the same time must not share a handle.
	register("pool.handles", func(a []string) string {
		pools, w := atoi(a[0]), atoi(a[1])
		r := newPoolRigBase(0, true)
		var cancels []context.CancelFunc
		total := 0
		for i := 0; i < pools; i++ {
			p := r.manager.NewTriggerPool(w)
			ctx, cancel := context.WithCancel(context.Background())
			cancels = append(cancels, cancel)
			wctx := p.Start(ctx)
			p.Trigger(wctx, w)
			total += w
		}
		dl := time.Now().Add(2 * time.Second)
		for time.Now().Before(dl) && r.inflight.Load() < int64(total) {
			time.Sleep(100 * time.Microsecond)
		}
		got := r.inflight.Load()
		r.idsMu.Lock()
		shared := r.sharedHandle
		r.idsMu.Unlock()
		close(r.gate)
		for _, c := range cancels {
			c()
		}
		select {
		case <-r.manager.WaitForCompletion():
		case <-time.After(3 * time.Second):
			return "timeout"
		}
		return fmt.Sprintf("shared=%d inflight=%d", shared, got)
	})
}
