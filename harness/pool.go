package main

import (
	"context"
	"fmt"
	"strings"
	"sync"
	"sync/atomic"
	"time"

	"github.com/prometheus/client_golang/prometheus"

	"github.com/form3tech-oss/f1/v2/internal/log"
	"github.com/form3tech-oss/f1/v2/internal/metrics"
	"github.com/form3tech-oss/f1/v2/internal/progress"
	"github.com/form3tech-oss/f1/v2/internal/verifhook"
	"github.com/form3tech-oss/f1/v2/internal/workers"
	"github.com/form3tech-oss/f1/v2/pkg/f1/scenarios"
	f1testing "github.com/form3tech-oss/f1/v2/pkg/f1/testing"
)

type poolRig struct {
	stats     *progress.Stats
	manager   *workers.PoolManager
	pool      *workers.TriggerPool
	workerCtx context.Context
	cancel    context.CancelFunc
	gate      chan struct{}
	started   atomic.Int64
	completed atomic.Int64
	inflight  atomic.Int64
	maxFlight atomic.Int64
	idsMu     sync.Mutex
	ids       []string
	live      map[*f1testing.T]int // handles of iterations currently executing
	sharedHandle int
	accepted  atomic.Int64 // sum of numJobs of Trigger calls that passed the context check
}

func newPoolRigBase(limit uint64, gated bool) *poolRig {
	r := &poolRig{stats: &progress.Stats{}, gate: make(chan struct{}, 1<<16)}
	sc := &scenarios.Scenario{Name: "s"}
	sc.RunFn = func(t *f1testing.T) {
		r.started.Add(1)
		n := r.inflight.Add(1)
		for {
			m := r.maxFlight.Load()
			if n <= m || r.maxFlight.CompareAndSwap(m, n) {
				break
			}
		}
		r.idsMu.Lock()
		r.ids = append(r.ids, t.Iteration)
		if r.live == nil {
			r.live = map[*f1testing.T]int{}
		}
		r.live[t]++
		if r.live[t] > 1 {
			r.sharedHandle++
		}
		r.idsMu.Unlock()
		if gated {
			<-r.gate
		}
		r.idsMu.Lock()
		r.live[t]--
		r.idsMu.Unlock()
		r.inflight.Add(-1)
		r.completed.Add(1)
	}
	logger := log.NewDiscardLogger()
	m := metrics.NewInstance(prometheus.NewRegistry(), true, nil)
	as := workers.NewActiveScenario(sc, m, r.stats, logger, log.NewSlogLogrusLogger(logger))
	r.manager = workers.New(limit, as)
	return r
}

func newPoolRig(w int, limit uint64, gated bool) *poolRig {
	r := newPoolRigBase(limit, gated)
	r.pool = r.manager.NewTriggerPool(w)
	ctx, cancel := context.WithCancel(context.Background())
	r.cancel = cancel
	r.workerCtx = r.pool.Start(ctx)
	return r
}

// settle waits until the observable counters stop changing.
func (r *poolRig) settle() {
	last := [3]int64{-1, -1, -1}
	stable := 0
	for i := 0; i < 4000 && stable < 6; i++ {
		time.Sleep(500 * time.Microsecond)
		cur := [3]int64{r.started.Load(), r.completed.Load(), r.pool.VerifPending()}
		if cur == last {
			stable++
		} else {
			stable = 0
			last = cur
		}
	}
}

func init() {
	// pool.script <workers> <limit> <steps;…>
	//  t<n> trigger n (synchronous)          T<n> trigger n, parked at pool.trigger.accepted
	//  r    resume the parked trigger        x    cancel and wait until the pool has stopped
	//  f<k> let k in-flight bodies finish    s    settle
	//  L    park the next worker at pool.limit.discarded     l  resume it
	//  P    park the next worker at pool.worker.pretake      p  resume it
	// output: started dropped pending+ refused accepted stuckPending
	register("pool.script", func(a []string) string {
		w, limit := atoi(a[0]), atou64(a[1])
		r := newPoolRig(w, limit, true)
		type park struct {
			armed  atomic.Bool
			parked chan struct{}
			resume chan struct{}
		}
		mk := func() *park { return &park{parked: make(chan struct{}, 1), resume: make(chan struct{})} }
		pk := map[string]*park{"pool.trigger.accepted": mk(), "pool.limit.discarded": mk(), "pool.worker.pretake": mk()}
		verifhook.Set(func(point string) {
			p := pk[point]
			if p != nil && p.armed.CompareAndSwap(true, false) {
				p.parked <- struct{}{}
				<-p.resume
			}
		})
		defer verifhook.Set(nil)
		waitParked := func(p *park) bool {
			select {
			case <-p.parked:
				return true
			case <-time.After(3 * time.Second):
				return false
			}
		}
		trigDone := make(chan struct{}, 16)
		bad := ""
		for _, st := range strings.Split(a[2], ";") {
			if st == "" || bad != "" {
				continue
			}
			switch st[0] {
			case 't':
				n := atoi(st[1:])
				if r.workerCtx.Err() == nil {
					r.accepted.Add(int64(n))
				}
				r.pool.Trigger(r.workerCtx, n)
			case 'T':
				n := atoi(st[1:])
				p := pk["pool.trigger.accepted"]
				p.armed.Store(true)
				if r.workerCtx.Err() == nil {
					r.accepted.Add(int64(n))
				}
				go func() { r.pool.Trigger(r.workerCtx, n); trigDone <- struct{}{} }()
				if r.workerCtx.Err() == nil && !waitParked(p) {
					bad = "script-timeout:T"
				}
			case 'r':
				p := pk["pool.trigger.accepted"]
				p.resume <- struct{}{}
				select {
				case <-trigDone:
				case <-time.After(3 * time.Second):
					bad = "script-timeout:r"
				}
			case 'x':
				r.cancel()
				for i := 0; i < 6000 && !r.pool.VerifStopped(); i++ {
					time.Sleep(500 * time.Microsecond)
				}
				time.Sleep(3 * time.Millisecond)
			case 'f':
				k := atoi(st[1:])
				c0 := r.completed.Load()
				for i := 0; i < k; i++ {
					r.gate <- struct{}{}
				}
				for i := 0; i < 6000 && r.completed.Load() < c0+int64(k); i++ {
					time.Sleep(500 * time.Microsecond)
				}
			case 's':
				r.settle()
			case 'L':
				pk["pool.limit.discarded"].armed.Store(true)
			case 'l':
				select {
				case pk["pool.limit.discarded"].resume <- struct{}{}:
				case <-time.After(3 * time.Second):
					bad = "script-timeout:l"
				}
			case 'W': // wait until a worker is parked at the limit yield point
				if !waitParked(pk["pool.limit.discarded"]) {
					bad = "script-timeout:W"
				}
			case 'P':
				pk["pool.worker.pretake"].armed.Store(true)
			case 'Q': // wait until a worker is parked at pretake
				if !waitParked(pk["pool.worker.pretake"]) {
					bad = "script-timeout:Q"
				}
			case 'p':
				select {
				case pk["pool.worker.pretake"].resume <- struct{}{}:
				case <-time.After(3 * time.Second):
					bad = "script-timeout:p"
				}
			}
		}
		// wind down: stop triggering, let everything finish
		for _, p := range pk {
			p.armed.Store(false)
		}
		r.settle()
		startedBefore := r.started.Load()
		pendingBefore := r.pool.VerifPending()
		r.cancel()
		for i := 0; i < 6000 && !r.pool.VerifStopped(); i++ {
			time.Sleep(500 * time.Microsecond)
		}
		time.Sleep(2 * time.Millisecond)
		close(r.gate)
		for _, p := range pk {
			select {
			case p.resume <- struct{}{}:
			default:
			}
		}
		completedOK := 1
		select {
		case <-r.manager.WaitForCompletion():
		case <-time.After(5 * time.Second):
			completedOK = 0
		}
		_ = startedBefore
		_ = pendingBefore
		tot := r.stats.Total()
		refused := int64(0)
		if limit > 0 && r.manager.VerifIterationCounter() > limit {
			refused = int64(r.manager.VerifIterationCounter() - limit)
		}
		stuck := r.pool.VerifPending()
		if stuck < 0 {
			stuck = 0
		}
		if bad != "" {
			return bad
		}
		return fmt.Sprintf("started=%d dropped=%d stuck=%d refused=%d accepted=%d done=%d maxflight=%d",
			r.started.Load(), tot.DroppedIterationCount, stuck, refused, r.accepted.Load(), completedOK, r.maxFlight.Load())
	})
}
