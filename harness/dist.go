package main

import (
	"fmt"
	"strconv"
	"strings"
	"time"

	"github.com/form3tech-oss/f1/v2/internal/trigger/api"
)

type scripted struct {
	vals   []int
	calls  int
	cyclic bool
}

func (s *scripted) next() int {
	v := 0
	if s.cyclic && len(s.vals) > 0 {
		v = s.vals[s.calls%len(s.vals)]
	} else if s.calls < len(s.vals) {
		v = s.vals[s.calls]
	}
	s.calls++
	return v
}

func init() {
	// dist <kind> <intervalNs> <steps> <rates> <rands>  ->  <intervalOutNs> <evals> <outs> | err
	register("dist", func(a []string) string {
		rates := &scripted{vals: parseInts(a[3])}
		rands := &scripted{vals: parseInts(a[4])}
		iv, fn, err := api.NewDistribution(api.DistributionType(a[0]), time.Duration(atoi64(a[1])),
			func(time.Time) int { return rates.next() }, func(int) int { return rands.next() })
		if err != nil {
			return "err"
		}
		steps := atoi(a[2])
		outs := make([]int, steps)
		t0 := time.Unix(1700000000, 0)
		// optional a[5]: <callIndex>:<extraNs>,… — from that call on the timestamps are later by extraNs (a late tick,
		// a suspended process); negative values model a clock stepping back
		shift := map[int]time.Duration{}
		if len(a) > 5 && a[5] != "-" {
			for _, g := range strings.Split(a[5], ",") {
				f := strings.SplitN(g, ":", 2)
				shift[atoi(f[0])] = time.Duration(atoi64(f[1]))
			}
		}
		var off time.Duration
		for i := 0; i < steps; i++ {
			off += shift[i]
			outs[i] = fn(t0.Add(time.Duration(i)*iv + off))
		}
		return fmt.Sprintf("%d %d %s", int64(iv), rates.calls, intsTok(outs))
	})
	// distsum regular <intervalNs> <cycles> <rates>  ->  <evals> <sum:min:max,…>
	register("distsum", func(a []string) string {
		rates := &scripted{vals: parseInts(a[3]), cyclic: true}
		ivIn := time.Duration(atoi64(a[1]))
		iv, fn, err := api.NewDistribution(api.DistributionType(a[0]), ivIn,
			func(time.Time) int { return rates.next() }, nil)
		if err != nil {
			return "err"
		}
		n := int(ivIn.Milliseconds() / 100)
		cycles := atoi(a[2])
		var toks []string
		t0 := time.Unix(1700000000, 0)
		for c := 0; c < cycles; c++ {
			sum, mn, mx := 0, 0, 0
			for j := 0; j < n; j++ {
				v := fn(t0)
				sum += v
				if j == 0 || v < mn {
					mn = v
				}
				if j == 0 || v > mx {
					mx = v
				}
			}
			toks = append(toks, strconv.Itoa(sum)+":"+strconv.Itoa(mn)+":"+strconv.Itoa(mx))
		}
		_ = iv
		return fmt.Sprintf("%d %s", rates.calls, strings.Join(toks, ","))
	})
}
