package main

import (
	"fmt"
	"strconv"
	"strings"
	"time"

	"github.com/spf13/pflag"

	"github.com/form3tech-oss/f1/v2/internal/trigger"
	"github.com/form3tech-oss/f1/v2/internal/trigger/api"
	"github.com/form3tech-oss/f1/v2/internal/trigger/rate"
	"github.com/form3tech-oss/f1/v2/internal/ui"
)

type scripted struct {
	vals   []int
	calls  int
	cyclic bool
}

func (s *scripted) next() int {
	v := 0
	if s.cyclic && len(s.vals) > 0 {
		v = s.vals[s.calls%len(s.vals)]
	} else if s.calls < len(s.vals) {
		v = s.vals[s.calls]
	}
	s.calls++
	return v
}

func init() {
	// dist <kind> <intervalNs> <steps> <rates> <rands>  ->  <intervalOutNs> <evals> <outs> | err
	register("dist", func(a []string) string {
		rates := &scripted{vals: parseInts(a[3])}
		rands := &scripted{vals: parseInts(a[4])}
		iv, fn, err := api.NewDistribution(api.DistributionType(a[0]), time.Duration(atoi64(a[1])),
			func(time.Time) int { return rates.next() }, func(int) int { return rands.next() })
		if err != nil {
			return "err"
		}
		steps := atoi(a[2])
		outs := make([]int, steps)
		t0 := time.Unix(1700000000, 0)
		// optional a[5]: <callIndex>:<extraNs>,… — from that call on the timestamps are later by extraNs (a late tick,
		// a suspended process); negative values model a clock stepping back
		shift := map[int]time.Duration{}
		if len(a) > 5 && a[5] != "-" {
			for _, g := range strings.Split(a[5], ",") {
				f := strings.SplitN(g, ":", 2)
				shift[atoi(f[0])] = time.Duration(atoi64(f[1]))
			}
		}
		var off time.Duration
		for i := 0; i < steps; i++ {
			off += shift[i]
			outs[i] = fn(t0.Add(time.Duration(i)*iv + off))
		}
		return fmt.Sprintf("%d %d %s", int64(iv), rates.calls, intsTok(outs))
	})
	// pipeline <rate hex> <jn> <jd> <dist hex> <cycles> [mode] — the composed rate function exactly as the trigger
	// *builder* of the mode assembles it from its flags (constant: --rate; staged: a plateau of the same rate via
	// --stages/--iterationFrequency; both with --jitter and --distribution), called for <cycles> whole cycles
	// -> `<intervalNs> <calls> <total> <min> <max> <unevenCycles>` | err
	register("pipeline", func(a []string) string {
		mode := "constant"
		if len(a) > 5 {
			mode = a[5]
		}
		cnt, unit, err := rate.ParseRate(unhex(a[0]))
		rateFn, berr := builtRate(mode, unhex(a[0]), cnt, unit, err, jitterText(a[1], a[2]), unhex(a[3]))
		if berr != nil || err != nil {
			return "err"
		}
		iv, _, derr := api.NewDistribution(api.DistributionType(unhex(a[3])), unit, func(time.Time) int { return 0 }, nil)
		if derr != nil {
			return "err"
		}
		n := 1
		if iv < unit {
			n = int(unit / iv)
		}
		cycles := atoi(a[4])
		total, mn, mx, uneven := 0, 0, 0, 0
		t := time.Unix(1700000000, 0)
		calls := cycles * n
		cmn, cmx := 0, 0
		for i := 0; i < calls; i++ {
			v := rateFn(t)
			t = t.Add(iv)
			total += v
			if i == 0 || v < mn {
				mn = v
			}
			if i == 0 || v > mx {
				mx = v
			}
			if i%n == 0 || v < cmn {
				cmn = v
			}
			if i%n == 0 || v > cmx {
				cmx = v
			}
			if i%n == n-1 && cmx-cmn > 1 {
				uneven++
			}
		}
		return fmt.Sprintf("%d %d %d %d %d %d", int64(iv), calls, total, mn, mx, uneven)
	})
	// bjitter <mode> <jn> <jd> <n> <pattern> — like `jitter`, but the jittered rate function is the one the mode's
	// builder assembles from `--jitter <jn/jd> --distribution none` and a constant rate (pattern = one value)
	register("bjitter", func(a []string) string {
		pat := parseInts(a[4])
		r := strconv.Itoa(pat[0]) + "/s"
		cnt, unit, err := rate.ParseRate(r)
		fn, berr := builtRate(a[0], r, cnt, unit, err, jitterText(a[1], a[2]), "none")
		if berr != nil {
			return "err"
		}
		n := atoi(a[3])
		outs := make([]int, n)
		t := time.Unix(1700000000, 0)
		for i := 0; i < n; i++ {
			outs[i] = fn(t)
			t = t.Add(unit)
		}
		return intsTok(outs)
	})
	// distsum regular <intervalNs> <cycles> <rates>  ->  <evals> <sum:min:max,…>
	register("distsum", func(a []string) string {
		rates := &scripted{vals: parseInts(a[3]), cyclic: true}
		ivIn := time.Duration(atoi64(a[1]))
		iv, fn, err := api.NewDistribution(api.DistributionType(a[0]), ivIn,
			func(time.Time) int { return rates.next() }, nil)
		if err != nil {
			return "err"
		}
		n := int(ivIn.Milliseconds() / 100)
		cycles := atoi(a[2])
		var toks []string
		t0 := time.Unix(1700000000, 0)
		for c := 0; c < cycles; c++ {
			sum, mn, mx := 0, 0, 0
			for j := 0; j < n; j++ {
				v := fn(t0)
				sum += v
				if j == 0 || v < mn {
					mn = v
				}
				if j == 0 || v > mx {
					mx = v
				}
			}
			toks = append(toks, strconv.Itoa(sum)+":"+strconv.Itoa(mn)+":"+strconv.Itoa(mx))
		}
		_ = iv
		return fmt.Sprintf("%d %s", rates.calls, strings.Join(toks, ","))
	})
}

// builderOf returns the trigger builder of a mode the way the command line gets it: from trigger.GetBuilders.
func builderOf(mode string) (api.Builder, bool) {
	for _, b := range trigger.GetBuilders(ui.NewDiscardOutput()) {
		if strings.HasPrefix(b.Name, mode+" ") {
			return b, true
		}
	}
	return api.Builder{}, false
}

func jitterText(jn, jd string) string {
	return strconv.FormatFloat(float64(atoi(jn))/float64(atoi(jd)), 'f', -1, 64)
}

// builtRate runs the real builder of a mode on a command line and returns the rate function it assembled
// (api.Trigger.DryRun, which every rate-driven builder sets to the function it also hands to the ticker loop).
func builtRate(mode, rateStr string, cnt int, unit time.Duration, perr error, jitter, dist string) (api.RateFunction, error) {
	var args []string
	switch mode {
	case "constant":
		args = []string{"--rate", rateStr}
	case "staged":
		if perr != nil {
			return nil, perr
		}
		args = []string{"--stages", fmt.Sprintf("0s:%d,1000000s:%d", cnt, cnt), "--iterationFrequency", unit.String()}
	default:
		return nil, fmt.Errorf("mode")
	}
	b, ok := builderOf(mode)
	if !ok {
		return nil, fmt.Errorf("no builder")
	}
	args = append(args, "--jitter", jitter, "--distribution", dist)
	fs := pflag.NewFlagSet("verif", pflag.ContinueOnError)
	fs.AddFlagSet(b.Flags)
	fs.Duration("max-duration", time.Second, "")
	if err := fs.Parse(args); err != nil {
		return nil, err
	}
	trig, err := b.New(fs)
	if err != nil {
		return nil, err
	}
	return trig.DryRun, nil
}
