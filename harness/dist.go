package main

import (
	"fmt"
	"strconv"
	"strings"
	"time"

	"github.com/form3tech-oss/f1/v2/internal/trigger/api"
	"github.com/form3tech-oss/f1/v2/internal/trigger/constant"
	"github.com/form3tech-oss/f1/v2/internal/trigger/rate"
)

type scripted struct {
	vals   []int
	calls  int
	cyclic bool
}

func (s *scripted) next() int {
	v := 0
	if s.cyclic && len(s.vals) > 0 {
		v = s.vals[s.calls%len(s.vals)]
	} else if s.calls < len(s.vals) {
		v = s.vals[s.calls]
	}
	s.calls++
	return v
}

func init() {
	// dist <kind> <intervalNs> <steps> <rates> <rands>  ->  <intervalOutNs> <evals> <outs> | err
	register("dist", func(a []string) string {
		rates := &scripted{vals: parseInts(a[3])}
		rands := &scripted{vals: parseInts(a[4])}
		iv, fn, err := api.NewDistribution(api.DistributionType(a[0]), time.Duration(atoi64(a[1])),
			func(time.Time) int { return rates.next() }, func(int) int { return rands.next() })
		if err != nil {
			return "err"
		}
		steps := atoi(a[2])
		outs := make([]int, steps)
		t0 := time.Unix(1700000000, 0)
		// optional a[5]: <callIndex>:<extraNs>,… — from that call on the timestamps are later by extraNs (a late tick,
		// a suspended process); negative values model a clock stepping back
		shift := map[int]time.Duration{}
		if len(a) > 5 && a[5] != "-" {
			for _, g := range strings.Split(a[5], ",") {
				f := strings.SplitN(g, ":", 2)
				shift[atoi(f[0])] = time.Duration(atoi64(f[1]))
			}
		}
		var off time.Duration
		for i := 0; i < steps; i++ {
			off += shift[i]
			outs[i] = fn(t0.Add(time.Duration(i)*iv + off))
		}
		return fmt.Sprintf("%d %d %s", int64(iv), rates.calls, intsTok(outs))
	})
	// pipeline <rate hex> <jn> <jd> <dist hex> <cycles> — the composed rate function of a constant trigger as the
	// builders assemble it (ParseRate -> WithJitter(jn/jd percent) -> NewDistribution), called for <cycles> whole
	// cycles -> `<intervalNs> <calls> <total> <min> <max>` | err
	register("pipeline", func(a []string) string {
		jit := float64(atoi(a[1])) / float64(atoi(a[2]))
		r, err := constant.CalculateConstantRate(jit, unhex(a[0]), unhex(a[3]))
		if err != nil {
			return "err"
		}
		cnt, unit, err := rate.ParseRate(unhex(a[0]))
		if err != nil {
			return "err"
		}
		_ = cnt
		n := 1
		if r.IterationDuration < unit {
			n = int(unit / r.IterationDuration)
		}
		cycles := atoi(a[4])
		total, mn, mx := 0, 0, 0
		t := time.Unix(1700000000, 0)
		calls := cycles * n
		for i := 0; i < calls; i++ {
			v := r.Rate(t)
			t = t.Add(r.IterationDuration)
			total += v
			if i == 0 || v < mn {
				mn = v
			}
			if i == 0 || v > mx {
				mx = v
			}
		}
		return fmt.Sprintf("%d %d %d %d %d", int64(r.IterationDuration), calls, total, mn, mx)
	})
	// distsum regular <intervalNs> <cycles> <rates>  ->  <evals> <sum:min:max,…>
	register("distsum", func(a []string) string {
		rates := &scripted{vals: parseInts(a[3]), cyclic: true}
		ivIn := time.Duration(atoi64(a[1]))
		iv, fn, err := api.NewDistribution(api.DistributionType(a[0]), ivIn,
			func(time.Time) int { return rates.next() }, nil)
		if err != nil {
			return "err"
		}
		n := int(ivIn.Milliseconds() / 100)
		cycles := atoi(a[2])
		var toks []string
		t0 := time.Unix(1700000000, 0)
		for c := 0; c < cycles; c++ {
			sum, mn, mx := 0, 0, 0
			for j := 0; j < n; j++ {
				v := fn(t0)
				sum += v
				if j == 0 || v < mn {
					mn = v
				}
				if j == 0 || v > mx {
					mx = v
				}
			}
			toks = append(toks, strconv.Itoa(sum)+":"+strconv.Itoa(mn)+":"+strconv.Itoa(mx))
		}
		_ = iv
		return fmt.Sprintf("%d %s", rates.calls, strings.Join(toks, ","))
	})
}
