package main

import (
	"context"
	"fmt"
	"sort"
	"strconv"
	"strings"
	"sync"
	"time"

	"github.com/form3tech-oss/f1/v2/internal/workers"
)

func idStats(ids []uint64) (distinct int, mn, mx uint64) {
	if len(ids) == 0 {
		return 0, 0, 0
	}
	sort.Slice(ids, func(i, j int) bool { return ids[i] < ids[j] })
	distinct = 1
	for i := 1; i < len(ids); i++ {
		if ids[i] != ids[i-1] {
			distinct++
		}
	}
	return distinct, ids[0], ids[len(ids)-1]
}

func init() {
	// iter.seq <limit> <k>
	register("iter.seq", func(a []string) string {
		m := workers.New(atou64(a[0]), nil)
		k := atoi(a[1])
		if k == 0 {
			return "- -"
		}
		ids := make([]string, k)
		flags := make([]byte, k)
		for i := 0; i < k; i++ {
			id, err := m.NextIteration()
			if err != nil {
				id = 0
			}
			ids[i] = strconv.FormatUint(id, 10)
			flags[i] = '0'
			if m.MaxIterationsReached() {
				flags[i] = '1'
			}
		}
		return strings.Join(ids, ",") + " " + string(flags)
	})
	// iter.stress <limit> <goroutines> <callsEach> <rounds>: concurrent callers racing for the last ids
	register("iter.stress", func(a []string) string {
		limit := atou64(a[0])
		g, per, rounds := atoi(a[1]), atoi(a[2]), atoi(a[3])
		worst := ""
		for r := 0; r < rounds; r++ {
			m := workers.New(limit, nil)
			var mu sync.Mutex
			var ids []uint64
			var wg sync.WaitGroup
			start := make(chan struct{})
			for i := 0; i < g; i++ {
				wg.Add(1)
				go func() {
					defer wg.Done()
					<-start
					local := make([]uint64, 0, per)
					for j := 0; j < per; j++ {
						if id, err := m.NextIteration(); err == nil {
							local = append(local, id)
						}
					}
					mu.Lock()
					ids = append(ids, local...)
					mu.Unlock()
				}()
			}
			close(start)
			wg.Wait()
			d, mn, mx := idStats(ids)
			res := fmt.Sprintf("started=%d distinct=%d min=%d max=%d counter=%d requestedEnough=%d",
				len(ids), d, mn, mx, m.VerifIterationCounter(), boolInt(uint64(g*per) >= limit))
			bad := d != len(ids) || (len(ids) > 0 && (mn != 1 || mx != uint64(len(ids)))) ||
				(limit > 0 && uint64(len(ids)) != min(limit, uint64(g*per)))
			if bad || r == rounds-1 {
				worst = res
				if bad {
					break
				}
			}
		}
		return worst
	})
	// pool.ids <limit> <mode trigger|users> <workers> <ticks> <jobsPerTick> <rounds>
	register("pool.ids", func(a []string) string {
		limit := atou64(a[0])
		mode, w, ticks, per, rounds := a[1], atoi(a[2]), atoi(a[3]), atoi(a[4]), atoi(a[5])
		last := ""
		for r := 0; r < rounds; r++ {
			rig := newPoolRigMode(w, limit, mode)
			requested := 0
			if mode == "trigger" {
				for i := 0; i < ticks; i++ {
					if rig.workerCtx.Err() != nil {
						break
					}
					rig.pool.Trigger(rig.workerCtx, per)
					requested += per
					rig.settleQuick()
				}
			} else {
				// users mode requests work for as long as it is not stopped: with a limit, let it run until the
				// limit has been reached (or 5 s — a pool that cannot get there in that time has stalled)
				time.Sleep(time.Duration(ticks) * time.Millisecond)
				if limit > 0 {
					dl := time.Now().Add(5 * time.Second)
					for rig.manager.VerifIterationCounter() < limit && time.Now().Before(dl) {
						time.Sleep(200 * time.Microsecond)
					}
				}
				requested = 1 << 30
			}
			rig.cancel()
			select {
			case <-rig.manager.WaitForCompletion():
			case <-time.After(5 * time.Second):
				return "timeout-waiting-for-workers"
			}
			ids := make([]uint64, 0, len(rig.ids))
			for _, s := range rig.ids {
				ids = append(ids, atou64(s))
			}
			d, mn, mx := idStats(ids)
			enough := uint64(requested) >= limit
			last = fmt.Sprintf("started=%d distinct=%d min=%d max=%d counter=%d requestedEnough=%d",
				len(ids), d, mn, mx, rig.manager.VerifIterationCounter(), boolInt(enough))
			bad := d != len(ids) || (len(ids) > 0 && (mn != 1 || mx != uint64(len(ids)))) ||
				(limit > 0 && uint64(len(ids)) > limit) || (limit > 0 && enough && uint64(len(ids)) != limit) ||
				((limit == 0 || rig.manager.VerifIterationCounter() <= limit) && rig.manager.VerifIterationCounter() != uint64(len(ids)))
			if bad {
				return last
			}
		}
		return last
	})
}

func boolInt(b bool) int {
	if b {
		return 1
	}
	return 0
}

// newPoolRigMode builds an ungated rig on a trigger pool or a continuous ("users") pool.
func newPoolRigMode(w int, limit uint64, mode string) *poolRig {
	if mode == "trigger" {
		return newPoolRig(w, limit, false)
	}
	r := newPoolRigBase(limit, false)
	cp := r.manager.NewContinuousPool(w)
	ctx, cancel := context.WithCancel(context.Background())
	r.cancel = cancel
	r.workerCtx = ctx
	cp.Start(ctx)
	return r
}

func (r *poolRig) settleQuick() {
	for i := 0; i < 200; i++ {
		if r.pool.VerifPending() <= 0 && r.inflight.Load() == 0 {
			return
		}
		time.Sleep(50 * time.Microsecond)
	}
}
