package main

import (
	"time"

	"github.com/form3tech-oss/f1/v2/internal/trigger/api"
)

func init() {
	// jitter <jn> <jd> <n> <pattern>  ->  <outs>
	register("jitter", func(a []string) string {
		j := float64(atoi(a[0])) / float64(atoi(a[1]))
		n := atoi(a[2])
		pat := parseInts(a[3])
		k := 0
		fn := api.WithJitter(func(time.Time) int { v := pat[k%len(pat)]; k++; return v }, j)
		outs := make([]int, n)
		for i := 0; i < n; i++ {
			outs[i] = fn(baseTime)
		}
		return intsTok(outs)
	})
}
