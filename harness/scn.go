package main

import (
	"errors"
	"fmt"
	"strconv"
	"strings"
	"sync"
	"sync/atomic"
	"time"

	"github.com/prometheus/client_golang/prometheus"
	dto "github.com/prometheus/client_model/go"

	"github.com/form3tech-oss/f1/v2/internal/log"
	"github.com/form3tech-oss/f1/v2/internal/metrics"
	"github.com/form3tech-oss/f1/v2/internal/options"
	"github.com/form3tech-oss/f1/v2/internal/progress"
	"github.com/form3tech-oss/f1/v2/internal/run"
	"github.com/form3tech-oss/f1/v2/internal/workers"
	"github.com/form3tech-oss/f1/v2/pkg/f1"
	"github.com/form3tech-oss/f1/v2/pkg/f1/scenarios"
	f1testing "github.com/form3tech-oss/f1/v2/pkg/f1/testing"
)

type scnProgram struct {
	cleanups map[int][]string
	log      *evlog
	errAlt   int
	panicAlt int
}

func splitProg(s string) []string {
	if s == "_" || s == "" {
		return nil
	}
	return strings.Split(s, ".")
}

func (p *scnProgram) exec(t *f1testing.T, acts []string) {
	for _, a := range acts {
		switch {
		case a[0] == 'r':
			id := atoi(a[1:])
			t.Cleanup(func() {
				p.log.add("c" + strconv.Itoa(id))
				p.exec(t, p.cleanups[id])
			})
		case a == "F":
			t.Fail()
		case a == "E":
			p.errAlt++
			if p.errAlt%2 == 0 {
				t.Error(errors.New("scripted error"))
			} else {
				t.Errorf("scripted error %d", 1)
			}
		case a == "N":
			t.FailNow()
		case a == "A":
			p.errAlt++
			if p.errAlt%2 == 0 {
				t.Fatal(errors.New("scripted fatal"))
			} else {
				t.Fatalf("scripted fatal %d", 1)
			}
		case a == "Q":
			t.Require().True(false, "scripted assertion")
		case a == "Pe":
			// "panicked with any value": the error values rotate through the shapes a real scenario can throw
			p.panicAlt++
			switch p.panicAlt % 4 {
			case 0:
				panic(errors.New("scripted panic"))
			case 1:
				panic(matchesAnything{}) // an error whose Is method answers true for every target
			case 2:
				var e *nilReceiverError // a typed nil pointer: Error() dereferences the receiver
				panic(e)
			default:
				panic(fmt.Errorf("wrapped: %w", errors.New("scripted panic")))
			}
		case a == "Ps":
			panic("scripted panic")
		case a == "Pv":
			panic(struct{ A int }{42})
		case a == "Pr":
			var m map[string]int
			m["x"] = 1 //nolint
		case a == "Pn":
			var v any
			panic(v)
		case a[0] == 'L':
			p.log.add(a)
		case a[0] == 'W': // the rest of the token, executed inside t.Time("stage", …)
			initGlobalMetrics()
			inner := a[1:]
			t.Time("stage", func() { p.exec(t, []string{inner}) })
		default:
			panic("harness: bad action " + a)
		}
	}
}

// matchesAnything is an error that claims to be every other error (errors.Is(err, x) is true for any x).
type matchesAnything struct{}

func (matchesAnything) Error() string   { return "an error that matches anything" }
func (matchesAnything) Is(error) bool   { return true }

// nilReceiverStringer's String method does not guard against a nil receiver (like (*url.URL).String).
type nilReceiverStringer struct{ host string }

func (s *nilReceiverStringer) String() string { return "endpoint " + s.host }

// nilReceiverError's Error method does not guard against a nil receiver.
type nilReceiverError struct{ msg string }

func (e *nilReceiverError) Error() string { return e.msg }

type gathered struct{ succ, fail, dropped, setupSucc, setupFail uint64 }

func gatherCounts(reg *prometheus.Registry) gathered {
	mfs, err := reg.Gather()
	if err != nil {
		panic(err)
	}
	return countFamilies(mfs)
}

func countFamilies(mfs []*dto.MetricFamily) gathered {
	var g gathered
	for _, mf := range mfs {
		for _, m := range mf.GetMetric() {
			res, stage := "", ""
			for _, l := range m.GetLabel() {
				if l.GetName() == "result" {
					res = l.GetValue()
				}
				if l.GetName() == "stage" {
					stage = l.GetValue()
				}
			}
			n := sampleCount(m)
			switch mf.GetName() {
			case "form3_loadtest_iteration":
				if stage != "iteration" {
					continue
				}
				switch res {
				case "success":
					g.succ += n
				case "fail":
					g.fail += n
				case "dropped":
					g.dropped += n
				}
			case "form3_loadtest_setup":
				if res == "success" {
					g.setupSucc += n
				} else {
					g.setupFail += n
				}
			}
		}
	}
	return g
}

// iterationSumMicros is the sum of the exported iteration summary (stage "iteration", result success), in microseconds.
func iterationSumMicros(reg *prometheus.Registry) int64 {
	mfs, err := reg.Gather()
	if err != nil {
		return -1
	}
	var total float64
	for _, mf := range mfs {
		if mf.GetName() != "form3_loadtest_iteration" {
			continue
		}
		for _, m := range mf.GetMetric() {
			res, stage := "", ""
			for _, l := range m.GetLabel() {
				if l.GetName() == "result" {
					res = l.GetValue()
				}
				if l.GetName() == "stage" {
					stage = l.GetValue()
				}
			}
			if stage == "iteration" && res == "success" {
				if sm := m.GetSummary(); sm != nil {
					total += sm.GetSampleSum()
				}
			}
		}
	}
	return int64(total / 1000) // the summary is in nanoseconds
}

func sampleCount(m *dto.Metric) uint64 {
	if s := m.GetSummary(); s != nil {
		return s.GetSampleCount()
	}
	return 0
}

func newActive(sc *scenarios.Scenario) (*workers.ActiveScenario, *progress.Stats, *metrics.Metrics) {
	stats := &progress.Stats{}
	logger := log.NewDiscardLogger()
	m := metrics.NewInstance(prometheus.NewRegistry(), true, nil)
	return workers.NewActiveScenario(sc, m, stats, logger, log.NewSlogLogrusLogger(logger)), stats, m
}

func init() {
	// scn <iters> <components> <cleanups>
	register("scn", func(a []string) string {
		iters := atoi(a[0])
		p := &scnProgram{cleanups: map[int][]string{}, log: &evlog{}}
		if a[2] != "-" {
			for _, c := range strings.Split(a[2], ";") {
				kv := strings.SplitN(c, "=", 2)
				p.cleanups[atoi(kv[0][1:])] = splitProg(kv[1])
			}
		}
		var dirty, handle atomic.Int64
		var fns []f1testing.ScenarioFn
		for k, comp := range strings.Split(a[1], ";") {
			parts := strings.SplitN(comp, "/", 2)
			setup := splitProg(parts[0])
			var bodies [][]string
			for _, b := range strings.Split(parts[1], "|") {
				bodies = append(bodies, splitProg(b))
			}
			k := k
			fns = append(fns, func(t *f1testing.T) f1testing.RunFn {
				p.log.add("S" + strconv.Itoa(k))
				if k == 0 {
					firstSetupT = t
				} else if firstSetupT != t {
					handle.Add(1)
				}
				p.exec(t, setup)
				return func(t *f1testing.T) {
					p.log.add("B" + t.Iteration + "." + strconv.Itoa(k))
					if k == 0 {
						firstIterT = t
						if t.Failed() {
							dirty.Add(1)
						}
					} else if firstIterT != t {
						handle.Add(1)
					}
					it := atoi(t.Iteration)
					p.exec(t, bodies[(it-1)%len(bodies)])
				}
			})
		}
		var fn f1testing.ScenarioFn
		if len(fns) == 1 {
			fn = fns[0]
		} else {
			fn = f1.CombineScenarios(fns...)
		}
		sc := &scenarios.Scenario{Name: "s", ScenarioFn: fn}
		as, stats, m := newActive(sc)
		as.Setup()
		sf := as.Failed()
		outcomes := ""
		if !sf {
			st := as.VerifNewIterationState()
			for i := 1; i <= iters; i++ {
				as.VerifIterate(st, strconv.Itoa(i))
				if st.Failed() {
					outcomes += "f"
				} else {
					outcomes += "p"
				}
				p.log.add("R" + strconv.Itoa(i))
			}
		}
		p.log.add("T")
		as.Teardown()
		tf := as.TeardownFailed()
		if outcomes == "" {
			outcomes = "-"
		}
		tot := stats.Total()
		g := gatherCounts(m.Registry)
		setupLabel := "none"
		if g.setupSucc == 1 && g.setupFail == 0 {
			setupLabel = "success"
		} else if g.setupFail == 1 && g.setupSucc == 0 {
			setupLabel = "fail"
		}
		return fmt.Sprintf("%s %s sf=%s tf=%s dirty=%d handle=%d stats=%d/%d metrics=%d/%d/%s",
			strings.Join(p.log.snapshot(), ","), outcomes, boolTok(sf), boolTok(tf), dirty.Load(), handle.Load(),
			tot.SuccessfulIterationDurations.Count, tot.FailedIterationDurations.Count, g.succ, g.fail, setupLabel)
	})

	// scn2 <rounds> <components> — the same combined scenario function set up and run `rounds` times
	// (fresh ActiveScenario each time); rounds are separated by "|" in the log.
	register("scn2", func(a []string) string {
		rounds := atoi(a[0])
		p := &scnProgram{cleanups: map[int][]string{}, log: &evlog{}}
		var fns []f1testing.ScenarioFn
		for k, comp := range strings.Split(a[1], ";") {
			parts := strings.SplitN(comp, "/", 2)
			setup := splitProg(parts[0])
			body := splitProg(strings.Split(parts[1], "|")[0])
			k := k
			fns = append(fns, func(t *f1testing.T) f1testing.RunFn {
				p.log.add("S" + strconv.Itoa(k))
				p.exec(t, setup)
				return func(t *f1testing.T) {
					p.log.add("B" + t.Iteration + "." + strconv.Itoa(k))
					p.exec(t, body)
				}
			})
		}
		fn := f1.CombineScenarios(fns...)
		var logs []string
		for r := 0; r < rounds; r++ {
			p.log = &evlog{}
			sc := &scenarios.Scenario{Name: "s", ScenarioFn: fn}
			as, _, _ := newActive(sc)
			as.Setup()
			if !as.Failed() {
				st := as.VerifNewIterationState()
				as.VerifIterate(st, "1")
				p.log.add("R1")
			}
			p.log.add("T")
			as.Teardown()
			logs = append(logs, strings.Join(p.log.snapshot(), ","))
		}
		return strings.Join(logs, "|")
	})

	// scn.measure <bodyMs> <cleanupMs> — what interval does the recorded duration cover?
	register("scn.measure", func(a []string) string {
		body := time.Duration(atoi(a[0])) * time.Millisecond
		cleanup := time.Duration(atoi(a[1])) * time.Millisecond
		end := "pass"
		if len(a) > 2 {
			end = a[2]
		}
		var as *workers.ActiveScenario
		var m *metrics.Metrics
		var bodyOwn time.Duration
		recordedAtCleanup := 0
		sc := &scenarios.Scenario{Name: "s", ScenarioFn: func(*f1testing.T) f1testing.RunFn {
			return func(t *f1testing.T) {
				t.Cleanup(func() {
					g := gatherCounts(m.Registry)
					if g.succ+g.fail >= 1 {
						recordedAtCleanup = 1
					}
					time.Sleep(cleanup)
				})
				t0 := time.Now()
				time.Sleep(body)
				bodyOwn = time.Since(t0)
				switch end { // how the body ends (a[2], default pass)
				case "failnow":
					t.FailNow()
				case "panic":
					panic("scripted")
				case "fail":
					t.Fail()
				case "require":
					t.Require().Equal(1, 2)
				}
			}
		}}
		var stats *progress.Stats
		as, stats, m = newActive(sc)
		as.Setup()
		st := as.VerifNewIterationState()
		as.VerifIterate(st, "1")
		tot := stats.Total()
		rec := tot.SuccessfulIterationDurations.Max
		if end != "pass" {
			rec = tot.FailedIterationDurations.Max
		}
		ge := 0
		if rec >= bodyOwn {
			ge = 1
		}
		lt := 0
		if rec < bodyOwn+cleanup/2 {
			lt = 1
		}
		return fmt.Sprintf("recordedAtCleanup=%d geBody=%d ltBodyPlusHalfCleanup=%d count=%d",
			recordedAtCleanup, ge, lt, tot.SuccessfulIterationDurations.Count+tot.FailedIterationDurations.Count)
	})

	// scn.measuremany <n> — n short iterations on one worker; after each one a snapshot's period figures cover exactly
	// that iteration: its recorded duration must be at least what the body measured on its own clock.
	register("scn.measuremany", func(a []string) string {
		n := atoi(a[0])
		var bodyOwn time.Duration
		sc := &scenarios.Scenario{Name: "s", ScenarioFn: func(*f1testing.T) f1testing.RunFn {
			return func(*f1testing.T) {
				t0 := time.Now()
				x := 0
				for i := 0; i < 200; i++ {
					x += i
				}
				_ = x
				bodyOwn = time.Since(t0)
			}
		}}
		as, stats, _ := newActive(sc)
		as.Setup()
		st := as.VerifNewIterationState()
		short, worst := 0, time.Duration(0)
		for i := 1; i <= n; i++ {
			as.VerifIterate(st, strconv.Itoa(i))
			sn := stats.Snapshot(time.Second)
			rec := sn.SuccessfulIterationDurationsForPeriod.Max
			if sn.SuccessfulIterationDurationsForPeriod.Count != 1 {
				return "period-count-not-one"
			}
			if rec < bodyOwn {
				short++
				if bodyOwn-rec > worst {
					worst = bodyOwn - rec
				}
			}
		}
		return fmt.Sprintf("shorterThanBody=%d of=%d worstNs=%d", short, n, worst.Nanoseconds())
	})

	// scn.counts <workers> <itersPerWorker> <seed> — two consecutive "runs" on ONE metrics instance (reset at
	// the start of each, as Run.Do does): real iterations on W handles racing with progress snapshots on a
	// real run.Result; ground truth vs Result.Snapshot() vs Registry.Gather(), per run.
	register("scn.counts", func(a []string) string {
		w, per, seed := atoi(a[0]), atoi(a[1]), atoi(a[2])
		m := metrics.NewInstance(prometheus.NewRegistry(), true, nil)
		var outs []string
		for round := 0; round < 2; round++ {
			var ts, tf, td atomic.Uint64
			sc := &scenarios.Scenario{Name: "s", ScenarioFn: func(*f1testing.T) f1testing.RunFn {
				return func(t *f1testing.T) {
					it := atoi(t.Iteration)
					switch (it*2654435761 + seed + round) % 7 {
					case 0:
						tf.Add(1)
						t.Fail()
					case 1:
						tf.Add(1)
						panic("planned")
					case 2:
						tf.Add(1)
						t.FailNow()
					default:
						ts.Add(1)
					}
				}
			}}
			stats := &progress.Stats{}
			logger := log.NewDiscardLogger()
			as := workers.NewActiveScenario(sc, m, stats, logger, log.NewSlogLogrusLogger(logger))
			res := run.NewResult(options.RunOptions{Scenario: "s"}, sharedViews, stats)
			m.Reset()
			as.Setup()
			var wg sync.WaitGroup
			var stop atomic.Bool
			done := make(chan struct{})
			go func() {
				defer close(done)
				for !stop.Load() {
					res.SnapshotProgress(time.Second)
					_ = res.Progress()
				}
			}()
			var next atomic.Int64
			for i := 0; i < w; i++ {
				wg.Add(1)
				go func() {
					defer wg.Done()
					st := as.VerifNewIterationState()
					for j := 0; j < per; j++ {
						id := next.Add(1)
						as.VerifIterate(st, strconv.FormatInt(id, 10))
						if id%11 == 0 {
							td.Add(1)
							as.RecordDroppedIteration()
						}
					}
				}()
			}
			wg.Wait()
			stop.Store(true)
			<-done
			res.GetTotals()
			sn := res.Snapshot()
			g := gatherCounts(m.Registry)
			setup := g.setupSucc + g.setupFail
			outs = append(outs, fmt.Sprintf("%d %d %d / %d %d %d / %d %d %d %d", ts.Load(), tf.Load(), td.Load(),
				sn.SuccessfulIterationDurations.Count, sn.FailedIterationDurations.Count, sn.DroppedIterationCount,
				g.succ, g.fail, g.dropped, setup))
		}
		return strings.Join(outs, " // ")
	})
}

var firstSetupT, firstIterT *f1testing.T

var globalMetricsOnce sync.Once

// T.Time records into the process-wide metrics instance, which must exist.
func initGlobalMetrics() { globalMetricsOnce.Do(func() { metrics.Init(true) }) }
