package main

import (
	"errors"

	"github.com/form3tech-oss/f1/v2/internal/metrics"
	"github.com/form3tech-oss/f1/v2/internal/options"
	"github.com/form3tech-oss/f1/v2/internal/progress"
	"github.com/form3tech-oss/f1/v2/internal/run"
	"github.com/form3tech-oss/f1/v2/internal/run/views"
)

var sharedViews = views.New()

func init() {
	// verdict <hasErr> <ignoreDropped> <maxFailures> <maxFailuresRate> <succ> <failed> <dropped>
	register("verdict", func(a []string) string {
		opts := options.RunOptions{
			Scenario:        "s",
			IgnoreDropped:   a[1] == "1",
			MaxFailures:     atou64(a[2]),
			MaxFailuresRate: atoi(a[3]),
		}
		stats := &progress.Stats{}
		for i := uint64(0); i < atou64(a[4]); i++ {
			stats.Record(metrics.SuccessResult, 1000)
		}
		for i := uint64(0); i < atou64(a[5]); i++ {
			stats.Record(metrics.FailedResult, 1000)
		}
		for i := uint64(0); i < atou64(a[6]); i++ {
			stats.Record(metrics.DroppedResult, 0)
		}
		res := run.NewResult(opts, sharedViews, stats)
		if a[0] == "1" {
			res.AddError(errors.New("setup failed"))
		}
		res.GetTotals()
		verdict := "pass"
		if res.Failed() {
			verdict = "fail"
		}
		// the CLI mapping of runCmdExecute, evaluated on the same result object:
		// `if result.Error() != nil {err} else if result.Failed() {err}`; the real
		// command path is exercised by the run.cli op.
		return verdict + " -"
	})
}
