package main

import (
	"io"
	"net/http"
	"net/http/httptest"
	"sync"

	dto "github.com/prometheus/client_model/go"
	"github.com/prometheus/common/expfmt"
)

// fakeGateway is a push gateway on the loopback interface. mode: ok (every push accepted), fail1 (the first push is
// answered 503, the rest accepted), down (every push answered 503). It keeps the metric families of the last
// accepted push (a push replaces the group).
type fakeGateway struct {
	srv      *httptest.Server
	mu       sync.Mutex
	mode     string
	requests int
	accepted int
	last     []*dto.MetricFamily
}

func newFakeGateway(mode string) *fakeGateway {
	g := &fakeGateway{mode: mode}
	g.srv = httptest.NewServer(http.HandlerFunc(func(w http.ResponseWriter, r *http.Request) {
		defer r.Body.Close()
		g.mu.Lock()
		g.requests++
		n := g.requests
		g.mu.Unlock()
		if g.mode == "down" || (g.mode == "fail1" && n == 1) {
			_, _ = io.Copy(io.Discard, r.Body)
			w.WriteHeader(http.StatusServiceUnavailable)
			return
		}
		dec := expfmt.NewDecoder(r.Body, expfmt.ResponseFormat(r.Header))
		var fams []*dto.MetricFamily
		for {
			mf := &dto.MetricFamily{}
			if err := dec.Decode(mf); err != nil {
				break
			}
			fams = append(fams, mf)
		}
		g.mu.Lock()
		g.accepted++
		g.last = fams
		g.mu.Unlock()
		w.WriteHeader(http.StatusAccepted)
	}))
	return g
}

func (g *fakeGateway) counts() (gathered, int) {
	g.mu.Lock()
	defer g.mu.Unlock()
	return countFamilies(g.last), g.accepted
}

// checkLabels: every series of the f1 metric families in the last accepted push carries test=<scenario> and each
// static label with its own value.
func (g *fakeGateway) checkLabels(scenario string, static map[string]string) string {
	g.mu.Lock()
	defer g.mu.Unlock()
	seen := 0
	for _, mf := range g.last {
		if mf.GetName() != "form3_loadtest_iteration" && mf.GetName() != "form3_loadtest_setup" {
			continue
		}
		for _, m := range mf.GetMetric() {
			seen++
			have := map[string]string{}
			for _, l := range m.GetLabel() {
				have[l.GetName()] = l.GetValue()
			}
			if have["test"] != scenario {
				return "bad:test=" + have["test"]
			}
			for k, v := range static {
				if have[k] != v {
					return "bad:" + k + "=" + have[k]
				}
			}
		}
	}
	if seen == 0 {
		return "bad:no-series"
	}
	return "ok"
}
