package main

import (
	"bytes"
	"errors"
	"log/slog"
	"strings"
	"time"

	"github.com/form3tech-oss/f1/v2/internal/metrics"
	"github.com/form3tech-oss/f1/v2/internal/options"
	"github.com/form3tech-oss/f1/v2/internal/progress"
	"github.com/form3tech-oss/f1/v2/internal/run"
	"github.com/form3tech-oss/f1/v2/internal/run/views"
)

func logLine(l interface{ Log(*slog.Logger) }) string {
	var buf bytes.Buffer
	h := slog.NewTextHandler(&buf, &slog.HandlerOptions{ReplaceAttr: func(_ []string, a slog.Attr) slog.Attr {
		if a.Key == slog.TimeKey {
			return slog.Attr{}
		}
		return a
	}})
	l.Log(slog.New(h))
	return strings.TrimRight(buf.String(), "\n")
}

func init() {
	register("tmpl", func([]string) string { return "-" })
	// render k=v …  kind=result|progress|summary
	register("render", func(a []string) string {
		p := map[string]string{"kind": "result", "s": "0", "f": "0", "d": "0", "it": "0", "st": "0", "dur": "0", "period": "0",
			"failed": "0", "err": "0", "path": "-", "tty": "0", "savg": "0", "smin": "0", "smax": "0", "favg": "0", "fmin": "0",
			"fmax": "0", "pcount": "0", "igndrop": "1", "maxfail": "0", "maxfailrate": "0"}
		for _, kv := range a {
			if i := strings.IndexByte(kv, '='); i > 0 {
				p[kv[:i]] = kv[i+1:]
			}
		}
		tty := p["tty"] == "1"
		var err error
		switch p["err"] {
		case "1":
			err = errors.New("boom")
		case "2":
			err = errors.New("50% of {{.Things}} failed\nsecond line %d")
		}
		ss := progress.IterationDurationsSnapshot{Count: atou64(p["s"]), Average: time.Duration(atoi64(p["savg"])),
			Min: time.Duration(atoi64(p["smin"])), Max: time.Duration(atoi64(p["smax"]))}
		fs := progress.IterationDurationsSnapshot{Count: atou64(p["f"]), Average: time.Duration(atoi64(p["favg"])),
			Min: time.Duration(atoi64(p["fmin"])), Max: time.Duration(atoi64(p["fmax"]))}
		switch p["kind"] {
		case "result":
			vc := sharedViews.Result(views.ResultData{
				Error: err, LogFilePath: unhex(p["path"]), SuccessfulIterationDurations: ss, FailedIterationDurations: fs,
				IterationsStarted: atou64(p["st"]), Duration: time.Duration(atoi64(p["dur"])),
				SuccessfulIterationCount: atou64(p["s"]), Iterations: atou64(p["it"]), FailedIterationCount: atou64(p["f"]),
				DroppedIterationCount: atou64(p["d"]), Failed: p["failed"] == "1"})
			return tohex(vc.VerifRender(tty)) + " " + tohex(logLine(vc))
		case "progress":
			ps := ss
			ps.Count = atou64(p["pcount"])
			vc := sharedViews.Progress(views.ProgressData{SuccessfulIterationDurationsForPeriod: ps,
				Duration: time.Duration(atoi64(p["dur"])), SuccessfulIterationCount: atou64(p["s"]),
				DroppedIterationCount: atou64(p["d"]), FailedIterationCount: atou64(p["f"]), Period: time.Duration(atoi64(p["period"]))})
			return tohex(vc.VerifRender(tty)) + " " + tohex(logLine(vc))
		case "summary": // through the real Result, from recorded outcomes
			st := &progress.Stats{}
			for i := uint64(0); i < atou64(p["s"]); i++ {
				st.Record(metrics.SuccessResult, 1000+int64(i))
			}
			for i := uint64(0); i < atou64(p["f"]); i++ {
				st.Record(metrics.FailedResult, 2000+int64(i))
			}
			for i := uint64(0); i < atou64(p["d"]); i++ {
				st.Record(metrics.DroppedResult, 0)
			}
			res := run.NewResult(options.RunOptions{Scenario: "s", IgnoreDropped: p["igndrop"] == "1",
				MaxFailures: atou64(p["maxfail"]), MaxFailuresRate: atoi(p["maxfailrate"])}, sharedViews, st)
			if err != nil {
				res.AddError(err)
			}
			res.LogFilePath = unhex(p["path"])
			if p["kind2"] == "progress" {
				res.SnapshotProgress(time.Duration(atoi64(p["period"])))
				vc := res.Progress()
				return tohex(vc.VerifRender(tty)) + " " + tohex(logLine(vc))
			}
			res.GetTotals()
			vc := res.Summary()
			f := "0"
			if res.Failed() {
				f = "1"
			}
			return tohex(vc.VerifRender(tty)) + " " + tohex(logLine(vc)) + " failed=" + f
		}
		return "bad-kind"
	})
}
