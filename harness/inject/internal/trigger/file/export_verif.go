//go:build verif

package file

import "time"

// Read-only accessors for the verification harness (added at build time with -overlay).

func (r *RunnableStages) VerifTotalDuration() time.Duration { return r.stagesTotalDuration }
func (r *RunnableStages) VerifMaxFailures() uint64          { return r.maxFailures }
func (r *RunnableStages) VerifMaxFailuresRate() int         { return r.maxFailuresRate }

// VerifTrigger returns the stage-walking trigger for a parsed plan (what file.Rate builds).
func VerifTrigger(r *RunnableStages) func() any { return func() any { return newStagesWorker(r.Stages) } }
