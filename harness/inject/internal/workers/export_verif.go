//go:build verif

package workers

// Accessors for the verification harness. This file is not part of /repo: it is added to the
// package at build time with `go build -overlay`.

// VerifPending returns the raw value of the pending-request counter.
func (p *TriggerPool) VerifPending() int64 { return p.jobsToExecute.num.Load() }

// VerifStopped reports whether the pool's stop flag is set.
func (p *TriggerPool) VerifStopped() bool { return p.stopWorkers.Load() }

// VerifIterationCounter returns the number of ids handed out or refused so far.
func (m *PoolManager) VerifIterationCounter() uint64 { return m.iteration.Load() }

// VerifJobCounter exposes the pending-counter type and its three operations.
type VerifJobCounter struct{ c jobCounter }

func (v *VerifJobCounter) Set(n int) int64 { return v.c.set(n) }
func (v *VerifJobCounter) None() bool      { return v.c.none() }
func (v *VerifJobCounter) Take() bool      { return v.c.take() }
func (v *VerifJobCounter) Raw() int64      { return v.c.num.Load() }

// VerifIterationState wraps the unexported per-worker iteration state.
type VerifIterationState struct{ s *iterationState }

func (s *ActiveScenario) VerifNewIterationState() *VerifIterationState {
	return &VerifIterationState{s: s.newIterationState()}
}

// VerifIterate does what a pool worker does for one iteration: reset the handle, run.
func (s *ActiveScenario) VerifIterate(v *VerifIterationState, id string) {
	v.s.t.Reset(id)
	s.Run(v.s)
}

func (v *VerifIterationState) Failed() bool { return v.s.t.Failed() }
