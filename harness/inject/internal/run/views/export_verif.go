//go:build verif

package views

// VerifRender renders with the colour (tty) or plain template regardless of what stdin is.
func (vc *ViewContext[T]) VerifRender(tty bool) string {
	if tty {
		return render(vc.view.tty, vc.data)
	}
	return render(vc.view.notty, vc.data)
}
