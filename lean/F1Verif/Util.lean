/-
Small parsing / printing helpers shared by the driver. Core Lean only.
-/
namespace F1.Util

def hexVal (c : Char) : Option Nat :=
  if '0' ≤ c ∧ c ≤ '9' then some (c.toNat - '0'.toNat)
  else if 'a' ≤ c ∧ c ≤ 'f' then some (c.toNat - 'a'.toNat + 10)
  else if 'A' ≤ c ∧ c ≤ 'F' then some (c.toNat - 'A'.toNat + 10)
  else none

/-- decode a hex string ("" is written as "-") into bytes -/
def hexBytes (s : String) : Option (List Nat) :=
  if s = "-" then some [] else
  let rec go : List Char → List Nat → Option (List Nat)
    | [], acc => some acc.reverse
    | [_], _ => none
    | a :: b :: rest, acc =>
      match hexVal a, hexVal b with
      | some x, some y => go rest ((x * 16 + y) :: acc)
      | _, _ => none
  go s.toList []

def hexDigit (n : Nat) : Char :=
  if n < 10 then Char.ofNat (n + '0'.toNat) else Char.ofNat (n - 10 + 'a'.toNat)

def bytesHex (bs : List Nat) : String :=
  if bs.isEmpty then "-" else
  String.ofList (bs.foldr (fun b acc => hexDigit (b / 16) :: hexDigit (b % 16) :: acc) [])

def parseHexNat (s : String) : Option Nat :=
  s.toList.foldl (fun acc c => do let a ← acc; let v ← hexVal c; pure (a * 16 + v)) (some 0)

def natHex16 (n : Nat) : String :=
  String.ofList ((List.range 16).reverse.map fun i => hexDigit ((n >>> (4 * i)) % 16))

def floatOfHex (s : String) : Option Float :=
  (parseHexNat s).map fun n => Float.ofBits (UInt64.ofNat n)

def floatHex (f : Float) : String := natHex16 f.toBits.toNat

def boolTok (b : Bool) : String := if b then "1" else "0"

def parseBool (s : String) : Option Bool :=
  if s = "1" then some true else if s = "0" then some false else none

def intsTok (l : List Int) : String :=
  if l.isEmpty then "-" else ",".intercalate (l.map toString)

def parseInts (s : String) : Option (List Int) :=
  if s = "-" then some [] else (s.splitOn ",").mapM String.toInt?

def natsTok (l : List Nat) : String :=
  if l.isEmpty then "-" else ",".intercalate (l.map toString)

def parseNats (s : String) : Option (List Nat) :=
  if s = "-" then some [] else (s.splitOn ",").mapM String.toNat?

end F1.Util
