import F1Verif.Model.MiniGoAttr
/-
MiniGo — a deep embedding of the fragment of Go that f1's sequential cores are written in, with an executable
semantics. The translator in /verif/facts turns the *current* source of each listed function of /repo into a value
of `Stmt` on every run (`Generated/MiniGo.lean`); the theorems of `Props/Refine*.lean` are about those regenerated
programs, so they are re-checked against what the code says now. The translator is pure syntax (one case per
go/ast node kind); what a construct *means* is decided here, in Lean, where it can be read and where the driver can
execute it against the real function (ops `minigo.*`).

Fragment: integers (Go `int`, `int64`, `uint64`, `time.Duration`: unbounded `Int`; overflow is outside every model),
booleans, floats (a type parameter: `Float` in the driver, `Rat` in the theorems), `nil`; locals, captured variables
and struct fields flattened to dotted paths (`r.snapshot.DroppedIterationCount`); `sync/atomic` cells with `Load`,
`Store`, `Add`, `Swap` (sequential semantics — the interleaving models cut functions at these operations, the
sequence of which `atomicOps` extracts); `if`/`else`, `for cond {}` (fuel), assignments, `++`/`--`, `return`;
calls to functions that are not translated are *external*: their results come from an oracle indexed by the
function's name and by how many times it has been called, as in the hand-written models (`rates : Nat → Int`).
Lock/unlock/hook calls and `defer`red ones are recorded in a trace and have no other effect.
-/
namespace F1.MiniGo

inductive BinOp
  | add | sub | mul | quo | rem | lt | le | gt | ge | eq | ne | land | lor
  deriving Repr, DecidableEq

inductive Expr
  | int (v : Int)
  | flit (mantissa : Nat) (exp10 : Int)        -- a floating point literal m·10^e
  | bool (b : Bool)
  | nil
  | var (name : String)                         -- local / captured variable / flattened field path
  | bin (op : BinOp) (a b : Expr)
  | not (a : Expr)
  | neg (a : Expr)
  | conv (ty : String) (a : Expr)               -- int(x), int64(x), uint64(x), float64(x), time.Duration(x)
  | load (cell : String)                        -- cell.Load()
  | swap (cell : String) (a : Expr)             -- cell.Swap(a): old value
  | addFetch (cell : String) (a : Expr)         -- cell.Add(a): new value
  | builtin1 (fn : String) (a : Expr)            -- arithmetic with a fixed meaning: math.Ceil, d.Milliseconds(), …
  | builtin2 (fn : String) (a b : Expr)          -- math.Max, t.Sub(u), t.Add(d), t.Before(u), …
  | fresh                                       -- `&T{}`, a function literal: some non-nil reference
  | len (arr : String)                          -- `len(x.items)` of a slice of structs
  | index (arr : String) (i : Expr) (field : String)   -- `x.items[i].Field`
  | call0 (fn : String)                         -- external call without (relevant) arguments
  | call1 (fn : String) (a : Expr)
  | call2 (fn : String) (a b : Expr)
  | field (a : Expr) (f : String)               -- `v.F` where v is the result of an external call: a pure projection
  | unsupported (what : String)
  deriving Repr, DecidableEq

inductive Stmt
  | skip
  | seq (a b : Stmt)
  | assign (name : String) (e : Expr)           -- `x = e`, `x := e`, `var x T = e`
  | store (cell : String) (e : Expr)            -- cell.Store(e)
  | eval (e : Expr)                             -- expression statement (value discarded): `i.sum.Add(n)`
  | effect (what : String)                      -- lock / unlock / hook / broadcast: trace only
  | deferEffect (what : String)
  | deferRecover (what : String)                 -- `defer f(…)` where f calls `recover()`: a panic of the scope stops here
  | ite (c : Expr) (t e : Stmt)
  | scope (body : Stmt)                         -- `func() { … }()`: a block with its own deferred calls
  | while (c : Expr) (body : Stmt)
  | ret0
  | ret1 (a : Expr)
  | ret2 (a b : Expr)
  | ret3 (a b c : Expr)
  | append (arr : String) (e : Expr)            -- `xs = append(xs, e)`
  | appendRec (arr : String) (fields : List (String × Expr))   -- `xs = append(xs, v)` for a struct value v: field by field
  /-- a call as a statement: `d0, d1 := fn(args)`, `fn(args)`, or — with `fn = "$dyn"` and the function value as first
  argument — `d0 := f(args)` for a local function value `f`. The arguments are logged (slice `fn`), the results come
  from the oracle, and when `pfn ≠ ""` the oracle `pfn` decides whether the callee panics. -/
  | callS (dsts : List String) (fn pfn : String) (args : List Expr)
  | unsupported (what : String)
  deriving Repr, DecidableEq

/-- the arithmetic a float type must offer (binary64 in the driver, exact rationals in the theorems) -/
class FloatLike (F : Type) where
  ofInt : Int → F
  ofLit : Nat → Int → F
  add : F → F → F
  sub : F → F → F
  mul : F → F → F
  div : F → F → F
  neg : F → F
  lt : F → F → Bool
  le : F → F → Bool
  beq : F → F → Bool
  trunc : F → Int           -- Go's `int(f)`
  ceil : F → F
  floor : F → F
  round : F → F             -- half away from zero, `math.Round`
  max : F → F → F

inductive Val (F : Type)
  | int (i : Int)
  | bool (b : Bool)
  | flt (f : F)
  | nil
  | nonNil                                       -- an opaque non-nil reference (an error value, a pointer)
  | ref (n : Nat)                                -- an opaque non-nil value with an identity (a string, a map, a pointer)
  deriving Repr, DecidableEq

structure State (F : Type) where
  vars  : List (String × Val F)                  -- in order of first binding
  calls : List (String × Nat)                    -- how often each external has been called
  trace : List String                            -- effects, newest first
  defers : List String
  arrs : List (String × List (List (String × Val F))) := []   -- slices of structs: element → field → value (read only)

/-- association lists with `if k = x` tests (string literals: decided by simp's `String.reduceEq`, never by unfolding) -/
def lookup {α} (x : String) : List (String × α) → Option α
  | [] => none
  | (k, v) :: rest => if k = x then some v else lookup x rest

/-- update in place (the order of first binding is kept), append when new -/
def upd {α} (x : String) (v : α) : List (String × α) → List (String × α)
  | [] => [(x, v)]
  | (k, w) :: rest => if k = x then (x, v) :: rest else (k, w) :: upd x v rest

def State.get {F} (s : State F) (x : String) : Option (Val F) := lookup x s.vars

def State.set {F} (s : State F) (x : String) (v : Val F) : State F := { s with vars := upd x v s.vars }

def State.ncalls {F} (s : State F) (f : String) : Nat := (lookup f s.calls).getD 0

def State.bump {F} (s : State F) (f : String) : State F := { s with calls := upd f (s.ncalls f + 1) s.calls }

/-- externals: name → index of this call (0-based, per name) → arguments → result -/
abbrev Ext (F : Type) := String → Nat → List (Val F) → Val F

abbrev M (F : Type) (α : Type) := Except String (α × State F)

variable {F : Type}

/-! The evaluator is written with named binding combinators (not raw `match`es) so that symbolic evaluation by
`simp` can push them through the `if`s that symbolic conditions leave behind (`bindE_ite` …). -/

/-- continue with the value and state of a successful evaluation -/
def bindE {α} (r : M F (Val F)) (k : Val F → State F → Except String α) : Except String α :=
  match r with
  | .ok (v, s) => k v s
  | .error e => .error e

/-- continue with a boolean; anything else is a type error -/
def asBool {α} (v : Val F) (k : Bool → Except String α) : Except String α :=
  match v with
  | .bool b => k b
  | _ => .error "type: boolean expected"

def asInt {α} (v : Val F) (k : Int → Except String α) : Except String α :=
  match v with
  | .int i => k i
  | _ => .error "type: integer expected"

def liftV (r : Except String (Val F)) (s : State F) : M F (Val F) :=
  match r with
  | .ok v => .ok (v, s)
  | .error e => .error e

inductive Outcome (F : Type)
  | normal (s : State F)
  | returned (vals : List (Val F)) (s : State F)
  | error (msg : String)
  | panicked (s : State F)                       -- a callee panicked: the function unwinds (deferred effects still fire)

/-- sequencing: only a normal outcome continues -/
def Outcome.andThen (o : Outcome F) (k : State F → Outcome F) : Outcome F :=
  match o with
  | .normal s => k s
  | o => o

/-- evaluate, then continue as a statement -/
def bindS (r : M F (Val F)) (k : Val F → State F → Outcome F) : Outcome F :=
  match r with
  | .ok (v, s) => k v s
  | .error e => .error e

def asBoolS (v : Val F) (k : Bool → Outcome F) : Outcome F :=
  match v with
  | .bool b => k b
  | _ => .error "type: condition is not a boolean"

/-- what a function call produced: the returned values and the final state, deferred effects fired (LIFO) -/
def finish : Outcome F → Except String (List (Val F) × State F)
  | .normal s1 => .ok ([], { s1 with trace := s1.defers.reverse ++ s1.trace, defers := [] })
  | .returned vs s1 => .ok (vs, { s1 with trace := s1.defers.reverse ++ s1.trace, defers := [] })
  | .error m => .error m
  | .panicked s1 =>
    if s1.defers.contains "<recover>" then .ok ([], { s1 with trace := "<recovered>" :: (s1.defers.reverse ++ s1.trace), defers := [] })
    else .ok ([], { s1 with trace := "<panicked>" :: (s1.defers.reverse ++ s1.trace), defers := [] })

/-- evaluate the arguments of a call, then continue as a statement -/
def bindL (r : Except String (List (Val F) × State F)) (k : List (Val F) → State F → Outcome F) : Outcome F :=
  match r with
  | .ok (vs, s) => k vs s
  | .error e => .error e

def consV (v : Val F) (r : Except String (List (Val F) × State F)) : Except String (List (Val F) × State F) :=
  match r with
  | .ok (vs, s) => .ok (v :: vs, s)
  | .error e => .error e

def isTrue : Val F → Bool
  | .bool true => true
  | _ => false

/-- the keys under which the arguments of a logged call are stored -/
def argKeys : List String := ["0", "1", "2", "3", "4", "5", "6", "7"]

/-- append a record to a slice (created when absent) -/
def State.push (s : State F) (arr : String) (rec : List (String × Val F)) : State F :=
  { s with arrs := upd arr ((lookup arr s.arrs).getD [] ++ [rec]) s.arrs }

/-- assign the results of a call to its destinations (`_` discards) -/
def State.setAll (s : State F) : List String → (Nat → Val F) → Nat → State F
  | [], _, _ => s
  | d :: ds, f, i => if d = "_" then s.setAll ds f (i + 1) else (s.set d (f i)).setAll ds f (i + 1)

/-! #### symbolic-evaluation lemmas -/

@[minigo] theorem bindL_ok (vs : List (Val F)) (s : State F) (k : List (Val F) → State F → Outcome F) :
    bindL (.ok (vs, s)) k = k vs s := rfl
@[minigo] theorem bindL_error (e : String) (k : List (Val F) → State F → Outcome F) : bindL (F := F) (.error e) k = .error e := rfl
@[minigo] theorem bindL_ite (p : Prop) [Decidable p] (a b : Except String (List (Val F) × State F))
    (k : List (Val F) → State F → Outcome F) : bindL (if p then a else b) k = if p then bindL a k else bindL b k := by
  split <;> rfl
@[minigo] theorem consV_ok (v : Val F) (vs : List (Val F)) (s : State F) : consV v (.ok (vs, s)) = .ok (v :: vs, s) := rfl
@[minigo] theorem consV_error (v : Val F) (e : String) : consV v (.error e) = .error e := rfl
@[minigo] theorem consV_ite (v : Val F) (p : Prop) [Decidable p] (a b : Except String (List (Val F) × State F)) :
    consV v (if p then a else b) = if p then consV v a else consV v b := by split <;> rfl
@[minigo] theorem isTrue_bool (b : Bool) : isTrue (F := F) (.bool b) = b := by cases b <;> rfl
@[minigo] theorem setAll_nil (s : State F) (f : Nat → Val F) (i : Nat) : s.setAll [] f i = s := rfl
@[minigo] theorem setAll_cons (s : State F) (d : String) (ds : List String) (f : Nat → Val F) (i : Nat) :
    s.setAll (d :: ds) f i = if d = "_" then s.setAll ds f (i + 1) else (s.set d (f i)).setAll ds f (i + 1) := rfl
@[minigo] theorem finish_panicked (s1 : State F) :
    finish (.panicked s1) =
      if s1.defers.contains "<recover>" then .ok ([], { s1 with trace := "<recovered>" :: (s1.defers.reverse ++ s1.trace), defers := [] })
      else .ok ([], { s1 with trace := "<panicked>" :: (s1.defers.reverse ++ s1.trace), defers := [] }) := rfl
@[minigo] theorem andThen_panicked (s : State F) (k : State F → Outcome F) : (Outcome.panicked s).andThen k = .panicked s := rfl

@[minigo] theorem bindE_ok {α} (v : Val F) (s : State F) (k : Val F → State F → Except String α) :
    bindE (.ok (v, s)) k = k v s := rfl
@[minigo] theorem bindE_error {α} (e : String) (k : Val F → State F → Except String α) :
    bindE (F := F) (.error e) k = .error e := rfl
@[minigo] theorem bindE_ite {α} (p : Prop) [Decidable p] (a b : M F (Val F)) (k : Val F → State F → Except String α) :
    bindE (if p then a else b) k = if p then bindE a k else bindE b k := by split <;> rfl
@[minigo] theorem asBool_bool {α} (b : Bool) (k : Bool → Except String α) : asBool (F := F) (.bool b) k = k b := rfl
@[minigo] theorem asBool_ite {α} (p : Prop) [Decidable p] (a b : Val F) (k : Bool → Except String α) :
    asBool (if p then a else b) k = if p then asBool a k else asBool b k := by split <;> rfl
@[minigo] theorem asInt_int {α} (i : Int) (k : Int → Except String α) : asInt (F := F) (.int i) k = k i := rfl
@[minigo] theorem liftV_ok (v : Val F) (s : State F) : liftV (.ok v) s = .ok (v, s) := rfl
@[minigo] theorem liftV_ite (p : Prop) [Decidable p] (a b : Except String (Val F)) (s : State F) :
    liftV (if p then a else b) s = if p then liftV a s else liftV b s := by split <;> rfl
@[minigo] theorem liftV_error (e : String) (s : State F) : liftV (F := F) (.error e) s = .error e := rfl
@[minigo] theorem andThen_normal (s : State F) (k : State F → Outcome F) : (Outcome.normal s).andThen k = k s := rfl
@[minigo] theorem andThen_returned (vs : List (Val F)) (s : State F) (k : State F → Outcome F) :
    (Outcome.returned vs s).andThen k = .returned vs s := rfl
@[minigo] theorem andThen_error (m : String) (k : State F → Outcome F) : (Outcome.error m).andThen k = .error m := rfl
@[minigo] theorem andThen_ite (p : Prop) [Decidable p] (a b : Outcome F) (k : State F → Outcome F) :
    (if p then a else b).andThen k = if p then a.andThen k else b.andThen k := by split <;> rfl
@[minigo] theorem bindS_ok (v : Val F) (s : State F) (k : Val F → State F → Outcome F) : bindS (.ok (v, s)) k = k v s := rfl
@[minigo] theorem bindS_error (e : String) (k : Val F → State F → Outcome F) : bindS (F := F) (.error e) k = .error e := rfl
@[minigo] theorem bindS_ite (p : Prop) [Decidable p] (a b : M F (Val F)) (k : Val F → State F → Outcome F) :
    bindS (if p then a else b) k = if p then bindS a k else bindS b k := by split <;> rfl
@[minigo] theorem asBoolS_bool (b : Bool) (k : Bool → Outcome F) : asBoolS (F := F) (.bool b) k = k b := rfl
@[minigo] theorem finish_normal (s1 : State F) :
    finish (.normal s1) = .ok ([], { s1 with trace := s1.defers.reverse ++ s1.trace, defers := [] }) := rfl
@[minigo] theorem finish_returned (vs : List (Val F)) (s1 : State F) :
    finish (.returned vs s1) = .ok (vs, { s1 with trace := s1.defers.reverse ++ s1.trace, defers := [] }) := rfl
@[minigo] theorem finish_error (m : String) : finish (F := F) (.error m) = .error m := rfl
@[minigo] theorem finish_ite (p : Prop) [Decidable p] (a b : Outcome F) :
    finish (if p then a else b) = if p then finish a else finish b := by split <;> rfl



variable [FloatLike F]

def binopInt (op : BinOp) (a b : Int) : Except String (Val F) :=
  match op with
  | .add => .ok (.int (a + b)) | .sub => .ok (.int (a - b)) | .mul => .ok (.int (a * b))
  | .quo => if b = 0 then .error "panic: integer divide by zero" else .ok (.int (a.tdiv b))
  | .rem => if b = 0 then .error "panic: integer divide by zero" else .ok (.int (a.tmod b))
  | .lt => .ok (.bool (decide (a < b))) | .le => .ok (.bool (decide (a ≤ b)))
  | .gt => .ok (.bool (decide (a > b))) | .ge => .ok (.bool (decide (a ≥ b)))
  | .eq => .ok (.bool (decide (a = b))) | .ne => .ok (.bool (decide (a ≠ b)))
  | _ => .error "type: boolean operator on integers"

def binopFlt (op : BinOp) (a b : F) : Except String (Val F) :=
  match op with
  | .add => .ok (.flt (FloatLike.add a b)) | .sub => .ok (.flt (FloatLike.sub a b))
  | .mul => .ok (.flt (FloatLike.mul a b)) | .quo => .ok (.flt (FloatLike.div a b))
  | .lt => .ok (.bool (FloatLike.lt a b)) | .le => .ok (.bool (FloatLike.le a b))
  | .gt => .ok (.bool (FloatLike.lt b a)) | .ge => .ok (.bool (FloatLike.le b a))
  | .eq => .ok (.bool (FloatLike.beq a b)) | .ne => .ok (.bool (!FloatLike.beq a b))
  | _ => .error "type: operator on floats"

def binopBool (op : BinOp) (a b : Bool) : Except String (Val F) :=
  match op with
  | .land => .ok (.bool (a && b)) | .lor => .ok (.bool (a || b))
  | .eq => .ok (.bool (a == b)) | .ne => .ok (.bool (a != b))
  | _ => .error "type: arithmetic on booleans"

/-- comparison with nil: `same` says whether both sides are nil -/
def binopNil (op : BinOp) (same : Bool) : Except String (Val F) :=
  match op with
  | .eq => .ok (.bool same) | .ne => .ok (.bool (!same)) | _ => .error "type: operator on nil"

def binop (op : BinOp) : Val F → Val F → Except String (Val F)
  | .int a, .int b => binopInt op a b
  | .flt a, .flt b => binopFlt op a b
  | .bool a, .bool b => binopBool op a b
  | .nil, .nil => binopNil op true
  | .ref a, .ref b => binopNil op (a == b)          -- two opaque values: the same one or not (`err == errFailNow`)
  | .nil, _ | _, .nil => binopNil op false          -- exactly one side is nil (a pointer to a value is not)
  | _, _ => .error "type: operands"

/-- arithmetic with a fixed meaning. Times and durations are integers (nanoseconds; the zero time is 0). -/
def builtin1 (fn : String) : Val F → Except String (Val F)
  | .int d =>
    if fn = "Milliseconds" then .ok (.int (d.tdiv 1000000))
    else if fn = "Nanoseconds" then .ok (.int d)
    else if fn = "IsZero" then .ok (.bool (decide (d = 0)))
    else .error "builtin on an integer"
  | .flt f =>
    if fn = "math.Ceil" then .ok (.flt (FloatLike.ceil f))
    else if fn = "math.Floor" then .ok (.flt (FloatLike.floor f))
    else if fn = "math.Round" then .ok (.flt (FloatLike.round f))
    else .error "builtin on a float"
  | _ => .error "builtin"

def builtin2 (fn : String) : Val F → Val F → Except String (Val F)
  | .int a, .int b =>
    if fn = "Sub" then .ok (.int (a - b))
    else if fn = "Add" then .ok (.int (a + b))
    else if fn = "Before" then .ok (.bool (decide (a < b)))
    else if fn = "After" then .ok (.bool (decide (a > b)))
    else if fn = "Truncate" then .ok (.int (if b ≤ 0 then a else a - a % b))     -- `t.Truncate(d)`, t ≥ 0 since the zero time
    else .error "builtin on integers"
  | .flt a, .flt b =>
    if fn = "math.Max" then .ok (.flt (FloatLike.max a b))
    else if fn = "math.Min" then .ok (.flt (FloatLike.neg (FloatLike.max (FloatLike.neg a) (FloatLike.neg b))))
    else .error "builtin on floats"
  | _, _ => .error "builtin"

/-- a float constant expression meets an integer literal (`accRate < 1`, `accRate*10_000_000`): Go converts the
untyped constant; the translator leaves the literal as written, so the conversion happens here -/
def coerce : Val F → Val F → Val F × Val F
  | .flt a, .int b => (.flt a, .flt (FloatLike.ofInt b))
  | .int a, .flt b => (.flt (FloatLike.ofInt a), .flt b)
  | a, b => (a, b)

def convert (ty : String) : Val F → Except String (Val F)
  | .int i => if ty = "float64" then .ok (.flt (FloatLike.ofInt i)) else .ok (.int i)
  | .flt f => if ty = "float64" then .ok (.flt f) else .ok (.int (FloatLike.trunc f))
  | _ => .error "type: conversion"

def evalE (ext : Ext F) : Expr → State F → M F (Val F)
  | .int v, s => .ok (.int v, s)
  | .flit m e, s => .ok (.flt (FloatLike.ofLit m e), s)
  | .bool b, s => .ok (.bool b, s)
  | .nil, s => .ok (.nil, s)
  | .var x, s => match s.get x with
    | some v => .ok (v, s)
    | none => .error "unbound variable"
  | .bin .land a b, s =>                         -- short circuit
    bindE (evalE ext a s) fun va s1 => asBool va fun x =>
      if x then bindE (evalE ext b s1) fun vb s2 => asBool vb fun y => .ok (.bool y, s2)
      else .ok (.bool false, s1)
  | .bin .lor a b, s =>
    bindE (evalE ext a s) fun va s1 => asBool va fun x =>
      if x then .ok (.bool true, s1)
      else bindE (evalE ext b s1) fun vb s2 => asBool vb fun y => .ok (.bool y, s2)
  | .bin op a b, s =>
    bindE (evalE ext a s) fun va s1 => bindE (evalE ext b s1) fun vb s2 =>
      liftV (binop op (coerce va vb).1 (coerce va vb).2) s2
  | .not a, s => bindE (evalE ext a s) fun va s1 => asBool va fun x => .ok (.bool (!x), s1)
  | .neg a, s => bindE (evalE ext a s) fun va s1 =>
    match va with
    | .int i => .ok (.int (-i), s1)
    | .flt f => .ok (.flt (FloatLike.neg f), s1)
    | _ => .error "type: unary minus"
  | .conv ty a, s => bindE (evalE ext a s) fun va s1 => liftV (convert ty va) s1
  | .load c, s => match s.get c with
    | some v => .ok (v, s)
    | none => .error "unbound cell"
  | .swap c a, s => bindE (evalE ext a s) fun v s1 =>
    match s1.get c with
    | some old => .ok (old, s1.set c v)
    | none => .error "unbound cell"
  | .addFetch c a, s => bindE (evalE ext a s) fun v s1 => asInt v fun d =>
    match s1.get c with
    | some (.int old) => .ok (.int (old + d), s1.set c (.int (old + d)))
    | _ => .error "cell is not an integer"
  | .builtin1 f a, s => bindE (evalE ext a s) fun va s1 => liftV (builtin1 f va) s1
  | .builtin2 f a b, s => bindE (evalE ext a s) fun va s1 => bindE (evalE ext b s1) fun vb s2 =>
      liftV (builtin2 f (coerce va vb).1 (coerce va vb).2) s2
  | .fresh, s => .ok (.nonNil, s)
  | .len a, s => match lookup a s.arrs with
    | some l => .ok (.int l.length, s)
    | none => .error "unbound slice"
  | .index a i f, s => bindE (evalE ext i s) fun vi s1 => asInt vi fun n =>
    match lookup a s1.arrs with
    | some l =>
      if n < 0 then .error "panic: index out of range" else
      (match l[n.toNat]? with
       | some rec => (match lookup f rec with
         | some v => .ok (v, s1)
         | none => .error "no such field")
       | none => .error "panic: index out of range")
    | none => .error "unbound slice"
  | .call0 f, s => .ok (ext f (s.ncalls f) [], s.bump f)
  | .call1 f a, s => bindE (evalE ext a s) fun v s1 => .ok (ext f (s1.ncalls f) [v], s1.bump f)
  | .call2 f a b, s => bindE (evalE ext a s) fun va s1 => bindE (evalE ext b s1) fun vb s2 =>
      .ok (ext f (s2.ncalls f) [va, vb], s2.bump f)
  | .field a f, s => bindE (evalE ext a s) fun v s1 => .ok (ext f 0 [v], s1)
  | .unsupported w, _ => .error w

/-- the arguments of a call, left to right -/
def evalL (ext : Ext F) : List Expr → State F → Except String (List (Val F) × State F)
  | [], s => .ok ([], s)
  | e :: es, s => bindE (evalE ext e s) fun v s1 => consV v (evalL ext es s1)

/-- `fuel` bounds the nesting of loop iterations -/
def exec (ext : Ext F) : Nat → Stmt → State F → Outcome F
  | _, .skip, s => .normal s
  | fuel, .seq a b, s => (exec ext fuel a s).andThen fun s1 => exec ext fuel b s1
  | _, .assign x e, s => bindS (evalE ext e s) fun v s1 => .normal (s1.set x v)
  | _, .store c e, s => bindS (evalE ext e s) fun v s1 => .normal (s1.set c v)
  | _, .eval e, s => bindS (evalE ext e s) fun _ s1 => .normal s1
  | _, .effect w, s => .normal { s with trace := w :: s.trace }
  | _, .deferEffect w, s => .normal { s with defers := w :: s.defers }
  | _, .deferRecover w, s => .normal { s with defers := w :: "<recover>" :: s.defers }
  | fuel, .ite c t e, s => bindS (evalE ext c s) fun v s1 => asBoolS v fun b =>
      if b then exec ext fuel t s1 else exec ext fuel e s1
  | fuel, .scope b, s =>
    -- the block runs with an empty defer stack; when it ends (falling off its end or through `return`) its deferred
    -- effects fire, last in first out, and the enclosing function goes on
    match exec ext fuel b { s with defers := [] } with
    | .normal s1 => .normal { s1 with trace := s1.defers.reverse ++ s1.trace, defers := s.defers }
    | .returned _ s1 => .normal { s1 with trace := s1.defers.reverse ++ s1.trace, defers := s.defers }
    | .error m => .error m
    | .panicked s1 =>
      -- the deferred calls run; one that recovers ends the panic and the block returns normally
      if s1.defers.contains "<recover>" then
        .normal { s1 with trace := "<recovered>" :: (s1.defers.reverse ++ s1.trace), defers := s.defers }
      else .panicked { s1 with trace := s1.defers.reverse ++ s1.trace, defers := s.defers }
  | 0, .while _ _, _ => .error "out of fuel"
  | fuel + 1, .while c body, s => bindS (evalE ext c s) fun v s1 => asBoolS v fun b =>
      if b then (exec ext fuel body s1).andThen fun s2 => exec ext fuel (.while c body) s2
      else .normal s1
  | _, .ret0, s => .returned [] s
  | _, .ret1 a, s => bindS (evalE ext a s) fun v s1 => .returned [v] s1
  | _, .ret2 a b, s => bindS (evalE ext a s) fun va s1 => bindS (evalE ext b s1) fun vb s2 => .returned [va, vb] s2
  | _, .ret3 a b c, s => bindS (evalE ext a s) fun va s1 => bindS (evalE ext b s1) fun vb s2 =>
      bindS (evalE ext c s2) fun vc s3 => .returned [va, vb, vc] s3
  | _, .append arr e, s => bindS (evalE ext e s) fun v s1 => .normal ((s1.push arr [("", v)]).set arr .nonNil)
  | _, .appendRec arr fields, s => bindL (evalL ext (fields.map (·.2)) s) fun vs s1 =>
      .normal ((s1.push arr ((fields.map (·.1)).zip vs)).set arr .nonNil)
  | _, .callS dsts fn pfn args, s => bindL (evalL ext args s) fun vs s1 =>
      let n := s1.ncalls fn
      let s2 := (s1.bump fn).push fn (argKeys.zip vs)
      if pfn ≠ "" ∧ isTrue (ext pfn n vs) = true then .panicked s2
      else .normal (s2.setAll dsts (fun i => ext fn n (.int i :: vs)) 0)
  | _, .unsupported w, _ => .error w

/-- run a function body -/
def runFn (ext : Ext F) (fuel : Nat) (body : Stmt) (s : State F) : Except String (List (Val F) × State F) :=
  finish (exec ext fuel body s)

/-- what a caller sees of a finished call: the returned values and the variables / cells / counters it asked for -/
def observe (r : Except String (List (Val F) × State F)) (xs : List String) :
    Option (List (Val F) × List (Option (Val F))) :=
  match r with
  | .ok (vs, s) => some (vs, xs.map s.get)
  | .error _ => none

omit [FloatLike F] in
@[minigo] theorem observe_ok (vs : List (Val F)) (s : State F) (xs : List String) :
    observe (.ok (vs, s)) xs = some (vs, xs.map s.get) := rfl
omit [FloatLike F] in
@[minigo] theorem observe_error (e : String) (xs : List String) : observe (F := F) (.error e) xs = none := rfl
omit [FloatLike F] in
@[minigo] theorem observe_ite (p : Prop) [Decidable p] (a b : Except String (List (Val F) × State F)) (xs : List String) :
    observe (if p then a else b) xs = if p then observe a xs else observe b xs := by split <;> rfl

/-- … and how often the listed externals have been called so far -/
def observeC (r : Except String (List (Val F) × State F)) (xs fs : List String) :
    Option (List (Val F) × List (Option (Val F)) × List Nat) :=
  match r with
  | .ok (vs, s) => some (vs, xs.map s.get, fs.map s.ncalls)
  | .error _ => none

omit [FloatLike F] in
@[minigo] theorem observeC_ok (vs : List (Val F)) (s : State F) (xs fs : List String) :
    observeC (.ok (vs, s)) xs fs = some (vs, xs.map s.get, fs.map s.ncalls) := rfl
omit [FloatLike F] in
@[minigo] theorem observeC_error (e : String) (xs fs : List String) : observeC (F := F) (.error e) xs fs = none := rfl
omit [FloatLike F] in
@[minigo] theorem observeC_ite (p : Prop) [Decidable p] (a b : Except String (List (Val F) × State F)) (xs fs : List String) :
    observeC (if p then a else b) xs fs = if p then observeC a xs fs else observeC b xs fs := by split <;> rfl

/-- the effects of a finished call (locks, hooks, calls whose result is dropped), oldest first -/
def traceOf (r : Except String (List (Val F) × State F)) : List String :=
  match r with
  | .ok (_, s) => s.trace.reverse
  | .error _ => ["<error>"]

omit [FloatLike F] in
@[minigo] theorem traceOf_ok (vs : List (Val F)) (s : State F) : traceOf (.ok (vs, s)) = s.trace.reverse := rfl
omit [FloatLike F] in
@[minigo] theorem traceOf_error (e : String) : traceOf (F := F) (.error e) = ["<error>"] := rfl
omit [FloatLike F] in
@[minigo] theorem traceOf_ite (p : Prop) [Decidable p] (a b : Except String (List (Val F) × State F)) :
    traceOf (if p then a else b) = if p then traceOf a else traceOf b := by split <;> rfl

def State.ofVars (l : List (String × Val F)) : State F := ⟨l, [], [], [], []⟩


/-! #### optional fields (Go pointers that may be nil) and the merging of states at the end of an `if` -/

/-- a pointer field holding an opaque value (`*string`, `*map…`): nil or a reference -/
def optRef (o : Option Nat) : Val F := match o with | some k => .ref k | none => .nil
/-- a pointer field holding an integer (`*int`, `*time.Duration`): nil or the number -/
def optInt (o : Option Int) : Val F := match o with | some i => .int i | none => .nil

omit [FloatLike F] in
@[minigo] theorem optRef_some (k : Nat) : optRef (F := F) (some k) = .ref k := rfl
omit [FloatLike F] in
@[minigo] theorem optRef_none : optRef (F := F) none = .nil := rfl
omit [FloatLike F] in
@[minigo] theorem optInt_some (i : Int) : optInt (F := F) (some i) = .int i := rfl
omit [FloatLike F] in
@[minigo] theorem optInt_none : optInt (F := F) none = .nil := rfl
@[minigo] theorem coerce_nil_right (v : Val F) : coerce v (.nil : Val F) = (v, .nil) := by cases v <;> rfl
@[minigo] theorem binop_eq_optRef_nil (o : Option Nat) : binop .eq (optRef (F := F) o) .nil = .ok (.bool o.isNone) := by
  cases o <;> rfl
@[minigo] theorem binop_eq_optInt_nil (o : Option Int) : binop .eq (optInt (F := F) o) .nil = .ok (.bool o.isNone) := by
  cases o <;> rfl
@[minigo] theorem binop_ne_optRef_nil (o : Option Nat) : binop .ne (optRef (F := F) o) .nil = .ok (.bool o.isSome) := by
  cases o <;> rfl
@[minigo] theorem binop_ne_optInt_nil (o : Option Int) : binop .ne (optInt (F := F) o) .nil = .ok (.bool o.isSome) := by
  cases o <;> rfl
@[minigo] theorem binop_int_int (op : BinOp) (a b : Int) : binop (F := F) op (.int a) (.int b) = binopInt op a b := rfl
@[minigo] theorem binop_flt_flt (op : BinOp) (a b : F) : binop op (.flt a) (.flt b) = binopFlt op a b := rfl
@[minigo] theorem binop_bool_bool (op : BinOp) (a b : Bool) : binop (F := F) op (.bool a) (.bool b) = binopBool op a b := rfl
@[minigo] theorem binop_nil_nil (op : BinOp) : binop (F := F) op .nil .nil = binopNil op true := rfl
@[minigo] theorem binop_nonNil_nil (op : BinOp) : binop (F := F) op .nonNil .nil = binopNil op false := rfl
@[minigo] theorem binop_nil_nonNil (op : BinOp) : binop (F := F) op .nil .nonNil = binopNil op false := rfl
@[minigo] theorem binop_int_nil (op : BinOp) (a : Int) : binop (F := F) op (.int a) .nil = binopNil op false := rfl
@[minigo] theorem binop_nil_int (op : BinOp) (a : Int) : binop (F := F) op .nil (.int a) = binopNil op false := rfl
@[minigo] theorem binop_ref_ref (op : BinOp) (a b : Nat) : binop (F := F) op (.ref a) (.ref b) = binopNil op (a == b) := rfl
@[minigo] theorem binop_ref_nil (op : BinOp) (n : Nat) : binop (F := F) op (.ref n) .nil = binopNil op false := rfl
@[minigo] theorem binop_nil_ref (op : BinOp) (n : Nat) : binop (F := F) op .nil (.ref n) = binopNil op false := rfl
@[minigo] theorem binop_flt_nil (op : BinOp) (a : F) : binop op (.flt a) .nil = binopNil op false := rfl
@[minigo] theorem coerce_int_int (a b : Int) : coerce (F := F) (.int a) (.int b) = (.int a, .int b) := rfl
@[minigo] theorem coerce_flt_flt (a b : F) : coerce (.flt a) (.flt b) = (.flt a, .flt b) := rfl
@[minigo] theorem coerce_flt_int (a : F) (b : Int) : coerce (.flt a) (.int b) = (.flt a, .flt (FloatLike.ofInt b)) := rfl
@[minigo] theorem coerce_int_flt (a : Int) (b : F) : coerce (.int a) (.flt b) = (.flt (FloatLike.ofInt a), .flt b) := rfl
@[minigo] theorem coerce_ref_ref (a b : Nat) : coerce (F := F) (.ref a) (.ref b) = (.ref a, .ref b) := rfl
@[minigo] theorem coerce_bool_bool (a b : Bool) : coerce (F := F) (.bool a) (.bool b) = (.bool a, .bool b) := rfl
@[minigo] theorem coerce_nil_left (v : Val F) : coerce (.nil : Val F) v = (.nil, v) := by cases v <;> rfl
/-- field inheritance: the value itself if present, else the default -/
def inherit {α} (a b : Option α) : Option α := match a with | some x => some x | none => b

omit [FloatLike F] in
@[minigo] theorem optRef_inherit (o d : Option Nat) :
    (if o = none then optRef (F := F) d else optRef o) = optRef (inherit o d) := by
  cases o <;> simp [inherit]
omit [FloatLike F] in
@[minigo] theorem optInt_inherit (o d : Option Int) :
    (if o = none then optInt (F := F) d else optInt o) = optInt (inherit o d) := by
  cases o <;> simp [inherit]
omit [FloatLike F] in
@[minigo] theorem both_none_iff {α} (o d : Option α) : (o = none ∧ d = none) ↔ inherit o d = none := by
  cases o <;> simp [inherit]

/-! two branches of an `if` that both end normally, in states with the same variables, continue as *one* state whose
values are conditional — instead of as two paths (which would double at every optional field) -/
omit [FloatLike F] in
@[minigo] theorem merge_normal (p : Prop) [Decidable p] (a b : State F) :
    (if p then Outcome.normal a else Outcome.normal b) = Outcome.normal (if p then a else b) := by split <;> rfl
omit [FloatLike F] in
/-- the required-field pattern `if x == nil { if d == nil { return … }; x = d }`: one early exit, one merged state -/
@[minigo] theorem merge_guard (p q : Prop) [Decidable p] [Decidable q] (r : Outcome F) (a b : State F) :
    (if p then (if q then r else Outcome.normal a) else Outcome.normal b) =
      if p ∧ q then r else Outcome.normal (if p then a else b) := by
  by_cases hp : p <;> by_cases hq : q <;> simp [hp, hq]
omit [FloatLike F] in
@[minigo] theorem merge_state (p : Prop) [Decidable p] (v1 v2 : List (String × Val F)) (c : List (String × Nat))
    (t d : List String) (ar : List (String × List (List (String × Val F)))) :
    (if p then State.mk v1 c t d ar else State.mk v2 c t d ar) = State.mk (if p then v1 else v2) c t d ar := by
  split <;> rfl
omit [FloatLike F] in
@[minigo] theorem merge_cons (p : Prop) [Decidable p] (k : String) (a b : Val F) (l1 l2 : List (String × Val F)) :
    (if p then (k, a) :: l1 else (k, b) :: l2) = (k, if p then a else b) :: (if p then l1 else l2) := by split <;> rfl
omit [FloatLike F] in
@[minigo] theorem merge_int (p : Prop) [Decidable p] (a b : Int) :
    (if p then (Val.int a : Val F) else Val.int b) = Val.int (if p then a else b) := by split <;> rfl
omit [FloatLike F] in
@[minigo] theorem merge_bool (p : Prop) [Decidable p] (a b : Bool) :
    (if p then (Val.bool a : Val F) else Val.bool b) = Val.bool (if p then a else b) := by split <;> rfl
omit [FloatLike F] in
@[minigo] theorem merge_flt (p : Prop) [Decidable p] (a b : F) :
    (if p then Val.flt a else Val.flt b) = Val.flt (if p then a else b) := by split <;> rfl
omit [FloatLike F] in
@[minigo] theorem merge_nil (p : Prop) [Decidable p] : (if p then ([] : List (String × Val F)) else []) = [] := by split <;> rfl

/-! #### evaluation on a *literal* state

`simp [minigo]` evaluates a program symbolically. The equations below only fire on a state that is a literal
`State.mk …` — never on the bound state variable of a continuation — so nothing is unfolded before its input is known. -/

section literal
variable (ext : Ext F) (vs : List (String × Val F)) (cs : List (String × Nat)) (tr df : List String)
  (ar : List (String × List (List (String × Val F))))
local notation "σ" => (State.mk vs cs tr df ar : State F)

@[minigo] theorem evalE_int (v : Int) : evalE ext (.int v) σ = .ok (.int v, σ) := by simp [evalE]
@[minigo] theorem evalE_flit (m : Nat) (e : Int) : evalE ext (.flit m e) σ = .ok (.flt (FloatLike.ofLit m e), σ) := by simp [evalE]
@[minigo] theorem evalE_bool (b : Bool) : evalE ext (.bool b) σ = .ok (.bool b, σ) := by simp [evalE]
@[minigo] theorem evalE_nil : evalE ext .nil σ = .ok (.nil, σ) := by simp [evalE]
@[minigo] theorem evalE_fresh : evalE ext .fresh σ = .ok (.nonNil, σ) := by simp [evalE]
@[minigo] theorem evalE_var (x : String) : evalE ext (.var x) σ =
    (match (σ).get x with | some v => .ok (v, σ) | none => .error "unbound variable") := by simp [evalE]
@[minigo] theorem evalE_load (c : String) : evalE ext (.load c) σ =
    (match (σ).get c with | some v => .ok (v, σ) | none => .error "unbound cell") := by simp [evalE]
@[minigo] theorem evalE_land (a b : Expr) : evalE ext (.bin .land a b) σ =
    bindE (evalE ext a σ) fun va s1 => asBool va fun x =>
      if x then bindE (evalE ext b s1) fun vb s2 => asBool vb fun y => .ok (.bool y, s2)
      else .ok (.bool false, s1) := by simp [evalE]
@[minigo] theorem evalE_lor (a b : Expr) : evalE ext (.bin .lor a b) σ =
    bindE (evalE ext a σ) fun va s1 => asBool va fun x =>
      if x then .ok (.bool true, s1)
      else bindE (evalE ext b s1) fun vb s2 => asBool vb fun y => .ok (.bool y, s2) := by simp [evalE]
theorem evalE_bin_gen (op : BinOp) (h1 : op ≠ .land) (h2 : op ≠ .lor) (a b : Expr) (s : State F) :
    evalE ext (.bin op a b) s =
    bindE (evalE ext a s) fun va s1 => bindE (evalE ext b s1) fun vb s2 =>
      liftV (binop op (coerce va vb).1 (coerce va vb).2) s2 := by
  cases op <;> simp_all [evalE]
@[minigo] theorem evalE_add (a b : Expr) : evalE ext (.bin .add a b) σ = bindE (evalE ext a σ) fun va s1 =>
    bindE (evalE ext b s1) fun vb s2 => liftV (binop .add (coerce va vb).1 (coerce va vb).2) s2 :=
  evalE_bin_gen ext _ (by decide) (by decide) a b _
@[minigo] theorem evalE_sub (a b : Expr) : evalE ext (.bin .sub a b) σ = bindE (evalE ext a σ) fun va s1 =>
    bindE (evalE ext b s1) fun vb s2 => liftV (binop .sub (coerce va vb).1 (coerce va vb).2) s2 :=
  evalE_bin_gen ext _ (by decide) (by decide) a b _
@[minigo] theorem evalE_mul (a b : Expr) : evalE ext (.bin .mul a b) σ = bindE (evalE ext a σ) fun va s1 =>
    bindE (evalE ext b s1) fun vb s2 => liftV (binop .mul (coerce va vb).1 (coerce va vb).2) s2 :=
  evalE_bin_gen ext _ (by decide) (by decide) a b _
@[minigo] theorem evalE_quo (a b : Expr) : evalE ext (.bin .quo a b) σ = bindE (evalE ext a σ) fun va s1 =>
    bindE (evalE ext b s1) fun vb s2 => liftV (binop .quo (coerce va vb).1 (coerce va vb).2) s2 :=
  evalE_bin_gen ext _ (by decide) (by decide) a b _
@[minigo] theorem evalE_rem (a b : Expr) : evalE ext (.bin .rem a b) σ = bindE (evalE ext a σ) fun va s1 =>
    bindE (evalE ext b s1) fun vb s2 => liftV (binop .rem (coerce va vb).1 (coerce va vb).2) s2 :=
  evalE_bin_gen ext _ (by decide) (by decide) a b _
@[minigo] theorem evalE_lt (a b : Expr) : evalE ext (.bin .lt a b) σ = bindE (evalE ext a σ) fun va s1 =>
    bindE (evalE ext b s1) fun vb s2 => liftV (binop .lt (coerce va vb).1 (coerce va vb).2) s2 :=
  evalE_bin_gen ext _ (by decide) (by decide) a b _
@[minigo] theorem evalE_le (a b : Expr) : evalE ext (.bin .le a b) σ = bindE (evalE ext a σ) fun va s1 =>
    bindE (evalE ext b s1) fun vb s2 => liftV (binop .le (coerce va vb).1 (coerce va vb).2) s2 :=
  evalE_bin_gen ext _ (by decide) (by decide) a b _
@[minigo] theorem evalE_gt (a b : Expr) : evalE ext (.bin .gt a b) σ = bindE (evalE ext a σ) fun va s1 =>
    bindE (evalE ext b s1) fun vb s2 => liftV (binop .gt (coerce va vb).1 (coerce va vb).2) s2 :=
  evalE_bin_gen ext _ (by decide) (by decide) a b _
@[minigo] theorem evalE_ge (a b : Expr) : evalE ext (.bin .ge a b) σ = bindE (evalE ext a σ) fun va s1 =>
    bindE (evalE ext b s1) fun vb s2 => liftV (binop .ge (coerce va vb).1 (coerce va vb).2) s2 :=
  evalE_bin_gen ext _ (by decide) (by decide) a b _
@[minigo] theorem evalE_eq (a b : Expr) : evalE ext (.bin .eq a b) σ = bindE (evalE ext a σ) fun va s1 =>
    bindE (evalE ext b s1) fun vb s2 => liftV (binop .eq (coerce va vb).1 (coerce va vb).2) s2 :=
  evalE_bin_gen ext _ (by decide) (by decide) a b _
@[minigo] theorem evalE_ne (a b : Expr) : evalE ext (.bin .ne a b) σ = bindE (evalE ext a σ) fun va s1 =>
    bindE (evalE ext b s1) fun vb s2 => liftV (binop .ne (coerce va vb).1 (coerce va vb).2) s2 :=
  evalE_bin_gen ext _ (by decide) (by decide) a b _
@[minigo] theorem evalE_not (a : Expr) : evalE ext (.not a) σ =
    bindE (evalE ext a σ) fun va s1 => asBool va fun x => .ok (.bool (!x), s1) := by simp [evalE]
@[minigo] theorem evalE_neg (a : Expr) : evalE ext (.neg a) σ = bindE (evalE ext a σ) fun va s1 =>
    match va with
    | .int i => .ok (.int (-i), s1)
    | .flt f => .ok (.flt (FloatLike.neg f), s1)
    | _ => .error "type: unary minus" := by simp [evalE]
@[minigo] theorem evalE_conv (ty : String) (a : Expr) : evalE ext (.conv ty a) σ =
    bindE (evalE ext a σ) fun va s1 => liftV (convert ty va) s1 := by simp [evalE]
@[minigo] theorem evalE_builtin1 (f : String) (a : Expr) : evalE ext (.builtin1 f a) σ =
    bindE (evalE ext a σ) fun va s1 => liftV (builtin1 f va) s1 := by simp [evalE]
@[minigo] theorem evalE_builtin2 (f : String) (a b : Expr) : evalE ext (.builtin2 f a b) σ =
    bindE (evalE ext a σ) fun va s1 => bindE (evalE ext b s1) fun vb s2 =>
      liftV (builtin2 f (coerce va vb).1 (coerce va vb).2) s2 := by simp [evalE]
@[minigo] theorem evalE_swap (c : String) (a : Expr) : evalE ext (.swap c a) σ = bindE (evalE ext a σ) fun v s1 =>
    match s1.get c with
    | some old => .ok (old, s1.set c v)
    | none => .error "unbound cell" := by simp [evalE]
@[minigo] theorem evalE_addFetch (c : String) (a : Expr) : evalE ext (.addFetch c a) σ =
    bindE (evalE ext a σ) fun v s1 => asInt v fun d =>
    match s1.get c with
    | some (.int old) => .ok (.int (old + d), s1.set c (.int (old + d)))
    | _ => .error "cell is not an integer" := by simp [evalE]
@[minigo] theorem evalE_len (a : String) : evalE ext (.len a) σ =
    (match lookup a ar with | some l => .ok (.int l.length, σ) | none => .error "unbound slice") := by simp [evalE]
@[minigo] theorem evalE_index (a : String) (i : Expr) (f : String) : evalE ext (.index a i f) σ =
    bindE (evalE ext i σ) fun vi s1 => asInt vi fun n =>
    match lookup a s1.arrs with
    | some l =>
      if n < 0 then .error "panic: index out of range" else
      (match l[n.toNat]? with
       | some rec => (match lookup f rec with
         | some v => .ok (v, s1)
         | none => .error "no such field")
       | none => .error "panic: index out of range")
    | none => .error "unbound slice" := by simp [evalE]
@[minigo] theorem evalE_call0 (f : String) : evalE ext (.call0 f) σ = .ok (ext f ((σ).ncalls f) [], (σ).bump f) := by
  simp [evalE]
@[minigo] theorem evalE_call1 (f : String) (a : Expr) : evalE ext (.call1 f a) σ =
    bindE (evalE ext a σ) fun v s1 => .ok (ext f (s1.ncalls f) [v], s1.bump f) := by simp [evalE]
@[minigo] theorem evalE_call2 (f : String) (a b : Expr) : evalE ext (.call2 f a b) σ =
    bindE (evalE ext a σ) fun va s1 => bindE (evalE ext b s1) fun vb s2 =>
      .ok (ext f (s2.ncalls f) [va, vb], s2.bump f) := by simp [evalE]
@[minigo] theorem evalE_unsupported (w : String) : evalE ext (.unsupported w) σ = .error w := by
  simp [evalE]
@[minigo] theorem evalE_field (a : Expr) (f : String) : evalE ext (.field a f) σ =
    bindE (evalE ext a σ) fun v s1 => .ok (ext f 0 [v], s1) := by simp [evalE]
@[minigo] theorem evalL_nil : evalL ext [] σ = .ok ([], σ) := by simp [evalL]
@[minigo] theorem evalL_cons (e : Expr) (es : List Expr) : evalL ext (e :: es) σ =
    bindE (evalE ext e σ) fun v s1 => consV v (evalL ext es s1) := by simp [evalL]

@[minigo] theorem exec_skip (fuel : Nat) : exec ext fuel .skip σ = .normal σ := by simp [exec]
@[minigo] theorem exec_seq (fuel : Nat) (a b : Stmt) : exec ext fuel (.seq a b) σ =
    (exec ext fuel a σ).andThen fun s1 => exec ext fuel b s1 := by simp [exec]
@[minigo] theorem exec_assign (fuel : Nat) (x : String) (e : Expr) : exec ext fuel (.assign x e) σ =
    bindS (evalE ext e σ) fun v s1 => .normal (s1.set x v) := by simp [exec]
@[minigo] theorem exec_store (fuel : Nat) (c : String) (e : Expr) : exec ext fuel (.store c e) σ =
    bindS (evalE ext e σ) fun v s1 => .normal (s1.set c v) := by simp [exec]
@[minigo] theorem exec_eval (fuel : Nat) (e : Expr) : exec ext fuel (.eval e) σ =
    bindS (evalE ext e σ) fun _ s1 => .normal s1 := by simp [exec]
@[minigo] theorem exec_effect (fuel : Nat) (w : String) : exec ext fuel (.effect w) σ = .normal (State.mk vs cs (w :: tr) df ar) := by
  simp [exec]
@[minigo] theorem exec_deferEffect (fuel : Nat) (w : String) : exec ext fuel (.deferEffect w) σ = .normal (State.mk vs cs tr (w :: df) ar) := by
  simp [exec]
@[minigo] theorem exec_deferRecover (fuel : Nat) (w : String) : exec ext fuel (.deferRecover w) σ =
    .normal (State.mk vs cs tr (w :: "<recover>" :: df) ar) := by
  simp [exec]
@[minigo] theorem exec_ite (fuel : Nat) (c : Expr) (t e : Stmt) : exec ext fuel (.ite c t e) σ =
    bindS (evalE ext c σ) fun v s1 => asBoolS v fun b => if b then exec ext fuel t s1 else exec ext fuel e s1 := by
  simp [exec]
@[minigo] theorem exec_scope (fuel : Nat) (b : Stmt) : exec ext fuel (.scope b) σ =
    (match exec ext fuel b (State.mk vs cs tr [] ar) with
     | .normal s1 => .normal { s1 with trace := s1.defers.reverse ++ s1.trace, defers := df }
     | .returned _ s1 => .normal { s1 with trace := s1.defers.reverse ++ s1.trace, defers := df }
     | .error m => .error m
     | .panicked s1 =>
       if s1.defers.contains "<recover>" then
         .normal { s1 with trace := "<recovered>" :: (s1.defers.reverse ++ s1.trace), defers := df }
       else .panicked { s1 with trace := s1.defers.reverse ++ s1.trace, defers := df }) := by simp [exec]
@[minigo] theorem exec_while_zero (c : Expr) (b : Stmt) : exec ext 0 (.while c b) σ = .error "out of fuel" := by simp [exec]
@[minigo] theorem exec_while_succ (fuel : Nat) (c : Expr) (body : Stmt) : exec ext (fuel + 1) (.while c body) σ =
    bindS (evalE ext c σ) fun v s1 => asBoolS v fun b =>
      if b then (exec ext fuel body s1).andThen fun s2 => exec ext fuel (.while c body) s2
      else .normal s1 := by simp [exec]
@[minigo] theorem exec_ret0 (fuel : Nat) : exec ext fuel .ret0 σ = .returned [] σ := by simp [exec]
@[minigo] theorem exec_ret1 (fuel : Nat) (a : Expr) : exec ext fuel (.ret1 a) σ =
    bindS (evalE ext a σ) fun v s1 => .returned [v] s1 := by simp [exec]
@[minigo] theorem exec_ret2 (fuel : Nat) (a b : Expr) : exec ext fuel (.ret2 a b) σ =
    bindS (evalE ext a σ) fun va s1 => bindS (evalE ext b s1) fun vb s2 => .returned [va, vb] s2 := by simp [exec]
@[minigo] theorem exec_ret3 (fuel : Nat) (a b c : Expr) : exec ext fuel (.ret3 a b c) σ =
    bindS (evalE ext a σ) fun va s1 => bindS (evalE ext b s1) fun vb s2 =>
      bindS (evalE ext c s2) fun vc s3 => .returned [va, vb, vc] s3 := by simp [exec]
@[minigo] theorem exec_unsupported (fuel : Nat) (w : String) : exec ext fuel (.unsupported w) σ =
    .error w := by simp [exec]
@[minigo] theorem exec_append (fuel : Nat) (arr : String) (e : Expr) : exec ext fuel (.append arr e) σ =
    bindS (evalE ext e σ) fun v s1 => .normal ((s1.push arr [("", v)]).set arr .nonNil) := by simp [exec]
@[minigo] theorem exec_appendRec (fuel : Nat) (arr : String) (fields : List (String × Expr)) :
    exec ext fuel (.appendRec arr fields) σ = bindL (evalL ext (fields.map (·.2)) σ) fun vs s1 =>
      .normal ((s1.push arr ((fields.map (·.1)).zip vs)).set arr .nonNil) := by simp [exec]
@[minigo] theorem exec_callS (fuel : Nat) (dsts : List String) (fn pfn : String) (args : List Expr) :
    exec ext fuel (.callS dsts fn pfn args) σ = bindL (evalL ext args σ) fun vs s1 =>
      if pfn ≠ "" ∧ isTrue (ext pfn (s1.ncalls fn) vs) = true then .panicked ((s1.bump fn).push fn (argKeys.zip vs))
      else .normal (((s1.bump fn).push fn (argKeys.zip vs)).setAll dsts (fun i => ext fn (s1.ncalls fn) (.int i :: vs)) 0) := by
  simp [exec]
omit [FloatLike F] in
@[minigo] theorem push_mk (arr : String) (rec : List (String × Val F)) :
    (σ).push arr rec = State.mk vs cs tr df (upd arr ((lookup arr ar).getD [] ++ [rec]) ar) := rfl

omit [FloatLike F] in
@[minigo] theorem get_mk (x : String) : (σ).get x = lookup x vs := rfl
omit [FloatLike F] in
@[minigo] theorem set_mk (x : String) (v : Val F) : (σ).set x v = State.mk (upd x v vs) cs tr df ar := rfl
omit [FloatLike F] in
@[minigo] theorem ncalls_mk (f : String) : (σ).ncalls f = (lookup f cs).getD 0 := rfl
omit [FloatLike F] in
@[minigo] theorem bump_mk (f : String) : (σ).bump f = State.mk vs (upd f ((lookup f cs).getD 0 + 1) cs) tr df ar := rfl
omit [FloatLike F] in
@[minigo] theorem asBoolS_ite (p : Prop) [Decidable p] (a b : Val F) (k : Bool → Outcome F) :
    asBoolS (if p then a else b) k = if p then asBoolS a k else asBoolS b k := by split <;> rfl
omit [FloatLike F] in
@[minigo] theorem asInt_ite {α} (p : Prop) [Decidable p] (a b : Val F) (k : Int → Except String α) :
    asInt (if p then a else b) k = if p then asInt a k else asInt b k := by split <;> rfl

end literal

/-- two states that could not be merged into one (different shapes): back to two paths -/
@[minigo] theorem exec_ite_state (ext : Ext F) (fuel : Nat) (st : Stmt) (p : Prop) [Decidable p] (a b : State F) :
    exec ext fuel st (if p then a else b) = if p then exec ext fuel st a else exec ext fuel st b := by split <;> rfl
@[minigo] theorem evalE_ite_state (ext : Ext F) (e : Expr) (p : Prop) [Decidable p] (a b : State F) :
    evalE ext e (if p then a else b) = if p then evalE ext e a else evalE ext e b := by split <;> rfl

attribute [minigo] argKeys runFn State.ofVars binopInt binopFlt binopBool binopNil convert builtin1 builtin2 lookup upd

/-! ### what the interleaving models cut functions into: the atomic operations, in program order -/

def atomicOpsE : Expr → List String
  | .bin _ a b => atomicOpsE a ++ atomicOpsE b
  | .not a | .neg a | .conv _ a | .builtin1 _ a | .index _ a _ => atomicOpsE a
  | .builtin2 _ a b => atomicOpsE a ++ atomicOpsE b
  | .load c => ["load " ++ c]
  | .swap c a => atomicOpsE a ++ ["swap " ++ c]
  | .addFetch c a => atomicOpsE a ++ ["add " ++ c]
  | .call0 f => ["call " ++ f]
  | .call1 f a => atomicOpsE a ++ ["call " ++ f]
  | .call2 f a b => atomicOpsE a ++ atomicOpsE b ++ ["call " ++ f]
  | .field a _ => atomicOpsE a
  | _ => []

/-- every atomic operation and effect a statement can perform, in source order (both branches of an `if`) -/
def atomicOps : Stmt → List String
  | .seq a b => atomicOps a ++ atomicOps b
  | .assign _ e | .eval e | .ret1 e => atomicOpsE e
  | .store c e => atomicOpsE e ++ ["store " ++ c]
  | .effect w => [w]
  | .deferEffect w => ["defer " ++ w]
  | .deferRecover w => ["defer " ++ w]
  | .ite c t e => atomicOpsE c ++ atomicOps t ++ atomicOps e
  | .scope b => atomicOps b
  | .while c b => atomicOpsE c ++ atomicOps b
  | .ret2 a b => atomicOpsE a ++ atomicOpsE b
  | .ret3 a b c => atomicOpsE a ++ atomicOpsE b ++ atomicOpsE c
  | .append _ e => atomicOpsE e
  | .appendRec _ fs => (fs.map fun f => atomicOpsE f.2).flatten
  | .callS _ fn _ args => (args.map atomicOpsE).flatten ++ ["call " ++ fn]
  | _ => []

/-! ### the two float instances -/

instance : FloatLike Float where
  ofInt := Float.ofInt
  ofLit m e := if e ≥ 0 then Float.ofScientific (m * 10 ^ e.toNat) false 0 else Float.ofScientific m true (-e).toNat
  add := (· + ·)
  sub := (· - ·)
  mul := (· * ·)
  div := (· / ·)
  neg := fun x => -x
  lt a b := a < b
  le a b := a ≤ b
  beq a b := a == b
  trunc f := f.toInt64.toInt
  ceil := Float.ceil
  floor := Float.floor
  round := Float.round
  max a b := if a < b then b else a

def ratRound (q : Rat) : Int := if q ≥ 0 then (q + 1/2).floor else -((-q + 1/2).floor)

instance : FloatLike Rat where
  ofInt i := (i : Rat)
  ofLit m e := if e ≥ 0 then ((m * 10 ^ e.toNat : Nat) : Rat) else (m : Rat) / ((10 ^ (-e).toNat : Nat) : Rat)
  add := (· + ·)
  sub := (· - ·)
  mul := (· * ·)
  div := (· / ·)
  neg := fun x => -x
  lt a b := decide (a < b)
  le a b := decide (a ≤ b)
  beq a b := decide (a = b)
  trunc q := if q ≥ 0 then q.floor else -((-q).floor)
  ceil q := ((-((-q).floor) : Int) : Rat)
  floor q := ((q.floor : Int) : Rat)
  round q := ((ratRound q : Int) : Rat)
  max a b := if a < b then b else a

end F1.MiniGo
