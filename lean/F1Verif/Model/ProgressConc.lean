/-
C01 — interleaving model of the iteration counters at the granularity of single atomic
operations. Thread identity is irrelevant for counting, so "any number of recorder threads,
each in the middle of `ActiveScenario.Run` / `RecordDroppedIteration`" is represented by the
number of records that have performed their metric observation but not yet their progress
increment (`inflight*`). The collector (serialised by the result mutex) is a sequential
program of micro-steps that interleaves freely with the recorders.

Record(o):        ⟨observe samples[o]⟩ ; ⟨period.count[o] += 1⟩
RecordDropped:    ⟨observe samples[dropped]⟩ ; ⟨dropped += 1⟩
collect(o):       ⟨held := swap period.count[o] 0⟩ ; ⟨life.count[o] += held⟩      (after fix D1)
legacy collect:   ⟨held := load period.count[o]⟩ ; ⟨life += held⟩ ; ⟨store period.count[o] 0⟩
Snapshot / Total: collect(success) ; collect(fail) ; ⟨read dropped⟩ ; publish
-/
namespace F1.ProgressConc

inductive Micro | takeS | mergeS | clearS | takeF | mergeF | clearF | readD
  deriving Repr, DecidableEq

inductive Ev
  | beginS | finishS      -- one Record(success): metric observation, then progress increment
  | beginF | finishF
  | beginD | finishD
  | colStart              -- the collector starts a Snapshot/Total (only when idle)
  | colStep               -- the collector performs its next micro-step
  deriving Repr, DecidableEq

structure State where
  pS : Nat := 0   -- period.count[success]
  pF : Nat := 0
  lS : Nat := 0   -- lifetime.count[success]
  lF : Nat := 0
  hS : Nat := 0   -- drained by the collector, not merged yet
  hF : Nat := 0
  dC : Nat := 0   -- dropped counter
  mS : Nat := 0   -- metric samples, label success
  mF : Nat := 0
  mD : Nat := 0
  iS : Nat := 0   -- records between their two steps
  iF : Nat := 0
  iD : Nat := 0
  aS : Nat := 0   -- ghost: completed Record(success)
  aF : Nat := 0
  aD : Nat := 0
  queue : List Micro := []     -- remaining micro-steps of the collect in progress
  snapS : Nat := 0             -- last published snapshot
  snapF : Nat := 0
  snapD : Nat := 0
  published : Nat := 0
  deriving Repr, DecidableEq

/-- `legacy = false`: drain by swap (current code). `legacy = true`: load, merge, then clear. -/
def program (legacy : Bool) : List Micro :=
  if legacy then [.takeS, .mergeS, .clearS, .takeF, .mergeF, .clearF, .readD]
  else [.takeS, .mergeS, .takeF, .mergeF, .readD]

def micro (legacy : Bool) (s : State) : Micro → State
  | .takeS => if legacy then { s with hS := s.pS } else { s with hS := s.pS, pS := 0 }
  | .mergeS => { s with lS := s.lS + s.hS, hS := 0 }
  | .clearS => { s with pS := 0 }
  | .takeF => if legacy then { s with hF := s.pF } else { s with hF := s.pF, pF := 0 }
  | .mergeF => { s with lF := s.lF + s.hF, hF := 0 }
  | .clearF => { s with pF := 0 }
  | .readD => { s with snapS := s.lS, snapF := s.lF, snapD := s.dC, published := s.published + 1 }

def step (legacy : Bool) (s : State) : Ev → Option State
  | .beginS => some { s with mS := s.mS + 1, iS := s.iS + 1 }
  | .finishS => if s.iS = 0 then none else some { s with iS := s.iS - 1, pS := s.pS + 1, aS := s.aS + 1 }
  | .beginF => some { s with mF := s.mF + 1, iF := s.iF + 1 }
  | .finishF => if s.iF = 0 then none else some { s with iF := s.iF - 1, pF := s.pF + 1, aF := s.aF + 1 }
  | .beginD => some { s with mD := s.mD + 1, iD := s.iD + 1 }
  | .finishD => if s.iD = 0 then none else some { s with iD := s.iD - 1, dC := s.dC + 1, aD := s.aD + 1 }
  | .colStart => if s.queue.isEmpty then some { s with queue := program legacy } else none
  | .colStep =>
    match s.queue with
    | [] => none
    | m :: rest => some { micro legacy s m with queue := rest }

def run (legacy : Bool) (s : State) : List Ev → Option State
  | [] => some s
  | e :: es => match step legacy s e with
    | none => none
    | some s' => run legacy s' es

/-- all recorders have finished and no collect is in progress -/
def quiescent (s : State) : Prop := s.iS = 0 ∧ s.iF = 0 ∧ s.iD = 0 ∧ s.queue = []

instance (s : State) : Decidable (quiescent s) := by unfold quiescent; infer_instance

/-- one complete, undisturbed collect -/
def totalEvents (legacy : Bool) : List Ev := .colStart :: (program legacy).map fun _ => .colStep

end F1.ProgressConc
