/-
C10 — model of the staged rate calculator (internal/trigger/staged/calculator.go) and of the ramp
rate function (internal/trigger/ramp/ramp_rate.go). Times are `Int` nanoseconds.

Two layers, as for C12: `interpF` is the interpolation as written (binary64, used by the driver for
the bit-exact tie), `interp` the same expression in exact arithmetic (`int(position·Δ)` becomes a
truncating integer division), about which the theorems are stated.
-/
namespace F1.Staged

structure Stage where
  s : Int      -- StartTarget
  e : Int      -- EndTarget
  d : Int      -- Duration (ns)
  deriving Repr, DecidableEq

/-- `RateCalculator.add`: the start target of a stage is the end target of the previous one, the
first one starts from 0 -/
def chain : Int → List (Int × Int) → List Stage
  | _, [] => []
  | prev, (d, t) :: rest => ⟨prev, t, d⟩ :: chain t rest

def mkStages (l : List (Int × Int)) : List Stage := chain 0 l

/-- the cursor loop of `Rate`: `for current < len && now.Sub(start)+1 > stages[current].Duration` -/
def skip : List Stage → Int → Int → List Stage × Int
  | [], start, _ => ([], start)
  | st :: rest, start, now =>
    if now - start + 1 > st.d then skip rest (start + st.d) now else (st :: rest, start)

/-- linear interpolation with truncation toward zero (exact arithmetic) -/
def interp (st : Stage) (o : Int) : Int := st.s + Int.tdiv (o * (st.e - st.s)) st.d

/-- … and as written: `StartTarget + int(float64(offset)/float64(Duration) * float64(End-Start))` -/
def interpF (st : Stage) (o : Int) : Int :=
  st.s + ((Float.ofInt o / Float.ofInt st.d) * Float.ofInt (st.e - st.s)).toInt64.toInt

/-- calculator state: the stages not yet elapsed (current first) and the start of the current one;
`start = none` until the first query when no explicit start time was given -/
structure Calc where
  rest  : List Stage
  start : Option Int
  deriving Repr, DecidableEq

def Calc.new (l : List (Int × Int)) (start : Option Int) : Calc := ⟨mkStages l, start⟩

def Calc.rateWith (f : Stage → Int → Int) (c : Calc) (now : Int) : Int × Calc :=
  let start := c.start.getD now
  let r := skip c.rest start now
  match r.1 with
  | [] => (0, ⟨[], some r.2⟩)
  | st :: _ => (f st (now - r.2), ⟨r.1, some r.2⟩)

def Calc.rate := Calc.rateWith interp
def Calc.rateF := Calc.rateWith interpF

def Calc.runWith (f : Stage → Int → Int) : Calc → List Int → List Int
  | _, [] => []
  | c, t :: ts => let r := c.rateWith f t; r.1 :: Calc.runWith f r.2 ts

/-- `MaxDuration` -/
def totalDuration (l : List Stage) : Int := (l.map (·.d)).sum

/-- the stateless shape: the rate at time `now` of a profile that started at `t0` -/
def shape (stages : List Stage) (t0 now : Int) : Int :=
  match (skip stages t0 now).1 with
  | [] => 0
  | st :: _ => interp st (now - (skip stages t0 now).2)

/-! ### ramp -/

structure Ramp where
  startRate : Int
  endRate   : Int
  duration  : Int
  deriving Repr, DecidableEq

/-- `rateFn` of `CalculateRampRate`: 0 strictly after the ramp duration -/
def Ramp.rateWith (f : Stage → Int → Int) (r : Ramp) (t0 now : Int) : Int :=
  if t0 + r.duration < now then 0 else f ⟨r.startRate, r.endRate, r.duration⟩ (now - t0)

def Ramp.rate := Ramp.rateWith interp
def Ramp.rateF := Ramp.rateWith interpF

end F1.Staged
