/-
C18 (and C05) — model of the periodic runner, internal/raterun/runner.go.

One goroutine selects over restart / next-schedule timer / ticker / cancellation. Timers and the
ticker are environment events (`tickDue`, `timerDue`) that leave a pending value in their channel
(buffer 1); the goroutine consumes them. `legacy = true` models the pinned tree, where the
`stopped` channel was closed by a defer in `Start` (i.e. as soon as `Start` returned).
-/
namespace F1.RateRun

inductive Phase | notStarted | idle | dispatching | inFn | exited
  deriving Repr, DecidableEq

inductive Ev
  | start          -- Start(ctx)
  | tickDue        -- the current schedule's ticker fires (environment)
  | timerDue       -- the next-schedule timer fires (environment)
  | restartCall    -- Restart(): one value into the restart channel (capacity 1)
  | recvRestart    -- goroutine: case <-r.restart: startFirst()
  | recvTimer      -- goroutine: case <-timeUntilNextSchedule(): startNext()
  | recvTick       -- goroutine: case <-currentScheduleTicker(): (yield point raterun.dispatch follows)
  | fnCall         -- goroutine: r.runFunction(currentFrequency()) is invoked
  | fnReturn
  | cancel         -- the context given to Start is cancelled (environment / caller)
  | stopCall       -- Stop(): r.cancel()
  | recvCancel     -- goroutine: case <-schedulesCtx.Done(): schedules.stop(); return  (closes `stopped`)
  | stopReturn     -- Stop() returns: `<-r.stopped` succeeded
  deriving Repr, DecidableEq

structure State where
  phase         : Phase := .notStarted
  cancelled     : Bool := false
  stoppedClosed : Bool := false
  idx           : Int := -1          -- currentScheduleIndex
  tickPending   : Bool := false
  timerPending  : Bool := false
  timerArmed    : Bool := true       -- newSchedules arms the timer for the first schedule
  restartBuf    : Bool := false
  stopCalled    : Bool := false
  stopReturned  : Bool := false
  -- ghost
  ticksDue      : Nat := 0
  calls         : Nat := 0
  callsAfterStop : Nat := 0          -- invocations begun after Stop() returned
  inFnAtStopReturn : Bool := false
  lastFreqIdx   : Int := -1          -- schedule index the last invocation was made with
  deriving Repr, DecidableEq

def alive (s : State) : Bool := s.phase == .idle || s.phase == .dispatching || s.phase == .inFn

/-- `schedules.start(index)` for a list of `n` schedules -/
def startSchedule (n : Nat) (s : State) (index : Int) : State :=
  if index ≥ n then s
  else { s with idx := index, tickPending := false, timerPending := false, timerArmed := decide (index + 1 < n) }

def step (legacy : Bool) (n : Nat) (s : State) : Ev → Option State
  | .start =>
    if s.phase = .notStarted then some { s with phase := .idle, stoppedClosed := legacy } else none
  | .tickDue =>
    -- a ticker exists from construction on; its value stays in the channel until consumed
    if s.phase ≠ .exited then some { s with tickPending := true, ticksDue := s.ticksDue + (if s.tickPending then 0 else 1) } else none
  | .timerDue =>
    if s.timerArmed ∧ s.phase ≠ .exited then some { s with timerPending := true, timerArmed := false } else none
  | .restartCall => if s.restartBuf then none else some { s with restartBuf := true }
  | .recvRestart =>
    if s.phase = .idle ∧ s.restartBuf then some (startSchedule n { s with restartBuf := false } 0) else none
  | .recvTimer =>
    if s.phase = .idle ∧ s.timerPending then some (startSchedule n { s with timerPending := false } (s.idx + 1)) else none
  | .recvTick =>
    if s.phase = .idle ∧ s.tickPending then some { s with phase := .dispatching, tickPending := false } else none
  | .fnCall =>
    if s.phase = .dispatching then
      some { s with phase := .inFn, calls := s.calls + 1, lastFreqIdx := s.idx,
                    callsAfterStop := s.callsAfterStop + (if s.stopReturned then 1 else 0) }
    else none
  | .fnReturn => if s.phase = .inFn then some { s with phase := .idle } else none
  | .cancel => some { s with cancelled := true }
  | .stopCall => if s.phase ≠ .notStarted then some { s with cancelled := true, stopCalled := true } else none
  | .recvCancel =>
    if s.phase = .idle ∧ s.cancelled then
      some { s with phase := .exited, stoppedClosed := true, tickPending := false, timerPending := false, timerArmed := false }
    else none
  | .stopReturn =>
    if s.stopCalled ∧ s.stoppedClosed ∧ ¬ s.stopReturned then
      some { s with stopReturned := true, inFnAtStopReturn := decide (s.phase = .inFn ∨ s.phase = .dispatching) }
    else none

def run (legacy : Bool) (n : Nat) (s : State) : List Ev → Option State
  | [] => some s
  | e :: es => match step legacy n s e with
    | none => none
    | some s' => run legacy n s' es

end F1.RateRun
