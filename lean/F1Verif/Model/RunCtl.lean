/-
C05 — model of the end-of-run interplay between the run controller (`Run.Do` / `run`,
internal/run/test_runner.go), the result's `sync.RWMutex` (internal/run/result.go; read paths nest:
`Teardown`, `Summary`, `Setup`, `Failed` take the read lock and call `Error()`/`Failed()` which take
it again) and the progress runner (internal/raterun), whose function takes the write lock
(`SnapshotProgress`) and then two read locks.

Go's RWMutex: a writer announces itself first; from then on new readers block; the writer is
granted when no reader and no writer holds the lock.
-/
namespace F1.RunCtl

inductive Act
  | rl | ru            -- RLock / RUnlock
  | wAnn | wAcq | wu   -- Lock (announce, then acquire) / Unlock
  | cancelRunner       -- progressRunner.Stop(): r.cancel()
  | waitRunner         -- progressRunner.Stop(): <-r.stopped
  deriving Repr, DecidableEq

/-- the progress function is: SnapshotProgress (W), Progress (R), HasDroppedIterations (R) -/
inductive Ev | main | runner | tickDue | recvTick | runnerExit
  deriving Repr, DecidableEq

/-- `rpos` is the runner's program counter inside the progress function, counted from the end:
7 `Lock` announce · 6 acquire · 5 `Unlock` · 4 `RLock` · 3 `RUnlock` · 2 `RLock` · 1 `RUnlock` · 0 idle (at the select) -/
structure State where
  legacy    : Bool
  readers   : Nat := 0
  writer    : Bool := false
  ww        : Nat := 0
  main      : List Act
  mainR     : Nat := 0
  mainW     : Bool := false
  mainAnn   : Bool := false       -- main has announced a `Lock` and waits to acquire it
  stopped   : Bool := false       -- main is past `waitRunner`
  rpos      : Nat := 0
  alive     : Bool := true
  cancelled : Bool := false
  tick      : Bool := false
  deriving Repr, DecidableEq

def doMain (s : State) : Option State :=
  match s.main with
  | [] => none
  | a :: rest =>
    match a with
    | .rl => if s.writer = false ∧ s.ww = 0 then some { s with main := rest, readers := s.readers + 1, mainR := s.mainR + 1 } else none
    | .ru => if s.mainR > 0 ∧ s.readers > 0 then some { s with main := rest, readers := s.readers - 1, mainR := s.mainR - 1 } else none
    | .wAnn => some { s with main := rest, ww := s.ww + 1, mainAnn := true }
    | .wAcq => if s.readers = 0 ∧ s.writer = false ∧ s.ww > 0 then some { s with main := rest, ww := s.ww - 1, writer := true, mainW := true, mainAnn := false } else none
    | .wu => if s.mainW = true then some { s with main := rest, writer := false, mainW := false } else none
    | .cancelRunner => some { s with main := rest, cancelled := true }
    | .waitRunner => if s.legacy = true ∨ s.alive = false then some { s with main := rest, stopped := true } else none

def doRunner (s : State) : Option State :=
  if s.rpos = 7 then some { s with rpos := 6, ww := s.ww + 1 }
  else if s.rpos = 6 then (if s.readers = 0 ∧ s.writer = false ∧ s.ww > 0 then some { s with rpos := 5, ww := s.ww - 1, writer := true } else none)
  else if s.rpos = 5 then some { s with rpos := 4, writer := false }
  else if s.rpos = 4 ∨ s.rpos = 2 then (if s.writer = false ∧ s.ww = 0 then some { s with rpos := s.rpos - 1, readers := s.readers + 1 } else none)
  else if s.rpos = 3 ∨ s.rpos = 1 then (if s.readers > 0 then some { s with rpos := s.rpos - 1, readers := s.readers - 1 } else none)
  else none

def step (s : State) : Ev → Option State
  | .main => doMain s
  | .runner => doRunner s
  | .tickDue => if s.alive = true then some { s with tick := true } else none
  | .recvTick => if s.alive = true ∧ s.rpos = 0 ∧ s.tick = true then some { s with tick := false, rpos := 7 } else none
  | .runnerExit => if s.alive = true ∧ s.rpos = 0 ∧ s.cancelled = true then some { s with alive := false, tick := false } else none

def run (s : State) : List Ev → Option State
  | [] => some s
  | e :: es => match step s e with
    | none => none
    | some s' => run s' es

/-- Discipline of the controller's program, a property of the program text alone (`r`, `w`, `ann`:
read locks held, write lock held, `Lock` announced; `pre`: the runner has not been stopped yet;
`canc`: the runner's cancel has been issued): locks are released by their holder, a write lock is
never requested while holding any lock, a read lock never while holding or awaiting the write lock,
the runner is awaited only after its cancel and while holding nothing, and before the runner has
been stopped read locks do not nest. -/
def disc : List Act → Nat → Bool → Bool → Bool → Bool → Bool
  | [], r, w, ann, _, _ => r == 0 && !w && !ann
  | .rl :: rest, r, w, ann, pre, c => !w && !ann && (!pre || r == 0) && disc rest (r + 1) w ann pre c
  | .ru :: rest, r, w, ann, pre, c => decide (r > 0) && !ann && disc rest (r - 1) w ann pre c
  | .wAnn :: rest, r, w, ann, pre, c => r == 0 && !w && !ann && disc rest 0 false true pre c
  | .wAcq :: rest, r, w, ann, pre, c => r == 0 && !w && ann && disc rest 0 true false pre c
  | .wu :: rest, r, w, ann, pre, c => w && r == 0 && !ann && disc rest 0 false false pre c
  | .cancelRunner :: rest, r, w, ann, pre, _ => pre && disc rest r w ann pre true
  | .waitRunner :: rest, r, w, ann, pre, c => pre && c && r == 0 && !w && !ann && disc rest 0 false false false c

def wOp : List Act := [.wAnn, .wAcq, .wu]
def rOp : List Act := [.rl, .ru]
def rrOp : List Act := [.rl, .rl, .ru, .ru]                       -- Teardown() / Setup(): RLock, Error()
def summaryOp : List Act := [.rl, .rl, .ru, .rl, .rl, .ru, .ru, .ru]  -- Summary(): RLock, Error(), Failed() → Error()

/-- the controller after the trigger phase, as in `run`'s deferred RecordTestFinished and `Do`:
RecordTestFinished (W), Stop, GetTotals (W), [AddError (W)], Teardown render (R∘R), Summary -/
def doTail (teardownFailed : Bool) : List Act :=
  wOp ++ [.cancelRunner, .waitRunner] ++ wOp ++ (if teardownFailed then wOp else []) ++ rrOp ++ summaryOp

def init (legacy : Bool) (main : List Act) : State := { legacy := legacy, main := main }

end F1.RunCtl
