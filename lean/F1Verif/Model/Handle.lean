/-
C06 / C07 / C20 — model of the per-iteration test handle (`pkg/f1/testing/t.go`: Fail, FailNow,
Error*, Fatal*, Require, Cleanup, CheckResults/handlePanic, teardown, Reset), of
`ActiveScenario.Setup/Run` (internal/workers/active_scenario.go) and of `CombineScenarios`
(pkg/f1/f1_scenarios.go). Scenario programs are data.
-/
namespace F1.Handle

inductive PanicKind | err | str | val | rt | nil
  deriving Repr, DecidableEq

/-- what a setup function, an iteration body or a cleanup can do with its handle -/
inductive Act
  | reg (c : Nat)        -- t.Cleanup(cleanup c)
  | fail                 -- t.Fail()
  | error                -- t.Error(err) / t.Errorf(..)
  | failNow              -- t.FailNow()
  | fatal                -- t.Fatal(err) / t.Fatalf(..)
  | require              -- a failed t.Require() assertion
  | panic (k : PanicKind)
  | log (x : Nat)        -- an observable event of the program itself
  deriving Repr, DecidableEq

abbrev Prog := List Act

/-- `testing.T` -/
structure T where
  failed         : Bool := false
  teardownFailed : Bool := false
  tearingDown    : Bool := false
  stack          : List Nat := []
  deriving Repr, DecidableEq

inductive Ev
  | setup (k : Nat)
  | body (iter k : Nat)
  | cleanup (c : Nat)
  | log (x : Nat)
  | ran (iter : Nat)
  | teardown
  deriving Repr, DecidableEq

/-- `Fail()` : routed by the tearingDown flag -/
def T.mark (t : T) : T :=
  if t.tearingDown then { t with teardownFailed := true } else { t with failed := true }

/-- `Reset` -/
def T.reset (_t : T) : T := {}

/-- a program run inside `func() { defer CheckResults(t, nil); … }()`. Returns the handle, the log
and whether the program was stopped (FailNow sentinel or any other panic, both recovered). -/
def exec : Prog → T → List Ev → T × List Ev × Bool
  | [], t, l => (t, l, false)
  | .reg c :: rest, t, l => exec rest { t with stack := t.stack ++ [c] } l
  | .fail :: rest, t, l => exec rest t.mark l
  | .error :: rest, t, l => exec rest t.mark l
  | .failNow :: _, t, l => (t.mark, l, true)
  | .fatal :: _, t, l => (t.mark, l, true)
  | .require :: _, t, l => (t.mark, l, true)
  | .panic _ :: _, t, l => (t.mark, l, true)
  | .log x :: rest, t, l => exec rest t (l ++ [.log x])

/-- `T.teardown`: every cleanup registered so far, last registered first, each individually
recovered. Cleanups registered *during* teardown are appended to the stack but the index loop
never reaches them. -/
def teardownFrom (cleanups : Nat → Prog) : List Nat → T → List Ev → T × List Ev
  | [], t, l => (t, l)
  | c :: cs, t, l =>
    let r := exec (cleanups c) t (l ++ [.cleanup c])
    teardownFrom cleanups cs r.1 r.2.1

def teardown (cleanups : Nat → Prog) (t : T) (l : List Ev) : T × List Ev :=
  teardownFrom cleanups t.stack.reverse { t with tearingDown := true } l

/-- the iteration closure of `CombineScenarios`: `for _, r := range run { r(t) }` — a component
that stops (FailNow / panic) unwinds the loop -/
def execComps (mk : Nat → Ev) : List Prog → Nat → T → List Ev → T × List Ev × Bool
  | [], _, t, l => (t, l, false)
  | p :: ps, k, t, l =>
    let r := exec p t (l ++ [mk k])
    if r.2.2 then (r.1, r.2.1, true) else execComps mk ps (k + 1) r.1 r.2.1

/-- `ActiveScenario.Run` preceded by the worker's `Reset`: returns the handle, the log and the
outcome that is recorded for the iteration. -/
def runIter (cleanups : Nat → Prog) (bodies : List Prog) (iter : Nat) (t : T) (l : List Ev) :
    T × List Ev × Bool :=
  let t := t.reset
  let r := execComps (Ev.body iter) bodies 0 t l
  let failed := r.1.failed
  let td := teardown cleanups r.1 r.2.1
  (td.1, td.2 ++ [.ran iter], failed)

structure Scenario where
  setups   : List Prog                 -- one per component
  bodies   : Nat → List Prog           -- per iteration number (1-based), one per component
  cleanups : Nat → Prog

structure Result where
  log            : List Ev
  outcomes       : List Bool           -- reported failed?, per iteration
  setupFailed    : Bool
  teardownFailed : Bool
  deriving Repr, DecidableEq

def iterate (sc : Scenario) : Nat → Nat → T → List Ev → List Bool → List Ev × List Bool
  | 0, _, _, l, o => (l, o)
  | n + 1, i, t, l, o =>
    let r := runIter sc.cleanups (sc.bodies i) i t l
    iterate sc n (i + 1) r.1 r.2.1 (o ++ [r.2.2])

/-- setup, `iters` iterations on one worker (none if setup failed), then teardown of the setup
handle — the placement that `Run.Do` gives them -/
def runAll (sc : Scenario) (iters : Nat) : Result :=
  let s := execComps Ev.setup sc.setups 0 {} []
  let setupFailed := s.1.failed
  let it := if setupFailed then (s.2.1, []) else iterate sc iters 1 {} s.2.1 []
  let td := teardown sc.cleanups s.1 (it.1 ++ [.teardown])
  { log := td.2, outcomes := it.2, setupFailed := setupFailed, teardownFailed := td.1.teardownFailed }

/-! ### specification-side helpers (what the properties are stated with) -/

def Act.stops : Act → Bool
  | .failNow | .fatal | .require | .panic _ => true
  | _ => false

def Act.marks : Act → Bool
  | .fail | .error | .failNow | .fatal | .require | .panic _ => true
  | _ => false

/-- the part of a program that actually executes: up to and including the first stopping action -/
def executed : Prog → Prog
  | [] => []
  | a :: rest => if a.stops then [a] else a :: executed rest

def Prog.stops (p : Prog) : Bool := (executed p).any Act.stops

/-- cleanup ids registered by the executed part, in registration order -/
def registered (p : Prog) : List Nat :=
  (executed p).filterMap fun a => match a with | .reg c => some c | _ => none

/-- does the executed part mark a failure? -/
def marksFailure (p : Prog) : Bool := (executed p).any Act.marks

/-- the components of a combined body that actually run: up to and including the first that stops -/
def executedComps : List Prog → List Prog
  | [] => []
  | p :: ps => if p.stops then [p] else p :: executedComps ps

def cleanupIds (l : List Ev) : List Nat :=
  l.filterMap fun e => match e with | .cleanup c => some c | _ => none

end F1.Handle
