/-
C03 / C04 (users mode) — model of `ContinuousPool` (internal/workers/continuous_pool.go) with the iteration counter of
`PoolManager.NextIteration`, for any number `W` of workers (count abstraction: how many workers are at the loop
test, executing an iteration, gone).

`stop` is the pool's `stopWorkers` flag; it is raised by a watcher goroutine once the worker context is cancelled
(`cancelReq`), and the context is cancelled either from outside (`ext`: max-duration, interrupt, end of a stage) or by
a worker whose `NextIteration` was refused (`maxIterationsReached`).
-/
namespace F1.CPool

structure State where
  W        : Nat
  limit    : Nat          -- 0 = no limit
  counter  : Nat := 0     -- PoolManager.iteration
  idle     : Nat          -- workers at the loop test
  running  : Nat := 0     -- workers executing an iteration
  gone     : Nat := 0     -- workers that have returned
  stop     : Bool := false
  cancelReq : Bool := false
  ext      : Bool := false
  started  : Nat := 0
  finished : Nat := 0
  deriving Repr, DecidableEq

def init (W limit : Nat) : State := { W := W, limit := limit, idle := W }

inductive Ev | take | finish | exit | cancelExt | watch
  deriving Repr, DecidableEq

def step (s : State) : Ev → Option State
  | .take =>
    -- `for !stopWorkers.Load() { iteration, err := NextIteration() …`
    if s.idle > 0 ∧ s.stop = false then
      if s.limit > 0 ∧ s.counter + 1 > s.limit then
        some { s with counter := s.counter + 1, idle := s.idle - 1, gone := s.gone + 1, cancelReq := true }
      else
        some { s with counter := s.counter + 1, idle := s.idle - 1, running := s.running + 1, started := s.started + 1 }
    else none
  | .finish =>
    if s.running > 0 then some { s with running := s.running - 1, idle := s.idle + 1, finished := s.finished + 1 } else none
  | .exit =>
    if s.idle > 0 ∧ s.stop = true then some { s with idle := s.idle - 1, gone := s.gone + 1 } else none
  | .cancelExt => some { s with cancelReq := true, ext := true }
  | .watch => if s.cancelReq = true ∧ s.stop = false then some { s with stop := true } else none

def run (s : State) : List Ev → Option State
  | [] => some s
  | e :: es => match step s e with
    | none => none
    | some s' => run s' es

end F1.CPool
