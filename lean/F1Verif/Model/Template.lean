/-
C19 — a small interpreter for the subset of Go's text/template that f1's result and progress
templates use: literal text, `{{if .Field}} … {{else}} … {{end}}`, and output actions (field
access, function calls, pipelines), with the `{{-` / `-}}` trim markers. Evaluation is *symbolic*:
an output action is not computed but emitted as a token carrying its source, and `if` consults a
truth assignment for the named field. Everything is structural recursion over `List Char`, so the
kernel can evaluate it.
-/
namespace F1.Template

inductive Tok
  | text (s : String)
  | action (src : String) (trimL trimR : Bool)
  deriving Repr, DecidableEq

def isWs (c : Char) : Bool := c = ' ' || c = '\n' || c = '\t' || c = '\r'

def dropWsL : List Char → List Char
  | [] => []
  | c :: cs => if isWs c then dropWsL cs else c :: cs

def trimL (cs : List Char) : List Char := dropWsL cs
def trimR (cs : List Char) : List Char := (dropWsL cs.reverse).reverse

/-- split off the action body up to the closing `}}` -/
def takeAction : List Char → List Char → Option (List Char × List Char)
  | [], _ => none
  | '}' :: '}' :: rest, acc => some (acc.reverse, rest)
  | c :: rest, acc => takeAction rest (c :: acc)

/-- lexer: text and `{{…}}` actions; fuel bounds the number of actions -/
def lex (fuel : Nat) (cs : List Char) (cur : List Char) : List Tok :=
  match fuel with
  | 0 => []
  | fuel + 1 =>
    match cs with
    | [] => if cur.isEmpty then [] else [.text (String.ofList cur.reverse)]
    | '{' :: '{' :: rest =>
      match takeAction rest [] with
      | none => [.text (String.ofList (cur.reverse ++ cs))]
      | some (body, after) =>
        let tl := body.head? = some '-'
        let body1 := if tl then body.drop 1 else body
        let tr := body1.getLast? = some '-'
        let body2 := if tr then body1.dropLast else body1
        let src := String.ofList (trimR (trimL body2))
        (if cur.isEmpty then [] else [.text (String.ofList cur.reverse)]) ++
          .action src tl tr :: lex fuel after []
    | c :: rest => lex fuel rest (c :: cur)

/-- apply the trim markers: `{{-` trims the text before, `-}}` the text after (`tn`: the previous
action ended with `-}}`) -/
def applyTrim : List Tok → Bool → List Tok
  | [], _ => []
  | .text s :: rest, tn =>
    let s1 := if tn then trimL s.toList else s.toList
    let s2 := match rest with
      | .action _ true _ :: _ => trimR s1
      | _ => s1
    .text (String.ofList s2) :: applyTrim rest false
  | .action a _ r :: rest, _ => .action a false false :: applyTrim rest r

inductive Out
  | lit (s : String)
  | expr (src : String)      -- an output action, e.g. `percent .FailedIterationCount .Iterations | printf "%0.2f"`
  deriving Repr, DecidableEq

def startsWith (p s : List Char) : Bool := s.take p.length == p

/-- evaluate with a truth assignment for the fields used as `if` conditions. `skip > 0`: inside a
branch that is not taken (nesting depth); `stack`: for each open `if`, whether its condition held and
whether we are in its else-branch. -/
def eval (truth : String → Bool) : List Tok → List (Bool × Bool) → Nat → List Out
  | [], _, _ => []
  | .text s :: rest, st, skip => (if skip = 0 ∧ s ≠ "" then [.lit s] else []) ++ eval truth rest st skip
  | .action a _ _ :: rest, st, skip =>
    if startsWith "if ".toList a.toList then
      let c := truth (String.ofList (a.toList.drop 3))
      if skip > 0 then eval truth rest ((c, false) :: st) (skip + 1)
      else eval truth rest ((c, false) :: st) (if c then 0 else 1)
    else if a = "else" then
      match st with
      | (c, _) :: st' =>
        if skip > 1 then eval truth rest ((c, true) :: st') skip
        else eval truth rest ((c, true) :: st') (if c then 1 else 0)
      | [] => [.lit "<unbalanced else>"]
    else if a = "end" then
      match st with
      | _ :: st' => eval truth rest st' (if skip > 0 then skip - 1 else 0)
      | [] => [.lit "<unbalanced end>"]
    else (if skip = 0 then [.expr a] else []) ++ eval truth rest st skip

/-- adjacent literals merged (`cur`: the literal being accumulated) -/
def merge : List Out → Option String → List Out
  | [], none => []
  | [], some c => [.lit c]
  | .lit a :: rest, none => merge rest (some a)
  | .lit a :: rest, some c => merge rest (some (c ++ a))
  | .expr e :: rest, none => .expr e :: merge rest none
  | .expr e :: rest, some c => .lit c :: .expr e :: merge rest none

def render (lines : List String) (truth : String → Bool) : List Out :=
  let src := ("\n".intercalate lines).toList
  merge (eval truth (applyTrim (lex (src.length + 1) src []) false) [] 0) none

/-- the result template after lexing and trim-marker handling -/
def resultToks : List Tok :=
[.text "\n",
 .action "if .Failed" false false,
 .text "{red}{bold}{u}Load Test Failed{-}",
 .action "else" false false,
 .text "{green}{bold}{u}Load Test Passed{-}",
 .action "end" false false,
 .text "",
 .action "if .Error" false false,
 .text "\n{red}Error: ",
 .action ".Error" false false,
 .text "{-}",
 .action "end" false false,
 .text "\n",
 .action ".IterationsStarted" false false,
 .text " iterations started in ",
 .action "duration .Duration" false false,
 .text " (",
 .action "rate .Duration .IterationsStarted" false false,
 .text "/second)",
 .action "if .SuccessfulIterationCount" false false,
 .text "\n{bold}Successful Iterations:{-} {green}",
 .action ".SuccessfulIterationCount" false false,
 .text " (",
 .action "percent .SuccessfulIterationCount .Iterations | printf \"%0.2f\"" false false,
 .text "%, ",
 .action "rate .Duration .SuccessfulIterationCount" false false,
 .text "/second){-} ",
 .action ".SuccessfulIterationDurations" false false,
 .text "",
 .action "end" false false,
 .text "",
 .action "if .FailedIterationCount" false false,
 .text "\n{bold}Failed Iterations:{-} {red}",
 .action ".FailedIterationCount" false false,
 .text " (",
 .action "percent .FailedIterationCount .Iterations | printf \"%0.2f\"" false false,
 .text "%, ",
 .action "rate .Duration .FailedIterationCount" false false,
 .text "){-} ",
 .action ".FailedIterationDurations" false false,
 .text "",
 .action "end" false false,
 .text "",
 .action "if .DroppedIterationCount" false false,
 .text "\n{bold}Dropped Iterations:{-} {yellow}",
 .action ".DroppedIterationCount" false false,
 .text " (",
 .action "percent .DroppedIterationCount .Iterations | printf \"%0.2f\"" false false,
 .text "%, ",
 .action "rate .Duration .DroppedIterationCount" false false,
 .text "){-} (consider increasing --concurrency setting)",
 .action "end" false false,
 .text "\n{bold}Full logs:{-} ",
 .action ".LogFilePath" false false,
 .text "\n"]

def lexTemplate (lines : List String) : List Tok :=
  applyTrim (lex ((("\n".intercalate lines).toList).length + 1) ("\n".intercalate lines).toList []) false


/-- the progress template after lexing -/
def progressToks : List Tok :=
[.text "{cyan}[",
 .action "durationSeconds .Duration | printf \"%5s\"" false false,
 .text "]{-}  {green}✔ ",
 .action "printf \"%5d\" .SuccessfulIterationCount" false false,
 .text "{-}  ",
 .action "if .DroppedIterationCount" false false,
 .text "{yellow}⦸ ",
 .action "printf \"%5d\" .DroppedIterationCount" false false,
 .text "{-}  ",
 .action "end" false false,
 .text "{red}✘ ",
 .action "printf \"%5d\" .FailedIterationCount" false false,
 .text "{-} {light_black}(",
 .action "rate .Period .SuccessfulIterationDurationsForPeriod.Count" false false,
 .text "/s){-}   ",
 .action ".SuccessfulIterationDurationsForPeriod" false false]

end F1.Template
