/-
C12 — model of `api.NewDistribution` (internal/trigger/api/iteration_distribution.go).

Three layers:
* `regStepF` — the regular distribution exactly as written, over Lean's `Float` (binary64,
  bit-identical to Go for + - * / ceil and int conversion). Used by the driver for the
  correspondence with the real code; opaque to the kernel, so nothing is proved about it.
* `regStepZ` — the same algorithm in exact arithmetic. Because the accumulator is rounded up
  to a multiple of 1/S (S = 10^7) after every addition it is always an integer number of
  grid units, and `ceil((a/S + r/N)·S)/S = (a + ⌈S·r/N⌉)/S`; the exact model therefore works in
  integers (grid units). The theorems of Props/C12 are about this layer; the driver runs both
  layers on every case and counts the cases on which their outputs differ ("float gap").
* `rndStep` — the random distribution; integers only, so model = code.
-/
namespace F1.Dist

/-- the rounding grid `10_000_000` of `withRegularDistribution` (tied to the source by the
generated fact `Generated.distScale`). -/
def scale : Nat := 10000000

/-- the distributed sub-tick, 100 ms in ns -/
def subTickNs : Int := 100000000

/-- `int(iterationDuration.Milliseconds() / distributedIterationDuration.Milliseconds())` -/
def tickSteps (intervalNs : Int) : Int := (intervalNs.tdiv 1000000).tdiv 100

inductive Kind | none | regular | random
  deriving DecidableEq, Repr

/-- does `NewDistribution` hand back the rate function and interval unchanged? -/
def passthrough (k : Kind) (intervalNs : Int) : Bool :=
  k == .none || decide (intervalNs ≤ subTickNs)

def ceilDiv (a : Int) (b : Int) : Int := -((-a) / b)

/-! ### regular distribution, exact arithmetic (grid units) -/

structure RegZ where
  rate      : Int
  acc       : Int      -- accumulated fractional rate, in units of 1/scale
  remaining : Nat
  evals     : Nat      -- how many times the underlying rate function has been called
  deriving Repr, DecidableEq

def RegZ.init : RegZ := ⟨0, 0, 0, 0⟩

/-- `if remainingSteps == 0 { rate = rateFn(time); accRate = 0; remainingSteps = tickSteps }` -/
def RegZ.reload (N : Nat) (rates : Nat → Int) (s : RegZ) : RegZ :=
  if s.remaining = 0 then ⟨rates s.evals, 0, N, s.evals + 1⟩ else s

/-- per-step increment in grid units: `⌈S·r/N⌉` -/
def inc (N : Nat) (r : Int) : Int := ceilDiv ((scale : Int) * r) N

def RegZ.advance (N : Nat) (s : RegZ) : RegZ × Int :=
  let acc' := s.acc + inc N s.rate
  if acc' < (scale : Int) then
    ({ s with acc := acc', remaining := s.remaining - 1 }, 0)
  else
    ({ s with acc := acc' % (scale : Int), remaining := s.remaining - 1 }, acc' / (scale : Int))

def regStepZ (N : Nat) (rates : Nat → Int) (s : RegZ) : RegZ × Int :=
  (s.reload N rates).advance N

def runZ (N : Nat) (rates : Nat → Int) : Nat → RegZ → RegZ × List Int
  | 0, s => (s, [])
  | k + 1, s =>
    let r := regStepZ N rates s
    let rest := runZ N rates k r.1
    (rest.1, r.2 :: rest.2)

/-! ### regular distribution, as written (binary64) -/

structure RegF where
  rate      : Int
  acc       : Float
  remaining : Nat
  evals     : Nat

def RegF.init : RegF := ⟨0, 0.0, 0, 0⟩

def regStepF (N : Nat) (rates : Nat → Int) (s : RegF) : RegF × Int :=
  let s := if s.remaining = 0 then { rate := rates s.evals, acc := 0.0, remaining := N, evals := s.evals + 1 } else s
  let acc := s.acc + Float.ofInt s.rate / Float.ofNat N
  let acc := (acc * 10000000.0).ceil / 10000000.0
  let rem := s.remaining - 1
  if acc < 1.0 then ({ s with acc := acc, remaining := rem }, 0)
  else
    let rounded : Int := acc.toInt64.toInt
    ({ s with acc := acc - Float.ofInt rounded, remaining := rem }, rounded)

/-! ### random distribution -/

structure Rnd where
  remRate   : Int
  remaining : Nat
  evals     : Nat
  draws     : Nat
  deriving Repr, DecidableEq

def Rnd.init : Rnd := ⟨0, 0, 0, 0⟩

/-- `rand draw arg` is the value the random source returns on its `draw`-th call when asked for
`Intn(arg)`; the theorems quantify over every such function with non-negative values. -/
def rndStep (N : Nat) (rates : Nat → Int) (rand : Nat → Int → Int) (s : Rnd) : Rnd × Int :=
  let s := if s.remaining = 0 then { s with remRate := rates s.evals, remaining := N, evals := s.evals + 1 } else s
  let (cur, draws) :=
    if s.remaining = 1 ∨ s.remRate ≤ 0 then (s.remRate, s.draws)
    else
      let c := rand s.draws s.remRate
      ((if c > s.remRate then s.remRate else c), s.draws + 1)
  let s' := { s with remRate := s.remRate - cur, remaining := s.remaining - 1, draws := draws }
  (s', if cur < 1 then 0 else cur)

def runRnd (N : Nat) (rates : Nat → Int) (rand : Nat → Int → Int) : Nat → Rnd → Rnd × List Int
  | 0, s => (s, [])
  | k + 1, s =>
    let r := rndStep N rates rand s
    let rest := runRnd N rates rand k r.1
    (rest.1, r.2 :: rest.2)

/-! ### the property, over observable outputs -/

def sumL (l : List Int) : Int := l.sum

/-- split a list into consecutive chunks of length `n` (a trailing partial chunk is kept) -/
def chunks (n : Nat) (l : List Int) : List (List Int) :=
  if _h : n = 0 ∨ l = [] then [] else
    l.take n :: chunks n (l.drop n)
termination_by l.length
decreasing_by
  have : l ≠ [] := fun e => _h (Or.inr e)
  have : 0 < l.length := List.length_pos_iff.mpr this
  simp only [List.length_drop]; omega

def allNonneg (l : List Int) : Bool := l.all (· ≥ 0)

def spread (l : List Int) : Int :=
  match l with
  | [] => 0
  | x :: xs => xs.foldl max x - xs.foldl min x

/-- Spec for one complete cycle of a distributed rate: non-negative, sums to the cycle's rate,
and (regular only) even. -/
def cycleOk (regular : Bool) (rate : Int) (outs : List Int) : Bool :=
  allNonneg outs && decide (sumL outs = rate) && (!regular || decide (spread outs ≤ 1))

end F1.Dist
