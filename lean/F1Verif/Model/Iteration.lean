/-
C03 — model of `PoolManager.NextIteration` / `MaxIterationsReached`
(internal/workers/pool_manager.go). `NextIteration` is one atomic add followed by a comparison on
the returned value, so every concurrent history of calls is a sequence of calls.
-/
namespace F1.Iteration

/-- one call: the new counter and the id handed out (`none` = refused, limit reached) -/
def next (limit : Nat) (c : Nat) : Nat × Option Nat :=
  (c + 1, if limit > 0 ∧ c + 1 > limit then none else some (c + 1))

def reached (limit : Nat) (c : Nat) : Bool := decide (limit > 0 ∧ c > limit)

/-- `k` consecutive calls from counter `c`: the ids handed out, in order -/
def calls (limit : Nat) : Nat → Nat → List (Option Nat)
  | 0, _ => []
  | k + 1, c => (next limit c).2 :: calls limit k (next limit c).1

def accepted (l : List (Option Nat)) : List Nat := l.filterMap id

end F1.Iteration
