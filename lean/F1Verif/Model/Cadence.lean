/-
C09 — model of `api.NewIterationWorker` (internal/trigger/api/iteration_worker.go) over an abstract
ticker: one rate evaluation immediately, then one per tick received, each evaluation's value handed
to the pool unchanged. Times are `Int` ns. The ticker (created after the first evaluation) is an
environment that delivers its k-th tick no earlier than `created + k·interval` and buffers at most
one tick (Go's `time.Ticker` contract, assumed).
-/
namespace F1.Cadence

inductive Ev
  | evalFirst (t : Int) (v : Int)     -- startRate := rate(time.Now())
  | request (v : Int)                 -- pool.Trigger(workerCtx, v)
  | createTicker (t : Int)            -- time.NewTicker(interval)
  | deliver (t : Int)                 -- environment: the ticker fires (dropped if one is still buffered)
  | recvEval (t : Int) (v : Int)      -- case start := <-ticker.C: iterationRate := rate(start)
  | stop                              -- case <-workerCtx.Done(): return
  deriving Repr, DecidableEq

inductive Pc | init | haveFirst | ready | haveValue | stopped
  deriving Repr, DecidableEq

structure State where
  interval  : Int
  pc        : Pc := .init
  t0        : Int := 0          -- time of the first evaluation
  created   : Int := 0          -- ticker creation time
  delivered : Nat := 0          -- ticks the ticker has fired so far
  lastDeliv : Int := 0          -- time of the last delivery
  buffered  : Bool := false
  value     : Int := 0          -- value of the evaluation not yet requested
  evals     : List (Int × Int) := []   -- (time, value), newest first
  requests  : List Int := []            -- newest first
  now       : Int := 0          -- time of the last timed event (times never go backwards)
  deriving Repr, DecidableEq

def step (s : State) : Ev → Option State
  | .evalFirst t v => if s.pc = .init then some { s with pc := .haveFirst, t0 := t, now := t, value := v, evals := [(t, v)] } else none
  | .request v =>
    if (s.pc = .haveFirst ∨ s.pc = .haveValue) ∧ v = s.value then
      some { s with pc := if s.pc = .haveFirst then .haveFirst else .ready, requests := v :: s.requests,
                    value := s.value }
    else none
  | .createTicker t =>
    -- after the first request
    if s.pc = .haveFirst ∧ s.requests.length = 1 ∧ s.now ≤ t then some { s with pc := .ready, created := t, now := t } else none
  | .deliver t =>
    -- the (delivered+1)-th tick: no earlier than created + (delivered+1)·interval
    if (s.pc = .ready ∨ s.pc = .haveValue) ∧ s.created + (s.delivered + 1 : Nat) * s.interval ≤ t ∧ s.now ≤ t then
      some { s with delivered := s.delivered + 1, lastDeliv := t, buffered := true, now := t }
    else none
  | .recvEval t v =>
    if s.pc = .ready ∧ s.buffered ∧ s.now ≤ t then
      some { s with pc := .haveValue, buffered := false, value := v, evals := (t, v) :: s.evals, now := t }
    else none
  | .stop => if s.pc = .ready then some { s with pc := .stopped } else none

def run (s : State) : List Ev → Option State
  | [] => some s
  | e :: es => match step s e with
    | none => none
    | some s' => run s' es

end F1.Cadence
