/-
C14 / C15 — model of the per-mode rate calculators' validation (`Calculate*Rate`,
`api.NewDistribution`) and of `file.ParseConfigFile` over the *decoded* config
(internal/trigger/file/file_parser.go). YAML decoding (gopkg.in/yaml.v3) is an external call: the
model starts from the decoded structure, every field optional.
-/
import F1Verif.Model.Parse
namespace F1.Plan
open F1.Parse

def subTick : Int := 100000000

def str (s : String) : Bytes := s.toUTF8.toList.map UInt8.toNat

-- the keywords as literal byte strings (so that the kernel can evaluate comparisons)
def b_none : Bytes := [110, 111, 110, 101]
def b_regular : Bytes := [114, 101, 103, 117, 108, 97, 114]
def b_random : Bytes := [114, 97, 110, 100, 111, 109]
def b_constant : Bytes := [99, 111, 110, 115, 116, 97, 110, 116]
def b_ramp : Bytes := [114, 97, 109, 112]
def b_staged : Bytes := [115, 116, 97, 103, 101, 100]
def b_gaussian : Bytes := [103, 97, 117, 115, 115, 105, 97, 110]
def b_users : Bytes := [117, 115, 101, 114, 115]

/-- `api.NewDistribution` as far as the returned tick interval and the error are concerned -/
def newDistribution (kind : Bytes) (interval : Int) : Res Int :=
  if interval ≤ 0 then .err
  else if kind = b_none then .ok interval
  else if kind = b_regular ∨ kind = b_random then .ok (if interval ≤ subTick then interval else subTick)
  else .err

def _root_.F1.Parse.Res.bind {α β} (r : Res α) (f : α → Res β) : Res β :=
  match r with | .ok v => f v | .err => .err | .crash => .crash

/-- `constant.CalculateConstantRate`: tick interval of the resulting trigger -/
def calcConstant (rate dist : Bytes) : Res Int :=
  (parseRate rate).bind fun p => newDistribution dist p.2

/-- `ramp.CalculateRampRate` -/
def calcRamp (startRate endRate dist : Bytes) (duration : Int) : Res Int :=
  (parseRate startRate).bind fun s => (parseRate endRate).bind fun e =>
    if s.1 = e.1 then .err
    else if s.2 ≠ e.2 then .err
    else if duration < s.2 then .err
    else newDistribution dist s.2

/-- `staged.CalculateStagedRate` -/
def calcStaged (freq : Int) (stages dist : Bytes) : Res Int :=
  (parseStages stages).bind fun _ => newDistribution dist freq

/-- a weight the generator may produce and `strconv.ParseFloat` accepts: `[+-]?d+(.d*)?` or `[+-]?.d+` -/
def isSimpleFloat (s : Bytes) : Bool :=
  let s := match s with | 43 :: r => r | 45 :: r => r | _ => s
  let ip := s.takeWhile isDigit
  let rest := s.drop ip.length
  match rest with
  | [] => !ip.isEmpty
  | 46 :: fr => fr.all isDigit && (!ip.isEmpty || !fr.isEmpty)
  | _ => false

/-- `gaussian.CalculateGaussianRate`. `derivable` is an input of the model: whether `NewCalculator` can derive a
rate at all — the repeat window covers a non-zero part of the distribution (in binary64: `CDF(repeat − frequency) −
CDF(0) > 0`) and the weights do not sum to zero. It is decided by float `erfc`, which is outside the model; the driver
supplies it (after the `fix:` commit for D17 the code refuses the configuration otherwise). -/
def calcGaussian (freq stddev : Int) (weights dist : Bytes) (derivable : Bool := true) : Res Int :=
  if ((splitOn 44 weights).filter (fun w => !w.isEmpty)).all isSimpleFloat then
    if stddev ≤ 0 then .err else if !derivable then .err else newDistribution dist freq
  else .err

/-! ### the decoded config file -/

structure StageCfg where
  mode               : Option Bytes := none
  startRate          : Option Bytes := none
  endRate            : Option Bytes := none
  rate               : Option Bytes := none
  distribution       : Option Bytes := none
  weights            : Option Bytes := none
  stages             : Option Bytes := none
  concurrency        : Option Int := none
  jitter             : Option Int := none       -- percent (the generator writes integers)
  volume             : Option Unit := none
  duration           : Option Int := none
  iterationFrequency : Option Int := none
  repeat_            : Option Int := none
  peak               : Option Int := none
  stddev             : Option Int := none
  parameters         : Option (List (String × String)) := none
  gaussDerivable     : Bool := true      -- oracle input for a gaussian stage, see `calcGaussian`
  deriving Repr, DecidableEq

structure Limits where
  maxDuration     : Option Int := none
  concurrency     : Option Int := none
  maxIterations   : Option Nat := none
  maxFailures     : Option Nat := none
  maxFailuresRate : Option Int := none
  ignoreDropped   : Option Bool := none
  deriving Repr, DecidableEq

structure Config where
  scenario   : Option String := none
  default_   : StageCfg := {}
  limits     : Limits := {}
  stageStart : Option Int := none     -- ns, same origin as `now`
  stages     : List StageCfg := []
  deriving Repr, DecidableEq

/-- a runnable stage as far as it is observable -/
structure RStage where
  duration    : Int
  interval    : Int          -- tick interval of a rate-driven stage, 0 for users
  users       : Int          -- users concurrency, 0 for a rate-driven stage
  params      : List (String × String)
  jitter      : Int := 0     -- jitter percent the stage's rate function was built with (0 for users)
  distNone    : Bool := false  -- rate-driven stage whose resolved distribution is "none"
  constant    : Bool := false  -- mode constant
  deriving Repr, DecidableEq

structure PlanOut where
  scenario        : String
  stages          : List RStage
  total           : Int
  maxDuration     : Int
  concurrency     : Int
  maxIterations   : Nat
  maxFailures     : Nat
  maxFailuresRate : Int
  ignoreDropped   : Bool
  deriving Repr, DecidableEq

/-- field inheritance: the stage's value if present, else the default section's -/
def inh {α} (a b : Option α) : Option α := match a with | some x => some x | none => b

def req {α β} (o : Option α) (f : α → Res β) : Res β := match o with | some x => f x | none => .err

/-- `parseStage`: mode-specific validation with defaults, then the calculator -/
def parseStage (s d : StageCfg) (mode : Bytes) (duration : Int) : Res RStage :=
  let params := (inh s.parameters d.parameters).getD []
  let jit := (inh s.jitter d.jitter).getD 0
  if mode = b_constant then
    req (inh s.rate d.rate) fun rate => req (inh s.distribution d.distribution) fun dist =>
      (calcConstant rate dist).bind fun iv => .ok ⟨duration, iv, 0, params, jit, dist == b_none, true⟩
  else if mode = b_ramp then
    req (inh s.startRate d.startRate) fun sr => req (inh s.endRate d.endRate) fun er =>
      req (inh s.distribution d.distribution) fun dist =>
        (calcRamp sr er dist duration).bind fun iv => .ok ⟨duration, iv, 0, params, jit, dist == b_none, false⟩
  else if mode = b_staged then
    req (inh s.stages d.stages) fun st => req (inh s.iterationFrequency d.iterationFrequency) fun fr =>
      req (inh s.distribution d.distribution) fun dist =>
        (calcStaged fr st dist).bind fun iv => .ok ⟨duration, iv, 0, params, jit, dist == b_none, false⟩
  else if mode = b_gaussian then
    req (inh s.volume d.volume) fun _ => req (inh s.repeat_ d.repeat_) fun _ =>
      req (inh s.iterationFrequency d.iterationFrequency) fun fr => req (inh s.peak d.peak) fun _ =>
        req (inh s.weights d.weights) fun w => req (inh s.stddev d.stddev) fun sd =>
          req (inh s.distribution d.distribution) fun dist =>
            (calcGaussian fr sd w dist s.gaussDerivable).bind fun iv => .ok ⟨duration, iv, 0, params, jit, dist == b_none, false⟩
  else if mode = b_users then
    req (inh s.concurrency d.concurrency) fun c => if c < 1 then .err else .ok ⟨duration, 0, c, params, 0, false, false⟩
  else .err

/-- the skip rule: keep a stage iff no stage-start is given or stage-start + cumulative duration
(including this stage) is after `now` -/
def keepStage (stageStart : Option Int) (now total : Int) : Bool :=
  match stageStart with | none => true | some st => decide (st + total > now)

/-- the stage loop of `ParseConfigFile`: cumulative duration, skip rule, early error -/
def stageLoop (d : StageCfg) (stageStart : Option Int) (now : Int) :
    List StageCfg → Int → List RStage → Res (List RStage × Int)
  | [], total, acc => .ok (acc.reverse, total)
  | s :: rest, total, acc =>
    req (inh s.duration d.duration) fun dur => req (inh s.mode d.mode) fun mode =>
      if keepStage stageStart now (total + dur) then
        (parseStage s d mode dur).bind fun r => stageLoop d stageStart now rest (total + dur) (r :: acc)
      else stageLoop d stageStart now rest (total + dur) acc

/-- `ParseConfigFile` after YAML decoding (with the `fix:` commits for D11 and D12) -/
def parsePlan (c : Config) (now : Int) : Res PlanOut :=
  req c.scenario fun scenario => req c.limits.maxDuration fun maxDur => req c.limits.concurrency fun conc =>
    if conc < 1 then .err else
    req c.limits.maxIterations fun maxIt => req c.limits.ignoreDropped fun ign =>
      if c.stages.isEmpty then .err else
      let d := { c.default_ with concurrency := inh c.default_.concurrency (some conc),
                                 jitter := inh c.default_.jitter (some 0) }
      (stageLoop d c.stageStart now c.stages 0 []).bind fun r =>
        .ok { scenario := scenario, stages := r.1, total := r.2, maxDuration := maxDur, concurrency := conc,
              maxIterations := maxIt, maxFailures := c.limits.maxFailures.getD 0,
              maxFailuresRate := c.limits.maxFailuresRate.getD 0, ignoreDropped := ign }

end F1.Plan
