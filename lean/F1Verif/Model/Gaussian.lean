/-
C11 — model of the gaussian rate calculator (internal/trigger/gaussian/gaussian_rate.go): `For`
(window start, weight selection by window index, scaling, carry of the fractional remainder) and
`NewCalculator` (multiplier). The density and the CDF (`math.Exp`, `math.Erfc`) are external: their
values are *inputs* of the model.
-/
namespace F1.Gaussian

/-- ns between Go's zero time (year 1) and the Unix epoch; `Time.Truncate` counts from the zero time -/
def unixToAbs : Int := 62135596800 * 1000000000

/-- `now.Truncate(d)` for absolute time `t ≥ 0` (ns since the zero time); `d ≤ 0` returns `t` -/
def truncate (t d : Int) : Int := if d ≤ 0 then t else t - t % d

/-- the index loop of `For`: `for startOfWeight != start { i++; startOfWeight += repeatWindow }` (with fuel) -/
def weightIndexLoop : Nat → Int → Int → Int → Nat → Option Nat
  | 0, _, _, _, _ => none
  | fuel + 1, sow, start, w, i => if sow = start then some i else weightIndexLoop fuel (sow + w) start w (i + 1)

def weightIndex (t w : Int) (len : Nat) : Option Nat :=
  weightIndexLoop (len + 1) (truncate t (w * len)) (truncate t w) w 0

/-- slot inside the window, in ns -/
def slot (t w : Int) : Int := t - truncate t w

/-! ### as written (binary64), used by the driver -/

structure CalcF where
  multiplier    : Float
  averageWeight : Float
  weights       : Array Float
  repeatNs      : Int
  remainder     : Float := 0.0

/-- `NewCalculator`: multiplier = volume · float64(frequency) / (CDF(repeat − frequency) − CDF(0)) -/
def newCalcF (volume : Float) (freqNs repeatNs : Int) (cdfHi cdf0 : Float) (weights : Array Float) : CalcF :=
  let avg := if weights.size > 0 then weights.foldl (· + ·) 0.0 / Float.ofNat weights.size else 1.0
  { multiplier := volume * Float.ofInt freqNs / (cdfHi - cdf0), averageWeight := avg, weights := weights, repeatNs := repeatNs }

/-- one call of `For` given the density value at the slot -/
def forF (c : CalcF) (tAbs : Int) (pdf : Float) : CalcF × Int :=
  let rate := pdf * c.multiplier
  let rate := if c.weights.size > 0 then
      match weightIndex tAbs c.repeatNs c.weights.size with
      | some i => rate * c.weights.getD i 0.0 / c.averageWeight
      | none => rate
    else rate
  let rwr := rate + c.remainder
  let fl := rwr.floor
  ({ c with remainder := rwr - fl }, fl.toInt64.toInt)

end F1.Gaussian
