/-
C13 — model of `api.WithJitter` (internal/trigger/api/iteration_jitter.go).

The random factor is internal to the code, so the model is a *relation*: one step takes the carried
balance `bal` and the rate `r`, forms `req = r + bal` and may emit any `out` that
`max 0 (round (req · f))` can produce for a factor `f ∈ [1 − j/100, 1 + j/100]`; the new balance is
`req − out`. Because `out` is an integer and the balance starts at 0, the balance is always an
integer (held exactly by the float64 in the code for |values| < 2^53).

`jitter = jn / jd` percent. `slackDen` is the absolute slack (1/1000) allowed for the binary64
evaluation of `req · f` next to a rounding boundary; it is part of the relation the theorems are
proved for.
-/
namespace F1.Jitter

def slackDen : Nat := 1000

/-- `0 ≤ out`, `req ≤ 0 → out = 0`, and for `req > 0`: `|out − req| ≤ (j/100)·req + 1/2 + 1/1000`,
written with integers: multiply by `2000·100·jd`. -/
def admissibleB (jn jd : Nat) (req out : Int) : Bool :=
  decide (0 ≤ out) &&
  (if req ≤ 0 then decide (out = 0)
   else
     let D : Int := 100 * jd
     decide ((out - req).natAbs * D * 2000 ≤ (jn : Int) * req * 2000 + D * 1000 + D * 2))

/-- the carried balance along an observed run -/
def balances : Int → List (Int × Int) → List Int
  | b, [] => [b]
  | b, (r, o) :: rest => b :: balances (r + b - o) rest

/-- is every step of an observed run `(rate, out)` admissible? returns the index of the first bad step -/
def firstBad (jn jd : Nat) : Int → Nat → List (Int × Int) → Option Nat
  | _, _, [] => none
  | b, i, (r, o) :: rest =>
    if admissibleB jn jd (r + b) o then firstBad jn jd (r + b - o) (i + 1) rest else some i

/-- `multiple == 0` returns the rate function itself -/
def identityRun (run : List (Int × Int)) : Bool := run.all fun (r, o) => r == o

end F1.Jitter
