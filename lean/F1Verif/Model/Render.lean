/-
C19 — the helper functions of the summary / progress templates (internal/run/views/templates.go) and
what the layouts must state. The templates themselves are regenerated from the source into
`Generated.Facts` (section 4.3) and evaluated symbolically in Props/C19; this file holds the numeric
helpers and the expected numbers.
-/
namespace F1.Render

/-- exact value of a finite binary64: (negative, mantissa, exponent) with value = ±mantissa·2^exponent -/
def floatParts (f : Float) : Option (Bool × Nat × Int) :=
  let b := f.toBits.toNat
  let neg := b >>> 63 == 1
  let e := (b >>> 52) % 2048
  let m := b % (2 ^ 52)
  if e == 2047 then none
  else if e == 0 then some (neg, m, -1074)
  else some (neg, m + 2 ^ 52, (e : Int) - 1075)

/-- `fmt.Sprintf("%0.2f", f)`: correctly rounded (half to even on the exact value) -/
def fmt2 (f : Float) : String :=
  match floatParts f with
  | none => if f.isNaN then "NaN" else if f > 0 then "+Inf" else "-Inf"
  | some (neg, m, e) =>
    let n := m * 100
    let q : Nat :=
      if e ≥ 0 then n * 2 ^ e.toNat
      else
        let d := 2 ^ (-e).toNat
        let q := n / d
        let r := n % d
        if 2 * r > d ∨ (2 * r = d ∧ q % 2 = 1) then q + 1 else q
    let ip := q / 100
    let fp := q % 100
    (if neg ∧ q ≠ 0 then "-" else if neg then "-" else "") ++ toString ip ++ "." ++ (if fp < 10 then "0" else "") ++ toString fp

/-- template function `percent`: `100.0 * float64(val) / float64(total)` -/
def percent (val total : Nat) : Float := 100.0 * Float.ofNat val / Float.ofNat total

/-- `time.Duration.Round(time.Second)` (half away from zero), in ns -/
def roundSecond (d : Int) : Int :=
  let s : Int := 1000000000
  let r := d % s            -- Lean: 0 ≤ r < s for s > 0
  if d ≥ 0 then (if r + r < s then d - r else d + s - r)
  else
    let a := Int.neg d
    let r2 := a % s
    Int.neg (if r2 + r2 < s then a - r2 else a + s - r2)

/-- template function `rate`: `uint64(math.Round(float64(count) / duration.Round(time.Second).Seconds()))`, 0 for 0 s -/
def rate (durNs : Int) (count : Nat) : Nat :=
  let secs := roundSecond durNs / 1000000000
  if secs = 0 then 0
  else (Float.ofNat count / Float.ofInt secs).round.toUInt64.toNat

/-- what the summary must state, by line -/
structure ResultData where
  succ : Nat
  failed : Nat
  dropped : Nat
  iterations : Nat
  started : Nat
  durNs : Int
  isFailed : Bool
  hasErr : Bool
  deriving Repr

end F1.Render
