import Lean.Meta.Tactic.Simp.RegisterCommand

/-- the simp set used for symbolic evaluation of MiniGo programs (`simp [minigo]`) -/
register_simp_attr minigo
