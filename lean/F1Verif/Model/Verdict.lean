/-
C08 — model of `run.Result.Failed` (internal/run/result.go), `progress.Snapshot.Iterations`
and the CLI mapping in `runCmdExecute` (internal/run/run_cmd.go).

uint64 counts are `Nat` (overflow is outside the model); the Go `int` option
`MaxFailuresRate` is an `Int` because the code tests `> 0` on the signed value.
-/
namespace F1.Verdict

structure Opts where
  ignoreDropped   : Bool
  maxFailures     : Nat
  maxFailuresRate : Int
  deriving Repr, DecidableEq

structure Counts where
  succ    : Nat
  failed  : Nat
  dropped : Nat
  deriving Repr, DecidableEq

inductive Verdict | pass | fail | crash
  deriving Repr, DecidableEq

def Counts.iterations (c : Counts) : Nat := c.failed + c.succ + c.dropped

/-- `Result.Failed` after the `fix:` commit for D6/D7: the rate clause compares
`failed*100 > rate*iterations` — no division, hence total. Clause order is the code's
short-circuit order. -/
def failedImpl (hasErr : Bool) (o : Opts) (c : Counts) : Bool :=
  hasErr ||
  (!o.ignoreDropped && decide (c.dropped > 0)) ||
  (decide (o.maxFailures = 0) && decide (o.maxFailuresRate = 0) && decide (c.failed > 0)) ||
  (decide (o.maxFailures > 0) && decide (c.failed > o.maxFailures)) ||
  (decide (o.maxFailuresRate > 0) &&
    decide ((c.failed : Int) * 100 > o.maxFailuresRate * (c.iterations : Int)))

def verdictImpl (hasErr : Bool) (o : Opts) (c : Counts) : Verdict :=
  if failedImpl hasErr o c then .fail else .pass

/-- the statement of C08, as a proposition over observable inputs. The share clause is
written with the cross-multiplied inequality; `C08_share` (Props) shows that, for a run
with at least one iteration, it is the rational-number statement
`failed / iterations * 100 > rate`. -/
def FailedSpec (hasErr : Bool) (o : Opts) (c : Counts) : Prop :=
  hasErr = true ∨
  (o.ignoreDropped = false ∧ c.dropped > 0) ∨
  (o.maxFailures = 0 ∧ o.maxFailuresRate = 0 ∧ c.failed > 0) ∨
  (o.maxFailures > 0 ∧ c.failed > o.maxFailures) ∨
  (o.maxFailuresRate > 0 ∧ c.iterations > 0 ∧
     (c.failed : Int) * 100 > o.maxFailuresRate * (c.iterations : Int))

instance (e : Bool) (o : Opts) (c : Counts) : Decidable (FailedSpec e o c) := by
  unfold FailedSpec; infer_instance

/-- `runCmdExecute`: `result.Error() != nil → err`, `else if result.Failed() → err`. -/
def cliError (hasErr : Bool) (failed : Bool) : Bool :=
  if hasErr then true else if failed then true else false

end F1.Verdict
