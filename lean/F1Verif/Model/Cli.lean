/-
C14 / C08 / C15 at the command line — model of `run.Cmd` + `runCmdExecute` (internal/run/run_cmd.go) and of the
trigger builders' `New` functions (internal/trigger/{constant,staged,ramp,gaussian,users}/…): which flag
combinations are rejected before setup runs, and which run options an accepted combination yields.

A flag that is absent takes the default registered in the source (`Flags().IntP(…, 100, …)` and friends);
the defaults are part of this model, so a changed default is a disagreement. Flag *syntax* (pflag's own
parsing of `-c 3` vs `--concurrency=3`, of integers and booleans) is the library's business: the generator
only emits plain decimal integers, and a command line that pflag/cobra itself rejects is described to the
model as `wellFormed = false`. Duration-valued flags are parsed by `time.ParseDuration`, which is ported
(`Parse.parseDuration`) and part of the model.
-/
import F1Verif.Model.Plan
import F1Verif.Model.Verdict
namespace F1.Cli
open F1.Parse F1.Plan

/-- what the user typed, flag by flag; `none` = flag absent -/
structure Args where
  mode        : Bytes
  rate        : Option Bytes := none      -- constant: --rate
  dist        : Option Bytes := none      -- --distribution
  stages      : Option Bytes := none      -- staged: --stages
  startRate   : Option Bytes := none      -- ramp: --start-rate
  endRate     : Option Bytes := none      -- ramp: --end-rate
  weights     : Option Bytes := none      -- gaussian: --weights
  freq        : Option Bytes := none      -- staged: --iterationFrequency, gaussian: --iteration-frequency
  rampDur     : Option Bytes := none      -- ramp: --ramp-duration
  stddev      : Option Bytes := none      -- gaussian: --standard-deviation
  maxDur      : Option Bytes := none      -- --max-duration
  conc        : Option Int := none        -- --concurrency
  maxIt       : Option Nat := none        -- --max-iterations
  maxFail     : Option Nat := none        -- --max-failures
  maxFailRate : Option Int := none        -- --max-failures-rate
  ignDrop     : Bool := false             -- --ignore-dropped
  scenarioKnown : Bool := true            -- the positional argument names a registered scenario
  wellFormed  : Bool := true              -- false: cobra/pflag itself rejects the line (unknown flag, arity, bad number)
  gaussDerivable : Bool := true           -- oracle input for the gaussian mode, see `Plan.calcGaussian`
  deriving Repr

/-- the run an accepted command line starts -/
structure Plan where
  interval    : Int          -- tick interval in ns; 0 in users mode
  users       : Bool
  conc        : Int
  maxDur      : Int
  maxIt       : Nat
  maxFail     : Nat
  maxFailRate : Int
  ignDrop     : Bool
  deriving Repr, DecidableEq

/-! defaults, as registered in the source -/
def dfltRate : Bytes := [49, 47, 115]                                   -- "1/s"
def dfltDist : Bytes := b_regular
def dfltStages : Bytes := [48, 115, 58, 49, 44, 32, 49, 48, 115, 58, 49] -- "0s:1, 10s:1"
def second : Int := 1000000000
def dfltStddev : Int := 150 * 60 * second
def dfltConc : Int := 100

/-- a duration-valued flag: absent → default, otherwise `time.ParseDuration` -/
def durFlag (o : Option Bytes) (dflt : Int) : Res Int :=
  match o with
  | none => .ok dflt
  | some s => match parseDuration s with | some d => .ok d | none => .err

/-- the trigger builder of each mode: tick interval (0 = users), or an error -/
def trigger (a : Args) (maxDur : Int) : Res (Int × Bool) :=
  let dist := a.dist.getD dfltDist
  if a.mode = b_constant then
    (calcConstant (a.rate.getD dfltRate) dist).bind fun i => .ok (i, false)
  else if a.mode = b_staged then
    (durFlag a.freq second).bind fun f =>
      (calcStaged f (a.stages.getD dfltStages) dist).bind fun i => .ok (i, false)
  else if a.mode = b_ramp then
    (durFlag a.rampDur second).bind fun d =>
      (calcRamp (a.startRate.getD dfltRate) (a.endRate.getD dfltRate) dist (if d = 0 then maxDur else d)).bind
        fun i => .ok (i, false)
  else if a.mode = b_gaussian then
    (durFlag a.freq second).bind fun f => (durFlag a.stddev dfltStddev).bind fun sd =>
      (calcGaussian f sd (a.weights.getD []) dist a.gaussDerivable).bind fun i => .ok (i, false)
  else if a.mode = b_users then .ok (0, true)
  else .err

/-- `runCmdExecute` up to `NewRun`: every way a command line is refused, and the options of the run otherwise -/
def plan (a : Args) : Res Plan :=
  if !a.wellFormed then .err else
  (durFlag a.maxDur second).bind fun maxDur =>
  (trigger a maxDur).bind fun t =>
    let conc := a.conc.getD dfltConc
    if conc < 1 then .err
    else if !a.scenarioKnown then .err
    else .ok { interval := t.1, users := t.2, conc := conc, maxDur := maxDur, maxIt := a.maxIt.getD 0,
               maxFail := a.maxFail.getD 0, maxFailRate := a.maxFailRate.getD 0, ignDrop := a.ignDrop }

def Plan.opts (p : Plan) : Verdict.Opts := ⟨p.ignDrop, p.maxFail, p.maxFailRate⟩

/-- exit status of an accepted command line, from what its run produced -/
def exitError (p : Plan) (stageErr : Bool) (c : Verdict.Counts) : Bool :=
  Verdict.cliError stageErr (Verdict.failedImpl stageErr p.opts c)

end F1.Cli
