/-
C16 — model of the static-label handling of internal/metrics/metrics.go:
`getStaticMetricLabelKeys` / `getStaticMetricLabelValues` (both derived from `sortedKeys`).
A Go `map[string]string` is an association list with distinct keys, in an arbitrary order.
-/
namespace F1.Labels

abbrev LMap := List (String × String)

def sortedKeys (m : LMap) : List String := (m.map (·.1)).mergeSort (fun a b => decide (a ≤ b))

def lookup (m : LMap) (k : String) : String := ((m.find? (·.1 == k)).map (·.2)).getD ""

/-- `getStaticMetricLabelKeys` -/
def labelKeys (m : LMap) : List String := sortedKeys m

/-- `getStaticMetricLabelValues`: `for _, v := range sortedKeys(m) { data = append(data, m[v]) }` -/
def labelValues (m : LMap) : List String := (sortedKeys m).map (lookup m)

/-- label names and values of the iteration series: `test, stage, result` + static labels -/
def iterationLabels (m : LMap) (test stage result : String) : List (String × String) :=
  (["test", "stage", "result"] ++ labelKeys m).zip ([test, stage, result] ++ labelValues m)

def setupLabels (m : LMap) (test result : String) : List (String × String) :=
  (["test", "result"] ++ labelKeys m).zip ([test, result] ++ labelValues m)

end F1.Labels
