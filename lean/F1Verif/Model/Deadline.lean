/-
C05 (time) — model of the two `select` statements of `Run.run` (internal/run/test_runner.go).

All instants are nanoseconds since `run` was entered. The inputs are what the environment decides:
* `cancelAt`  — when the caller's context is cancelled, if ever;
* `limitAt`   — when the pool manager's completion channel would fire on its own, if ever (the trigger has
                returned because the iteration limit stopped it, and every started iteration has finished);
* `drain t`   — when every iteration in flight at `t` has finished, for triggering stopped at `t` (`t ≤ drain t`).

`triggerCtx = context.WithTimeout(ctx, duration − nextIterationWindow)` is done at
`min (duration − 10 ms) cancelAt` (a non-positive timeout is done at once). A Go `select` fires a ready case; when
several are ready at the same instant it picks any of them — hence a relation (`Fires`), not a function.
-/
namespace F1.Deadline

def guard : Int := 10000000        -- nextIterationWindow, 10 ms

structure Cfg where
  maxDur   : Int
  trigDur  : Int                   -- the trigger's own total duration; 0 = none
  timeout  : Int                   -- waitForCompletionTimeout
  cancelAt : Option Int
  limitAt  : Option Int
  drain    : Int → Int

/-- `duration := MaxDuration; if trigger.Duration > 0 && trigger.Duration < MaxDuration { duration = trigger.Duration }` -/
def Cfg.duration (c : Cfg) : Int := if 0 < c.trigDur ∧ c.trigDur < c.maxDur then c.trigDur else c.maxDur

/-- the instant the timeout of `triggerCtx` expires -/
def Cfg.deadline (c : Cfg) : Int := max 0 (c.duration - guard)

def omin (a : Int) : Option Int → Int
  | none => a
  | some b => min a b

/-- `triggerCtx.Done()` -/
def Cfg.trigDone (c : Cfg) : Int := omin c.deadline c.cancelAt

/-- the instant the first `select` fires: the earliest ready case -/
def Cfg.stopAt (c : Cfg) : Int := omin c.trigDone c.limitAt

inductive Branch | ctx | trig | pool
  deriving Repr, DecidableEq

/-- which case the first `select` may take: any case that is ready at `stopAt` -/
def Cfg.Fires (c : Cfg) : Branch → Prop
  | .ctx => c.cancelAt = some c.stopAt
  | .trig => c.trigDone = c.stopAt
  | .pool => c.limitAt = some c.stopAt

/-- when `run` returns, and whether it gave up on iterations still in flight -/
def Cfg.outcome (c : Cfg) : Branch → Int × Bool
  | .pool => (c.stopAt, false)
  | _ => if c.drain c.stopAt ≤ c.stopAt + c.timeout then (c.drain c.stopAt, false)
         else (c.stopAt + c.timeout, true)

end F1.Deadline
