/-
C14 — models of the string grammars f1 accepts:
`rate.ParseRate` (internal/trigger/rate/rate.go), `staged.ParseStages`
(internal/trigger/staged/stage.go), and ports of the two standard-library functions they
delegate to, `strconv.Atoi` and `time.ParseDuration` (external calls whose behaviour is
*assumed* for the theorems and *checked by correspondence* on every run via the `atoi` and
`parsedur` ops). Go strings are byte strings: `List Nat` with every element < 256.
-/
namespace F1.Parse

abbrev Bytes := List Nat

inductive Res (α : Type) | ok (v : α) | err | crash
  deriving Repr, DecidableEq

def isDigit (c : Nat) : Bool := 48 ≤ c && c ≤ 57
def isAsciiLetter (c : Nat) : Bool := (65 ≤ c && c ≤ 90) || (97 ≤ c && c ≤ 122)
def isSpace (c : Nat) : Bool := c == 32 || (9 ≤ c && c ≤ 13)

def int64Max : Nat := 9223372036854775807
def two63 : Nat := 9223372036854775808

/-! ### strconv.Atoi (base 10, 64-bit int) -/

def digitsVal : Bytes → Option Nat
  | [] => some 0
  | l => l.foldl (fun acc c => acc.bind fun a => if isDigit c then some (a * 10 + (c - 48)) else none) (some 0)

def atoi (s : Bytes) : Option Int :=
  match s with
  | [] => none
  | 43 :: rest => if rest.isEmpty then none else (digitsVal rest).bind fun n => if n ≤ int64Max then some (n : Int) else none
  | 45 :: rest => if rest.isEmpty then none else (digitsVal rest).bind fun n => if n ≤ two63 then some (-(n : Int)) else none
  | _ => (digitsVal s).bind fun n => if n ≤ int64Max then some (n : Int) else none

/-! ### time.ParseDuration -/

def unitNs (u : Bytes) : Option Nat :=
  if u = [110, 115] then some 1                       -- ns
  else if u = [117, 115] then some 1000               -- us
  else if u = [194, 181, 115] then some 1000          -- µs (U+00B5)
  else if u = [206, 188, 115] then some 1000          -- μs (U+03BC)
  else if u = [109, 115] then some 1000000            -- ms
  else if u = [115] then some 1000000000              -- s
  else if u = [109] then some 60000000000             -- m
  else if u = [104] then some 3600000000000           -- h
  else none

/-- `leadingInt`: value, rest; `none` on overflow -/
def leadingInt : Bytes → Nat → Option (Nat × Bytes)
  | [], x => some (x, [])
  | c :: rest, x =>
    if isDigit c then
      if x > two63 / 10 then none
      else
        let x' := x * 10 + (c - 48)
        if x' > two63 then none else leadingInt rest x'
    else some (x, c :: rest)

/-- `leadingFraction`: value, scale (as a power of ten, exact), rest; stops accumulating on overflow -/
def leadingFraction : Bytes → Nat → Nat → Bool → Nat × Nat × Bytes
  | [], x, sc, _ => (x, sc, [])
  | c :: rest, x, sc, ovf =>
    if isDigit c then
      if ovf then leadingFraction rest x sc true
      else if x > int64Max / 10 then leadingFraction rest x sc true
      else
        let y := x * 10 + (c - 48)
        if y > two63 then leadingFraction rest x sc true else leadingFraction rest y (sc * 10) false
    else (x, sc, c :: rest)

def takeUnit : Bytes → Bytes × Bytes
  | [] => ([], [])
  | c :: rest => if c == 46 || isDigit c then ([], c :: rest) else let r := takeUnit rest; (c :: r.1, r.2)

/-- the fractional contribution `uint64(float64(f) * (float64(unit) / scale))` -/
def fracNs (f unit scale : Nat) : Nat :=
  (Float.ofNat f * (Float.ofNat unit / Float.ofNat scale)).toUInt64.toNat

def durLoop (fuel : Nat) (s : Bytes) (d : Nat) : Option Nat :=
  match fuel with
  | 0 => none
  | fuel + 1 =>
    match s with
    | [] => some d
    | c :: _ =>
      if !(c == 46 || isDigit c) then none else
      match leadingInt s 0 with
      | none => none
      | some (v, s1) =>
        let pre : Bool := decide (s1.length ≠ s.length)
        let (f, scale, s2, post) : Nat × Nat × Bytes × Bool :=
          match s1 with
          | 46 :: r => let fr := leadingFraction r 0 1 false; (fr.1, fr.2.1, fr.2.2, decide (fr.2.2.length ≠ r.length))
          | _ => (0, 1, s1, false)
        if !pre && !post then none else
        let (u, s3) := takeUnit s2
        if u.isEmpty then none else
        match unitNs u with
        | none => none
        | some unit =>
          if v > two63 / unit then none else
          let v := v * unit
          let v := if f > 0 then v + fracNs f unit scale else v
          if f > 0 && v > two63 then none else
          let d := d + v
          if d > two63 then none else durLoop fuel s3 d

def parseDuration (s : Bytes) : Option Int :=
  let (neg, s) := match s with
    | 45 :: r => (true, r)
    | 43 :: r => (false, r)
    | _ => (false, s)
  if s = [48] then some 0
  else if s.isEmpty then none
  else match durLoop (s.length + 1) s 0 with
    | none => none
    | some d => if neg then some (-(d : Int)) else if d > int64Max then none else some (d : Int)

/-! ### rate.ParseRate -/

def indexOf (c : Nat) : Bytes → Option Nat
  | [] => none
  | x :: rest => if x = c then some 0 else (indexOf c rest).map (· + 1)

/-- the first rune is a letter. ASCII letters and the two micro signs; any other non-ASCII first
rune leads to an error on both branches of `ParseRate` (no unit starts with it), so treating it as
"not a letter" yields the same result. -/
def startsWithLetter (u : Bytes) : Bool :=
  match u with
  | c :: _ => isAsciiLetter c || (u.take 2 == [194, 181]) || (u.take 2 == [206, 188])
  | [] => false

/-- the part of `ParseRate` after the "/" -/
def parseUnit (rate : Int) (unitArg : Bytes) : Res (Int × Int) :=
  if unitArg.isEmpty then .err else
  match parseDuration (if startsWithLetter unitArg then 49 :: unitArg else unitArg) with
  | none => .err
  | some unit => if unit ≤ 0 then .err else .ok (rate, unit)

/-- a rate count: `strconv.Atoi`, rejected when negative -/
def parseCount (s : Bytes) : Option Int :=
  match atoi s with
  | none => none
  | some rate => if rate < 0 then none else some rate

/-- `ParseRate` after the `fix:` commits for D8, D9, D10. Result: (rate, unit in ns). -/
def parseRate (s : Bytes) : Res (Int × Int) :=
  match indexOf 47 s with
  | some i =>
    match parseCount (s.take i) with
    | none => .err
    | some rate => parseUnit rate (s.drop (i + 1))
  | none =>
    match parseCount s with
    | none => .err
    | some rate => .ok (rate, 1000000000)

/-! ### staged.ParseStages -/

def splitOn (c : Nat) : Bytes → List Bytes
  | [] => [[]]
  | x :: rest =>
    match splitOn c rest with
    | [] => [[]]
    | p :: ps => if x = c then [] :: p :: ps else (x :: p) :: ps

def trimLeft : Bytes → Bytes
  | [] => []
  | c :: rest => if isSpace c then trimLeft rest else c :: rest

def trimSpace (s : Bytes) : Bytes := (trimLeft (trimLeft s).reverse).reverse

/-- `ParseStages`: (duration ns, target) per element -/
def parseStages (s : Bytes) : Res (List (Int × Int)) :=
  let rec go : List Bytes → List (Int × Int) → Res (List (Int × Int))
    | [], acc => .ok acc.reverse
    | e :: rest, acc =>
      match splitOn 58 (trimSpace e) with
      | [d, t] =>
        match parseDuration (trimSpace d), atoi (trimSpace t) with
        | some dur, some target => go rest ((dur, target) :: acc)
        | _, _ => .err
      | _ => .err
  go (splitOn 44 s) []

end F1.Parse
