/-
C02 / C04 (and C03, C05) — interleaving model of `workers.TriggerPool`
(internal/workers/trigger_pool.go) at the granularity of single atomic operations and lock
operations, after the `fix:` commits for D4 and D5.

Worker identity is irrelevant for the properties, so the (arbitrarily many) workers are represented
by the number of workers at each program point. The pool mutex is `lock`; the condition variable is
the pair (sleeping, woken): `Wait` releases the lock and sleeps, `Broadcast` moves every sleeper to
`woken`, a woken worker must re-acquire the lock before it re-evaluates the loop condition.

Ticker (one tick of n):   ⟨ctx check⟩ · hook · ⟨lock⟩ ⟨if n>0 ∧ stop: unlock, refuse⟩ ⟨lim := limit reached⟩
                          ⟨old := swap num n⟩ ⟨broadcast⟩ ⟨unlock⟩ ⟨report max old 0 as dropped unless lim⟩
Worker:   W1 ⟨stop? exit⟩  W2 ⟨num ≤ 0 ? → W3 : → W4⟩  W3 ⟨lock⟩ loop ⟨num ≤ 0 ∧ ¬stop ? wait : unlock → W4⟩
          W4 ⟨v := num −= 1; v ≥ 0 ? → W5 : → W1⟩  W5 ⟨id := ++counter; N>0 ∧ id>N ? → W7 : run (W6)⟩
          W6 ⟨iteration finishes⟩ → W1     W7 ⟨old := swap num 0 (discarded)⟩ ⟨cancel⟩ exit
Stopper:  ⟨await cancelled⟩ ⟨stop := true⟩ ⟨lock⟩ ⟨lim⟩⟨old := swap num 0⟩ ⟨broadcast⟩ ⟨unlock⟩ ⟨report⟩
-/
namespace F1.TriggerPool

inductive Lock | free | ticker | stopper | worker
  deriving Repr, DecidableEq

inductive TPc | idle | hook | locked | swapped | broadcasted | unlocked
  deriving Repr, DecidableEq

inductive SPc | waiting | flagSet | locked | swapped | broadcasted | unlocked | done
  deriving Repr, DecidableEq

inductive Ev
  | tickCheck (n : Int)   -- Trigger: the context check passes (only if not cancelled)
  | tickLock | tickRefuse | tickSwap | tickBroadcast | tickUnlock | tickReport
  | wExit | wToTest | wTestEmpty | wLock | wWaitOrLeave | wWake | wTake | wNext | wFinish | wLimitSwap | wLimitCancel
  | envCancel
  | stopSetFlag | stopLock | stopSwap | stopBroadcast | stopUnlock | stopReport
  deriving Repr, DecidableEq

structure State where
  limit     : Nat              -- max-iterations, 0 = none
  num       : Int := 0         -- pending-request counter
  stop      : Bool := false
  cancelled : Bool := false
  counter   : Nat := 0
  lock      : Lock := .free
  -- workers per program point
  w1 : Nat                     -- about to test the stop flag
  w2 : Nat := 0                -- about to test emptiness
  w3a : Nat := 0               -- want the lock (waitForNewJobs)
  w3b : Nat := 0               -- hold the lock, evaluate the loop condition
  sleeping : Nat := 0
  woken : Nat := 0
  w4 : Nat := 0                -- about to take (yield point pool.worker.pretake)
  w5 : Nat := 0                -- took one request, about to draw an id
  w6 : Nat := 0                -- executing an iteration
  w7 : Nat := 0                -- refused by the limit, about to discard pending work
  w7b : Nat := 0               -- about to cancel
  exited : Nat := 0
  -- ticker
  tpc : TPc := .idle
  tn : Int := 0
  tOld : Int := 0
  tLim : Bool := false
  -- stopper
  spc : SPc := .waiting
  sOld : Int := 0
  sLim : Bool := false
  -- ghost
  requested : Int := 0
  started   : Int := 0
  dropped   : Int := 0
  refused   : Int := 0
  discarded : Int := 0
  deriving Repr, DecidableEq

def pos (x : Int) : Int := max x 0

def limitReached (s : State) : Bool := decide (s.limit > 0 ∧ s.counter > s.limit)

/-- `legacy = true`: the pinned tree — a tick does not re-check the stop flag under the lock (D4) and
leftovers are reported as dropped regardless of the limit (D5). -/
def step (legacy : Bool) (s : State) : Ev → Option State
  | .tickCheck n => if s.tpc = .idle ∧ s.cancelled = false then some { s with tpc := .hook, tn := n } else none
  | .tickLock => if s.tpc = .hook ∧ s.lock = .free then some { s with tpc := .locked, lock := .ticker } else none
  | .tickRefuse => if legacy = false ∧ s.tpc = .locked ∧ s.tn > 0 ∧ s.stop = true then some { s with tpc := .idle, lock := .free } else none
  | .tickSwap =>
    if s.tpc = .locked ∧ (legacy = true ∨ ¬ (s.tn > 0 ∧ s.stop = true)) then
      some { s with tpc := .swapped, tLim := !legacy && limitReached s, tOld := s.num, num := s.tn, requested := s.requested + pos s.tn }
    else none
  | .tickBroadcast => if s.tpc = .swapped then some { s with tpc := .broadcasted, woken := s.woken + s.sleeping, sleeping := 0 } else none
  | .tickUnlock => if s.tpc = .broadcasted then some { s with tpc := .unlocked, lock := .free } else none
  | .tickReport =>
    if s.tpc = .unlocked then
      some (if s.tLim then { s with tpc := .idle, discarded := s.discarded + pos s.tOld, tOld := 0 }
            else { s with tpc := .idle, dropped := s.dropped + pos s.tOld, tOld := 0 })
    else none
  | .wExit => if s.w1 > 0 ∧ s.stop = true then some { s with w1 := s.w1 - 1, exited := s.exited + 1 } else none
  | .wToTest => if s.w1 > 0 ∧ s.stop = false then some { s with w1 := s.w1 - 1, w2 := s.w2 + 1 } else none
  | .wTestEmpty =>
    if s.w2 > 0 then
      some (if s.num ≤ 0 then { s with w2 := s.w2 - 1, w3a := s.w3a + 1 } else { s with w2 := s.w2 - 1, w4 := s.w4 + 1 })
    else none
  | .wLock => if s.w3a > 0 ∧ s.lock = .free then some { s with w3a := s.w3a - 1, w3b := s.w3b + 1, lock := .worker } else none
  | .wWaitOrLeave =>
    if s.w3b > 0 then
      some (if s.num ≤ 0 ∧ s.stop = false then { s with w3b := s.w3b - 1, sleeping := s.sleeping + 1, lock := .free }
            else { s with w3b := s.w3b - 1, w4 := s.w4 + 1, lock := .free })
    else none
  | .wWake => if s.woken > 0 ∧ s.lock = .free then some { s with woken := s.woken - 1, w3b := s.w3b + 1, lock := .worker } else none
  | .wTake =>
    if s.w4 > 0 then
      some (if s.num - 1 ≥ 0 then { s with num := s.num - 1, w4 := s.w4 - 1, w5 := s.w5 + 1 }
            else { s with num := s.num - 1, w4 := s.w4 - 1, w1 := s.w1 + 1 })
    else none
  | .wNext =>
    if s.w5 > 0 then
      some (if s.limit > 0 ∧ s.counter + 1 > s.limit then { s with counter := s.counter + 1, w5 := s.w5 - 1, w7 := s.w7 + 1 }
            else { s with counter := s.counter + 1, w5 := s.w5 - 1, w6 := s.w6 + 1, started := s.started + 1 })
    else none
  | .wFinish => if s.w6 > 0 then some { s with w6 := s.w6 - 1, w1 := s.w1 + 1 } else none
  | .wLimitSwap =>
    if s.w7 > 0 then some { s with w7 := s.w7 - 1, w7b := s.w7b + 1, num := 0, discarded := s.discarded + pos s.num, refused := s.refused + 1 }
    else none
  | .wLimitCancel => if s.w7b > 0 then some { s with w7b := s.w7b - 1, exited := s.exited + 1, cancelled := true } else none
  | .envCancel => some { s with cancelled := true }
  | .stopSetFlag => if s.spc = .waiting ∧ s.cancelled = true then some { s with spc := .flagSet, stop := true } else none
  | .stopLock => if s.spc = .flagSet ∧ s.lock = .free then some { s with spc := .locked, lock := .stopper } else none
  | .stopSwap => if s.spc = .locked then some { s with spc := .swapped, sLim := !legacy && limitReached s, sOld := s.num, num := 0 } else none
  | .stopBroadcast => if s.spc = .swapped then some { s with spc := .broadcasted, woken := s.woken + s.sleeping, sleeping := 0 } else none
  | .stopUnlock => if s.spc = .broadcasted then some { s with spc := .unlocked, lock := .free } else none
  | .stopReport =>
    if s.spc = .unlocked then
      some (if s.sLim then { s with spc := .done, discarded := s.discarded + pos s.sOld, sOld := 0 }
            else { s with spc := .done, dropped := s.dropped + pos s.sOld, sOld := 0 })
    else none

def run (legacy : Bool) (s : State) : List Ev → Option State
  | [] => some s
  | e :: es => match step legacy s e with
    | none => none
    | some s' => run legacy s' es

def init (workers limit : Nat) : State := { limit := limit, w1 := workers }

def workersTotal (s : State) : Nat :=
  s.w1 + s.w2 + s.w3a + s.w3b + s.sleeping + s.woken + s.w4 + s.w5 + s.w6 + s.w7 + s.w7b + s.exited

/-- requests whose fate is decided but not yet reported, or that a worker holds and has not yet classified -/
def inTransit (s : State) : Int := (s.w5 : Int) + s.w7 + pos s.tOld + pos s.sOld

/-- a state change that sleepers must learn about has been made and its broadcast is still to come -/
def broadcastOwed (s : State) : Bool :=
  s.tpc == .swapped || s.spc == .flagSet || s.spc == .locked || s.spc == .swapped

def terminated (s : State) : Bool :=
  s.tpc == .idle && s.spc == .done && decide (s.exited = workersTotal s)

end F1.TriggerPool
