/-
C06 (placement inside `Run.Do`) — `Do` as a little program with Go's `defer` semantics
(internal/run/test_runner.go). Statements run in order; `defer a` pushes `a`; when the function returns (falling off
the end or through `return`) the deferred actions run last-in-first-out.

The conditions the environment decides: whether setup failed, and how `run` ended (that is inside `.runAndWait`:
triggering, then waiting for in-flight iterations or the completion timeout — C05's Deadline model).
-/
namespace F1.Lifecycle

inductive Act
  | welcome | resetMetrics | setup | pushMetrics | reportSetupFailure
  | recordStarted | startPushTicker | startProgress
  | runAndWait            -- `r.run(ctx)`: every iteration starts and finishes (or is given up on) inside this
  | stopProgress | stopPushTicker | getTotals
  | teardown              -- `teardownActiveScenario`: the setup handle's cleanups, LIFO; fails the run if one fails
  | printSummary | closeLog
  | other                 -- a statement the translator has no name for
  deriving Repr, DecidableEq

inductive Stmt
  | act (a : Act)
  | defer (a : Act)
  | retIf (setupFailedBranch : List Act)      -- `if r.activeScenario.Failed() { …; return }` (the branch only acts)
  deriving Repr, DecidableEq

/-- the body of `Run.Do`, statement by statement -/
def doBody : List Stmt :=
  [ .defer .closeLog, .act .welcome, .defer .printSummary, .act .resetMetrics, .act .setup, .act .pushMetrics,
    .defer .teardown,
    .retIf [.reportSetupFailure],
    .act .recordStarted, .act .startPushTicker, .act .startProgress, .act .runAndWait, .act .stopProgress,
    .act .stopPushTicker, .act .getTotals ]

/-- run a statement list: the trace so far (reversed), the defer stack; `setupFailed` decides `retIf` -/
def exec (setupFailed : Bool) : List Stmt → List Act → List Act → List Act
  | [], trace, defers => trace.reverse ++ defers
  | .act a :: rest, trace, defers => exec setupFailed rest (a :: trace) defers
  | .defer a :: rest, trace, defers => exec setupFailed rest trace (a :: defers)
  | .retIf br :: rest, trace, defers =>
    if setupFailed then (br.reverse ++ trace).reverse ++ defers     -- the branch ends in `return`: the rest is skipped
    else exec setupFailed rest trace defers

def doTrace (setupFailed : Bool) : List Act := exec setupFailed doBody [] []

def count (a : Act) (l : List Act) : Nat := (l.filter (· == a)).length

/-- position of the first occurrence -/
def pos (a : Act) (l : List Act) : Option Nat := l.findIdx? (· == a)

/-- index of the first occurrence (the length when absent) -/
def idx (a : Act) (l : List Act) : Nat := l.findIdx (· == a)

/-- the lifecycle clauses of C06 on one execution trace, as a checker: setup, teardown and summary exactly once and in
that order; a failed setup means no `run` at all; otherwise `run` lies after setup, the progress reporter is stopped
after it, then the totals are taken, and only then teardown runs -/
def lifecycleOk (setupFailed : Bool) (l : List Act) : Bool :=
  count .setup l == 1 && count .teardown l == 1 && count .printSummary l == 1 &&
  count .runAndWait l == (if setupFailed then 0 else 1) &&
  decide (idx .setup l < idx .teardown l) && decide (idx .teardown l < idx .printSummary l) &&
  (setupFailed ||
    (decide (idx .setup l < idx .runAndWait l) && decide (idx .runAndWait l < idx .stopProgress l) &&
     decide (idx .stopProgress l < idx .getTotals l) && decide (idx .getTotals l < idx .teardown l)))

end F1.Lifecycle
