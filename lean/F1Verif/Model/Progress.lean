/-
C17 / C01 / C16 — model of internal/progress (average.go, stats.go) at the granularity of the
`progress.collect` yield point: a collect is "drain the per-period accumulators" (four atomic
swaps) followed by "merge what was drained into the lifetime accumulators".

Durations and counters are `Int` (int64/uint64 overflow is outside the model).
-/
namespace F1.Progress

/-- `IterationDurations` -/
structure Acc where
  sum   : Int
  count : Int
  min   : Int
  max   : Int
  deriving Repr, DecidableEq

def Acc.empty : Acc := ⟨0, 0, 0, 0⟩

/-- `IterationDurations.Add` -/
def Acc.add (a : Acc) (ns : Int) : Acc :=
  { sum := a.sum + ns
    count := a.count + 1
    max := if ns > a.max then ns else a.max
    min := if a.min = 0 ∨ ns < a.min then ns else a.min }

/-- `IterationDurations.Update` -/
def Acc.update (i o : Acc) : Acc :=
  { sum := i.sum + o.sum
    count := i.count + o.count
    min := if i.min = 0 ∨ (i.min > o.min ∧ o.min > 0) then o.min else i.min
    max := if i.max < o.max then o.max else i.max }

/-- `IterationDurationsSnapshot` -/
structure Snap where
  count : Int
  avg   : Int
  min   : Int
  max   : Int
  deriving Repr, DecidableEq

/-- `IterationDurations.Snapshot` (`average` returns 0,0 for an empty accumulator; Go's `/` on
int64 truncates toward zero) -/
def Acc.snap (a : Acc) : Snap :=
  { count := a.count, avg := if a.count = 0 then 0 else a.sum.tdiv a.count, min := a.min, max := a.max }

/-- `DurationStats` plus the value held by a collect between drain and merge -/
structure DStats where
  running  : Acc
  lifetime : Acc
  deriving Repr, DecidableEq

def DStats.empty : DStats := ⟨Acc.empty, Acc.empty⟩

/-- `drain`: what is taken out, and what is left -/
def DStats.drain (d : DStats) : Acc × DStats := (d.running, { d with running := Acc.empty })

/-- merge of the drained values; returns (period snapshot, lifetime snapshot, new state) -/
def DStats.merge (d : DStats) (recent : Acc) : Snap × Snap × DStats :=
  let l := d.lifetime.update recent
  (recent.snap, l.snap, { d with lifetime := l })

/-- `CollectLifetime` without anything happening at the yield point -/
def DStats.collect (d : DStats) : Snap × Snap × DStats :=
  let (r, d') := d.drain
  d'.merge r

inductive Outcome | success | fail | dropped | unknown
  deriving Repr, DecidableEq

structure Stats where
  succ    : DStats
  failed  : DStats
  dropped : Int
  deriving Repr, DecidableEq

def Stats.empty : Stats := ⟨DStats.empty, DStats.empty, 0⟩

/-- `Stats.Record` -/
def Stats.record (s : Stats) (o : Outcome) (ns : Int) : Stats :=
  match o with
  | .success => { s with succ := { s.succ with running := s.succ.running.add ns } }
  | .fail => { s with failed := { s.failed with running := s.failed.running.add ns } }
  | .dropped => { s with dropped := s.dropped + 1 }
  | .unknown => s

/-- `progress.Snapshot` (the fields that `Stats.Snapshot` / `Stats.Total` fill) -/
structure Snapshot where
  period  : Snap      -- SuccessfulIterationDurationsForPeriod (zero value in Total)
  succ    : Snap
  failed  : Snap
  dropped : Int
  deriving Repr, DecidableEq

/-- records executed at the yield point of the successful / failed collect of one snapshot -/
structure Inject where
  atSucc : List (Outcome × Int)
  atFail : List (Outcome × Int)

def Inject.none : Inject := ⟨[], []⟩

def Stats.records (s : Stats) (l : List (Outcome × Int)) : Stats :=
  l.foldl (fun s r => s.record r.1 r.2) s

def Stats.drainS (s : Stats) : Acc × Stats := (s.succ.running, { s with succ := s.succ.drain.2 })
def Stats.drainF (s : Stats) : Acc × Stats := (s.failed.running, { s with failed := s.failed.drain.2 })
def Stats.mergeS (s : Stats) (held : Acc) : Snap × Snap × Stats :=
  let r := s.succ.merge held
  (r.1, r.2.1, { s with succ := r.2.2 })
def Stats.mergeF (s : Stats) (held : Acc) : Snap × Stats :=
  let r := s.failed.merge held
  (r.2.1, { s with failed := r.2.2 })

/-- `Stats.Snapshot` / `Stats.Total` with the given records landing at the two yield points -/
def Stats.collectAll (s : Stats) (total : Bool) (inj : Inject) : Snapshot × Stats :=
  let a := s.drainS
  let b := (a.2.records inj.atSucc).mergeS a.1
  let c := b.2.2.drainF
  let d := (c.2.records inj.atFail).mergeF c.1
  ({ period := if total then Acc.empty.snap else b.1, succ := b.2.1, failed := d.1, dropped := d.2.dropped }, d.2)

inductive Op
  | record (o : Outcome) (ns : Int)
  | snapshot (inj : Inject)
  | total (inj : Inject)

def Stats.step (s : Stats) : Op → Stats × Option Snapshot
  | .record o ns => (s.record o ns, none)
  | .snapshot inj => let r := s.collectAll false inj; (r.2, some r.1)
  | .total inj => let r := s.collectAll true inj; (r.2, some r.1)

def Stats.run (s : Stats) : List Op → Stats × List Snapshot
  | [] => (s, [])
  | op :: ops =>
    let r := s.step op
    let rest := r.1.run ops
    (rest.1, match r.2 with | some x => x :: rest.2 | none => rest.2)

/-! ### the aggregate a list of durations should produce -/

def minOr0 : List Int → Int
  | [] => 0
  | x :: xs => xs.foldl min x

def maxOr0 : List Int → Int
  | [] => 0
  | x :: xs => xs.foldl max x

def agg (l : List Int) : Acc := ⟨l.sum, l.length, minOr0 l, maxOr0 l⟩


/-! ### specification side: the plain lists of durations behind the accumulators -/

structure Ghost where
  pendS : List Int   -- successful durations recorded since the last collect
  collS : List Int   -- successful durations merged so far
  pendF : List Int
  collF : List Int
  drops : Int

def Ghost.empty : Ghost := ⟨[], [], [], [], 0⟩

def Ghost.record (g : Ghost) (o : Outcome) (ns : Int) : Ghost :=
  match o with
  | .success => { g with pendS := g.pendS ++ [ns] }
  | .fail => { g with pendF := g.pendF ++ [ns] }
  | .dropped => { g with drops := g.drops + 1 }
  | .unknown => g

def Ghost.records (g : Ghost) (l : List (Outcome × Int)) : Ghost :=
  l.foldl (fun g r => g.record r.1 r.2) g

/-- ghost effect of one `Snapshot`/`Total`, with records landing at the two yield points -/
def Ghost.collectAll (g : Ghost) (inj : Inject) : Ghost × List Int :=
  let g1 := ({ g with pendS := [] }).records inj.atSucc
  let g2 := { g1 with collS := g1.collS ++ g.pendS }
  let g3 := ({ g2 with pendF := [] }).records inj.atFail
  ({ g3 with collF := g3.collF ++ g2.pendF }, g.pendS)


/-- the figures a snapshot must show for the durations `l` -/
def expectSnap (l : List Int) : Snap :=
  { count := l.length, avg := if l = [] then 0 else l.sum.tdiv l.length, min := minOr0 l, max := maxOr0 l }

end F1.Progress
