/-
C15 (run time) — model of `newStagesWorker` / `runStage` (internal/trigger/file/stages_worker.go): the stages of a
config file run strictly one after another; `setEnvs(stage.Params)` before a stage triggers, the deferred
`unsetEnvs(stage.Params)` when `runStage` returns — whatever made it return.

The process environment is an association list (`look` = first match). A stage's parameters are a Go map: its keys are
distinct (`Nodup` in the theorems). What the environment decides: `stop i` — the run's context is already done or the
iteration limit has been reached when the loop gets to stage `i`; `cancelled i` — the context is cancelled while stage
`i` triggers (then `runStage` waits for the stage's worker and returns, and the loop's next check stops it).
-/
namespace F1.Stages

abbrev Env := List (String × String)
abbrev Params := List (String × String)

/-- `os.LookupEnv` -/
def look : Env → String → Option String
  | [], _ => none
  | (k', v) :: rest, k => if k' = k then some v else look rest k

/-- `os.Unsetenv` -/
def unsetVar : Env → String → Env
  | [], _ => []
  | (k', v) :: rest, k => if k' = k then unsetVar rest k else (k', v) :: unsetVar rest k

/-- `os.Setenv` -/
def setVar (e : Env) (k v : String) : Env := (k, v) :: unsetVar e k

/-- `setEnvs` / `unsetEnvs`: one `os.Setenv` / `os.Unsetenv` per entry -/
def setAll (e : Env) (ps : Params) : Env := ps.foldl (fun e p => setVar e p.1 p.2) e
def unsetAll (e : Env) (ps : Params) : Env := ps.foldl (fun e p => unsetVar e p.1) e

def keys (ps : Params) : List String := ps.map (·.1)

/-- what an iteration (or anything else) sees while stage `stage` triggers -/
structure Obs where
  stage  : Nat
  params : Params     -- the parameters of that stage, as configured
  env    : Env
  deriving Repr

/-- the loop of `newStagesWorker` from stage index `i` on -/
def runFrom (stop cancelled : Nat → Bool) : List Params → Nat → Env → Env × List Obs
  | [], _, e => (e, [])
  | ps :: rest, i, e =>
    if stop i then (e, [])
    else
      let during := setAll e ps
      let after := unsetAll during ps
      if cancelled i then (after, [⟨i, ps, during⟩])
      else
        let r := runFrom stop cancelled rest (i + 1) after
        (r.1, ⟨i, ps, during⟩ :: r.2)

def run (stop cancelled : Nat → Bool) (stages : List Params) (e : Env) : Env × List Obs :=
  runFrom stop cancelled stages 0 e

end F1.Stages
