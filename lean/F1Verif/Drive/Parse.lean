import F1Verif.Util
import F1Verif.Model.Parse
namespace F1.Drive
open F1.Util F1.Parse

def resTok {α} (f : α → String) : Res α → String
  | .ok v => "ok " ++ f v
  | .err => "err"
  | .crash => "crash"

/-- `atoi <hex>` / `parsedur <hex>` — correspondence of the two standard-library ports -/
def atoiOp (args _impl : List String) : Option (String × String) := do
  let s ← hexBytes (← args[0]?)
  pure ((match atoi s with | some n => s!"ok {n}" | none => "err"), "ok")

def parsedurOp (args _impl : List String) : Option (String × String) := do
  let s ← hexBytes (← args[0]?)
  pure ((match parseDuration s with | some n => s!"ok {n}" | none => "err"), "ok")

/-- `parserate <hex>`; Spec: never crashes; an accepted rate has a positive unit and a
non-negative count, and means what it spells. -/
def parserateOp (args impl : List String) : Option (String × String) := do
  let s ← hexBytes (← args[0]?)
  let m := parseRate s
  let model := resTok (fun (p : Int × Int) => s!"{p.1} {p.2}") m
  let spec := match impl with
    | ["err"] => "ok"
    | ["ok", r, u] =>
      match r.toInt?, u.toInt? with
      | some r, some u =>
        if u ≤ 0 then "FAIL accepted-rate-with-non-positive-interval"
        else if r < 0 then "FAIL accepted-negative-rate"
        else
          -- meaning: N/<duration literal> = N per that duration; N/<unit> = N per one unit; N = N per second
          let want : Option (Int × Int) :=
            match indexOf 47 s with
            | none => (atoi s).map fun n => (n, 1000000000)
            | some i =>
              let unit := s.drop (i + 1)
              match atoi (s.take i), (if startsWithLetter unit then parseDuration (49 :: unit) else parseDuration unit) with
              | some n, some d => some (n, d)
              | _, _ => none
          if want = some (r, u) then "ok" else "FAIL accepted-rate-does-not-mean-what-it-spells"
      | _, _ => "FAIL unparsable-impl-output"
    | t :: _ => if t.startsWith "crash" then "FAIL malformed-rate-crashes" else "FAIL no-impl-output"
    | [] => "FAIL no-impl-output"
  pure (model, spec)

def parsestagesOp (args impl : List String) : Option (String × String) := do
  let s ← hexBytes (← args[0]?)
  let m := parseStages s
  let model := resTok (fun (l : List (Int × Int)) =>
    if l.isEmpty then "-" else ";".intercalate (l.map fun p => s!"{p.1}:{p.2}")) m
  let spec := match impl with
    | t :: _ => if t.startsWith "crash" then "FAIL malformed-stages-crash" else "ok"
    | [] => "FAIL no-impl-output"
  pure (model, spec)

end F1.Drive
