import F1Verif.Util
import F1Verif.Model.TriggerPool
namespace F1.Drive
open F1.Util F1.TriggerPool

/-- `jobcounter <ops>` — ops `s<n>` (set), `n` (none), `t` (take) on the pending counter;
impl/model: one token per op: swapped-out value / 0|1 / 0|1, then the raw value -/
def jobcounter (args _impl : List String) : Option (String × String) := do
  let ops ← (← args[0]?).splitOn "," |>.mapM fun (o : String) =>
    match o.toList with
    | 's' :: r => (String.ofList r).toInt?.map fun n => (0, n)
    | ['n'] => some (1, 0)
    | ['t'] => some (2, 0)
    | _ => none
  let (num, outs) := ops.foldl (fun (acc : Int × List String) (op : Nat × Int) =>
    match op.1 with
    | 0 => (op.2, acc.2 ++ [toString acc.1])
    | 1 => (acc.1, acc.2 ++ [if acc.1 ≤ 0 then "1" else "0"])
    | _ => (acc.1 - 1, acc.2 ++ [if acc.1 - 1 ≥ 0 then "1" else "0"])) ((0 : Int), [])
  pure (",".intercalate outs ++ s!" {num}", "ok")

/-- run worker / stopper events in a fixed order until none is enabled (iterations never finish on
their own: bodies are gated by the harness). `holdLimit`: a worker is parked at pool.limit.discarded;
`holdTake`: one worker is parked at pool.worker.pretake. -/
def settle (fuel : Nat) (s : State) (holdLimit holdTake : Bool) : State :=
  match fuel with
  | 0 => s
  | fuel + 1 =>
    let cands : List Ev := [.wExit, .wToTest, .wTestEmpty, .wLock, .wWaitOrLeave, .wWake] ++
      (if holdTake ∧ s.w4 ≤ 1 then [] else [.wTake]) ++ [.wNext, .wLimitSwap] ++
      (if holdLimit then [] else [.wLimitCancel]) ++
      [.stopSetFlag, .stopLock, .stopSwap, .stopBroadcast, .stopUnlock, .stopReport]
    match cands.findSome? (fun e => step false s e) with
    | none => s
    | some s' => settle fuel s' holdLimit holdTake

def runEvs (s : State) (evs : List Ev) : State := evs.foldl (fun s e => (step false s e).getD s) s

def tickRest (s : State) : State :=
  let s := runEvs s [.tickLock]
  match step false s .tickRefuse with
  | some s' => s'
  | none => runEvs s [.tickSwap, .tickBroadcast, .tickUnlock, .tickReport]

/-- `pool.script <workers> <limit> <steps>` — the script executed on the interleaving model with a
deterministic (settling) scheduler; impl: `started= dropped= stuck= refused= accepted= done= maxflight=` -/
def poolScript (args impl : List String) : Option (String × String) := do
  match args with
  | [w, n, script] =>
    let w ← w.toNat?; let n ← n.toNat?
    let fuel := 100000
    let steps := (script.splitOn ";").filter (· ≠ "")
    let fin := steps.foldl (fun (acc : State × Bool × Bool) (st : String) =>
      let (s, hl, ht) := acc
      let arg : Int := ((st.drop 1).toString.toInt?).getD 0
      match st.toList.head? with
      | some 't' => (settle fuel (tickRest (runEvs s [.tickCheck arg])) hl ht, hl, ht)   -- harness settles only at `s`, but a tick's effect is the same
      | some 'T' => (runEvs s [.tickCheck arg], hl, ht)
      | some 'r' => (settle fuel (tickRest s) hl ht, hl, ht)
      | some 'x' => (settle fuel (runEvs s [.envCancel]) hl ht, hl, ht)
      | some 'f' => (settle fuel ((List.range arg.toNat).foldl (fun s _ => runEvs s [.wFinish]) s) hl ht, hl, ht)
      | some 's' => (settle fuel s hl ht, hl, ht)
      | some 'L' => (s, true, ht)
      | some 'l' => (settle fuel (runEvs s [.wLimitCancel]) false ht, false, ht)
      | some 'P' => (s, hl, true)
      | some 'p' => (settle fuel s hl false, hl, false)
      | _ => (s, hl, ht)) (settle fuel (init w n) false false, false, false)
    -- wind down as the harness does: settle, cancel, release every gate, wait for the workers
    let s := settle fuel fin.1 false false
    let s := settle fuel (runEvs s [.envCancel]) false false
    let s := (List.range (w + 1)).foldl (fun s _ => settle fuel ((List.range w).foldl (fun s _ => runEvs s [.wFinish]) s) false false) s
    let model := s!"started={s.started} dropped={s.dropped} stuck={pos s.num}"
    let get (k : String) : Option Int :=
      (impl.find? (·.startsWith (k ++ "="))).bind fun (t : String) => (t.drop (k.length + 1)).toString.toInt?
    -- Spec, from the script and the observations only (the model's figures are compared separately):
    -- ticks are settled before the next step, so without a limit and without a parked tick every accepted
    -- request is started or dropped; in the limit-window scripts every pre-limit tick was consumed, so any
    -- drop is a leftover of the limit
    let hasT := steps.any (·.startsWith "T")
    let spec := match get "started", get "dropped", get "stuck", get "done", get "accepted" with
      | some st, some dr, some stuck, some done, some acc =>
        if done ≠ 1 then "FAIL workers-did-not-terminate"
        else if stuck ≠ 0 then "FAIL requests-left-pending-after-the-pool-stopped"
        else if st + dr > acc then "FAIL more-started-plus-dropped-than-requested"
        else if n = 0 ∧ ¬hasT ∧ st + dr ≠ acc then "FAIL requested-iterations-neither-started-nor-dropped"
        -- with a limit that was never reached (fewer starts than the limit) nothing may have been discarded silently either
        else if n > 0 ∧ st < n ∧ ¬hasT ∧ ¬(steps.contains "L") ∧ st + dr ≠ acc then
          "FAIL requests-discarded-although-the-limit-was-not-reached"
        else if n > 0 ∧ st > n then "FAIL more-iterations-than-max-iterations"
        else if steps.contains "W" ∧ dr ≠ 0 then "FAIL leftovers-after-max-iterations-reported-dropped"
        else "ok"
      | _, _, _, _, _ => if impl.isEmpty then "FAIL no-impl-output" else s!"FAIL {impl.headD "?"}"
    pure (model, spec)
  | _ => none

/-- spec-only pool ops: `pool.stress`, `pool.usable`, `pool.handles` -/
def poolSpec (_args impl : List String) : Option (String × String) :=
  let bad := impl.filter fun (t : String) =>
    (t.startsWith "diff=" ∧ t ≠ "diff=0") ∨ (t.startsWith "notUsable=" ∧ t ≠ "notUsable=0") ∨
    (t.startsWith "shared=" ∧ t ≠ "shared=0") ∨ (t.startsWith "overflight=" ∧ t ≠ "overflight=0") ∨ t = "done=0" ∨ t.startsWith "timeout" ∨
    (t.startsWith "started=" ∧ t ≠ "started=0") ∨ t = "workers-never-finished"
  some ("-", if impl.isEmpty then "FAIL no-impl-output" else match bad with
    | [] => "ok"
    | b :: _ =>
      if b.startsWith "diff=" then s!"FAIL requested-differs-from-started-plus-dropped-{b}"
      else if b.startsWith "notUsable" then "FAIL idle-workers-did-not-pick-up-pending-requests"
      else if b.startsWith "shared" then "FAIL two-concurrent-iterations-shared-a-handle"
      else if b.startsWith "overflight" then "FAIL more-than-concurrency-iterations-in-flight"
      else if b.startsWith "started=" then s!"FAIL iterations-started-by-a-pool-whose-context-had-already-ended-{b}"
      else s!"FAIL {b}")

end F1.Drive
