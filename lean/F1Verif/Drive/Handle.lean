import F1Verif.Util
import F1Verif.Model.Handle
namespace F1.Drive
open F1.Util F1.Handle

def parseAct (s : String) : Option Act :=
  -- `W<act>`: the action executed inside `t.Time(stage, …)`, which is transparent for the handle
  let s := if s.startsWith "W" then (s.drop 1).toString else s
  match s.toList with
  | 'r' :: r => (String.ofList r).toNat?.map Act.reg
  | ['F'] => some .fail
  | ['E'] => some .error
  | ['N'] => some .failNow
  | ['A'] => some .fatal
  | ['Q'] => some .require
  | ['P', 'e'] => some (.panic .err)
  | ['P', 's'] => some (.panic .str)
  | ['P', 'v'] => some (.panic .val)
  | ['P', 'r'] => some (.panic .rt)
  | ['P', 'n'] => some (.panic .nil)
  | 'L' :: r => (String.ofList r).toNat?.map Act.log
  | _ => none

def parseProg (s : String) : Option Prog :=
  if s = "_" ∨ s = "" then some [] else (s.splitOn ".").mapM parseAct

def evTok : Ev → String
  | .setup k => s!"S{k}"
  | .body i k => s!"B{i}.{k}"
  | .cleanup c => s!"c{c}"
  | .log x => s!"L{x}"
  | .ran i => s!"R{i}"
  | .teardown => "T"

def parseEv (s : String) : Option Ev :=
  match s.toList with
  | 'S' :: r => (String.ofList r).toNat?.map Ev.setup
  | 'B' :: r =>
    match (String.ofList r).splitOn "." with
    | [i, k] => do pure (Ev.body (← i.toNat?) (← k.toNat?))
    | _ => none
  | 'c' :: r => (String.ofList r).toNat?.map Ev.cleanup
  | 'L' :: r => (String.ofList r).toNat?.map Ev.log
  | 'R' :: r => (String.ofList r).toNat?.map Ev.ran
  | ['T'] => some .teardown
  | _ => none

structure ScnCase where
  iters : Nat
  sc : Scenario
  cleanupList : List (Nat × Prog)

def parseScn (iters comps cleanups : String) : Option ScnCase := do
  let iters ← iters.toNat?
  let cl : List (Nat × Prog) ←
    if cleanups = "-" then pure [] else
      (cleanups.splitOn ";").mapM fun (c : String) =>
        match c.splitOn "=" with
        | [k, p] => do
          let id ← (k.drop 1).toString.toNat?
          pure (id, ← parseProg p)
        | _ => none
  let comps ← (comps.splitOn ";").mapM fun (c : String) =>
    match c.splitOn "/" with
    | [s, bs] => do
      let s ← parseProg s
      let bs ← (bs.splitOn "|").mapM parseProg
      pure (s, bs)
    | _ => none
  let bodiesOf (i : Nat) : List Prog := comps.map fun (_, bs) => bs.getD ((i - 1) % bs.length) []
  let cleanupsOf (c : Nat) : Prog := match cl.find? (·.1 = c) with | some (_, p) => p | none => []
  pure { iters := iters, sc := { setups := comps.map (·.1), bodies := bodiesOf, cleanups := cleanupsOf }, cleanupList := cl }

def compsRegistered (ps : List Prog) : List Nat := (executedComps ps).flatMap registered
def compsMark (ps : List Prog) : Bool := (executedComps ps).any marksFailure
def ranIdx (ps : List Prog) : List Nat := List.range (executedComps ps).length

/-- the C06/C07/C20 statements evaluated on an observed log -/
def monitor (c : ScnCase) (log : List Ev) (outcomes : String) (sf tf : Bool) : String := Id.run do
  let sc := c.sc
  -- setup: once per component, in order, up to the first that stops
  let setupIdx := log.filterMap fun e => match e with | .setup k => some k | _ => none
  if setupIdx ≠ ranIdx sc.setups then return "FAIL setup-components-not-once-in-order"
  let wantSf := compsMark sc.setups
  if sf ≠ wantSf then return "FAIL setup-failure-misreported"
  let bodyEvs := log.filter fun e => match e with | .body _ _ => true | _ => false
  if wantSf then
    if !bodyEvs.isEmpty ∨ outcomes ≠ "-" then return "FAIL iteration-ran-after-failed-setup"
  -- split at the teardown marker
  let before := log.takeWhile (· ≠ .teardown)
  let after := (log.dropWhile (· ≠ .teardown)).drop 1
  if log.count .teardown ≠ 1 then return "FAIL teardown-marker"
  if (after.any fun e => match e with | .body _ _ => true | .setup _ => true | .ran _ => true | _ => false) then
    return "FAIL iteration-or-setup-after-teardown-began"
  let wantTd := (compsRegistered sc.setups).reverse
  if cleanupIds after ≠ wantTd then return "FAIL setup-cleanups-not-once-in-reverse-order"
  if tf ≠ wantTd.any (fun id => marksFailure (sc.cleanups id)) then return "FAIL teardown-failure-misreported"
  -- no setup event after the first body event
  let afterSetup := before.dropWhile fun e => match e with | .setup _ => true | .log _ => true | _ => false
  if afterSetup.any (fun e => match e with | .setup _ => true | _ => false) then return "FAIL setup-after-iterations-began"
  if cleanupIds (before.takeWhile fun e => match e with | .body _ _ => false | _ => true) ≠ [] then
    return "FAIL cleanup-before-first-iteration"
  if wantSf then return "ok"
  -- iterations
  let n := c.iters
  let wantOutcomes := String.ofList ((List.range n).map fun j => if compsMark (sc.bodies (j + 1)) then 'f' else 'p')
  let wantOutcomes := if n = 0 then "-" else wantOutcomes
  let mut rest := afterSetup
  for j in [0:n] do
    let i := j + 1
    let seg := rest.takeWhile (· ≠ .ran i)
    if seg.length = rest.length then return s!"FAIL iteration-{i}-never-finished"
    rest := rest.drop (seg.length + 1)
    let idx := seg.filterMap fun e => match e with | .body i' k => if i' = i then some k else none | _ => none
    if (seg.any fun e => match e with | .body i' _ => i' ≠ i | _ => false) then return s!"FAIL iteration-{i}-saw-wrong-id"
    if idx ≠ ranIdx (sc.bodies i) then return s!"FAIL iteration-{i}-components-not-in-order-or-not-stopped"
    if cleanupIds seg ≠ (compsRegistered (sc.bodies i)).reverse then
      return s!"FAIL iteration-{i}-cleanups-not-once-in-reverse-order"
    -- all cleanups after the last body event
    let tail := seg.reverse.takeWhile fun e => match e with | .body _ _ => false | _ => true
    if cleanupIds tail.reverse ≠ cleanupIds seg then return s!"FAIL iteration-{i}-cleanup-before-body-end"
  if !rest.isEmpty then return "FAIL events-after-last-iteration"
  if outcomes ≠ wantOutcomes then return s!"FAIL outcomes-want-{wantOutcomes}"
  return "ok"

/-- `scn <iters> <components> <cleanups>` -/
def scn (args impl : List String) : Option (String × String) := do
  match args with
  | [iters, comps, cleanups] =>
    let c ← parseScn iters comps cleanups
    let r := runAll c.sc c.iters
    let oc := if r.outcomes.isEmpty then "-" else String.ofList (r.outcomes.map fun b => if b then 'f' else 'p')
    let nf := (r.outcomes.filter id).length
    let np := r.outcomes.length - nf
    let label := if r.setupFailed then "fail" else "success"
    let model := s!"{",".intercalate (r.log.map evTok)} {oc} sf={boolTok r.setupFailed} tf={boolTok r.teardownFailed} dirty=0 handle=0 stats={np}/{nf} metrics={np}/{nf}/{label}"
    let spec := match impl with
      | [log, outcomes, sf, tf, dirty, handle, stats, metrics] =>
        match (log.splitOn ",").mapM parseEv with
        | none => "FAIL unparsable-log"
        | some evs =>
          let m := monitor c evs outcomes (sf = "sf=1") (tf = "tf=1")
          if m ≠ "ok" then m
          else if dirty ≠ "dirty=0" then "FAIL iteration-started-in-failed-state"
          else if handle ≠ "handle=0" then "FAIL components-got-different-handles"
          else
            let f := (outcomes.toList.filter (· = 'f')).length
            let p := (outcomes.toList.filter (· = 'p')).length
            if stats ≠ s!"stats={p}/{f}" then "FAIL progress-counts-differ-from-outcomes"
            else if metrics ≠ s!"metrics={p}/{f}/{if sf = "sf=1" then "fail" else "success"}" then
              "FAIL metric-samples-or-setup-label-differ"
            else "ok"
      | _ => "FAIL no-impl-output"
    pure (model, spec)
  | _ => none

/-- `scn.measure` — no model; Spec on the flags the harness measured -/
def scnMeasure (_args impl : List String) : Option (String × String) :=
  match impl with
  | [a, b, _c, d] =>
    some ("-", if a ≠ "recordedAtCleanup=1" then "FAIL iteration-not-recorded-before-its-cleanups-run"
      else if b ≠ "geBody=1" then "FAIL recorded-duration-shorter-than-body"
      else if d ≠ "count=1" then "FAIL iteration-not-counted-once" else "ok")
  | _ => some ("-", "FAIL no-impl-output")

/-- `scn.measuremany <n>` — no recorded duration may be shorter than the body's own measurement -/
def scnMeasureMany (_args impl : List String) : Option (String × String) :=
  match impl with
  | a :: _ => some ("-", if a = "shorterThanBody=0" then "ok"
      else if a.startsWith "shorterThanBody=" then s!"FAIL recorded-duration-shorter-than-the-body-took-{" ".intercalate impl}"
      else s!"FAIL {a}")
  | [] => some ("-", "FAIL no-impl-output")

/-- `scn.counts` — per run: ground truth / result / metrics (+ number of setup samples) must agree -/
def scnCounts (_args impl : List String) : Option (String × String) :=
  let one : List String → String
    | [a, b, c, "/", d, e, f, "/", g, h, i, su] =>
      if [a, b, c] ≠ [d, e, f] then "FAIL result-counts-differ-from-executed-iterations"
      else if [a, b, c] ≠ [g, h, i] then "FAIL metric-samples-differ-from-executed-iterations"
      else if su ≠ "1" then "FAIL setup-metric-not-exactly-one-sample" else "ok"
    | _ => "FAIL no-impl-output"
  let rounds := (" ".intercalate impl).splitOn " // "
  let res := rounds.map fun r => one ((r.splitOn " ").filter (· ≠ ""))
  some ("-", (res.find? (· ≠ "ok")).getD "ok")

/-- `scn2 <rounds> <components>` — every round of a repeatedly set-up combined scenario looks like
the first -/
def scn2 (args impl : List String) : Option (String × String) := do
  match args with
  | [rounds, comps] =>
    let rounds ← rounds.toNat?
    let c ← parseScn "1" comps "-"
    let r := runAll c.sc 1
    let one := ",".intercalate (r.log.map evTok)
    let model := "|".intercalate (List.replicate rounds one)
    let spec := match impl with
      | [logs] =>
        let parts := logs.splitOn "|"
        if parts.length ≠ rounds then "FAIL rounds" else
        match parts.findIdx? (fun (p : String) =>
            match (p.splitOn ",").mapM parseEv with
            | none => true
            | some evs =>
              let oc := if r.setupFailed then "-" else (if compsMark (c.sc.bodies 1) then "f" else "p")
              monitor c evs oc r.setupFailed r.teardownFailed ≠ "ok") with
        | some i => s!"FAIL round-{i}-components-not-once-in-order"
        | none => "ok"
      | _ => "FAIL no-impl-output"
    pure (model, spec)
  | _ => none

end F1.Drive
