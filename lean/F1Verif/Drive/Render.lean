import F1Verif.Util
import F1Verif.Model.Render
import F1Verif.Drive.Labels
import F1Verif.Model.Template
import F1Verif.Generated.Facts
namespace F1.Drive
open F1.Util F1.Render

/-- remove ANSI colour sequences `ESC [ … m` -/
def stripAnsi (s : String) : String :=
  let rec go : List Char → Bool → List Char → List Char
    | [], _, acc => acc.reverse
    | c :: rest, true, acc => if c = 'm' then go rest false acc else go rest true acc
    | c :: rest, false, acc => if c = '\x1b' then go rest true acc else go rest false (c :: acc)
  String.ofList (go s.toList false [])

def lineWith (ls : List String) (needle : String) : Option String :=
  ls.find? fun (l : String) => (l.splitOn needle).length > 1

def afterS (l needle : String) : String := ((l.splitOn needle).getD 1 "")

def firstTok (s : String) : String := ((s.trimAscii.toString.splitOn " ").headD "")

def kvArgs (l : List String) : List (String × String) := l.filterMap fun (t : String) =>
  match t.splitOn "=" with | k :: v => some (k, "=".intercalate v) | _ => none

def logNum (log key : String) : Option Nat := (firstTok (afterS log (key ++ "="))).toNat?

/-- `render k=v…`; impl: `<text hex> <log hex> [failed=…]`. Spec only (the text is compared field by field). -/
def render (args impl : List String) : Option (String × String) := do
  let a := kvArgs args
  let g (k d : String) : String := ((a.find? (·.1 = k)).map (·.2)).getD d
  let gn (k : String) : Nat := (g k "0").toNat?.getD 0
  let kind := g "kind" "result"
  match impl with
  | text :: log :: rest =>
    let text := stripAnsi (← hexStr text)
    let log ← hexStr log
    let ls := text.splitOn "\n"
    let s := gn "s"; let f := gn "f"; let d := gn "d"
    let spec : String := Id.run do
      if kind = "progress" ∨ g "kind2" "" = "progress" then
        -- [ <dur>]  ✔ <succ>  [⦸ <dropped>  ]✘ <failed> (<rate>/s)
        let l := text
        if (firstTok (afterS l "✔")).toNat? ≠ some s then return "FAIL progress-line-successful-count"
        if (firstTok (afterS l "✘")).toNat? ≠ some f then return "FAIL progress-line-failed-count"
        if d > 0 ∧ (firstTok (afterS l "⦸")).toNat? ≠ some d then return "FAIL progress-line-dropped-count"
        if d = 0 ∧ (l.splitOn "⦸").length > 1 then return "FAIL progress-line-shows-dropped-without-drops"
        if logNum log "iteration_stats.successful" ≠ some s ∨ logNum log "iteration_stats.failed" ≠ some f ∨
           logNum log "iteration_stats.dropped" ≠ some d ∨ logNum log "iteration_stats.started" ≠ some (s + f + d) then
          return "FAIL structured-progress-states-different-counts"
        return "ok"
      -- result / summary
      let (iters, started, isFailed, hasErr) : Nat × Nat × Bool × Bool :=
        if kind = "summary" then (s + f + d, s + f, decide ((rest.headD "") = "failed=1"), decide (g "err" "0" ≠ "0"))
        else (gn "it", gn "st", decide (g "failed" "0" = "1"), decide (g "err" "0" ≠ "0"))
      let banner := if isFailed then "Load Test Failed" else "Load Test Passed"
      if (lineWith ls banner).isNone then return "FAIL banner-does-not-match-the-verdict"
      if (lineWith ls (if isFailed then "Load Test Passed" else "Load Test Failed")).isSome then return "FAIL both-banners"
      if hasErr ≠ (lineWith ls "Error: ").isSome then return "FAIL error-line"
      match lineWith ls " iterations started in " with
      | none => return "FAIL no-iterations-started-line"
      | some l => if (firstTok l).toNat? ≠ some started then return "FAIL iterations-started-count"
      let chk (label : String) (c : Nat) : Option String :=
        match lineWith ls label with
        | none => if c > 0 then some s!"FAIL missing-line-{label.replace " " "-"}" else none
        | some l =>
          if c = 0 then some s!"FAIL line-shown-for-zero-count-{label.replace " " "-"}"
          else
            let restl := afterS l label
            if (firstTok restl).toNat? ≠ some c then some s!"FAIL count-in-{label.replace " " "-"}"
            else
              let pct := ((afterS restl "(").splitOn "%").headD ""
              if iters > 0 ∧ pct ≠ fmt2 (percent c iters) then some s!"FAIL percentage-in-{label.replace " " "-"}-is-not-the-share-of-all-iterations-got-{pct}"
              else none
      match chk "Successful Iterations:" s with | some e => return e | none => pure ()
      match chk "Failed Iterations:" f with | some e => return e | none => pure ()
      match chk "Dropped Iterations:" d with | some e => return e | none => pure ()
      if (lineWith ls "Full logs:").isNone then return "FAIL no-log-path-line"
      if logNum log "iteration_stats.successful" ≠ some s ∨ logNum log "iteration_stats.failed" ≠ some f ∨
         logNum log "iteration_stats.dropped" ≠ some d ∨ logNum log "iteration_stats.started" ≠ some started then
        return "FAIL structured-summary-states-different-counts"
      if isFailed ≠ decide ((log.splitOn "Load Test Failed").length > 1) then return "FAIL structured-banner-does-not-match-the-verdict"
      return "ok"
    pure ("-", spec)
  | t :: _ => pure ("-", if t.startsWith "crash" then "FAIL rendering-crashed" else "FAIL no-impl-output")
  | [] => pure ("-", "FAIL no-impl-output")

/-- `tmpl` — do the regenerated templates still lex to the token lists the layout theorems are about? -/
def tmplOp (_args _impl : List String) : Option (String × String) :=
  let a := F1.Template.lexTemplate F1.Generated.tmpl_result == F1.Template.resultToks
  let b := F1.Template.lexTemplate F1.Generated.tmpl_progress == F1.Template.progressToks
  some ("-", if a && b then "ok" else if !a then "FAIL result-template-differs-from-the-modelled-layout" else "FAIL progress-template-differs-from-the-modelled-layout")

end F1.Drive
