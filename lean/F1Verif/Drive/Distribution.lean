import F1Verif.Util
import F1Verif.Model.Distribution
namespace F1.Drive
open F1.Util F1.Dist

def parseKind (s : String) : Option Kind :=
  match s with
  | "none" => some .none | "regular" => some .regular | "random" => some .random | _ => none

/-- run `steps` steps of the as-written (Float) regular model and of the exact one; returns
(float outs, exact outs, evals) -/
def runRegBoth (N : Nat) (rates : Array Int) (steps : Nat) : Array Int × Array Int × Nat := Id.run do
  let rf := fun i => rates.getD i 0
  let mut sf := RegF.init
  let mut sz := RegZ.init
  let mut of : Array Int := Array.mkEmpty steps
  let mut oz : Array Int := Array.mkEmpty steps
  for _ in [0:steps] do
    let (sf', a) := regStepF N rf sf
    let (sz', b) := regStepZ N rf sz
    sf := sf'; sz := sz'
    of := of.push a; oz := oz.push b
  return (of, oz, sf.evals)

def runRndA (N : Nat) (rates rands : Array Int) (steps : Nat) : Array Int × Nat := Id.run do
  let mut s := Rnd.init
  let mut o : Array Int := Array.mkEmpty steps
  for _ in [0:steps] do
    let (s', a) := rndStep N (fun i => rates.getD i 0) (fun d _ => rands.getD d 0) s
    s := s'; o := o.push a
  return (o, s.evals)

/-- evaluate the C12 statement on an output sequence (complete cycles only; rates < 0 are outside
the quantifier and skipped) -/
def checkCycles (regular : Bool) (N : Nat) (rates : Array Int) (outs : List Int) : String :=
  let cs := chunks N outs
  let rec go (i : Nat) : List (List Int) → String
    | [] => "ok"
    | c :: rest =>
      let r := rates.getD i 0
      if c.length < N then
        if r ≥ 0 ∧ (!allNonneg c || decide (sumL c > r)) then s!"FAIL partial-cycle-{i}-exceeds-rate" else "ok"
      else if r < 0 then go (i + 1) rest
      else if !allNonneg c then s!"FAIL negative-output-in-cycle-{i}"
      else if sumL c ≠ r then s!"FAIL cycle-{i}-sum-{sumL c}-differs-from-rate-{r}"
      else if regular ∧ spread c > 1 then s!"FAIL cycle-{i}-not-even"
      else go (i + 1) rest
  go 0 cs

/-- `dist <kind> <intervalNs> <steps> <rates> <rands>`;
impl: `<intervalOutNs> <evals> <outs>` | `err` -/
def dist (args impl : List String) : Option (String × String) := do
  -- an optional sixth argument scripts the *timestamps* of the calls (late ticks, pauses); the property counts
  -- cycles in calls, so the model does not look at it
  let args := args.take 5
  match args with
  | [k, iv, steps, rates, rands] =>
    let iv ← iv.toInt?
    let steps ← steps.toNat?
    let rates := (← parseInts rates).toArray
    let rands := (← parseInts rands).toArray
    match parseKind k with
    | none => pure ("err", if impl = ["err"] then "ok" else "FAIL unknown-distribution-accepted")
    | some kind =>
    if iv ≤ 0 then
      return ("err", if impl = ["err"] then "ok" else "FAIL non-positive-interval-accepted")
    if passthrough kind iv then
      let outs := (List.range steps).map fun i => rates.getD i 0
      let model := s!"{iv} {steps} {intsTok outs}"
      let spec := match impl with
        | [iv', ev, o] =>
          if iv'.toInt? ≠ some iv then "FAIL passthrough-changed-interval"
          else if ev.toNat? ≠ some steps then "FAIL passthrough-evaluations"
          else if parseInts o ≠ some outs then "FAIL passthrough-changed-values"
          else "ok"
        | _ => "FAIL no-impl-output"
      return (model, spec)
    let N := (tickSteps iv).toNat
    let (mouts, gap, evals) :=
      match kind with
      | .regular =>
        let (f, z, e) := runRegBoth N rates steps
        (f.toList, f != z, e)
      | _ =>
        let (o, e) := runRndA N rates rands steps
        (o.toList, false, e)
    let model := s!"{subTickNs} {evals} {intsTok mouts}"
    let spec := match impl with
      | [iv', ev, o] =>
        match parseInts o with
        | none => "FAIL unparsable-impl-output"
        | some outs =>
          if iv'.toInt? ≠ some subTickNs then "FAIL sub-tick-interval-not-100ms"
          else if outs.length ≠ steps then "FAIL output-length"
          else if ev.toNat? ≠ some ((steps + N - 1) / N) then "FAIL rate-not-evaluated-once-per-cycle"
          else checkCycles (kind == .regular) N rates outs
      | _ => "FAIL no-impl-output"
    let spec := if spec = "ok" ∧ gap then "ok:gap" else spec
    pure (model, spec)
  | _ => none

/-- summary form for long cycles: `distsum regular <intervalNs> <cycles> <rates>`;
impl/model: `<evals> <sum:min:max per cycle,…>` -/
def distsum (args impl : List String) : Option (String × String) := do
  match args with
  | ["regular", iv, cycles, rates] =>
    let iv ← iv.toInt?
    let cycles ← cycles.toNat?
    let rates := (← parseInts rates).toArray
    let N := (tickSteps iv).toNat
    if iv ≤ subTickNs ∨ N = 0 ∨ rates.size = 0 then none else
    let rf := fun i => rates.getD (i % rates.size) 0
    let (toks, gap, evals) := Id.run do
      let mut sf := RegF.init
      let mut sz := RegZ.init
      let mut toks : Array String := #[]
      let mut gap := false
      for _ in [0:cycles] do
        let mut sum : Int := 0
        let mut mn : Int := 0
        let mut mx : Int := 0
        let mut zsum : Int := 0
        for j in [0:N] do
          let (sf', a) := regStepF N rf sf
          let (sz', b) := regStepZ N rf sz
          sf := sf'; sz := sz'
          sum := sum + a; zsum := zsum + b
          if j = 0 then mn := a; mx := a else
            if a < mn then mn := a
            if a > mx then mx := a
        if zsum ≠ sum then gap := true
        toks := toks.push s!"{sum}:{mn}:{mx}"
      return (toks, gap, sf.evals)
    let model := s!"{evals} {",".intercalate toks.toList}"
    let spec := match impl with
      | [ev, t] =>
        let parts := t.splitOn ","
        if ev.toNat? ≠ some cycles then "FAIL rate-not-evaluated-once-per-cycle"
        else if parts.length ≠ cycles then "FAIL output-length"
        else Id.run do
          let mut res := "ok"
          let mut i := 0
          for p in parts do
            match p.splitOn ":" |>.mapM String.toInt? with
            | some [s, mn, mx] =>
              let r := rf i
              if r ≥ 0 ∧ res = "ok" then
                if mn < 0 then res := s!"FAIL negative-output-in-cycle-{i}"
                else if s ≠ r then res := s!"FAIL cycle-{i}-sum-{s}-differs-from-rate-{r}"
                else if mx - mn > 1 then res := s!"FAIL cycle-{i}-not-even"
            | _ => res := "FAIL unparsable-impl-output"
            i := i + 1
          return res
      | _ => "FAIL no-impl-output"
    let spec := if spec = "ok" ∧ gap then "ok:gap" else spec
    pure (model, spec)
  | _ => none

end F1.Drive
