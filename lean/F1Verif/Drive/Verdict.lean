import F1Verif.Util
import F1Verif.Model.Verdict
namespace F1.Drive
open F1.Util F1.Verdict

/-- `verdict <hasErr> <ignoreDropped> <maxFailures> <maxFailuresRate> <succ> <failed> <dropped>`
impl tokens: `<pass|fail|crash> <cliErr 0|1|->` -/
def verdict (args impl : List String) : Option (String × String) := do
  match args with
  | [e, ign, mf, mfr, s, f, d] =>
    let e ← parseBool e
    let o : Opts := ⟨← parseBool ign, ← mf.toNat?, ← mfr.toInt?⟩
    let c : Counts := ⟨← s.toNat?, ← f.toNat?, ← d.toNat?⟩
    let fl := failedImpl e o c
    let model := (if fl then "fail" else "pass") ++ " " ++ boolTok (cliError e fl)
    let want := decide (FailedSpec e o c)
    let spec :=
      match impl with
      | v :: rest =>
        let cli := rest.headD "-"
        if v.startsWith "crash" then "FAIL verdict-crashed"
        else if (v = "fail") != want then "FAIL verdict-differs-from-documented-tolerances"
        else if cli ≠ "-" ∧ cli ≠ boolTok want then "FAIL cli-error-differs-from-verdict"
        else "ok"
      | [] => "FAIL no-impl-output"
    pure (model, spec)
  | _ => none

end F1.Drive
