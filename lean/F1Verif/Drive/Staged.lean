import F1Verif.Util
import F1Verif.Model.Staged
import F1Verif.Model.Parse
namespace F1.Drive
open F1.Util F1.Staged

def parseStageList (s : String) : Option (List (Int × Int)) :=
  if s = "-" then some [] else
  (s.splitOn ";").mapM fun (p : String) =>
    match p.splitOn ":" with
    | [d, t] => do pure (← d.toInt?, ← t.toInt?)
    | _ => none

def sortedLE : List Int → Bool
  | a :: b :: rest => decide (a ≤ b) && sortedLE (b :: rest)
  | _ => true

/-- C10 evaluated on observed rates: for each query inside a stage the value is within 1 of the
exact interpolation and between the stage's targets, monotone within a stage, 0 after the end -/
def checkShape (stages : List Stage) (t0 : Int) (qs outs : List Int) : String := Id.run do
  let mut prev : Option (Stage × Int × Int × Int) := none   -- stage, its start, offset, value
  for (q, v) in qs.zip outs do
    let r := skip stages t0 q
    match r.1 with
    | [] =>
      if v ≠ 0 then return s!"FAIL nonzero-after-all-stages-at-{q}"
      prev := none
    | st :: _ =>
      let o := q - r.2
      -- "within 1 of the exact value": |d·(v − s) − o·(e − s)| ≤ d. (The exact model is strictly inside —
      -- `interp_within_one` —; the binary64 code can sit exactly 1 below when the exact value is an integer.)
      let lhs := st.d * (v - st.s) - o * (st.e - st.s)
      if !(decide (-st.d ≤ lhs) && decide (lhs ≤ st.d)) then return s!"FAIL not-within-1-of-interpolation-at-{q}-got-{v}"
      if v < min st.s st.e ∨ v > max st.s st.e then return s!"FAIL outside-stage-targets-at-{q}-got-{v}"
      match prev with
      | some (pst, pstart, po, pv) =>
        if pst = st ∧ pstart = r.2 ∧ po ≤ o then
          if st.s ≤ st.e ∧ v < pv then return s!"FAIL not-monotone-within-stage-at-{q}"
          if st.e ≤ st.s ∧ v > pv then return s!"FAIL not-monotone-within-stage-at-{q}"
      | none => pure ()
      prev := some (st, r.2, o, v)
  return "ok"

/-- `staged <stages> <start|-> <queries>`; impl: `<durationNs> <rates>` | `err` -/
def staged (args impl : List String) : Option (String × String) := do
  match args with
  | [stages, start, qs] =>
    let l ← parseStageList stages
    let qs ← parseInts qs
    let start : Option Int ← if start = "-" then pure none else (start.toInt?).map some
    let c := Calc.new l start
    let outsF := c.runWith interpF qs
    let outsZ := c.runWith interp qs
    let dur := totalDuration (mkStages l)
    let model := s!"{dur} {intsTok outsF}"
    let t0 := match start, qs with
      | some s, _ => s
      | none, q :: _ => q
      | none, [] => 0
    let inScope := sortedLE qs && l.all (fun p => decide (0 ≤ p.1)) && decide (t0 ≤ qs.headD t0)
    let spec := match impl with
      | [d, rates] =>
        match parseInts rates with
        | none => "FAIL unparsable-impl-output"
        | some outs =>
          if d.toInt? ≠ some dur then "FAIL reported-duration-is-not-the-sum-of-stage-durations"
          else if outs.length ≠ qs.length then "FAIL output-length"
          else if !inScope then "ok"
          else checkShape (mkStages l) t0 qs outs
      | _ => "FAIL no-impl-output"
    let spec := if spec = "ok" ∧ outsF ≠ outsZ then "ok:gap" else spec
    pure (model, spec)
  | _ => none

/-- `ramp <startRate> <endRate> <unitNs> <durationNs> <queries>`;
impl: `<durationNs> <intervalNs> <rates>` | `err` -/
def ramp (args impl : List String) : Option (String × String) := do
  match args.take 5 with      -- (a sixth argument only tells the harness where on the time line the queries start)
  | [s, e, unit, dur, qs] =>
    let s ← s.toInt?; let e ← e.toInt?; let unit ← unit.toInt?; let dur ← dur.toInt?
    let qs ← parseInts qs
    -- CalculateRampRate's own validation
    if s < 0 ∨ e < 0 ∨ unit ≤ 0 ∨ s = e ∨ dur < unit then
      return ("err", if impl = ["err"] then "ok" else "FAIL invalid-ramp-accepted")
    let r : Ramp := ⟨s, e, dur⟩
    let t0 := qs.headD 0
    let outsF := qs.map (r.rateF t0)
    let outsZ := qs.map (r.rate t0)
    let model := s!"{dur} {unit} {intsTok outsF}"
    let spec := match impl with
      | [d, iv, rates] =>
        match parseInts rates with
        | none => "FAIL unparsable-impl-output"
        | some outs =>
          if d.toInt? ≠ some dur then "FAIL reported-duration"
          else if iv.toInt? ≠ some unit then "FAIL tick-interval-is-not-the-rate-unit"
          else if outs.length ≠ qs.length then "FAIL output-length"
          else if !sortedLE qs then "ok"
          else Id.run do
            -- the single segment, then 0 strictly after the ramp duration
            let inside := (qs.zip outs).filter fun (q, _) => decide (q ≤ t0 + dur)
            let after := (qs.zip outs).filter fun (q, _) => decide (q > t0 + dur)
            if after.any (fun (_, v) => v ≠ 0) then return "FAIL nonzero-after-ramp-duration"
            let st : Stage := ⟨s, e, dur⟩
            -- reuse the stage checker with a stage list of one (offsets up to and including dur)
            let mut pv : Option Int := none
            for (q, v) in inside do
              let o := q - t0
              let lhs := dur * (v - s) - o * (e - s)
              if !(decide (-dur ≤ lhs) && decide (lhs ≤ dur)) then return s!"FAIL not-within-1-of-interpolation-at-{q}-got-{v}"
              if v < min s e ∨ v > max s e then return s!"FAIL outside-ramp-rates-at-{q}-got-{v}"
              match pv with
              | some p =>
                if st.s ≤ st.e ∧ v < p then return "FAIL not-monotone"
                if st.e ≤ st.s ∧ v > p then return "FAIL not-monotone"
              | none => pure ()
              pv := some v
            return "ok"
      | _ => if impl = ["err"] then "FAIL valid-ramp-rejected" else "FAIL no-impl-output"
    let spec := if spec = "ok" ∧ outsF ≠ outsZ then "ok:gap" else spec
    pure (model, spec)
  | _ => none

/-- `bstaged <stages string hex> <queries>` — the staged builder on a `--stages` string: `Parse.parseStages` gives the
stage list, then everything is `staged` (no start time: the first query is the start). -/
def bstaged (args impl : List String) : Option (String × String) := do
  match args with
  | [st, qs] =>
    let st ← hexBytes st
    match F1.Parse.parseStages st with
    | .ok l =>
      let tok := if l.isEmpty then "-" else ";".intercalate (l.map fun (d, t) => s!"{d}:{t}")
      staged [tok, "-", qs] impl
    | _ => pure ("err", if impl = ["err"] then "ok" else "FAIL malformed-stages-accepted")
  | _ => none

/-- `bramp <s> <e> <unitNs> <rampDurNs> <maxDurNs> <queries>` — the ramp builder: `--ramp-duration 0` falls back
to `--max-duration`, any other value is the ramp's duration whatever the run's; then everything is `ramp`.
impl: `<rates>` | `err` (the builder does not expose its duration and interval). -/
def bramp (args impl : List String) : Option (String × String) := do
  match args with
  | [s, e, unit, rd, md, qs, eunit] =>
    -- rates in different units: f1 refuses them; should a build accept them, they must still mean what they spell —
    -- the ramp ends at `e` per `eunit`, i.e. e·unit/eunit per tick of the start unit
    if eunit = unit then bramp [s, e, unit, rd, md, qs] impl else
    let sI ← s.toInt?; let eI ← e.toInt?; let uI ← unit.toInt?; let euI ← eunit.toInt?
    let rdI ← rd.toInt?; let mdI ← md.toInt?
    let dur := if rdI = 0 then mdI else rdI
    let qsI ← parseInts qs
    let spec := match impl with
      | ["err"] => "ok"
      | [rates] =>
        match parseInts rates with
        | some outs =>
          -- every query not after t0 + dur: exact interpolation at q between s and e·u/eu (a rational number of
          -- iterations per tick of the start unit), compared after multiplying through by dur·eu; within 1 of it, as
          -- for a ramp in one unit. (A build that rounds the converted end rate to a whole number first is up to
          -- two off shortly before the end of the ramp.)
          let t0 := qsI.headD 0
          let inside := (qsI.zip outs).filter fun (q, _) => decide (q ≤ t0 + dur)
          if euI ≤ 0 ∨ dur ≤ 0 then "ok"
          else match inside.find? (fun (q, v) =>
              let lhs := (v - sI) * dur * euI
              let rhs := (q - t0) * (eI * uI - sI * euI)
              decide ((lhs - rhs).natAbs > (dur * euI).natAbs)) with
            | some (q, v) => s!"FAIL accepted-ramp-with-mixed-units-does-not-mean-what-its-rates-spell-at-{q}-got-{v}"
            | none => "ok"
        | none => "FAIL unparsable-impl-output"
      | _ => "FAIL no-impl-output"
    pure ("err", spec)
  | [s, e, unit, rd, md, qs] =>
    let rdI ← rd.toInt?; let mdI ← md.toInt?
    let dur := if rdI = 0 then mdI else rdI
    let impl' := match impl with
      | [rates] => if rates = "err" then ["err"] else [toString dur, unit, rates]
      | x => x
    let (m, sp) ← ramp [s, e, unit, toString dur, qs] impl'
    -- the builder exposes only the rate function: the model line is the values alone
    let m' := match (m.splitOn " ") with | [_, _, outs] => outs | _ => m
    pure (m', sp)
  | _ => none

end F1.Drive
