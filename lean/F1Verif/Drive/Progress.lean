import F1Verif.Util
import F1Verif.Model.Progress
namespace F1.Drive
open F1.Util F1.Progress

def snapTok (s : Snap) : String := s!"{s.count}/{s.avg}/{s.min}/{s.max}"

def fullSnap (s : Snapshot) : String :=
  s!"P{snapTok s.period}:S{snapTok s.succ}:F{snapTok s.failed}:D{s.dropped}"

def parseRec (t : String) : Option (Outcome × Int) :=
  match t.toList with
  | 's' :: r => (String.ofList r).toInt?.map fun n => (.success, n)
  | 'f' :: r => (String.ofList r).toInt?.map fun n => (.fail, n)
  | ['d'] => some (.dropped, 0)
  | 'u' :: r => (String.ofList r).toInt?.map fun n => (.unknown, n)
  | _ => none

/-- `S<period>[s:r+r…][f:r+r…]` / `T[…]` / a record -/
def parseOp (t : String) : Option Op := do
  let (head, groups) : String × List String := match t.splitOn "[" with
    | h :: gs => (h, gs.map fun (g : String) => (g.splitOn "]").headD "")
    | [] => (t, [])
  let grp (c : Char) : Option (List (Outcome × Int)) :=
    match groups.find? (fun (g : String) => g.toList.head? = some c) with
    | none => some []
    | some g => ((g.drop 2).toString.splitOn "+").mapM parseRec
  match head.toList with
  | 'S' :: _ => pure (.snapshot ⟨← grp 's', ← grp 'f'⟩)
  | 'T' :: _ => pure (.total ⟨← grp 's', ← grp 'f'⟩)
  | _ => let r ← parseRec head; pure (.record r.1 r.2)

/-- the expected snapshots, from the plain lists of durations (specification side) -/
def expected (ops : List Op) : List Snapshot :=
  let rec go (g : Ghost) : List Op → List Snapshot
    | [] => []
    | .record o ns :: rest => go (g.record o ns) rest
    | .snapshot inj :: rest =>
      let r := g.collectAll inj
      { period := expectSnap r.2, succ := expectSnap r.1.collS, failed := expectSnap r.1.collF, dropped := r.1.drops } :: go r.1 rest
    | .total inj :: rest =>
      let r := g.collectAll inj
      { period := expectSnap [], succ := expectSnap r.1.collS, failed := expectSnap r.1.collF, dropped := r.1.drops } :: go r.1 rest
  go Ghost.empty ops

def progressOps (sep : String) (args impl : List String) : Option (String × String) := do
  match args with
  | [script] =>
    let ops ← (script.splitOn sep).mapM parseOp
    let outs := (Stats.empty.run ops).2
    let model := if outs.isEmpty then "-" else " ".intercalate (outs.map fullSnap)
    let want := expected ops
    let wantToks := want.map fullSnap
    let spec :=
      if impl = wantToks ∨ (want.isEmpty ∧ impl = ["-"]) then "ok"
      else
        -- name the first snapshot that misstates the recorded iterations
        let idx := (List.range want.length).find? fun i => impl[i]? ≠ wantToks[i]?
        s!"FAIL snapshot-{idx.getD 0}-want-{(wantToks[idx.getD 0]?).getD "?"}"
    pure (model, spec)
  | _ => none

def progressSeq := progressOps ","
def progressScript := progressOps ";"

/-- `progress.stress …` — no model run; Spec: totals equal the ground truth the harness kept.
impl: `<succ> <failed> <dropped> | <succ> <failed> <dropped>` -/
def progressStress (_args impl : List String) : Option (String × String) :=
  match impl with
  | [a, b, c, "/", x, y, z] =>
    some ("-",
      if a = x ∧ b = y ∧ c = z then "ok" else "FAIL totals-differ-from-recorded-iterations")
  | _ => some ("-", "FAIL no-impl-output")

end F1.Drive
