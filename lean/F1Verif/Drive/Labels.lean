import F1Verif.Util
import F1Verif.Model.Labels
namespace F1.Drive
open F1.Util F1.Labels

def hexStr (s : String) : Option String := do
  let bs ← hexBytes s
  String.fromUTF8? (ByteArray.mk (bs.map UInt8.ofNat).toArray)

def strHex (s : String) : String := bytesHex (s.toUTF8.toList.map UInt8.toNat)

/-- `labels <k=v;k=v…>` (keys and values hex-encoded). impl: for every gathered series the static
label pairs `k=v;…` sorted by label name, series separated by `|`… all must be identical. -/
def labels (args impl : List String) : Option (String × String) := do
  match args with
  | [m] =>
    let pairs : LMap ← if m = "-" then pure [] else
      (m.splitOn ";").mapM fun (p : String) =>
        match p.splitOn "=" with
        | [k, v] => do pure (← hexStr k, ← hexStr v)
        | _ => none
    let ks := labelKeys pairs
    let vs := labelValues pairs
    let tok := if pairs.isEmpty then "-" else ";".intercalate ((ks.zip vs).map fun (k, v) => s!"{strHex k}={strHex v}")
    let model := s!"4 {tok}"
    -- Spec: every series carries each configured label paired with its own value (and nothing else)
    let want := pairs.mergeSort (fun a b => decide (a.1 ≤ b.1))
    let wantTok := if pairs.isEmpty then "-" else ";".intercalate (want.map fun (k, v) => s!"{strHex k}={strHex v}")
    let spec := match impl with
      | [n, t] => if n ≠ "4" then "FAIL expected-setup-and-three-iteration-series"
                  else if t = wantTok then "ok" else "FAIL static-label-paired-with-wrong-value"
      | ["mixed"] => "FAIL series-carry-different-static-labels"
      | _ => "FAIL no-impl-output"
    pure (model, spec)
  | _ => none

end F1.Drive
