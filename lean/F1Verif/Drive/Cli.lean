import F1Verif.Util
import F1Verif.Model.Cli
import F1Verif.Model.Distribution
import F1Verif.Drive.Plan
namespace F1.Drive
open F1.Util F1.Parse F1.Plan F1.Cli

/-- `cli k=v…` — one real `F1.ExecuteWithArgs(["run", <mode>, flags…, <scenario>])`.
Case keys (all optional except mode): `mode` (constant|staged|ramp|gaussian|users|file), hex strings `rate dist
stages srate erate weights freq rampdur stddev dur`, decimal `conc maxit maxfail maxfailrate`, `igndrop=1`,
`scenario=0` (unknown scenario name), `raw=<hex>` (an extra argument cobra/pflag refuses), scenario body
`failevery failkind bodyms setupfail tdfail`, `combine=1 twice=1 sigint=<ms> logfile=good|bad`, and for mode=file the stage list `fstages` with `fdur` (ms) and the limits above.
impl: `err=<0|1> banner=<pass|fail|none> stats=<s>/<f>/<d> truth=<s>/<f> setups=<n> started=<n> maxflight=<n> ret=<ms>`.
Model output: `accept <interval> <conc> <maxDurNs> <maxit> <maxfail> <maxfailrate> <igndrop>` | `reject`; the
implementation side prints `accept`/`reject` only, so the correspondence is on the first token. -/
def cliOp (args impl : List String) : Option (String × String) := do
  let kv (l : List String) : List (String × String) := l.filterMap fun (t : String) =>
    match t.splitOn "=" with | k :: v => some (k, "=".intercalate v) | _ => none
  let a := kv args
  let o := kv impl
  let get (k : String) : Option String := (a.find? (·.1 = k)).map (·.2)
  let hb (k : String) : Option (Option Bytes) := match get k with | none => some none | some v => (hexBytes v).map some
  let it (k : String) : Option (Option Int) := match get k with | none => some none | some v => v.toInt?.map some
  let nt (k : String) : Option (Option Nat) := match get k with | none => some none | some v => v.toNat?.map some
  let mode ← get "mode"
  let isFile := mode = "file"
  let cargs : Args := {
    mode := mode.toUTF8.toList.map UInt8.toNat,
    rate := ← hb "rate", dist := ← hb "dist", stages := ← hb "stages", startRate := ← hb "srate", endRate := ← hb "erate",
    weights := ← hb "weights", freq := ← hb "freq", rampDur := ← hb "rampdur", stddev := ← hb "stddev",
    maxDur := ← hb "dur", conc := ← it "conc", maxIt := ← nt "maxit", maxFail := ← nt "maxfail",
    maxFailRate := ← it "maxfailrate", ignDrop := get "igndrop" = some "1",
    scenarioKnown := get "scenario" ≠ some "0", wellFormed := (get "raw").isNone }
  -- gaussian mode: oracle input (defaults: repeat 24 h, peak 14 h)
  let cargs := if mode = "gaussian" then
      match durFlag cargs.freq second, durFlag cargs.stddev dfltStddev with
      | .ok f, .ok sd => { cargs with gaussDerivable :=
          (gaussDerivable (24 * 3600 * second) f (14 * 3600 * second) sd (cargs.weights.getD [])).getD (impl.head? = some "accept") }
      | _, _ => cargs
    else cargs
  -- mode=file: the generator writes only valid files (validation is the `plan` op's business); the limits are the file's
  let r : Res Cli.Plan :=
    if isFile ∧ (get "fpath").isSome then .err          -- a path that cannot be read (a directory, a missing file): refused
    else if isFile then
      .ok { interval := 0, users := false, conc := cargs.conc.getD 1, maxDur := ((get "fdur").bind String.toInt?).getD 1000 * 1000000,
            maxIt := cargs.maxIt.getD 0, maxFail := cargs.maxFail.getD 0, maxFailRate := cargs.maxFailRate.getD 0,
            ignDrop := cargs.ignDrop }
    else Cli.plan cargs
  let model := match r with
    | .ok _ => "accept"
    | .err => "reject"
    | .crash => "crash"
  let out (k : String) : String := ((o.find? (·.1 = k)).map (·.2)).getD "?"
  -- config file: every stage has its own pool (a users stage its own worker count, a rate stage limits.concurrency) and a
  -- rate stage does not wait for its iterations in flight, so consecutive stages can overlap: the bound is the sum
  let flightBound (conc : Int) : Int :=
    if isFile then
      (((get "fstages").getD "").splitOn ";").foldl (fun (acc : Int) (st : String) =>
        match st.splitOn ":" with
        | ["u", _, k] => acc + (k.toInt?.getD 0)
        | _ => acc + conc) 0
    else conc
  let n (k : String) : Int := (out k).toInt?.getD (-1)
  let triple (k : String) : List Int := ((out k).splitOn "/").map fun (x : String) => x.toInt?.getD (-1)
  let spec : String :=
    match impl with
    | [] => "FAIL no-impl-output"
    | t :: _ =>
      if t.startsWith "crash" then "FAIL command-line-crashes-the-process"
      else if t.startsWith "never" then "FAIL command-never-returned"
      else
      match r with
      | .crash => "FAIL model-crash"
      | .err =>
        if n "setups" ≠ 0 ∨ n "started" ≠ 0 then "FAIL refused-input-ran-anyway"
        else if n "err" ≠ 1 then "FAIL malformed-input-accepted-without-error"
        else "ok"
      | .ok p =>
        -- logfmt=json: the command uses f1's own JSON logger, so there is no captured summary; the body's own counters stand in
        -- for the counts (such cases use users mode: nothing is dropped) and the banner clauses do not apply
        let starved := n "setupat" * 4 > p.maxDur / 1000000 ∨ n "stall" * 4 > p.maxDur / 1000000
        let jsonLog := (get "logfmt") = some "json" ∨ (get "logfmt") = some "text" ∨ (get "loglevel").isSome
        let truth := triple "truth"
        let stats := if jsonLog then truth ++ [0] else triple "stats"
        let succ := (stats.getD 0 0).toNat; let failed := (stats.getD 1 0).toNat; let dropped := (stats.getD 2 0).toNat
        let setupFailed := (get "setupfail").getD "0" ≠ "0"
        let stageFailed := setupFailed ∨ (get "tdfail").getD "0" ≠ "0"
        let wantErr := exitError p stageFailed ⟨succ, failed, dropped⟩
        let specErr := decide (Verdict.FailedSpec stageFailed p.opts ⟨succ, failed, dropped⟩)
        if n "setups" = 0 ∧ n "err" = 1 then "FAIL valid-input-refused"
        else if n "setups" ≠ 1 then "FAIL setup-did-not-run-exactly-once"
        else if ¬jsonLog ∧ out "banner" = "none" then "FAIL no-summary-for-an-accepted-run"
        else if ¬setupFailed ∧ stats.take 2 ≠ truth then "FAIL summary-counts-differ-from-executed-iterations"
        else if setupFailed ∧ n "started" ≠ 0 then "FAIL iterations-ran-after-a-failed-setup"
        else if n "maxflight" > flightBound p.conc then "FAIL more-iterations-in-flight-than-the-concurrency-flag"
        else if p.maxIt > 0 ∧ n "started" > p.maxIt then "FAIL more-iterations-than-the-max-iterations-flag"
        -- (a command whose own start-up — from being handed to f1 until its scenario's setup ran — took a sizeable part of
        -- its max-duration, or whose process went unscheduled for that long, was starved by the machine: how many iterations
        -- fit into what was left of the duration says nothing about the code)
        else if (get "expectlimit") = some "1" ∧ n "started" ≠ p.maxIt ∧ ¬(n "started" < p.maxIt ∧ starved) then
          "FAIL max-iterations-flag-not-reached"
        -- (judged only when the command was not starved: one that took much longer than its run — slow file I/O, no CPU —
        -- may have found its duration over before its workers were scheduled at all)
        else if (get "expectfull") = some "1" ∧ n "maxflight" ≠ p.conc ∧
            n "ret" ≤ p.maxDur / 1000000 + ((get "bodyms").bind String.toInt?).getD 0 + 250 ∧ ¬starved then
          "FAIL concurrency-flag-not-all-workers-used"
        else if (n "err" = 1) ≠ specErr then "FAIL exit-status-differs-from-documented-verdict"
        else if wantErr ≠ specErr then "FAIL model-exit-differs-from-spec"
        else if ¬jsonLog ∧ (out "banner" = "fail") ≠ specErr then "FAIL banner-differs-from-verdict"
        else if (get "combine") = some "1" ∧ ¬setupFailed ∧
            n "later" ≠ (truth.getD 0 0) + (if (get "failkind") = some "errorf" ∨ (get "failkind") = some "timeerr" ∨ (get "failkind") = some "errunhash" ∨ (get "failkind") = some "errnil" then truth.getD 1 0 else 0) then
          "FAIL later-component-of-a-combined-scenario-did-not-run-exactly-when-the-earlier-one-did-not-stop"
        else if out "envAfter" = "dirty" then "FAIL stage-parameters-remain-set-after-the-run"
        else if n "leak" > 0 then "FAIL goroutine-remains-after-the-command-returned"
        else if (out "labels").startsWith "bad" then s!"FAIL pushed-series-lack-the-scenario-name-or-a-static-label-{out "labels"}"
        else if ((get "pushgw") = some "ok" ∨ (get "pushgw") = some "fail1") ∧ (triple "pushed").length = 4 ∧
            (triple "pushed").getD 3 0 > 0 ∧ (triple "pushed").take 3 ≠ stats then
          "FAIL pushed-metrics-differ-from-the-result"
        else if (match (get "sigint").bind String.toInt? with
            | some sg => decide (n "ret" > sg + ((get "bodyms").bind String.toInt?).getD 0 + 1500 + max 0 (n "stall")) | none => false) then
          "FAIL interrupted-command-kept-running"
        -- the command line has no flag for the completion timeout: it is the hard-wired 10 s. A command that returns with
        -- iteration functions still executing must have waited that long after whatever ended its run (C06: the setup cleanups and
        -- the verdict come after the iterations, or after the timeout)
        else if n "inflightret" > 0 ∧ n "ret" < 10000 - 100 then
          "FAIL command-returned-with-iterations-in-flight-before-the-completion-timeout"
        else if (match (get "retmax").bind String.toInt? with | some m => decide (n "ret" > m + max 0 (n "stall")) | none => false) then
          "FAIL command-did-not-return-once-its-run-was-over"
        else
          -- the run lasts as long as the flags say (only when neither the iteration limit nor the trigger's own
          -- duration ends it first): never shorter than max-duration less the 10 ms guard and one timer slack
          let durMs := p.maxDur / 1000000
          let total := n "started" + (dropped : Int)
          -- constant mode, distribution none, no jitter: the rate string means N per unit
          let bounds : Option (Int × Int) :=
            if ((get "meaning") = some "1" ∨ (get "meaningmax") = some "1") ∧ ¬setupFailed then
              match parseRate (cargs.rate.getD dfltRate) with
              | .ok (cnt, unit) =>
                -- a distributed rate is evaluated once per cycle of ⌊unit / 100 ms⌋ sub-ticks of 100 ms
                let cycle := if p.interval < unit ∧ p.interval > 0 then (unit / p.interval) * p.interval else unit
                -- (stall-robust: a run that overran its max-duration — the deadline timer fired late on a loaded machine —
                -- is measured against how long it really lasted)
                let lasted := max p.maxDur (n "ret" * 1000000)
                let evalsMax := 1 + lasted / cycle
                let lo := if p.maxIt > 0 ∧ (p.maxIt : Int) < cnt then (p.maxIt : Int) else cnt
                -- a distributed rate spreads each cycle over the unit: only the ceiling holds for short runs
                some (if (get "meaning") = some "1" then lo else 0, cnt * evalsMax)
              | _ => none
            else none
          -- ticks of a rate-driven trigger: at most one per tick interval (+ the immediate one); and, when the run is long
          -- enough to tell, not far fewer (a trigger ticking at another interval than the one its rate function is for)
          let expTicks : Int := if p.interval > 0 then p.maxDur / p.interval else 0
          -- exact=1 (constant mode, no jitter, plenty of idle workers, instant bodies): the k-th accepted tick requests the
          -- k-th value of the profile, unchanged — so started + dropped is the sum of the first `ticks` values (the last
          -- tick may have lost its race with the shutdown and been refused whole)
          let exactBad : Bool :=
            if (get "exact") = some "1" ∧ ¬setupFailed ∧ p.interval > 0 then
              match parseRate (cargs.rate.getD dfltRate) with
              | .ok (cnt, unit) =>
                let k := (n "ticks").toNat
                let vals : List Int :=
                  if p.interval < unit then (F1.Dist.runZ (unit / p.interval).toNat (fun _ => cnt) k F1.Dist.RegZ.init).2
                  else List.replicate k cnt
                let full := vals.sum
                let butLast := (vals.take (k - 1)).sum
                !(total == full || total == butLast)
              | _ => false
            else false
          let expTicksMax : Int := if p.interval > 0 then (max p.maxDur (n "ret" * 1000000)) / p.interval else 0
          if exactBad then "FAIL started-plus-dropped-is-not-the-sum-of-the-profile-values-of-the-accepted-ticks"
          else if (get "timing") = some "1" ∧ p.interval > 0 ∧ n "ticks" > expTicksMax + 2 then "FAIL more-ticks-than-one-per-interval"
          else if (get "timing") = some "1" ∧ p.interval > 0 ∧ expTicks ≥ 5 ∧ n "ticks" * 10 < expTicks * 4 then
            "FAIL far-fewer-ticks-than-the-tick-interval-of-the-rate-function"
          else if (get "timing") = some "1" ∧ (get "sigint").isNone ∧ n "ret" < durMs - 15 then "FAIL run-ended-before-max-duration"
          else if (get "timing") = some "1" ∧ n "ret" > durMs + 2500 then "FAIL run-did-not-stop-at-max-duration"
          else match bounds with
            | some (lo, hi) =>
              if total > hi then "FAIL more-load-than-the-rate-flag-spells"
              else if total < lo then "FAIL less-load-than-the-rate-flag-spells"
              else "ok"
            | none => "ok"
  pure (model, spec)

end F1.Drive
