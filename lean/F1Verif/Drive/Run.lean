import F1Verif.Util
import F1Verif.Model.Deadline
namespace F1.Drive
open F1.Util

/-- `run prop=<Cxx> k=v…` — whole runs of the real `Run.Do`. No model output (the models are tied at
component level); the clause set of the named property is evaluated on what the harness observed. -/
def runOp (args impl : List String) : Option (String × String) := do
  let kv (l : List String) : List (String × String) := l.filterMap fun (t : String) =>
    match t.splitOn "=" with | k :: v => some (k, "=".intercalate v) | _ => none
  let a := kv args
  let o := kv impl
  let arg (k d : String) : String := ((a.find? (·.1 = k)).map (·.2)).getD d
  let out (k : String) : String := ((o.find? (·.1 = k)).map (·.2)).getD "?"
  let n (k : String) : Int := (out k).toInt?.getD (-1)
  let an (k d : String) : Int := (arg k d).toInt?.getD 0
  if impl.isEmpty ∨ (impl.length = 1) then
    return ("-", s!"FAIL run-did-not-complete-{impl.headD "no-output"}")
  let prop := arg "prop" "C05"
  let triple (k : String) : List Int := ((out k).splitOn "/").map fun (x : String) => x.toInt?.getD (-1)
  let res := triple "res"; let truth := triple "truth"; let met := triple "metrics"
  let blocked := arg "block" "0" ≠ "0"
  let fileStages := ((arg "file" "").splitOn ";").filter (· ≠ "")
  let fileUsersOnly := ¬fileStages.isEmpty ∧ fileStages.all (·.startsWith "u:")
  let fileMaxUsers : Int := fileStages.foldl (fun (m : Int) (st : String) =>
    max m (((st.splitOn ":").getD 2 "0").toInt?.getD 0)) 0
  let setupFailed := arg "setupfail" "0" ≠ "0"
  let maxit := an "maxit" "0"
  let conc := an "conc" "10"
  -- when triggering stops (duration end or the caller's cancel); in-flight iterations may be abandoned
  -- only after the completion timeout has run from that moment
  let stopAt := if an "cancel" "-1" ≥ 0 ∧ an "cancel" "-1" < an "dur" "600" then an "cancel" "-1" else an "dur" "600"
  -- (a run also ends with the trigger's own duration — the last stage of a staged profile or of a config file, the end
  -- of a ramp — which the harness reports)
  let stopAtF := if n "trigdur" > 0 ∧ n "trigdur" < stopAt then n "trigdur" else stopAt
  let abandonedEarly := n "inflight" > 0 ∧ maxit = 0 ∧ (arg "mode" "constant" ≠ "file" ∨ n "trigdur" > 0) ∧
    n "ret" < stopAtF + an "timeout" "3000" - 60
  -- C05 (time): the Deadline model on this case's parameters (ms → ns); the limit and the drain are the run's own
  let msI (x : Int) : Int := x * 1000000
  let dcfg : Deadline.Cfg := { maxDur := msI (an "dur" "600"), trigDur := msI (max 0 (n "trigdur")), timeout := msI (an "timeout" "3000"),
                               cancelAt := if an "cancel" "-1" ≥ 0 then some (msI (an "cancel" "-1")) else none,
                               limitAt := none, drain := fun t => t }
  let stopMs := dcfg.stopAt / 1000000
  let bodies := ((arg "body" "0").splitOn ",").map fun (x : String) => x.toInt?.getD 0
  let maxBody := bodies.foldl max 0
  let plain := ¬blocked ∧ arg "stallprogress" "0" = "0" ∧ arg "wedge" "0" = "0" ∧ (a.find? (·.1 = "sloweval")).isNone
  -- file mode: a stage never starts before the stages in front of it have run their full durations (measured from
  -- the first tick of stage 0, which is when triggering began, or later)
  let stageDurs : List Int := ((arg "file" "").splitOn ";").map fun (st : String) => ((st.splitOn ":").getD 1 "0").toInt?.getD 0
  let starts : List (Option Int) := ((out "stagestarts").splitOn ",").map String.toInt?
  let stageEarly : Bool :=
    match starts.head? with
    | some (some s0) =>
      let cum := stageDurs.foldl (fun (acc : List Int × Int) d => (acc.1 ++ [acc.2], acc.2 + d)) ([], 0) |>.1
      (starts.zip cum).any fun (s, c) => match s with | some si => decide (si - s0 < c - 3) | none => false
    | _ => false
  -- file mode made of users stages only: a users stage waits for its users, so at no time are more iterations in
  -- flight than the largest stage has users
  let stageSpecs : List (List String) := ((arg "file" "").splitOn ";").map fun (st : String) => st.splitOn ":"
  let allUsers := arg "mode" "constant" = "file" ∧ stageSpecs.all fun (f : List String) => f.headD "" = "u"
  let maxUsers : Int := stageSpecs.foldl (fun (m : Int) (f : List String) => max m ((f.getD 2 "0").toInt?.getD 0)) 0
  let usersOverlap : Bool := allUsers && decide (n "maxflight" > maxUsers)
  let spec : String :=
    if prop = "C01" ∨ prop = "C16" then
      -- iterations still in flight at the return excuse a difference between result and metric only when the completion
      -- timeout has run out; a run that returned earlier than that took its totals too soon
      if abandonedEarly ∧ ¬blocked then "FAIL totals-taken-while-iterations-were-in-flight-before-the-completion-timeout"
      else if n "inflight" ≠ 0 ∨ blocked then "ok"
      else if res.take 2 ≠ truth then "FAIL result-counts-differ-from-executed-iterations"
      else if met.take 3 ≠ res then "FAIL metric-samples-differ-from-result"
      else if met.getD 3 0 ≠ 1 then "FAIL setup-metric-not-exactly-one-sample"
      else
        -- pushed to a gateway: once a push has been accepted, the last accepted push carries the final counts
        let pushed := triple "pushed"
        let gwMode := arg "pushgw" "-"
        if (gwMode = "ok" ∨ gwMode = "fail1") ∧ pushed.length = 4 ∧ pushed.take 3 ≠ res then
          "FAIL pushed-metrics-differ-from-the-result"
        else "ok"
    else if prop = "C02" then
      let started := n "started"; let dropped := res.getD 2 0; let sum := n "sumrates"
      if n "inflight" = 0 ∧ ¬blocked ∧ met.getD 2 0 ≠ dropped then "FAIL dropped-iterations-not-reported-as-dropped-in-the-iteration-metric"
      else if started + dropped > sum then "FAIL more-started-plus-dropped-than-requested"
      else if maxit = 0 ∧ ¬blocked ∧ n "inflight" = 0 ∧ started + dropped < sum - n "lastval" then "FAIL requested-iterations-neither-started-nor-dropped"
      else if maxit > 0 ∧ started ≥ maxit ∧ dropped > 0 ∧ arg "nodropexpected" "0" = "1" then "FAIL leftovers-after-max-iterations-reported-dropped"
      else "ok"
    else if prop = "C03" then
      if out "gapless" ≠ "1" then "FAIL iteration-ids-not-unique-and-gapless"
      else if n "idchanged" > 0 then "FAIL iteration-id-changed-while-the-iteration-was-running"
      else if maxit > 0 ∧ n "started" > maxit then "FAIL more-invocations-than-max-iterations"
      else if maxit > 0 ∧ arg "expectlimit" "0" = "1" ∧ n "started" ≠ maxit then "FAIL fewer-invocations-than-max-iterations"
      else "ok"
    else if prop = "C04" ∨ prop = "C07" then
      if prop = "C07" ∧ n "inflight" = 0 ∧ ¬blocked ∧ res.take 2 ≠ truth then
        "FAIL iteration-outcome-differs-from-what-its-body-did"
      else if n "maxflight" > conc ∧ arg "mode" "constant" ≠ "file" then "FAIL more-than-concurrency-iterations-in-flight"
      -- a config file made of users stages only: a stage's users finish before the next stage starts theirs, so never more
      -- iterations in flight than the largest stage has users
      else if arg "mode" "constant" = "file" ∧ fileUsersOnly ∧ n "maxflight" > fileMaxUsers then
        "FAIL more-iterations-in-flight-than-the-users-of-any-one-stage"
      else if n "shared" ≠ 0 then "FAIL two-concurrent-iterations-shared-a-handle"
      else if n "setupHandleInIteration" > 0 then "FAIL iteration-was-handed-the-setup-handle"
      else if arg "expectfull" "0" = "1" ∧ n "maxflight" ≠ conc then "FAIL not-all-workers-usable"
      else "ok"
    else if prop = "C05" then
      if abandonedEarly then "FAIL returned-with-iterations-in-flight-before-the-completion-timeout"
      else if ¬blocked ∧ n "inflight" ≠ 0 ∧ arg "expectinflight" "0" = "0" then "FAIL returned-while-started-iterations-still-running"
      else if n "startedAfter" ≠ 0 then "FAIL iteration-started-after-the-run-returned"
      else if n "progressAfter" ≠ 0 then "FAIL progress-reported-after-the-run-returned"
      else if n "printAfter" > 0 then "FAIL progress-still-being-printed-after-the-run-returned"
      else if n "leak" ≠ 0 then "FAIL goroutine-of-the-run-remains"
      else if an "dur" "600" ≤ 10 ∧ n "started" ≠ 0 then "FAIL iteration-started-inside-the-10ms-guard"
      else if an "retmax" "0" > 0 ∧ n "ret" > an "retmax" "0" + max 0 (n "stall") then "FAIL run-did-not-stop-on-time"
      -- D27: once the limit has been reached (some worker is free to be refused: fewer blocking iterations than workers, and a
      -- constant rate or users keep asking) the completion timeout runs from there, not from the end of the duration
      else if blocked ∧ maxit > 0 ∧ n "started" ≥ maxit ∧ an "block" "0" < conc ∧
          (arg "mode" "constant" = "constant" ∨ arg "mode" "constant" = "users") ∧
          n "ret" > n "laststart" + an "timeout" "3000" + 1500 + max 0 (n "stall") then
        "FAIL wait-for-in-flight-iterations-not-bounded-after-the-iteration-limit"
      -- (wall-clock bound: widened by the longest time the harness process itself went unscheduled during the run; the bound on the
      -- return below also allows 0.1 ms per user for building and dismantling a pool of tens of thousands of users)
      else if ¬setupFailed ∧ n "laststart" > stopMs + 150 + max 0 (n "stall") then "FAIL iteration-requested-after-triggering-should-have-stopped"
      else if ¬setupFailed ∧ maxit = 0 ∧ n "ret" < stopMs - 2 then "FAIL run-returned-before-the-earliest-stop-condition"
      else if ¬setupFailed ∧ plain ∧ maxBody ≤ 250 ∧ n "ret" > stopMs + maxBody + an "cleanup" "0" + 1000 + (max fileMaxUsers conc) / 10 then "FAIL run-did-not-return-once-triggering-stopped-and-iterations-finished"
      else if plain ∧ n "inflight" > 0 ∧ n "ret" < stopMs + an "timeout" "3000" - 60 ∧ maxit = 0 then "FAIL gave-up-on-iterations-before-the-completion-timeout"
      -- `retmin` is where the case expects the return when no tick is lost; a stalled process loses ticks, so the bound that
      -- is enforced is the earlier of it and the end of the body of the iteration that really started last
      else if an "retmin" "0" > 0 ∧ n "ret" < an "retmin" "0" ∧ n "ret" < n "laststart" + maxBody - 2 then
        "FAIL run-returned-before-waiting-for-in-flight-iterations"
      else "ok"
    else if prop = "C06" then
      if n "setups" ≠ 1 then "FAIL setup-not-exactly-once"
      else if n "setupFirst" ≠ 1 then "FAIL iteration-before-setup-completed"
      else if setupFailed ∧ (n "started" ≠ 0 ∨ n "failed" ≠ 1) then "FAIL setup-failure-not-contained"
      else if abandonedEarly then "FAIL teardown-ran-before-iterations-finished-or-the-completion-timeout"
      else if ¬blocked ∧ n "tdLast" ≠ 1 then "FAIL setup-cleanup-ran-before-iterations-finished"
      else if n "tdOrder" ≠ 1 then "FAIL setup-cleanups-not-once-in-reverse-order"
      else if n "cleanupEarly" > 0 then "FAIL iteration-cleanup-ran-before-its-body-finished"
      else if ¬blocked ∧ n "inflight" = 0 ∧ n "cleanupBad" > 0 then "FAIL iteration-cleanup-did-not-run-exactly-once"
      else "ok"
    else if prop = "C17" then
      -- measured around the body: every recorded duration is at least the shortest body (the body sleeps), none reaches
      -- into the cleanups (cleanup ≥ 600 ms against a bound of body + cleanup/2: a stall of 300 ms would be needed to
      -- cross it), and the exported summary holds the same durations for the same iterations, also in a second run
      let bodyUs := maxBody * 1000
      let cleanupUs := an "cleanup" "0" * 1000
      if res.getD 0 0 = 0 then "FAIL no-successful-iteration-recorded"
      else if n "durmin" < bodyUs then "FAIL recorded-duration-shorter-than-the-body"
      else if cleanupUs ≥ 600000 ∧ n "durmax" ≥ bodyUs + cleanupUs / 2 then "FAIL recorded-duration-includes-cleanups"
      else if met.getD 0 0 ≠ res.getD 0 0 ∨ met.getD 1 0 ≠ res.getD 1 0 then "FAIL exported-iteration-metric-does-not-hold-this-run's-iterations"
      else if n "metsumus" < (res.getD 0 0) * bodyUs then "FAIL exported-durations-shorter-than-the-bodies"
      else "ok"
    else if prop = "C09" then
      if out "cadence" ≠ "ok" then s!"FAIL evaluation-earlier-than-one-per-interval-{out "cadence"}"
      -- the tick loop is one goroutine: an evaluation that takes longer than the interval delays the next one, it never
      -- runs beside it (the rate functions keep state between calls)
      else if n "evaloverlap" > 0 then "FAIL rate-function-evaluated-while-an-earlier-evaluation-was-still-running"
      else if stageEarly then "FAIL stage-of-a-config-file-ticks-before-its-scheduled-start"
      else if an "intervalms" "0" > 0 ∧ n "evals" > 1 + n "ret" / an "intervalms" "0" then "FAIL more-evaluations-than-one-plus-elapsed-over-interval"
      else if n "evals" < 1 ∧ arg "mode" "constant" ≠ "users" ∧ arg "mode" "constant" ≠ "file" ∧ ¬setupFailed then "FAIL no-immediate-evaluation"
      else if arg "mode" "constant" ≠ "file" ∧ arg "mode" "constant" ≠ "users" ∧ n "started" + res.getD 2 0 > n "sumrates" then "FAIL more-load-than-the-rate-values"
      else "ok"
    else if prop = "C18" then
      if n "printAfter" > 0 then "FAIL progress-function-still-writing-after-the-run-stopped-its-runner"
      else if n "progressAfterCancel" > 0 then "FAIL progress-function-invoked-after-cancellation"
      else if n "progressAfter" ≠ 0 then "FAIL progress-function-invoked-or-still-executing-after-the-run-stopped-its-runner"
      else if n "leak" ≠ 0 then "FAIL goroutine-of-the-runner-remains"
      else "ok"
    else if prop = "C15" then
      if n "envBad" ≠ 0 then "FAIL stage-parameters-not-in-environment-while-triggering"
      else if out "envAfter" ≠ "clean" then "FAIL stage-parameters-remain-set-after-the-run"
      else if n "stageOrderBad" ≠ 0 then "FAIL stages-not-sequential"
      else if stageEarly then "FAIL stage-started-before-the-previous-stages-had-run-their-durations"
      else if usersOverlap then "FAIL users-of-two-stages-executing-at-the-same-time"
      else "ok"
    else "ok"
  pure ("-", spec)

/-- `result.stress <ms>` — the reporter's tick body against the controller's pre-Stop calls on one real Result -/
def resultStress (_args impl : List String) : Option (String × String) :=
  some ("-", if impl.isEmpty then "FAIL no-impl-output"
    else if impl.contains "wedged=1" then "FAIL controller-and-progress-reporter-wait-for-each-other-before-Stop"
    else if impl.contains "reporterTicks=0" ∨ impl.contains "controllerRounds=0" then "FAIL stress-did-not-run"
    else if impl.contains "wedged=0" then "ok" else s!"FAIL {impl.headD ""}")

/-- `raterun.*` — Spec on what the harness observed of the real runner -/
def raterunOp (_args impl : List String) : Option (String × String) :=
  let bad := impl.filter fun (t : String) =>
    t = "stopEarly=1" ∨ (t.startsWith "callsAfterStop=" ∧ t ≠ "callsAfterStop=0") ∨ t = "inFnAtStopReturn=1" ∨
    (t.startsWith "callsWithHourlyFrequency=" ∧ t ≠ "callsWithHourlyFrequency=0") ∨ t = "withinOnePerTick=0" ∨
    t = "callsBeforeStart=1" ∨ t = "firstCallBeforeOneTick=1" ∨ t = "switchedBeforeStartDelay=1" ∨
    t = "calls=0" ∨ t = "someCalls=0" ∨ t = "stop-never-returned" ∨ t = "err" ∨ t = "outOfOrder=1"
  some ("-", if impl.isEmpty then "FAIL no-impl-output"
    else match bad with
      | [] => "ok"
      | b :: _ =>
        if b = "stopEarly=1" then "FAIL Stop-returned-while-the-function-was-executing-or-being-dispatched"
        else if b.startsWith "callsAfterStop" then "FAIL function-invoked-after-Stop-returned"
        else if b.startsWith "callsWithHourly" then "FAIL invoked-under-a-schedule-none-of-whose-ticks-was-due"
        else if b = "callsBeforeStart=1" ∨ b = "firstCallBeforeOneTick=1" then "FAIL invoked-before-Start-or-for-a-tick-that-elapsed-before-Start"
        else if b = "outOfOrder=1" then "FAIL schedules-not-walked-in-the-order-the-list-gives-them"
        else if b = "switchedBeforeStartDelay=1" then "FAIL moved-to-the-next-schedule-before-its-start-delay-had-run-from-Start"
        else s!"FAIL {b}")

end F1.Drive
