import F1Verif.Util
import F1Verif.Model.Gaussian
namespace F1.Drive
open F1.Util F1.Gaussian

def parseFloats (s : String) : Option (Array Float) :=
  if s = "-" then some #[] else ((s.splitOn ",").mapM floatOfHex).map List.toArray

/-- a weight as typed in `--weights`: digits with an optional fractional part (what the generator writes) -/
def decimalFloat (s : String) : Option Float :=
  match s.splitOn "." with
  | [i] => i.toNat?.map fun n => Float.ofNat n
  | [i, f] => do
    let ip ← (if i = "" then some 0 else i.toNat?)
    let fp ← (if f = "" then some 0 else f.toNat?)
    pure (Float.ofScientific (ip * 10 ^ f.length + fp) true f.length)
  | _ => none

/-- `s:<hex of the weights string>`: the comma-separated list, empty entries skipped — every other entry counts,
a zero too -/
def parseWeightString (s : String) : Option (Array Float) := do
  let bytes ← hexBytes s
  let str := String.ofList (bytes.map fun b => Char.ofNat b)
  let parts := (str.splitOn ",").filter (· ≠ "")
  (parts.mapM decimalFloat).map List.toArray

/-- the normal CDF by Abramowitz–Stegun 7.1.26 (absolute error < 1.5e-7): an independent yardstick for the code's
`0.5·erfc(−z)` -/
def cdfApprox (x mu sg : Float) : Float :=
  let z := (x - mu) / (sg * Float.sqrt 2.0)
  let a := z.abs
  let t := 1.0 / (1.0 + 0.3275911 * a)
  let poly := t * (0.254829592 + t * (-0.284496736 + t * (1.421413741 + t * (-1.453152027 + t * 1.061405429))))
  let erfA := 1.0 - poly * Float.exp (-(a * a))
  let erf := if z < 0.0 then -erfA else erfA
  0.5 * (1.0 + erf)

/-- `gauss <volume> <repeatNs> <freqNs> <peakNs> <stddevNs> <weights> <startUnixNs> <n>` (floats as bits);
impl: `<cdfHi> <cdf0> <outs> <pdfs>` | `err` -/
def gauss (args impl : List String) : Option (String × String) := do
  -- an optional ninth argument `<k>:<w>`: from tick k on (a window boundary) the timestamps lie w whole windows later —
  -- the process was suspended, or a dry run samples coarsely; the weight of a window depends on the clock, not on
  -- how many windows this calculator has seen
  let (args, jumpAt, jumpBy) : List String × Nat × Int := match args with
    | [a, b, c, d, e, f, g, h, j] =>
      (match j.splitOn ":" with
       | [k, w] => ([a, b, c, d, e, f, g, h], k.toNat?.getD 0, (w.toInt?.getD 0))
       | _ => ([a, b, c, d, e, f, g, h], 0, 0))
    | l => (l, 0, 0)
  match args with
  | [vol, rep, freq, peak, sd, ws, start, n] =>
    let vol ← floatOfHex vol
    let rep ← rep.toInt?; let freq ← freq.toInt?; let peak ← peak.toInt?; let sd ← sd.toInt?
    let ws ← (if ws.startsWith "s:" then parseWeightString (ws.drop 2).toString else parseFloats ws)
    let start ← start.toInt?; let n ← n.toNat?
    if sd ≤ 0 then return ("err", if impl = ["err"] then "ok" else "FAIL non-positive-standard-deviation-accepted")
    match impl with
    | [chi, c0, outs, pdfs] =>
      let chi ← floatOfHex chi; let c0 ← floatOfHex c0
      let outs ← parseInts outs
      let pdfs ← parseFloats pdfs
      if outs.length ≠ n ∨ pdfs.size ≠ n then return ("-", "FAIL output-length")
      -- the model, bit-exact on the same density values
      let (mouts, rates) := Id.run do
        let mut c := newCalcF vol freq rep chi c0 ws
        let mut mo : Array Int := #[]
        let mut rs : Array Float := #[]
        for k in [0:n] do
          let t := start + unixToAbs + (k : Int) * freq + (if jumpBy ≠ 0 ∧ k ≥ jumpAt then jumpBy * rep else 0)
          let pdf := pdfs.getD k 0.0
          let rate0 := pdf * c.multiplier
          let rate := if ws.size > 0 then
              match weightIndex t rep ws.size with
              | some i => rate0 * ws.getD i 0.0 / c.averageWeight
              | none => rate0
            else rate0
          rs := rs.push rate
          let r := forF c t pdf
          c := r.1
          mo := mo.push r.2
        return (mo.toList, rs)
      -- the density values themselves: e^(−(x−μ)²/(2σ²)) / (σ·√(2π)) at the tick's offset in its window (relative 1e-9:
      -- Go's and libm's exp may differ in the last bits)
      let pdfBad : Option Nat := (List.range n).find? fun k =>
        let t := start + unixToAbs + (k : Int) * freq + (if jumpBy ≠ 0 ∧ k ≥ jumpAt then jumpBy * rep else 0)
        let x := Float.ofInt (t % rep)
        let mu := Float.ofInt peak; let sg := Float.ofInt sd
        let want := Float.exp (-((x - mu) * (x - mu)) / (2.0 * sg * sg)) / (sg * Float.sqrt (2.0 * 3.141592653589793))
        let got := pdfs.getD k 0.0
        (got - want).abs > 1e-9 * want.abs + 1e-300
      let model := s!"{floatHex chi} {floatHex c0} {intsTok mouts} *"
      -- Spec on the implementation's outputs
      let nonnegIn := ws.all (· ≥ 0.0) && vol ≥ 0.0 && (chi - c0) > 0.0
      let perWin : Nat := if freq > 0 then (rep / freq).toNat else 0
      let spec : String := Id.run do
        if nonnegIn ∧ outs.any (· < 0) then return "FAIL negative-request"
        match pdfBad with
        | some k => return s!"FAIL density-value-at-tick-{k}-is-not-the-gaussian-density"
        | none => pure ()
        -- the two CDF values the multiplier is normalised with
        let muF := Float.ofInt peak; let sgF := Float.ofInt sd
        if (c0 - cdfApprox 0.0 muF sgF).abs > 1e-6 ∨ (chi - cdfApprox (Float.ofInt (rep - freq)) muF sgF).abs > 1e-6 then
          return "FAIL cumulative-distribution-values-are-not-the-normal-CDF"
        if perWin = 0 ∨ !nonnegIn then return "ok"
        let aligned := (start + unixToAbs) % rep = 0
        if !aligned then return "ok"
        let wins := n / perWin
        for w in [0:wins] do
          let lo := w * perWin
          let seg := (outs.drop lo).take perWin
          -- carry: the window's total is within 1 (+ float slack) of the total of the exact rates
          let sumOut : Int := seg.foldl (· + ·) 0
          let sumRate : Float := ((List.range perWin).map fun j => rates.getD (lo + j) 0.0).foldl (· + ·) 0.0
          if (Float.ofInt sumOut - sumRate).abs > 1.0 + 1e-6 * sumRate.abs + 1.0 then
            return s!"FAIL window-{w}-total-{sumOut}-differs-from-the-configured-volume-share"
          -- the configured volume itself (scaled by this window's weight over the mean), when the bell lies inside the
          -- window (peak ± 4σ) and is resolved by the ticks (σ ≥ tick): then the discretisation error is far below 1 %
          let inside := decide (peak - 4 * sd ≥ 0) && decide (peak + 4 * sd ≤ rep) && decide (sd ≥ freq)
          if inside then
            let t := start + unixToAbs + ((lo : Nat) : Int) * freq + (if jumpBy ≠ 0 ∧ lo ≥ jumpAt then jumpBy * rep else 0)
            let share : Float := if ws.size > 0 then
                match weightIndex t rep ws.size with
                | some i => ws.getD i 0.0 * Float.ofNat ws.size / (ws.foldl (· + ·) 0.0)
                | none => 1.0
              else 1.0
            let wantVol := vol * share
            if (Float.ofInt sumOut - wantVol).abs > 2.0 + 0.01 * wantVol.abs then
              return s!"FAIL window-{w}-requests-{sumOut}-not-the-configured-volume"
          -- peak: no tick more than one above the tick nearest the configured peak
          let peakIdx : Nat := ((List.range perWin).foldl (fun (best : Nat × Nat) (j : Nat) =>
            let d : Nat := ((j : Int) * freq - peak).natAbs
            if d < best.2 then (j, d) else best) ((0 : Nat), peak.natAbs + rep.natAbs + 1)).1
          let atPeak := seg.getD peakIdx 0
          if seg.any (· > atPeak + 1) then return s!"FAIL window-{w}-a-tick-requests-more-than-one-above-the-peak-tick"
        return "ok"
      let gotTok := s!"{floatHex chi} {floatHex c0} {intsTok outs} *"
      pure (model, if gotTok = model ∨ spec ≠ "ok" then spec else spec)
    | ["err"] => pure ("-", "FAIL valid-gaussian-parameters-rejected")
    | t :: _ => pure ("-", if t.startsWith "crash" then "FAIL gaussian-calculator-crashed" else "FAIL no-impl-output")
    | [] => pure ("-", "FAIL no-impl-output")
  | _ => none

end F1.Drive
