import F1Verif.Util
import F1Verif.Model.MiniGo
import F1Verif.Model.Distribution
import F1Verif.Model.Staged
import F1Verif.Drive.Gaussian
import F1Verif.Drive.Handle
import F1Verif.Drive.Plan
import F1Verif.Generated.MiniGo
/-!
Driver ops `mg.*`: the MiniGo programs regenerated from /repo are *executed* (binary64 arithmetic) on the same cases
the hand-written models get, and must give what the real function gave. This is the check on the translator and on the
MiniGo semantics themselves: a construct translated or interpreted wrongly shows up here as a disagreement with the
implementation, independently of the refinement theorems.
-/
namespace F1.Drive
open F1.Util F1.MiniGo F1.Generated.MG

def mgNoExt : Ext Float := fun _ _ _ => .nil

def mgRun (ext : Ext Float) (fuel : Nat) (body : Stmt) (s : State Float) : Except String (List (Val Float) × State Float) :=
  runFn ext fuel body s

def mgErr (e : String) : String := "mg-error:" ++ (e.replace " " "_")

/-- `mg.verdict <hasErr> <ignoreDropped> <maxFailures> <maxFailuresRate> <succ> <failed> <dropped>` — the generated
`Result.Failed` (with the generated `Snapshot.Iterations` supplying the denominator) -/
def mgVerdict (args impl : List String) : Option (String × String) := do
  match args with
  | [e, ign, mf, mfr, s, f, d] =>
    let e ← parseBool e
    let ign ← parseBool ign
    let mf ← mf.toNat?; let mfr ← mfr.toInt?; let s ← s.toNat?; let f ← f.toNat?; let d ← d.toNat?
    let iters := mgRun mgNoExt 0 snapshot_Iterations (State.ofVars [
      ("recv.DroppedIterationCount", .int d), ("recv.FailedIterationDurations.Count", .int f),
      ("recv.SuccessfulIterationDurations.Count", .int s)])
    let out := match iters with
      | .ok ([.int it], _) =>
        (match mgRun mgNoExt 0 result_Failed (State.ofVars [
            ("recv.Error()", if e then .nonNil else .nil), ("recv.runOptions.IgnoreDropped", .bool ign),
            ("recv.runOptions.MaxFailures", .int mf), ("recv.runOptions.MaxFailuresRate", .int mfr),
            ("recv.snapshot.DroppedIterationCount", .int d), ("recv.snapshot.FailedIterationDurations.Count", .int f),
            ("recv.snapshot.SuccessfulIterationDurations.Count", .int s), ("recv.snapshot.Iterations()", .int it)]) with
         | .ok ([.bool b], _) => if b then "fail" else "pass"
         | .ok _ => "mg-error:result-shape"
         | .error m => if (m.splitOn "divide by zero").length > 1 then "crash:divzero" else mgErr m)
      | .ok _ => "mg-error:iterations-shape"
      | .error m => mgErr m
    -- the second token of the implementation (the command-line mapping) is not part of these programs
    pure (out ++ " " ++ (impl.getD 1 "-"), "ok")
  | _ => none

/-- `mg.iter.seq <limit> <k>` — `k` calls of the generated `NextIteration`, the generated `MaxIterationsReached` after each -/
def mgIterSeq (args _impl : List String) : Option (String × String) := do
  match args with
  | [n, k] =>
    let n ← n.toNat?; let k ← k.toNat?
    if k = 0 then return ("- -", "ok")
    let r := Id.run do
      let mut c : Int := 0
      let mut ids : Array Nat := #[]
      let mut flags : Array Char := #[]
      let mut err : Option String := none
      for _ in [0:k] do
        match mgRun mgNoExt 0 manager_NextIteration (State.ofVars [("recv.iteration", .int c), ("recv.maxIterations", .int n),
            ("errMaxIterationsReached", .nonNil)]) with
        | .ok ([.int id, e], s) =>
          ids := ids.push (if e matches .nil then id.toNat else 0)
          match s.get "recv.iteration" with
          | some (.int c') => c := c'
          | _ => err := some "mg-error:counter"
        | .ok _ => err := some "mg-error:shape"
        | .error m => err := some (mgErr m)
        match mgRun mgNoExt 0 manager_MaxIterationsReached (State.ofVars [("recv.iteration", .int c), ("recv.maxIterations", .int n)]) with
        | .ok ([.bool b], _) => flags := flags.push (if b then '1' else '0')
        | .ok _ => err := some "mg-error:shape"
        | .error m => err := some (mgErr m)
      return (ids, flags, err)
    match r.2.2 with
    | some e => pure (e, "ok")
    | none => pure (s!"{natsTok r.1.toList} {String.ofList r.2.1.toList}", "ok")
  | _ => none

/-- `mg.jobcounter <ops>` — the generated `set` / `none` / `take` -/
def mgJobcounter (args _impl : List String) : Option (String × String) := do
  let ops ← (← args[0]?).splitOn "," |>.mapM fun (o : String) =>
    match o.toList with
    | 's' :: r => (String.ofList r).toInt?.map fun n => (0, n)
    | ['n'] => some (1, 0)
    | ['t'] => some (2, 0)
    | _ => none
  let step (acc : Int × List String) (op : Nat × Int) : Int × List String :=
    let prog := match op.1 with | 0 => jobCounter_set | 1 => jobCounter_none | _ => jobCounter_take
    match mgRun mgNoExt 0 prog (State.ofVars [("recv.num", .int acc.1), ("arg0", .int op.2)]) with
    | .ok ([v], s) =>
      let tok := match v with
        | .int i => toString i
        | .bool b => if b then "1" else "0"
        | _ => "mg-error:value"
      match s.get "recv.num" with
      | some (.int n') => (n', acc.2 ++ [tok])
      | _ => (acc.1, acc.2 ++ ["mg-error:cell"])
    | .ok _ => (acc.1, acc.2 ++ ["mg-error:shape"])
    | .error m => (acc.1, acc.2 ++ [mgErr m])
  let (num, outs) := ops.foldl step ((0 : Int), [])
  pure (",".intercalate outs ++ s!" {num}", "ok")

def mgDistExt (rates rands : Array Int) : Ext Float := fun f k _ =>
  if f = "arg1" then .int (rates.getD k 0)
  else if f = "arg2" then .int (rands.getD k 0)
  else .nil

/-- `mg.dist <kind> <intervalNs> <steps> <rates> <rands>` — the generated init part decides pass-through and the number of
sub-ticks, then the generated closure is called `steps` times on the state it left -/
def mgDist (args _impl : List String) : Option (String × String) := do
  let args := args.take 5
  match args with
  | [k, iv, steps, rates, rands] =>
    let iv ← iv.toInt?
    let steps ← steps.toNat?
    let rates := (← parseInts rates).toArray
    let rands := (← parseInts rands).toArray
    -- `NewDistribution` itself (a switch over the kind, the positive-interval guard) is not one of the programs
    if iv ≤ 0 ∨ (k ≠ "none" ∧ k ≠ "regular" ∧ k ≠ "random") then return ("err", "ok")
    let pass := s!"{iv} {steps} {intsTok ((List.range steps).map fun i => rates.getD i 0)}"
    if k = "none" then return (pass, "ok")
    let (ini, body) := if k = "regular" then (dist_regular_init, dist_regular_body) else (dist_random_init, dist_random_body)
    let ext := mgDistExt rates rands
    match exec ext 0 ini (State.ofVars [("arg0", .int iv), ("arg1", .nonNil), ("arg2", .nonNil)]) with
    | .returned _ _ => pure (pass, "ok")
    | .error m => pure (mgErr m, "ok")
    | .panicked _ => pure ("mg-error:panicked", "ok")
    | .normal s0 =>
      let r := Id.run do
        let mut s := s0
        let mut outs : Array Int := Array.mkEmpty steps
        let mut err : Option String := none
        for i in [0:steps] do
          if err.isNone then
            match runFn ext 0 body (s.set "carg0" (.int i)) with
            | .ok ([.int o], s') => outs := outs.push o; s := s'
            | .ok _ => err := some "mg-error:shape"
            | .error m => err := some (mgErr m)
        return (outs, s, err)
      match r.2.2 with
      | some e => pure (e, "ok")
      | none =>
        let ivOut := match s0.get "distributedIterationDuration" with | some (.int d) => toString d | _ => "?"
        pure (s!"{ivOut} {r.2.1.ncalls "arg1"} {intsTok r.1.toList}", "ok")
  | _ => none

/-- times are nanoseconds since an arbitrary non-zero base, so that the zero `time.Time` stays distinguishable -/
def mgBase : Int := 1700000000000000000

def mgParseStages (s : String) : Option (List (Int × Int)) :=
  if s = "-" then some [] else
  (s.splitOn ";").mapM fun (p : String) =>
    match p.splitOn ":" with
    | [d, t] => do pure (← d.toInt?, ← t.toInt?)
    | _ => none

/-- `mg.staged <stages> <start|-> <queries>` — the generated `RateCalculator.Rate` called once per query on the state
the previous call left (cursor, start time); the stage list is chained as `NewRateCalculator` does -/
def mgStaged (args impl : List String) : Option (String × String) := do
  match args with
  | [stages, start, qs] =>
    let l ← mgParseStages stages
    let qs ← parseInts qs
    let start : Option Int ← if start = "-" then pure none else (start.toInt?).map some
    let recs : List (List (String × Val Float)) := (F1.Staged.mkStages l).map fun st =>
      [("StartTarget", .int st.s), ("EndTarget", .int st.e), ("Duration", .int st.d)]
    let s0 : State Float := ⟨[("recv.current", .int (-1)), ("recv.start", .int (match start with | some t => mgBase + t | none => 0)),
      ("arg0", .int 0)], [], [], [], [("recv.stages", recs)]⟩
    let r := Id.run do
      let mut s := s0
      let mut outs : Array Int := #[]
      let mut err : Option String := none
      for q in qs do
        if err.isNone then
          match runFn mgNoExt (l.length + 2) staged_Rate (s.set "arg0" (.int (mgBase + q))) with
          | .ok ([.int o], s') => outs := outs.push o; s := s'
          | .ok _ => err := some "mg-error:shape"
          | .error m => err := some (mgErr m)
      return (outs, err)
    match r.2 with
    | some e => pure (e, "ok")
    | none => pure (s!"{impl.getD 0 "-"} {intsTok r.1.toList}", "ok")     -- the reported duration is `MaxDuration`, not this program
  | _ => none

/-- `mg.ramp <startRate> <endRate> <unitNs> <durationNs> <queries>` — the generated rate function of `CalculateRampRate`
(its validation and the rate parsing in front of it are not part of the program: a refused ramp is skipped) -/
def mgRamp (args impl : List String) : Option (String × String) := do
  match args.take 5 with      -- (a sixth argument only tells the harness where on the time line the queries start)
  | [s, e, _unit, dur, qs] =>
    let s ← s.toInt?; let e ← e.toInt?; let dur ← dur.toInt?
    let qs ← parseInts qs
    if impl = ["err"] then return ("err", "ok")
    let s0 : State Float := State.ofVars [("startTime", .nil), ("arg3", .int dur), ("startRate", .int s), ("endRate", .int e),
      ("carg0", .int 0)]
    let r := Id.run do
      let mut st := s0
      let mut outs : Array Int := #[]
      let mut err : Option String := none
      for q in qs do
        if err.isNone then
          match runFn mgNoExt 0 ramp_rateFn_body (st.set "carg0" (.int (mgBase + q))) with
          | .ok ([.int o], s') => outs := outs.push o; st := s'
          | .ok _ => err := some "mg-error:shape"
          | .error m => err := some (mgErr m)
      return (outs, err)
    match r.2 with
    | some e => pure (e, "ok")
    | none => pure (s!"{impl.getD 0 "-"} {impl.getD 1 "-"} {intsTok r.1.toList}", "ok")
  | _ => none

/-- `mg.gauss <volume> <repeat> <freq> <peak> <stddev> <weights> <start> <n> [<k>:<w>]` — the generated `Calculator.For`
called once per tick on the state the previous call left (the remainder); the density values are the ones the real
distribution returned (an external of the program), the multiplier comes from the model of `NewCalculator` -/
def mgGauss (args impl : List String) : Option (String × String) := do
  let (args, jumpAt, jumpBy) : List String × Nat × Int := match args with
    | [a, b, c, d, e, f, g, h, j] =>
      (match j.splitOn ":" with
       | [k, w] => ([a, b, c, d, e, f, g, h], k.toNat?.getD 0, (w.toInt?.getD 0))
       | _ => ([a, b, c, d, e, f, g, h], 0, 0))
    | l => (l, 0, 0)
  match args, impl with
  | [vol, rep, freq, _peak, sd, ws, start, n], [chi, c0, _outs, pdfs] =>
    let vol ← floatOfHex vol
    let rep ← rep.toInt?; let freq ← freq.toInt?; let sd ← sd.toInt?
    let ws ← (if ws.startsWith "s:" then parseWeightString (ws.drop 2).toString else parseFloats ws)
    let start ← start.toInt?; let n ← n.toNat?
    if sd ≤ 0 then return ("err", "ok")
    let chiF ← floatOfHex chi; let c0F ← floatOfHex c0
    let pdfA ← parseFloats pdfs
    let c := F1.Gaussian.newCalcF vol freq rep chiF c0F ws
    let ext : Ext Float := fun f k _ => if f = "recv.dist.PDF" then .flt (pdfA.getD k 0.0) else .nil
    let s0 : State Float := ⟨[("recv.repeatWindow", .int rep), ("recv.multiplier", .flt c.multiplier),
      ("recv.averageWeight", .flt c.averageWeight), ("recv.remainder", .flt 0.0), ("arg0", .int 0)], [], [], [],
      [("recv.weights", ws.toList.map fun x => [("", Val.flt x)])]⟩
    let r := Id.run do
      let mut s := s0
      let mut outs : Array Int := Array.mkEmpty n
      let mut err : Option String := none
      for k in [0:n] do
        if err.isNone then
          let t := start + F1.Gaussian.unixToAbs + (k : Int) * freq + (if jumpBy ≠ 0 ∧ k ≥ jumpAt then jumpBy * rep else 0)
          match runFn ext (ws.size + 2) gauss_For (s.set "arg0" (.int t)) with
          | .ok ([.int o], s') => outs := outs.push o; s := s'
          | .ok _ => err := some "mg-error:shape"
          | .error m => err := some (mgErr m)
      return (outs, err)
    match r.2 with
    | some e => pure (e, "ok")
    | none => pure (s!"{chi} {c0} {intsTok r.1.toList} {pdfs}", "ok")
  | _, ["err"] => pure ("err", "ok")
  | _, _ => none


/-! #### programs with loops over slices, dynamic calls and panics -/

def mgRefs (n : Nat) : List (List (String × Val Float)) := (List.range n).map fun k => [("", Val.ref k)]

/-- the function values logged by the dynamic calls of a finished program, in call order -/
def mgInvoked (s : State Float) : List Nat :=
  ((lookup "$dyn" s.arrs).getD []).filterMap fun (rec : List (String × Val Float)) =>
    match lookup "0" rec with | some (Val.ref k) => some k | _ => none

/-- the oracle of a run of components: component `k` panics iff `stops k` -/
def mgStopExt (stops : Nat → Bool) : Ext Float := fun f _ args =>
  if f = "$dyn.panics" then (match args with | .ref k :: _ => .bool (stops k) | _ => .bool false)
  else if f = "$dyn" then (match args with | _ :: .ref k :: _ => .ref k | _ => .nil)   -- a component's setup returns "its" iteration function
  else .nil

/-- which components the generated closure calls, given which of them stop -/
def mgCombineIter (ps : List F1.Handle.Prog) : Except String (List Nat) :=
  match exec (mgStopExt fun k => (ps.getD k []).stops) (ps.length + 2) combine_iter_body
      ⟨[("darg0", .ref 999)], [], [], [], [("run", mgRefs ps.length)]⟩ with
  | .normal s | .returned _ s | .panicked s => .ok (mgInvoked s)
  | .error m => .error m

def mgCombineSetup (ps : List F1.Handle.Prog) : Except String (List Nat × Nat) :=
  match exec (mgStopExt fun k => (ps.getD k []).stops) (ps.length + 2) combine_setup_body
      ⟨[("carg0", .ref 999)], [], [], [], [("arg0", mgRefs ps.length)]⟩ with
  | .normal s | .returned _ s | .panicked s => .ok (mgInvoked s, ((lookup "run" s.arrs).getD []).length)
  | .error m => .error m

/-- the order in which the generated `T.teardown` calls the cleanups on the stack `ids` (registration order) -/
def mgTeardown (cleanups : Nat → F1.Handle.Prog) (ids : List Nat) : Except String (List Nat) :=
  match exec (mgStopExt fun k => (cleanups k).stops) (ids.length + 2) t_teardown
      ⟨[("recv.tearingDown", .bool false)], [], [], [], [("recv.teardownStack", ids.map fun k => [("", Val.ref k)])]⟩ with
  | .normal s => .ok (mgInvoked s)
  | .returned _ s | .panicked s => .error s!"teardown did not end normally after {(mgInvoked s).length} cleanups"
  | .error m => .error m

/-- `mg.scn <iters> <components> <cleanups>` — the generated `CombineScenarios` closures decide which components run in
setup and in each iteration, the generated `T.teardown` the order of the cleanups; the implementation's event log must
show exactly those setup, body and cleanup events -/
def mgScn (args impl : List String) : Option (String × String) := do
  match args, impl with
  | [iters, comps, cleanups], log :: _ =>
    let c ← parseScn iters comps cleanups
    let evs ← (log.splitOn ",").mapM parseEv
    let same := " ".intercalate impl
    let bad (m : String) : Option (String × String) := some ("mg-mismatch:" ++ m.replace " " "_", "ok")
    let sc := c.sc
    -- setup
    let (sIdx, kept) ← match mgCombineSetup sc.setups with | .ok r => some r | .error _ => none
    let implS := evs.filterMap fun e => match e with | .setup k => some k | _ => none
    if implS ≠ sIdx then return ← bad s!"setup components {sIdx}"
    let setupStopped := sIdx.any fun k => (sc.setups.getD k []).stops
    if kept ≠ (if setupStopped then sIdx.length - 1 else sIdx.length) then return ← bad s!"kept {kept}"
    -- cleanups of the setup handle run after the teardown marker
    let after := (evs.dropWhile (· ≠ .teardown)).drop 1
    let setupRegs := sIdx.flatMap fun k => F1.Handle.registered (sc.setups.getD k [])
    match mgTeardown sc.cleanups setupRegs with
    | .error m => return ← bad m
    | .ok order => if F1.Handle.cleanupIds after ≠ order then return ← bad s!"setup cleanups {order}"
    if compsMark sc.setups then return (same, "ok")
    -- iterations
    let mut rest := (evs.takeWhile (· ≠ .teardown)).dropWhile fun e => match e with | .setup _ => true | .log _ => true | _ => false
    for j in [0:c.iters] do
      let i := j + 1
      let seg := rest.takeWhile (· ≠ .ran i)
      rest := rest.drop (seg.length + 1)
      let ps := sc.bodies i
      match mgCombineIter ps with
      | .error m => return ← bad m
      | .ok idx =>
        let implB := seg.filterMap fun e => match e with | .body i' k => if i' = i then some k else none | _ => none
        if implB ≠ idx then return ← bad s!"iteration {i} components {idx}"
        let regs := idx.flatMap fun k => F1.Handle.registered (ps.getD k [])
        match mgTeardown sc.cleanups regs with
        | .error m => return ← bad m
        | .ok order => if F1.Handle.cleanupIds seg ≠ order then return ← bad s!"iteration {i} cleanups {order}"
    pure (same, "ok")
  | _, _ => none

/-- `mg.plan <now> <top> <default> <stage>…` — the generated `ParseConfigFile` run on an accepted configuration: the
per-stage functions are externals (every stage validates and parses; a validated stage lasts its own duration or the
default's); which stages it keeps, in which order, and the total duration must be what the implementation's plan shows -/
def mgPlan (args impl : List String) : Option (String × String) := do
  match args, impl with
  | now :: top :: dflt :: stages, "ok" :: sc :: _total :: maxdur :: conc :: maxit :: maxfail :: maxfailrate :: ign :: st :: restTok =>
    let now ← now.toInt?
    let t := kvs top
    let start : Option Int ← (match getK t "start" with | none => some none | some v => v.toInt?.map some)
    let d ← parseStageCfg dflt
    let cfgs ← stages.mapM parseStageCfg
    let durs := cfgs.map fun s => ((F1.Plan.inh s.duration d.duration).getD 0)
    let ext : Ext Float := fun f n a =>
      if f = "validateCommonFieldsOfStage" then (match a with | .int 0 :: .ref k :: _ => .ref k | _ => .nil)
      else if f = "parseStage" then (match a with | .int 0 :: _ => .ref (1000 + n) | _ => .nil)
      else if f = "Duration" then (match a with | [.ref k] => .int (durs.getD k 0) | _ => .nil)
      else if f = "StageStart" then optInt start
      else if f = "yaml.Unmarshal" then .nil
      else if f = "validateCommonFields" then (match a with | .int 0 :: _ => .ref 999 | _ => .nil)
      else .nonNil
    let s0 : State Float := ⟨[("arg0", .nonNil), ("arg1", .int now)], [], [], [], [("validatedConfigFile.Stages", mgRefs cfgs.length)]⟩
    match runFn ext (cfgs.length + 2) file_ParseConfigFile s0 with
    | .error m => pure (mgErr m, "ok")
    | .ok (vals, s) =>
      match vals, s.get "$ret.stagesTotalDuration" with
      | [.nonNil, .nil], some (.int total) =>
        let keptIdx := ((lookup "parseStage" s.arrs).getD []).filterMap fun (rec : List (String × Val Float)) =>
          match lookup "0" rec with | some (Val.ref k) => some k | _ => none
        let implStages := if st = "-" then [] else st.splitOn ";"
        let stTok := if keptIdx.isEmpty then "-" else
          ";".intercalate ((keptIdx.zip (implStages ++ List.replicate keptIdx.length "?")).map fun (k, tok) =>
            "/".intercalate (toString (durs.getD k 0) :: (tok.splitOn "/").drop 1))
        let stTok := if keptIdx.length ≠ implStages.length then s!"{stTok};kept={keptIdx}" else stTok
        pure (" ".intercalate (["ok", sc, toString total, maxdur, conc, maxit, maxfail, maxfailrate, ign, stTok] ++ restTok), "ok")
      | _, _ => pure ("mg-error:plan-not-produced", "ok")
  | _, _ => pure (" ".intercalate impl, "ok")      -- refused configurations: not the loop's business

end F1.Drive
