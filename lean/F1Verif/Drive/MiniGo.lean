import F1Verif.Util
import F1Verif.Model.MiniGo
import F1Verif.Model.Distribution
import F1Verif.Model.Staged
import F1Verif.Drive.Gaussian
import F1Verif.Generated.MiniGo
/-!
Driver ops `mg.*`: the MiniGo programs regenerated from /repo are *executed* (binary64 arithmetic) on the same cases
the hand-written models get, and must give what the real function gave. This is the check on the translator and on the
MiniGo semantics themselves: a construct translated or interpreted wrongly shows up here as a disagreement with the
implementation, independently of the refinement theorems.
-/
namespace F1.Drive
open F1.Util F1.MiniGo F1.Generated.MG

def mgNoExt : Ext Float := fun _ _ _ => .nil

def mgRun (ext : Ext Float) (fuel : Nat) (body : Stmt) (s : State Float) : Except String (List (Val Float) × State Float) :=
  runFn ext fuel body s

def mgErr (e : String) : String := "mg-error:" ++ (e.replace " " "_")

/-- `mg.verdict <hasErr> <ignoreDropped> <maxFailures> <maxFailuresRate> <succ> <failed> <dropped>` — the generated
`Result.Failed` (with the generated `Snapshot.Iterations` supplying the denominator) -/
def mgVerdict (args impl : List String) : Option (String × String) := do
  match args with
  | [e, ign, mf, mfr, s, f, d] =>
    let e ← parseBool e
    let ign ← parseBool ign
    let mf ← mf.toNat?; let mfr ← mfr.toInt?; let s ← s.toNat?; let f ← f.toNat?; let d ← d.toNat?
    let iters := mgRun mgNoExt 0 snapshot_Iterations (State.ofVars [
      ("recv.DroppedIterationCount", .int d), ("recv.FailedIterationDurations.Count", .int f),
      ("recv.SuccessfulIterationDurations.Count", .int s)])
    let out := match iters with
      | .ok ([.int it], _) =>
        (match mgRun mgNoExt 0 result_Failed (State.ofVars [
            ("recv.Error()", if e then .nonNil else .nil), ("recv.runOptions.IgnoreDropped", .bool ign),
            ("recv.runOptions.MaxFailures", .int mf), ("recv.runOptions.MaxFailuresRate", .int mfr),
            ("recv.snapshot.DroppedIterationCount", .int d), ("recv.snapshot.FailedIterationDurations.Count", .int f),
            ("recv.snapshot.SuccessfulIterationDurations.Count", .int s), ("recv.snapshot.Iterations()", .int it)]) with
         | .ok ([.bool b], _) => if b then "fail" else "pass"
         | .ok _ => "mg-error:result-shape"
         | .error m => if (m.splitOn "divide by zero").length > 1 then "crash:divzero" else mgErr m)
      | .ok _ => "mg-error:iterations-shape"
      | .error m => mgErr m
    -- the second token of the implementation (the command-line mapping) is not part of these programs
    pure (out ++ " " ++ (impl.getD 1 "-"), "ok")
  | _ => none

/-- `mg.iter.seq <limit> <k>` — `k` calls of the generated `NextIteration`, the generated `MaxIterationsReached` after each -/
def mgIterSeq (args _impl : List String) : Option (String × String) := do
  match args with
  | [n, k] =>
    let n ← n.toNat?; let k ← k.toNat?
    if k = 0 then return ("- -", "ok")
    let r := Id.run do
      let mut c : Int := 0
      let mut ids : Array Nat := #[]
      let mut flags : Array Char := #[]
      let mut err : Option String := none
      for _ in [0:k] do
        match mgRun mgNoExt 0 manager_NextIteration (State.ofVars [("recv.iteration", .int c), ("recv.maxIterations", .int n),
            ("errMaxIterationsReached", .nonNil)]) with
        | .ok ([.int id, e], s) =>
          ids := ids.push (if e matches .nil then id.toNat else 0)
          match s.get "recv.iteration" with
          | some (.int c') => c := c'
          | _ => err := some "mg-error:counter"
        | .ok _ => err := some "mg-error:shape"
        | .error m => err := some (mgErr m)
        match mgRun mgNoExt 0 manager_MaxIterationsReached (State.ofVars [("recv.iteration", .int c), ("recv.maxIterations", .int n)]) with
        | .ok ([.bool b], _) => flags := flags.push (if b then '1' else '0')
        | .ok _ => err := some "mg-error:shape"
        | .error m => err := some (mgErr m)
      return (ids, flags, err)
    match r.2.2 with
    | some e => pure (e, "ok")
    | none => pure (s!"{natsTok r.1.toList} {String.ofList r.2.1.toList}", "ok")
  | _ => none

/-- `mg.jobcounter <ops>` — the generated `set` / `none` / `take` -/
def mgJobcounter (args _impl : List String) : Option (String × String) := do
  let ops ← (← args[0]?).splitOn "," |>.mapM fun (o : String) =>
    match o.toList with
    | 's' :: r => (String.ofList r).toInt?.map fun n => (0, n)
    | ['n'] => some (1, 0)
    | ['t'] => some (2, 0)
    | _ => none
  let step (acc : Int × List String) (op : Nat × Int) : Int × List String :=
    let prog := match op.1 with | 0 => jobCounter_set | 1 => jobCounter_none | _ => jobCounter_take
    match mgRun mgNoExt 0 prog (State.ofVars [("recv.num", .int acc.1), ("arg0", .int op.2)]) with
    | .ok ([v], s) =>
      let tok := match v with
        | .int i => toString i
        | .bool b => if b then "1" else "0"
        | _ => "mg-error:value"
      match s.get "recv.num" with
      | some (.int n') => (n', acc.2 ++ [tok])
      | _ => (acc.1, acc.2 ++ ["mg-error:cell"])
    | .ok _ => (acc.1, acc.2 ++ ["mg-error:shape"])
    | .error m => (acc.1, acc.2 ++ [mgErr m])
  let (num, outs) := ops.foldl step ((0 : Int), [])
  pure (",".intercalate outs ++ s!" {num}", "ok")

def mgDistExt (rates rands : Array Int) : Ext Float := fun f k _ =>
  if f = "arg1" then .int (rates.getD k 0)
  else if f = "arg2" then .int (rands.getD k 0)
  else .nil

/-- `mg.dist <kind> <intervalNs> <steps> <rates> <rands>` — the generated init part decides pass-through and the number of
sub-ticks, then the generated closure is called `steps` times on the state it left -/
def mgDist (args _impl : List String) : Option (String × String) := do
  let args := args.take 5
  match args with
  | [k, iv, steps, rates, rands] =>
    let iv ← iv.toInt?
    let steps ← steps.toNat?
    let rates := (← parseInts rates).toArray
    let rands := (← parseInts rands).toArray
    -- `NewDistribution` itself (a switch over the kind, the positive-interval guard) is not one of the programs
    if iv ≤ 0 ∨ (k ≠ "none" ∧ k ≠ "regular" ∧ k ≠ "random") then return ("err", "ok")
    let pass := s!"{iv} {steps} {intsTok ((List.range steps).map fun i => rates.getD i 0)}"
    if k = "none" then return (pass, "ok")
    let (ini, body) := if k = "regular" then (dist_regular_init, dist_regular_body) else (dist_random_init, dist_random_body)
    let ext := mgDistExt rates rands
    match exec ext 0 ini (State.ofVars [("arg0", .int iv), ("arg1", .nonNil), ("arg2", .nonNil)]) with
    | .returned _ _ => pure (pass, "ok")
    | .error m => pure (mgErr m, "ok")
    | .panicked _ => pure ("mg-error:panicked", "ok")
    | .normal s0 =>
      let r := Id.run do
        let mut s := s0
        let mut outs : Array Int := Array.mkEmpty steps
        let mut err : Option String := none
        for i in [0:steps] do
          if err.isNone then
            match runFn ext 0 body (s.set "carg0" (.int i)) with
            | .ok ([.int o], s') => outs := outs.push o; s := s'
            | .ok _ => err := some "mg-error:shape"
            | .error m => err := some (mgErr m)
        return (outs, s, err)
      match r.2.2 with
      | some e => pure (e, "ok")
      | none =>
        let ivOut := match s0.get "distributedIterationDuration" with | some (.int d) => toString d | _ => "?"
        pure (s!"{ivOut} {r.2.1.ncalls "arg1"} {intsTok r.1.toList}", "ok")
  | _ => none

/-- times are nanoseconds since an arbitrary non-zero base, so that the zero `time.Time` stays distinguishable -/
def mgBase : Int := 1700000000000000000

def mgParseStages (s : String) : Option (List (Int × Int)) :=
  if s = "-" then some [] else
  (s.splitOn ";").mapM fun (p : String) =>
    match p.splitOn ":" with
    | [d, t] => do pure (← d.toInt?, ← t.toInt?)
    | _ => none

/-- `mg.staged <stages> <start|-> <queries>` — the generated `RateCalculator.Rate` called once per query on the state
the previous call left (cursor, start time); the stage list is chained as `NewRateCalculator` does -/
def mgStaged (args impl : List String) : Option (String × String) := do
  match args with
  | [stages, start, qs] =>
    let l ← mgParseStages stages
    let qs ← parseInts qs
    let start : Option Int ← if start = "-" then pure none else (start.toInt?).map some
    let recs : List (List (String × Val Float)) := (F1.Staged.mkStages l).map fun st =>
      [("StartTarget", .int st.s), ("EndTarget", .int st.e), ("Duration", .int st.d)]
    let s0 : State Float := ⟨[("recv.current", .int (-1)), ("recv.start", .int (match start with | some t => mgBase + t | none => 0)),
      ("arg0", .int 0)], [], [], [], [("recv.stages", recs)]⟩
    let r := Id.run do
      let mut s := s0
      let mut outs : Array Int := #[]
      let mut err : Option String := none
      for q in qs do
        if err.isNone then
          match runFn mgNoExt (l.length + 2) staged_Rate (s.set "arg0" (.int (mgBase + q))) with
          | .ok ([.int o], s') => outs := outs.push o; s := s'
          | .ok _ => err := some "mg-error:shape"
          | .error m => err := some (mgErr m)
      return (outs, err)
    match r.2 with
    | some e => pure (e, "ok")
    | none => pure (s!"{impl.getD 0 "-"} {intsTok r.1.toList}", "ok")     -- the reported duration is `MaxDuration`, not this program
  | _ => none

/-- `mg.ramp <startRate> <endRate> <unitNs> <durationNs> <queries>` — the generated rate function of `CalculateRampRate`
(its validation and the rate parsing in front of it are not part of the program: a refused ramp is skipped) -/
def mgRamp (args impl : List String) : Option (String × String) := do
  match args with
  | [s, e, _unit, dur, qs] =>
    let s ← s.toInt?; let e ← e.toInt?; let dur ← dur.toInt?
    let qs ← parseInts qs
    if impl = ["err"] then return ("err", "ok")
    let s0 : State Float := State.ofVars [("startTime", .nil), ("arg3", .int dur), ("startRate", .int s), ("endRate", .int e),
      ("carg0", .int 0)]
    let r := Id.run do
      let mut st := s0
      let mut outs : Array Int := #[]
      let mut err : Option String := none
      for q in qs do
        if err.isNone then
          match runFn mgNoExt 0 ramp_rateFn_body (st.set "carg0" (.int (mgBase + q))) with
          | .ok ([.int o], s') => outs := outs.push o; st := s'
          | .ok _ => err := some "mg-error:shape"
          | .error m => err := some (mgErr m)
      return (outs, err)
    match r.2 with
    | some e => pure (e, "ok")
    | none => pure (s!"{impl.getD 0 "-"} {impl.getD 1 "-"} {intsTok r.1.toList}", "ok")
  | _ => none

/-- `mg.gauss <volume> <repeat> <freq> <peak> <stddev> <weights> <start> <n> [<k>:<w>]` — the generated `Calculator.For`
called once per tick on the state the previous call left (the remainder); the density values are the ones the real
distribution returned (an external of the program), the multiplier comes from the model of `NewCalculator` -/
def mgGauss (args impl : List String) : Option (String × String) := do
  let (args, jumpAt, jumpBy) : List String × Nat × Int := match args with
    | [a, b, c, d, e, f, g, h, j] =>
      (match j.splitOn ":" with
       | [k, w] => ([a, b, c, d, e, f, g, h], k.toNat?.getD 0, (w.toInt?.getD 0))
       | _ => ([a, b, c, d, e, f, g, h], 0, 0))
    | l => (l, 0, 0)
  match args, impl with
  | [vol, rep, freq, _peak, sd, ws, start, n], [chi, c0, _outs, pdfs] =>
    let vol ← floatOfHex vol
    let rep ← rep.toInt?; let freq ← freq.toInt?; let sd ← sd.toInt?
    let ws ← (if ws.startsWith "s:" then parseWeightString (ws.drop 2).toString else parseFloats ws)
    let start ← start.toInt?; let n ← n.toNat?
    if sd ≤ 0 then return ("err", "ok")
    let chiF ← floatOfHex chi; let c0F ← floatOfHex c0
    let pdfA ← parseFloats pdfs
    let c := F1.Gaussian.newCalcF vol freq rep chiF c0F ws
    let ext : Ext Float := fun f k _ => if f = "recv.dist.PDF" then .flt (pdfA.getD k 0.0) else .nil
    let s0 : State Float := ⟨[("recv.repeatWindow", .int rep), ("recv.multiplier", .flt c.multiplier),
      ("recv.averageWeight", .flt c.averageWeight), ("recv.remainder", .flt 0.0), ("arg0", .int 0)], [], [], [],
      [("recv.weights", ws.toList.map fun x => [("", Val.flt x)])]⟩
    let r := Id.run do
      let mut s := s0
      let mut outs : Array Int := Array.mkEmpty n
      let mut err : Option String := none
      for k in [0:n] do
        if err.isNone then
          let t := start + F1.Gaussian.unixToAbs + (k : Int) * freq + (if jumpBy ≠ 0 ∧ k ≥ jumpAt then jumpBy * rep else 0)
          match runFn ext (ws.size + 2) gauss_For (s.set "arg0" (.int t)) with
          | .ok ([.int o], s') => outs := outs.push o; s := s'
          | .ok _ => err := some "mg-error:shape"
          | .error m => err := some (mgErr m)
      return (outs, err)
    match r.2 with
    | some e => pure (e, "ok")
    | none => pure (s!"{chi} {c0} {intsTok r.1.toList} {pdfs}", "ok")
  | _, ["err"] => pure ("err", "ok")
  | _, _ => none

end F1.Drive
