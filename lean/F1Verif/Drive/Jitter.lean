import F1Verif.Util
import F1Verif.Model.Jitter
namespace F1.Drive
open F1.Util F1.Jitter

/-- `jitter <jn> <jd> <n> <pattern>` — jitter `jn/jd` percent applied to the rate sequence
`pattern[k % len]`, k < n; impl: the emitted values. Relational: Spec decides, no model output. -/
def jitter (args impl : List String) : Option (String × String) := do
  match args with
  | [jn, jd, n, pat] =>
    let jn ← jn.toNat?; let jd ← jd.toNat?; let n ← n.toNat?
    let pat := (← parseInts pat).toArray
    if jd = 0 ∨ pat.size = 0 then none else
    let spec := match impl with
      | [outs] =>
        match parseInts outs with
        | none => "FAIL unparsable-impl-output"
        | some outs =>
          if outs.length ≠ n then "FAIL output-length" else
          let run := (List.range n).zip outs |>.map fun (k, o) => (pat.getD (k % pat.size) 0, o)
          if jn = 0 then (if identityRun run then "ok" else "FAIL zero-jitter-is-not-the-identity")
          else match firstBad jn jd 0 0 run with
            | none => "ok"
            | some i =>
              let bs := balances 0 run
              s!"FAIL step-{i}-rate-{(run.getD i (0,0)).1}-carry-{bs.getD i 0}-emitted-{(run.getD i (0,0)).2}-outside-jitter-range"
      | _ => "FAIL no-impl-output"
    pure ("-", spec)
  | _ => none

end F1.Drive
