import F1Verif.Util
import F1Verif.Model.Plan
import F1Verif.Drive.Labels
namespace F1.Drive
open F1.Util F1.Parse F1.Plan

def kvs (s : String) : List (String × String) :=
  if s = "-" then [] else
  (s.splitOn ",").filterMap fun (p : String) => match p.splitOn "=" with | [k, v] => some (k, v) | _ => none

def getK (m : List (String × String)) (k : String) : Option String := (m.find? (·.1 = k)).map (·.2)

def parseParams (s : String) : Option (List (String × String)) :=
  if s = "-" then some [] else
  (s.splitOn "+").mapM fun (p : String) => match p.splitOn ":" with
    | [k, v] => do pure (← hexStr k, ← hexStr v)
    | _ => none

/-- sum of a `--weights` list of simple decimals, as a rational `num / 10^scale` (exact for what the generator writes) -/
def weightsSumZero (ws : Bytes) : Bool :=
  let parts := (splitOn 44 ws).filter (fun w => !w.isEmpty)
  if parts.isEmpty then false else
  let dec (w : Bytes) : Option (Int × Nat) :=
    let (neg, w) := match w with | 45 :: r => (true, r) | 43 :: r => (false, r) | _ => (false, w)
    let ip := w.takeWhile isDigit
    let rest := w.drop ip.length
    let fr := match rest with | 46 :: f => f | _ => []
    match digitsVal (ip ++ fr) with
    | some n => some ((if neg then -(n : Int) else (n : Int)), fr.length)
    | none => none
  match parts.mapM dec with
  | none => false
  | some l =>
    let sc := l.foldl (fun m p => max m p.2) 0
    (l.foldl (fun acc p => acc + p.1 * (10 ^ (sc - p.2) : Int)) (0 : Int)) == 0

/-- can `NewCalculator` derive a rate? `some b` when it is clear, `none` in the narrow band where binary64 `erfc`
decides (then the implementation's answer is taken). `0.5·erfc(−z)` is 0 below z ≈ −26.6 and 1 above z ≈ 5.9. -/
def gaussDerivable (rep freq peak sd : Int) (ws : Bytes) : Option Bool :=
  if sd ≤ 0 then some true else       -- refused earlier, for another reason
  if weightsSumZero ws then some false else
  let z (x : Int) : Float := (Float.ofInt x - Float.ofInt peak) / (Float.ofInt sd * Float.sqrt 2.0)
  let zHi := z (rep - freq); let zLo := z 0
  if zHi < -27.5 ∨ zLo > 6.2 then some false
  else if zHi < -25.5 ∨ zLo > 5.6 then none
  else some true

/-- set the oracle input of a gaussian stage (fields resolved against the default section like every other field) -/
def withDerivable (dflt : StageCfg) (implAccepts : Bool) (st : StageCfg) : StageCfg :=
  if (inh st.mode dflt.mode) = some b_gaussian then
    let rep := inh st.repeat_ dflt.repeat_
    let fr := inh st.iterationFrequency dflt.iterationFrequency
    let pk := inh st.peak dflt.peak
    let sd := inh st.stddev dflt.stddev
    let ws := inh st.weights dflt.weights
    match rep, fr, pk, sd, ws with
    | some rep, some fr, some pk, some sd, some ws =>
      { st with gaussDerivable := (gaussDerivable rep fr pk sd ws).getD implAccepts }
    | _, _, _, _, _ => st
  else st

def parseStageCfg (s : String) : Option StageCfg := do
  let m := kvs s
  let hb (k : String) : Option (Option Bytes) := match getK m k with | none => some none | some v => (hexBytes v).map some
  let it (k : String) : Option (Option Int) := match getK m k with | none => some none | some v => v.toInt?.map some
  pure {
    mode := ← hb "mode", startRate := ← hb "srate", endRate := ← hb "erate", rate := ← hb "rate",
    distribution := ← hb "dist", weights := ← hb "weights", stages := ← hb "stages",
    concurrency := ← it "conc", jitter := ← it "jitter", volume := (getK m "volume").map fun _ => (),
    duration := ← it "dur", iterationFrequency := ← it "freq", repeat_ := ← it "repeat", peak := ← it "peak",
    stddev := ← it "stddev",
    parameters := ← (match getK m "params" with | none => some none | some v => (parseParams v).map some) }

def paramsTok (l : List (String × String)) : String :=
  let l := l.mergeSort (fun a b => decide (a.1 ≤ b.1))
  if l.isEmpty then "-" else "+".intercalate (l.map fun (k, v) => s!"{strHex k}:{strHex v}")

def planTok (p : PlanOut) : String :=
  let st := if p.stages.isEmpty then "-" else
    ";".intercalate (p.stages.map fun r => s!"{r.duration}/{r.interval}/{r.users}/{paramsTok r.params}")
  s!"ok {strHex p.scenario} {p.total} {p.maxDuration} {p.concurrency} {p.maxIterations} {p.maxFailures} {p.maxFailuresRate} {boolTok p.ignoreDropped} {st}"

/-- a constant-mode stage with distribution none and jitter 0 yields the same value on every tick -/
def mustBeSame (r : RStage) : Bool := r.constant && r.distNone && r.jitter == 0

def sameTok (p : PlanOut) : String :=
  if p.stages.isEmpty then "-" else
  ",".intercalate (p.stages.map fun r => if r.users ≠ 0 then "-" else if mustBeSame r then "1" else "*")

/-- `plan <now> <top> <default> <stage>…` ; impl: `ok <scenario> <total> <maxdur> <conc> <maxit> <maxfail>
<maxfailrate> <igndrop> <stages> probe=<ok|…>` | `err` -/
def plan (args impl : List String) : Option (String × String) := do
  match args with
  | now :: top :: dflt :: stages =>
    let now ← now.toInt?
    let t := kvs top
    let it (k : String) : Option (Option Int) := match getK t k with | none => some none | some v => v.toInt?.map some
    let nt (k : String) : Option (Option Nat) := match getK t k with | none => some none | some v => v.toNat?.map some
    let cfg : Config := {
      scenario := ← (match getK t "scenario" with | none => some none | some v => (hexStr v).map some),
      default_ := ← parseStageCfg dflt,
      limits := { maxDuration := ← it "maxdur", concurrency := ← it "conc", maxIterations := ← nt "maxit",
                  maxFailures := ← nt "maxfail", maxFailuresRate := ← it "maxfailrate",
                  ignoreDropped := (getK t "igndrop").map (· = "1") },
      stageStart := ← it "start",
      stages := ← stages.mapM parseStageCfg }
    -- oracle input of the gaussian stages (resolved against the default section like every other field)
    let implAccepts := impl.head? = some "ok"
    let dflt0 := cfg.default_
    let cfg := { cfg with stages := cfg.stages.map (withDerivable dflt0 implAccepts) }
    let r := parsePlan cfg now
    let model := match r with | .ok p => planTok p ++ " probe=ok same=" ++ sameTok p | .err => "err" | .crash => "crash"
    -- the harness's `same=` observations (one per kept stage), split off before the positional match
    let sameObs : List String := match impl.find? (·.startsWith "same=") with
      | some t => ((t.drop 5).toString.splitOn ",")
      | none => []
    let impl := impl.filter fun t => !t.startsWith "same="
    -- Spec (C14 + C15), evaluated on the implementation's output
    let spec := match impl with
      | ["err"] => "ok"
      | ["ok", sc, total, maxdur, conc, maxit, maxfail, maxfailrate, ign, st, probe] =>
        -- stage durations with defaults, cumulative ends, skip rule — written independently of the loop
        let durs := cfg.stages.map fun s => ((inh s.duration cfg.default_.duration).getD 0)
        let ends := (durs.foldl (fun (acc : List Int × Int) d => (acc.1 ++ [acc.2 + d], acc.2 + d)) ([], 0)).1
        let kept := (cfg.stages.zip (durs.zip ends)).filter fun (_, _, e) =>
          match cfg.stageStart with | none => true | some s => decide (s + e > now)
        let implStages := if st = "-" then [] else st.splitOn ";"
        let implDurs := implStages.map fun (x : String) => ((x.splitOn "/").headD "").toInt?
        let implParams := implStages.map fun (x : String) => (x.splitOn "/").getD 3 ""
        let wantParams := kept.map fun (s, _, _) => paramsTok ((inh s.parameters cfg.default_.parameters).getD [])
        if probe ≠ "probe=ok" then s!"FAIL accepted-config-is-not-runnable-{probe}"
        else if implDurs ≠ kept.map (fun (_, d, _) => some d) then "FAIL kept-stages-are-not-exactly-the-unfinished-ones-in-order"
        else if total.toInt? ≠ some durs.sum then "FAIL total-duration-is-not-the-sum-of-all-stage-durations"
        else if implParams ≠ wantParams then "FAIL stage-parameters-not-inherited-from-default"
        -- a users stage has the users its own `concurrency` says, else the default section's, else the limits'
        else if (implStages.zip kept).any (fun (x, (s, _, _)) =>
            (inh s.mode cfg.default_.mode) = some b_users ∧
            ((x.splitOn "/").getD 2 "").toInt? ≠
              (match inh s.concurrency cfg.default_.concurrency with | some c => some c | none => cfg.limits.concurrency)) then
          "FAIL users-of-a-stage-not-taken-from-stage-then-default-then-limits"
        else if some sc ≠ cfg.scenario.map strHex then "FAIL scenario"
        else if maxdur.toInt? ≠ cfg.limits.maxDuration ∨ conc.toInt? ≠ cfg.limits.concurrency
            ∨ maxit.toNat? ≠ cfg.limits.maxIterations ∨ some (decide (ign = "1")) ≠ cfg.limits.ignoreDropped
            ∨ maxfail.toNat? ≠ some (cfg.limits.maxFailures.getD 0) ∨ maxfailrate.toInt? ≠ some (cfg.limits.maxFailuresRate.getD 0)
          then "FAIL limits-not-mapped-one-to-one"
        else if conc.toInt?.getD 0 < 1 then "FAIL accepted-config-without-workers"
        else if implStages.any (fun (x : String) =>
            match (x.splitOn "/").map String.toInt? with
            | [_, some iv, some u, _] => !((u = 0 ∧ iv > 0) ∨ (u ≥ 1 ∧ iv = 0))
            | _ => true) then "FAIL accepted-stage-is-not-runnable"
        else match r with
          | .ok p =>
            if (p.stages.zip sameObs).any (fun (rs, o) => mustBeSame rs && o == "0") then
              "FAIL stage-with-zero-jitter-does-not-yield-its-rate-unchanged"
            else "ok"
          | _ => "ok"
      | t :: _ => if t.startsWith "crash" then "FAIL config-crashes-the-parser" else "FAIL no-impl-output"
      | [] => "FAIL no-impl-output"
    pure (model, spec)
  | _ => none

/-- `calc.constant <rate> <dist>` / `calc.ramp <start> <end> <dist> <durNs>` / `calc.staged <freqNs> <stages> <dist>` /
`calc.gaussian <freqNs> <stddevNs> <weights> <dist>` (strings hex); impl: `ok <intervalNs> probe=<…>` | `err` -/
def calcOp (mode : String) (args impl : List String) : Option (String × String) := do
  let r : Res Int ← match mode, args with
    | "constant", [r, d] => do pure (calcConstant (← hexBytes r) (← hexBytes d))
    -- with a jitter spelt as text (the model has no opinion on the jitter: any float the flag / YAML decoder accepts)
    | "constantj", [r, d, _j] => do pure (calcConstant (← hexBytes r) (← hexBytes d))
    | "ramp", [s, e, d, dur] => do pure (calcRamp (← hexBytes s) (← hexBytes e) (← hexBytes d) (← dur.toInt?))
    | "staged", [f, st, d] => do pure (calcStaged (← f.toInt?) (← hexBytes st) (← hexBytes d))
    | "gaussian", [f, sd, w, d] => do
      -- the harness calls CalculateGaussianRate with repeat 1 h and peak 30 min
      let fI ← f.toInt?; let sdI ← sd.toInt?; let wB ← hexBytes w
      let g := (gaussDerivable 3600000000000 fI 1800000000000 sdI wB).getD (impl.head? = some "ok")
      pure (calcGaussian fI sdI wB (← hexBytes d) g)
    | _, _ => none
  let model := match r with | .ok v => s!"ok {v} probe=ok" | .err => "err" | .crash => "crash"
  let spec := match impl with
    | ["err"] => "ok"
    | ["ok", iv, probe] =>
      if iv.toInt?.getD 0 ≤ 0 then "FAIL accepted-trigger-with-non-positive-tick-interval"
      else if probe ≠ "probe=ok" then s!"FAIL accepted-trigger-is-not-runnable-{probe}" else "ok"
    | t :: _ => if t.startsWith "crash" then "FAIL input-crashes-instead-of-erroring" else "FAIL no-impl-output"
    | [] => "FAIL no-impl-output"
  pure (model, spec)

/-- `gaussvol <peak-rate hex> <peakNs> <stddevNs>` — the `--peak-rate` path of the gaussian trigger. impl:
`<volume> <volume of 1000000000/s>` | `err`. The volume is linear in the peak rate, so "N per unit" must satisfy
`volume · unit(ns) ≈ N · reference` (both volumes are rounded to integers; binary64 relative error 1e-8 allowed). -/
def gaussvol (args impl : List String) : Option (String × String) := do
  match args with
  | [r, _peak, sd] =>
    let r ← hexBytes r
    let sd ← sd.toInt?
    let pr := parseRate r
    let accept := match pr with | .ok _ => decide (0 < sd) | _ => false
    let spec := match impl with
      | ["err"] => if accept then "FAIL valid-peak-rate-refused" else "ok"
      | [v, ref] =>
        if !accept then "FAIL malformed-peak-rate-or-deviation-accepted"
        else match pr, v.toInt?, ref.toInt? with
          | .ok (cnt, unit), some V, some B =>
            let d := V * unit - cnt * B
            let tol := unit + cnt + (V.natAbs : Int) * unit / 100000000 + 1
            if d.natAbs ≤ tol.natAbs then "ok" else s!"FAIL peak-rate-does-not-mean-N-per-unit-volume-{V}"
          | _, _, _ => s!"FAIL volume-is-not-a-finite-number-{v}"
      | t :: _ => if t.startsWith "crash" then "FAIL peak-rate-crashes" else "FAIL no-impl-output"
      | [] => "FAIL no-impl-output"
    pure ("-", spec)
  | _ => none

/-- `pipeline <rate hex> <jn> <jd> <dist hex> <cycles>` — the composed constant-rate pipeline on the real builders.
impl: `<intervalNs> <calls> <total> <min> <max>` | `err`. Spec = the statement of `C12_C13_pipeline_total`:
`|total − cycles·N| ≤ (a·N + 1/2 + 1/1000)/(1 − a)` with `a = jn/(100·jd) < 1`, every value non-negative, and the tick
interval / number of calls of the distribution. -/
def pipelineOp (args impl : List String) : Option (String × String) := do
  let args := args.take 5      -- an optional sixth argument names the builder the harness goes through
  match args with
  | [r, jn, jd, d, c] =>
    let r ← hexBytes r; let d ← hexBytes d
    let jn ← jn.toNat?; let jd ← jd.toNat?; let c ← c.toNat?
    let spec := match parseRate r, impl with
      | .ok (cnt, unit), [iv, calls, total, mn, _mx, uneven] =>
        match newDistribution d unit, iv.toInt?, calls.toNat?, total.toInt?, mn.toInt? with
        | .ok iv', some ivI, some callsI, some tot, some mnI =>
          let n : Int := if iv' < unit then unit / iv' else 1
          let diff := (tot - (c : Int) * cnt).natAbs
          if ivI ≠ iv' then "FAIL tick-interval-of-the-distributed-rate"
          else if (callsI : Int) ≠ (c : Int) * n then "FAIL harness-calls"
          else if mnI < 0 then "FAIL negative-value-requested"
          else if d = b_regular ∧ uneven ≠ "0" then "FAIL regular-distribution-uneven-within-a-cycle"
          else if jn < 100 * jd ∧ jd > 0 ∧ (diff : Int) * (10 * (100 * jd - jn)) > jn * cnt * 10 + 501 * jd then
            s!"FAIL long-run-total-{tot}-not-within-the-carry-bound-of-{(c : Int) * cnt}"
          else "ok"
        | .err, _, _, _, _ => "FAIL invalid-distribution-accepted"
        | _, _, _, _, _ => "FAIL unparsable-impl-output"
      | .ok _, ["err"] => (match parseRate r with
          | .ok (_, unit) => if newDistribution d unit = .err then "ok" else "FAIL valid-pipeline-refused"
          | _ => "ok")
      | _, ["err"] => "ok"
      | _, t :: _ => if t.startsWith "crash" then "FAIL pipeline-crashes" else "FAIL malformed-rate-accepted"
      | _, [] => "FAIL no-impl-output"
    pure ("-", spec)
  | _ => none

/-- `bfile <startAgoMs|-> <stages>` — the file trigger *builder*: whatever part of the plan is already over, the trigger's
duration is the sum of all stage durations (C15), and the limits reach the runner's options unchanged.
impl: `dur=<ms> maxdur=<ms> conc=<n> maxit=<n>` -/
def bfile (args impl : List String) : Option (String × String) := do
  match args with
  | [_start, stages] =>
    let durs ← (stages.splitOn ";").mapM fun (st : String) =>
      match st.splitOn ":" with
      | [_, d, _] => d.toInt?
      | _ => none
    let model := s!"dur={durs.foldl (· + ·) 0} maxdur=5000 conc=3 maxit=7"
    let spec := match impl with
      | [d, md, c, mi] =>
        if d ≠ s!"dur={durs.foldl (· + ·) 0}" then "FAIL trigger-duration-is-not-the-sum-of-all-stage-durations"
        else if md ≠ "maxdur=5000" ∨ c ≠ "conc=3" ∨ mi ≠ "maxit=7" then "FAIL limits-did-not-reach-the-run-options"
        else "ok"
      | ["err"] => "FAIL valid-plan-refused-by-the-builder"
      | _ => "FAIL no-impl-output"
    pure (model, spec)
  | _ => none

end F1.Drive
