import F1Verif.Util
import F1Verif.Model.Iteration
namespace F1.Drive
open F1.Util F1.Iteration

/-- `iter.seq <limit> <k>`; impl/model: `<ids, 0 = refused> <reached flag after each call>` -/
def iterSeq (args impl : List String) : Option (String × String) := do
  match args with
  | [n, k] =>
    let n ← n.toNat?; let k ← k.toNat?
    let ids := calls n k 0
    let flags := (List.range k).map fun i => reached n (i + 1)
    let model := s!"{natsTok (ids.map fun o => o.getD 0)} {String.ofList (flags.map fun b => if b then '1' else '0')}"
    let spec := match impl with
      | [i, _] =>
        match parseNats i with
        | some got =>
          let acc := got.filter (· ≠ 0)
          if acc ≠ List.range' 1 (if n = 0 then k else min k n) then "FAIL ids-not-exactly-1..k" else "ok"
        | none => "FAIL unparsable-impl-output"
      | _ => if k = 0 then "ok" else "FAIL no-impl-output"
    pure (if k = 0 then "- -" else model, spec)
  | _ => none

/-- ids observed by concurrent callers / real pools. impl:
`started=<k> distinct=<d> min=<m> max=<M> counter=<c> requestedEnough=<0|1>`; Spec only. -/
def idsSpec (args impl : List String) : Option (String × String) := do
  let limit ← (args.getD 0 "").toNat?
  let get (key : String) : Option Nat :=
    (impl.find? (·.startsWith (key ++ "="))).bind fun (t : String) => (t.drop (key.length + 1)).toString.toNat?
  match get "started", get "distinct", get "min", get "max", get "counter", get "requestedEnough" with
  | some k, some d, some mn, some mx, some c, some enough =>
    let spec :=
      if d ≠ k then "FAIL two-invocations-observed-the-same-id"
      else if k > 0 ∧ (mn ≠ 1 ∨ mx ≠ k) then "FAIL ids-not-gapless-from-1"
      else if limit > 0 ∧ k > limit then "FAIL more-invocations-than-max-iterations"
      else if limit > 0 ∧ enough = 1 ∧ k ≠ limit then "FAIL fewer-invocations-than-max-iterations-although-work-kept-being-requested"
      else if (limit = 0 ∨ c ≤ limit) ∧ c ≠ k then "FAIL ids-handed-out-but-never-run"
      else "ok"
    pure ("-", spec)
  | _, _, _, _, _, _ => pure ("-", "FAIL no-impl-output")

end F1.Drive
