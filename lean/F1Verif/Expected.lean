/- Expectations: the normalised source of the anchored functions the models were written against
(recorded with bin/snapshot_facts; compared with the regenerated facts on every run). -/
namespace F1.Expected

def skel_gdist_New : List String := [
  "func NewDistribution(v0, v1 float64) (*Distribution, error) {",
  "if v1 <= 0.0 {",
  "return nil, errors.New(\"standard deviation must not be negative\")",
  "}",
  "return &Distribution{",
  "mean: v0,",
  "standardDeviation: v1,",
  "variance: v1 * v1,",
  "}, nil",
  "}"
]

def skel_gdist_Exponent : List String := [
  "func (v0 *Distribution) Exponent(v1 float64) float64 {",
  "v2 := (v1 - v0.mean) * (v1 - v0.mean)",
  "return math.Exp(-v2 / (2 * v0.variance))",
  "}"
]

def skel_gdist_PDF : List String := [
  "func (v0 *Distribution) PDF(v1 float64) float64 {",
  "v2 := v0.standardDeviation * Sqrt2Pi",
  "return v0.Exponent(v1) / v2",
  "}"
]

def skel_gdist_CDF : List String := [
  "func (v0 *Distribution) CDF(v1 float64) float64 {",
  "v2 := (v1 - v0.mean) / (v0.standardDeviation * math.Sqrt2)",
  "return 0.5 * math.Erfc(-v2)",
  "}"
]

def skel_log_IterationStatsGroup : List String := [
  "func IterationStatsGroup(v0, v1, v2, v3 uint64, v4 time.Duration) slog.Attr {",
  "return slog.Group(\"iteration_stats\",",
  "slog.Uint64(\"started\", v0),",
  "slog.Uint64(\"successful\", v1),",
  "slog.Uint64(\"failed\", v2),",
  "slog.Uint64(\"dropped\", v3),",
  "slog.Duration(\"period\", v4),",
  ")",
  "}"
]

def skel_metrics_labelValues : List String := [
  "func getStaticMetricLabelValues(v0 map[string]string) []string {",
  "v1 := make([]string, 0, len(v0))",
  "for _, v2 := range sortedKeys(v0) {",
  "v1 = append(v1, v0[v2])",
  "}",
  "return v1",
  "}"
]

def skel_metrics_labelKeys : List String := [
  "func getStaticMetricLabelKeys(v0 map[string]string) []string {",
  "return sortedKeys(v0)",
  "}"
]

def skel_metrics_sortedKeys : List String := [
  "func sortedKeys(v0 map[string]string) []string {",
  "v1 := make([]string, 0, len(v0))",
  "for v2 := range v0 {",
  "v1 = append(v1, v2)",
  "}",
  "sort.Strings(v1)",
  "return v1",
  "}"
]

def skel_metrics_RecordIterationResult : List String := [
  "func (v0 *Metrics) RecordIterationResult(v1 string, v2 ResultType, v3 int64) {",
  "if !v0.IterationMetricsEnabled {",
  "return",
  "}",
  "v4 := append([]string{v1, IterationStage, v2.String()}, v0.staticMetricLabelValues...)",
  "v0.Iteration.WithLabelValues(v4...).Observe(float64(v3))",
  "}"
]

def skel_metrics_Reset : List String := [
  "func (v0 *Metrics) Reset() {",
  "v0.Iteration.Reset()",
  "v0.Setup.Reset()",
  "}"
]

def skel_metrics_build : List String := [
  "func buildMetrics(v0 map[string]string) *Metrics {",
  "v1 := map[float64]float64{",
  "0.5: 0.05, 0.75: 0.05, 0.9: 0.01, 0.95: 0.001, 0.99: 0.001, 0.9999: 0.00001, 1.0: 0.00001,",
  "}",
  "v2 := getStaticMetricLabelKeys(v0)",
  "return &Metrics{",
  "Setup: prometheus.NewSummaryVec(prometheus.SummaryOpts{",
  "Namespace: metricNamespace,",
  "Subsystem: metricSubsystem,",
  "Name: \"setup\",",
  "Help: \"Duration of setup functions.\",",
  "Objectives: v1,",
  "}, append([]string{TestNameLabel, ResultLabel}, v2...)),",
  "Iteration: prometheus.NewSummaryVec(prometheus.SummaryOpts{",
  "Namespace: metricNamespace,",
  "Subsystem: metricSubsystem,",
  "Name: \"iteration\",",
  "Help: \"Duration of iteration functions.\",",
  "Objectives: v1,",
  "}, append([]string{TestNameLabel, StageLabel, ResultLabel}, v2...)),",
  "}",
  "}"
]

def skel_metrics_NewInstance : List String := [
  "func NewInstance(v0 *prometheus.Registry,",
  "v1 bool,",
  "v2 map[string]string,",
  ") *Metrics {",
  "v3 := buildMetrics(v2)",
  "v3.Registry = v0",
  "v3.Registry.MustRegister(",
  "v3.Setup,",
  "v3.Iteration,",
  ")",
  "v3.IterationMetricsEnabled = v1",
  "v3.staticMetricLabelValues = getStaticMetricLabelValues(v2)",
  "return v3",
  "}"
]

def skel_metrics_RecordSetupResult : List String := [
  "func (v0 *Metrics) RecordSetupResult(v1 string, v2 ResultType, v3 int64) {",
  "v4 := append([]string{v1, v2.String()}, v0.staticMetricLabelValues...)",
  "v0.Setup.WithLabelValues(v4...).Observe(float64(v3))",
  "}"
]

def skel_metrics_RecordIterationStage : List String := [
  "func (v0 *Metrics) RecordIterationStage(v1 string, v2 string, v3 ResultType, v4 int64) {",
  "if !v0.IterationMetricsEnabled {",
  "return",
  "}",
  "v5 := append([]string{v1, v2, v3.String()}, v0.staticMetricLabelValues...)",
  "v0.Iteration.WithLabelValues(v5...).Observe(float64(v4))",
  "}"
]

def skel_average_Add : List String := [
  "func (v0 *IterationDurations) Add(v1 int64) {",
  "v0.sum.Add(v1)",
  "v0.count.Add(1)",
  "if v1 > v0.max.Load() {",
  "v0.max.Store(v1)",
  "}",
  "v2 := v0.min.Load()",
  "if v2 == 0 || v1 < v2 {",
  "v0.min.Store(v1)",
  "}",
  "}"
]

def skel_average_Update : List String := [
  "func (v0 *IterationDurations) Update(v1 *IterationDurations) {",
  "v0.sum.Add(v1.sum.Load())",
  "v0.count.Add(v1.count.Load())",
  "v2 := v1.min.Load()",
  "if v0.min.Load() == 0 || (v0.min.Load() > v2 && v2 > 0) {",
  "v0.min.Store(v2)",
  "}",
  "v3 := v1.max.Load()",
  "if v0.max.Load() < v3 {",
  "v0.max.Store(v3)",
  "}",
  "}"
]

def skel_average_drain : List String := [
  "func (v0 *IterationDurations) drain() *IterationDurations {",
  "v1 := &IterationDurations{}",
  "v1.count.Store(v0.count.Swap(0))",
  "v1.sum.Store(v0.sum.Swap(0))",
  "v1.min.Store(v0.min.Swap(0))",
  "v1.max.Store(v0.max.Swap(0))",
  "return v1",
  "}"
]

def skel_average_Snapshot : List String := [
  "func (v0 *IterationDurations) Snapshot() IterationDurationsSnapshot {",
  "v1, v2 := v0.average()",
  "return IterationDurationsSnapshot{",
  "Average: time.Duration(v1),",
  "Count: v2,",
  "Min: time.Duration(v0.min.Load()),",
  "Max: time.Duration(v0.max.Load()),",
  "}",
  "}"
]

def skel_average_average : List String := [
  "func (v0 *IterationDurations) average() (int64, uint64) {",
  "v1 := v0.count.Load()",
  "if v1 == 0 {",
  "return 0, 0",
  "}",
  "v2 := v0.sum.Load()",
  "return v2 / v1, uint64(v1)",
  "}"
]

def skel_average_CollectLifetime : List String := [
  "func (v0 *DurationStats) CollectLifetime() (IterationDurationsSnapshot, IterationDurationsSnapshot) {",
  "v1 := v0.running.drain()",
  "verifhook.At(\"progress.collect\")",
  "v0.lifetime.Update(v1)",
  "return v1.Snapshot(), v0.lifetime.Snapshot()",
  "}"
]

def skel_average_Record : List String := [
  "func (v0 *DurationStats) Record(v1 int64) {",
  "v0.running.Add(v1)",
  "}"
]

def skel_average_Reset : List String := [
  "func (v0 *IterationDurations) Reset() {",
  "v0.sum.Store(0)",
  "v0.count.Store(0)",
  "v0.max.Store(0)",
  "v0.min.Store(0)",
  "}"
]

def skel_stats_Record : List String := [
  "func (v0 *Stats) Record(v1 metrics.ResultType, v2 int64) {",
  "switch v1 {",
  "case metrics.SuccessResult:",
  "v0.successfulIterationDurations.Record(v2)",
  "case metrics.FailedResult:",
  "v0.failedIterationDurations.Record(v2)",
  "case metrics.DroppedResult:",
  "v0.droppedIterationCount.Add(1)",
  "case metrics.UnknownResult:",
  "}",
  "}"
]

def skel_stats_Snapshot : List String := [
  "func (v0 *Stats) Snapshot(v1 time.Duration) Snapshot {",
  "v2, v3 := v0.successfulIterationDurations.CollectLifetime()",
  "_, v4 := v0.failedIterationDurations.CollectLifetime()",
  "return Snapshot{",
  "Period: v1,",
  "DroppedIterationCount: v0.droppedIterationCount.Load(),",
  "SuccessfulIterationDurationsForPeriod: v2,",
  "SuccessfulIterationDurations: v3,",
  "FailedIterationDurations: v4,",
  "}",
  "}"
]

def skel_stats_Total : List String := [
  "func (v0 *Stats) Total() Snapshot {",
  "_, v1 := v0.successfulIterationDurations.CollectLifetime()",
  "_, v2 := v0.failedIterationDurations.CollectLifetime()",
  "return Snapshot{",
  "DroppedIterationCount: v0.droppedIterationCount.Load(),",
  "SuccessfulIterationDurations: v1,",
  "FailedIterationDurations: v2,",
  "}",
  "}"
]

def skel_snapshot_Iterations : List String := [
  "func (v0 *Snapshot) Iterations() uint64 {",
  "return v0.FailedIterationDurations.Count + v0.SuccessfulIterationDurations.Count + v0.DroppedIterationCount",
  "}"
]

def skel_snapshot_IterationsStarted : List String := [
  "func (v0 *Snapshot) IterationsStarted() uint64 {",
  "return v0.SuccessfulIterationDurations.Count + v0.FailedIterationDurations.Count",
  "}"
]

def skel_runner_Start : List String := [
  "func (v0 *Runner) Start(v1 context.Context) {",
  "v2, v3 := context.WithCancel(v1)",
  "v0.cancel = v3",
  "go func() {",
  "defer close(v0.stopped)",
  "for {",
  "select {",
  "case <-v0.restart:",
  "v0.schedules.startFirst()",
  "case <-v0.schedules.timeUntilNextSchedule():",
  "v0.schedules.startNext()",
  "case <-v0.schedules.currentScheduleTicker():",
  "verifhook.At(\"raterun.dispatch\")",
  "v0.runFunction(v0.schedules.currentFrequency())",
  "case <-v2.Done():",
  "v0.schedules.stop()",
  "return",
  "}",
  "}",
  "}()",
  "}"
]

def skel_runner_Stop : List String := [
  "func (v0 *Runner) Stop() {",
  "v0.cancel()",
  "<-v0.stopped",
  "}"
]

def skel_runner_Restart : List String := [
  "func (v0 *Runner) Restart() {",
  "v0.restart <- struct{}{}",
  "}"
]

def skel_schedules_start : List String := [
  "func (v0 *schedules) start(v1 int) {",
  "if v1 >= len(v0.list) {",
  "return",
  "}",
  "v0.ticker.Stop()",
  "v0.currentScheduleIndex = v1",
  "v0.ticker = time.NewTicker(v0.list[v0.currentScheduleIndex].Frequency)",
  "v2 := v0.currentScheduleIndex + 1",
  "v0.nextScheduleTimer.Stop()",
  "if v2 >= len(v0.list) {",
  "return",
  "}",
  "v0.nextScheduleTimer = time.NewTimer(v0.list[v2].StartDelay)",
  "}"
]

def skel_runner_New : List String := [
  "func New(v0 RunFunction, v1 []Schedule) (*Runner, error) {",
  "if len(v1) == 0 {",
  "return nil, errors.New(\"empty schedules\")",
  "}",
  "v2 := &Runner{",
  "restart: make(chan struct{}, 1),",
  "runFunction: v0,",
  "schedules: newSchedules(v1),",
  "stopped: make(chan struct{}),",
  "}",
  "return v2, nil",
  "}"
]

def skel_schedules_new : List String := [
  "func newSchedules(v0 []Schedule) *schedules {",
  "return &schedules{",
  "list: v0,",
  "currentScheduleIndex: -1,",
  "ticker: time.NewTicker(time.Hour),",
  "nextScheduleTimer: time.NewTimer(v0[0].StartDelay),",
  "}",
  "}"
]

def skel_schedules_startFirst : List String := [
  "func (v0 *schedules) startFirst() {",
  "v0.start(0)",
  "}"
]

def skel_schedules_startNext : List String := [
  "func (v0 *schedules) startNext() {",
  "v0.start(v0.currentScheduleIndex + 1)",
  "}"
]

def skel_schedules_currentFrequency : List String := [
  "func (v0 *schedules) currentFrequency() time.Duration {",
  "return v0.list[v0.currentScheduleIndex].Frequency",
  "}"
]

def skel_schedules_stop : List String := [
  "func (v0 *schedules) stop() {",
  "v0.ticker.Stop()",
  "v0.nextScheduleTimer.Stop()",
  "}"
]

def skel_schedules_timeUntilNextSchedule : List String := [
  "func (v0 *schedules) timeUntilNextSchedule() <-chan time.Time {",
  "return v0.nextScheduleTimer.C",
  "}"
]

def skel_schedules_currentScheduleTicker : List String := [
  "func (v0 *schedules) currentScheduleTicker() <-chan time.Time {",
  "return v0.ticker.C",
  "}"
]

def skel_result_Failed : List String := [
  "func (v0 *Result) Failed() bool {",
  "v0.mu.RLock()",
  "defer v0.mu.RUnlock()",
  "verifhook.At(\"result.nested\")",
  "v1 := v0.runOptions",
  "return v0.Error() != nil ||",
  "(!v1.IgnoreDropped && v0.snapshot.DroppedIterationCount > 0) ||",
  "(v1.MaxFailures == 0 && v1.MaxFailuresRate == 0 && v0.snapshot.FailedIterationDurations.Count > 0) ||",
  "(v1.MaxFailures > 0 && v0.snapshot.FailedIterationDurations.Count > v1.MaxFailures) ||",
  "(v1.MaxFailuresRate > 0 &&",
  "v0.snapshot.FailedIterationDurations.Count*100 > uint64(v1.MaxFailuresRate)*v0.snapshot.Iterations())",
  "}"
]

def skel_result_Summary : List String := [
  "func (v0 *Result) Summary() *views.ViewContext[views.ResultData] {",
  "v0.mu.RLock()",
  "defer v0.mu.RUnlock()",
  "verifhook.At(\"result.nested\")",
  "return v0.views.Result(views.ResultData{",
  "SuccessfulIterationCount: v0.snapshot.SuccessfulIterationDurations.Count,",
  "DroppedIterationCount: v0.snapshot.DroppedIterationCount,",
  "FailedIterationCount: v0.snapshot.FailedIterationDurations.Count,",
  "SuccessfulIterationDurations: v0.snapshot.SuccessfulIterationDurations,",
  "Duration: v0.duration(),",
  "FailedIterationDurations: v0.snapshot.FailedIterationDurations,",
  "Error: v0.Error(),",
  "Failed: v0.Failed(),",
  "LogFilePath: v0.LogFilePath,",
  "Iterations: v0.snapshot.Iterations(),",
  "IterationsStarted: v0.snapshot.IterationsStarted(),",
  "})",
  "}"
]

def skel_result_Teardown : List String := [
  "func (v0 *Result) Teardown() *views.ViewContext[views.TeardownData] {",
  "v0.mu.RLock()",
  "defer v0.mu.RUnlock()",
  "verifhook.At(\"result.nested\")",
  "return v0.views.Teardown(views.TeardownData{",
  "Error: v0.Error(),",
  "})",
  "}"
]

def skel_result_Error : List String := [
  "func (v0 *Result) Error() error {",
  "v0.mu.RLock()",
  "defer v0.mu.RUnlock()",
  "if v0.errors == nil {",
  "return nil",
  "}",
  "if len(v0.errors) == 1 {",
  "return v0.errors[0]",
  "}",
  "v1 := make([]string, len(v0.errors))",
  "for v2 := range len(v0.errors) {",
  "v1[v2] = fmt.Sprintf(\"Error %d: %s\", v2, v0.errors[v2].Error())",
  "}",
  "return errors.New(strings.Join(v1, \"; \"))",
  "}"
]

def skel_result_SnapshotProgress : List String := [
  "func (v0 *Result) SnapshotProgress(v1 time.Duration) {",
  "v0.mu.Lock()",
  "defer v0.mu.Unlock()",
  "v0.snapshot = v0.progressStats.Snapshot(v1)",
  "}"
]

def skel_result_GetTotals : List String := [
  "func (v0 *Result) GetTotals() {",
  "v0.mu.Lock()",
  "defer v0.mu.Unlock()",
  "v0.snapshot = v0.progressStats.Total()",
  "}"
]

def skel_result_Progress : List String := [
  "func (v0 *Result) Progress() *views.ViewContext[views.ProgressData] {",
  "v0.mu.RLock()",
  "defer v0.mu.RUnlock()",
  "return v0.views.Progress(views.ProgressData{",
  "Duration: v0.duration(),",
  "SuccessfulIterationDurationsForPeriod: v0.snapshot.SuccessfulIterationDurationsForPeriod,",
  "Period: v0.snapshot.Period,",
  "FailedIterationCount: v0.snapshot.FailedIterationDurations.Count,",
  "DroppedIterationCount: v0.snapshot.DroppedIterationCount,",
  "SuccessfulIterationCount: v0.snapshot.SuccessfulIterationDurations.Count,",
  "})",
  "}"
]

def skel_result_HasDropped : List String := [
  "func (v0 *Result) HasDroppedIterations() bool {",
  "v0.mu.RLock()",
  "defer v0.mu.RUnlock()",
  "return v0.snapshot.DroppedIterationCount > 0",
  "}"
]

def skel_result_Setup : List String := [
  "func (v0 *Result) Setup() *views.ViewContext[views.SetupData] {",
  "v0.mu.RLock()",
  "defer v0.mu.RUnlock()",
  "verifhook.At(\"result.nested\")",
  "return v0.views.Setup(views.SetupData{",
  "Error: v0.Error(),",
  "})",
  "}"
]

def skel_result_MaxDurationElapsed : List String := [
  "func (v0 *Result) MaxDurationElapsed() *views.ViewContext[views.TimeoutData] {",
  "v0.mu.RLock()",
  "defer v0.mu.RUnlock()",
  "return v0.views.Timeout(views.TimeoutData{",
  "Duration: v0.duration(),",
  "})",
  "}"
]

def skel_result_Interrupted : List String := [
  "func (v0 *Result) Interrupted() *views.ViewContext[views.InterruptData] {",
  "v0.mu.RLock()",
  "defer v0.mu.RUnlock()",
  "return v0.views.Interrupt(views.InterruptData{",
  "Duration: v0.duration(),",
  "})",
  "}"
]

def skel_result_RecordStarted : List String := [
  "func (v0 *Result) RecordStarted() {",
  "v0.mu.Lock()",
  "defer v0.mu.Unlock()",
  "v0.startTime = time.Now()",
  "}"
]

def skel_result_RecordTestFinished : List String := [
  "func (v0 *Result) RecordTestFinished() {",
  "v0.mu.Lock()",
  "defer v0.mu.Unlock()",
  "v0.TestDuration = time.Since(v0.startTime)",
  "}"
]

def skel_result_MaxIterationsReached : List String := [
  "func (v0 *Result) MaxIterationsReached() *views.ViewContext[views.MaxIterationsReachedData] {",
  "v0.mu.RLock()",
  "defer v0.mu.RUnlock()",
  "return v0.views.MaxIterationsReached(views.MaxIterationsReachedData{",
  "Duration: v0.duration(),",
  "})",
  "}"
]

def skel_result_duration : List String := [
  "func (v0 *Result) duration() time.Duration {",
  "if v0.startTime.IsZero() {",
  "return 0",
  "}",
  "return time.Since(v0.startTime)",
  "}"
]

def skel_result_AddError : List String := [
  "func (v0 *Result) AddError(v1 error) *Result {",
  "v0.mu.Lock()",
  "defer v0.mu.Unlock()",
  "v0.errors = append(v0.errors, v1)",
  "return v0",
  "}"
]

def skel_result_Snapshot : List String := [
  "func (v0 *Result) Snapshot() progress.Snapshot {",
  "v0.mu.RLock()",
  "defer v0.mu.RUnlock()",
  "return v0.snapshot",
  "}"
]

def skel_result_New : List String := [
  "func NewResult(",
  "v0 options.RunOptions,",
  "v1 *views.Views,",
  "v2 *progress.Stats,",
  ") *Result {",
  "return &Result{",
  "runOptions: v0,",
  "views: v1,",
  "progressStats: v2,",
  "}",
  "}"
]

def skel_runcmd_Cmd : List String := [
  "func Cmd(",
  "v0 *scenarios.Scenarios,",
  "v1 []api.Builder,",
  "v2 envsettings.Settings,",
  "v3 *metrics.Metrics,",
  "v4 *ui.Output,",
  ") *cobra.Command {",
  "v5 := &cobra.Command{",
  "Use: \"run <subcommand>\",",
  "Short: \"Runs a test scenario\",",
  "}",
  "for _, v6 := range v1 {",
  "v7 := &cobra.Command{",
  "Use: v6.Name,",
  "Short: v6.Description,",
  "RunE: runCmdExecute(v0, v6, v2, v3, v4),",
  "Args: cobra.MatchAll(cobra.ExactArgs(1)),",
  "}",
  "v7.Flags().BoolP(triggerflags.FlagVerbose, \"v\", false, \"enables log output to stdout\")",
  "v7.Flags().Bool(triggerflags.FlagVerboseFail, false, \"DEPRECATED: log output to stdout on failure\")",
  "if !v6.IgnoreCommonFlags {",
  "v7.ValidArgs = v0.GetScenarioNames()",
  "v7.Flags().Bool(triggerflags.FlagIgnoreDropped, false, \"dropped requests will not fail the run\")",
  "v7.Flags().DurationP(triggerflags.FlagMaxDuration, \"d\", time.Second,",
  "\"--max-duration 1s (stop after 1 second)\")",
  "v7.Flags().IntP(triggerflags.FlagConcurrency, \"c\", 100,",
  "\"--concurrency 2 (allow at most 2 groups of iterations to run concurrently)\")",
  "v7.Flags().Uint64P(triggerflags.FlagMaxIterations, \"i\", 0,",
  "\"--max-iterations 100 (stop after 100 iterations, regardless of remaining duration)\")",
  "v7.Flags().Uint64(triggerflags.FlagMaxFailures, 0,",
  "\"--max-failures 10 (load test will fail if more than 10 errors occurred, default is 0)\")",
  "v7.Flags().Int(triggerflags.FlagMaxFailuresRate, 0,",
  "\"--max-failures-rate 5 (load test will fail if more than 5\\\\% requests failed, default is 0)\")",
  "}",
  "v7.Flags().AddFlagSet(v6.Flags)",
  "v5.AddCommand(v7)",
  "}",
  "return v5",
  "}"
]

def skel_runcmd_Execute : List String := [
  "func runCmdExecute(",
  "v0 *scenarios.Scenarios,",
  "v1 api.Builder,",
  "v2 envsettings.Settings,",
  "v3 *metrics.Metrics,",
  "v4 *ui.Output,",
  ") func(v5 *cobra.Command, v6 []string) error {",
  "return func(v7 *cobra.Command, v8 []string) error {",
  "v7.SilenceUsage = true",
  "v7.SilenceErrors = true",
  "v9, v10 := v1.New(v7.Flags())",
  "if v10 != nil {",
  "return fmt.Errorf(\"creating trigger command: %w\", v10)",
  "}",
  "var v11 string",
  "var v12 time.Duration",
  "var v13 int",
  "var v14 uint64",
  "var v15 uint64",
  "var v16 int",
  "var v17 bool",
  "if v1.IgnoreCommonFlags {",
  "v11 = v9.Options.Scenario",
  "v12 = v9.Options.MaxDuration",
  "v13 = v9.Options.Concurrency",
  "v14 = v9.Options.MaxIterations",
  "v15 = v9.Options.MaxFailures",
  "v16 = v9.Options.MaxFailuresRate",
  "v17 = v9.Options.IgnoreDropped",
  "} else {",
  "v11 = v8[0]",
  "v12, v10 = v7.Flags().GetDuration(triggerflags.FlagMaxDuration)",
  "if v10 != nil {",
  "return fmt.Errorf(\"getting flag: %w\", v10)",
  "}",
  "v13, v10 = v7.Flags().GetInt(triggerflags.FlagConcurrency)",
  "if v10 != nil {",
  "return fmt.Errorf(\"getting flag: %w\", v10)",
  "}",
  "if v13 < 1 {",
  "return fmt.Errorf(\"concurrency %d can't be less than 1\", v13)",
  "}",
  "v14, v10 = v7.Flags().GetUint64(triggerflags.FlagMaxIterations)",
  "if v10 != nil {",
  "return fmt.Errorf(\"getting flag: %w\", v10)",
  "}",
  "v15, v10 = v7.Flags().GetUint64(triggerflags.FlagMaxFailures)",
  "if v10 != nil {",
  "return fmt.Errorf(\"getting flag: %w\", v10)",
  "}",
  "v16, v10 = v7.Flags().GetInt(triggerflags.FlagMaxFailuresRate)",
  "if v10 != nil {",
  "return fmt.Errorf(\"getting flag: %w\", v10)",
  "}",
  "v17, v10 = v7.Flags().GetBool(triggerflags.FlagIgnoreDropped)",
  "if v10 != nil {",
  "return fmt.Errorf(\"getting flag: %w\", v10)",
  "}",
  "}",
  "v18, v10 := v7.Flags().GetBool(triggerflags.FlagVerbose)",
  "if v10 != nil {",
  "return fmt.Errorf(\"getting flag: %w\", v10)",
  "}",
  "v19, v10 := v7.Flags().GetBool(triggerflags.FlagVerboseFail)",
  "if v10 != nil {",
  "return fmt.Errorf(\"getting flag: %w\", v10)",
  "}",
  "if v19 {",
  "v4.Display(ui.WarningMessage{Message: \"--verbose-fail option has been removed\"})",
  "}",
  "if v2.Fluentd.Present() {",
  "v4.Display(ui.WarningMessage{",
  "Message: fmt.Sprintf(\"WARNING: fluentd integration has been removed. %s and %s have no effect.\",",
  "envsettings.EnvFluentdHost,",
  "envsettings.EnvFluentdPort,",
  "),",
  "},",
  ")",
  "}",
  "v20, v10 := NewRun(options.RunOptions{",
  "Scenario: v11,",
  "MaxDuration: v12,",
  "Concurrency: v13,",
  "Verbose: v18,",
  "MaxIterations: v14,",
  "MaxFailures: v15,",
  "MaxFailuresRate: v16,",
  "IgnoreDropped: v17,",
  "}, v0, v9, waitForCompletionTimeout, v2, v3, v4)",
  "if v10 != nil {",
  "return fmt.Errorf(\"new run: %w\", v10)",
  "}",
  "v21, v10 := v20.Do(v7.Context())",
  "if v10 != nil {",
  "return fmt.Errorf(\"internal error on run: %w\", v10)",
  "}",
  "if v21.Error() != nil {",
  "return v21.Error()",
  "} else if v21.Failed() {",
  "return errors.New(\"load test failed - see log for details\")",
  "}",
  "v7.SilenceUsage = false",
  "return nil",
  "}",
  "}"
]

def skel_run_Do : List String := [
  "func (v0 *Run) Do(v1 context.Context) (*Result, error) {",
  "defer v0.scenarioLogger.Close()",
  "v2 := v0.views.Start(views.StartData{",
  "Scenario: v0.options.Scenario,",
  "MaxDuration: v0.options.MaxDuration,",
  "MaxIterations: v0.options.MaxIterations,",
  "RateDescription: v0.trigger.Description,",
  "})",
  "v0.output.Display(v2)",
  "defer v0.printSummary()",
  "v0.metrics.Reset()",
  "v0.activeScenario.Setup()",
  "v0.pushMetrics(v1)",
  "v3 := xcontext.Detach(v1)",
  "defer v0.teardownActiveScenario(v3)",
  "if v0.activeScenario.Failed() {",
  "return v0.reportSetupFailure(v1), nil",
  "}",
  "v0.result.RecordStarted()",
  "v4 := make(chan struct{})",
  "go func() {",
  "v5 := time.NewTicker(metricsRefreshInterval)",
  "defer v5.Stop()",
  "for {",
  "select {",
  "case <-v5.C:",
  "v0.pushMetrics(v1)",
  "case <-v1.Done():",
  "return",
  "case <-v4:",
  "return",
  "}",
  "}",
  "}()",
  "v0.progressRunner.Start(v1)",
  "v0.run(v1)",
  "v0.progressRunner.Stop()",
  "close(v4)",
  "v0.result.GetTotals()",
  "return v0.result, nil",
  "}"
]

def skel_run_run : List String := [
  "func (v0 *Run) run(v1 context.Context) {",
  "v2 := v0.options.MaxDuration",
  "if v0.trigger.Duration > 0 && v0.trigger.Duration < v0.options.MaxDuration {",
  "v2 = v0.trigger.Duration",
  "}",
  "v0.result.RecordStarted()",
  "defer v0.result.RecordTestFinished()",
  "v3, v4 := context.WithTimeout(v1, v2-nextIterationWindow)",
  "defer v4()",
  "v5 := workers.New(v0.options.MaxIterations, v0.activeScenario)",
  "v0.trigger.Trigger(v3, v0.output, v5, v0.options)",
  "select {",
  "case <-v1.Done():",
  "v0.output.Display(v0.result.Interrupted())",
  "v0.progressRunner.Restart()",
  "select {",
  "case <-v5.WaitForCompletion():",
  "case <-time.After(v0.waitForCompletionTimeout):",
  "v0.output.Display(ui.WarningMessage{",
  "Message: fmt.Sprintf(\"Active tests not completed after %s. Stopping...\", v0.waitForCompletionTimeout.String()),",
  "})",
  "}",
  "case <-v3.Done():",
  "if v3.Err() == context.DeadlineExceeded {",
  "v0.output.Display(v0.result.MaxDurationElapsed())",
  "} else {",
  "v0.output.Display(v0.result.Interrupted())",
  "}",
  "select {",
  "case <-v5.WaitForCompletion():",
  "case <-time.After(v0.waitForCompletionTimeout):",
  "v0.output.Display(ui.WarningMessage{",
  "Message: fmt.Sprintf(\"Active tests not completed after %s. Stopping...\", v0.waitForCompletionTimeout.String()),",
  "})",
  "}",
  "case <-v5.WaitForCompletion():",
  "if v5.MaxIterationsReached() {",
  "v0.output.Display(v0.result.MaxIterationsReached())",
  "}",
  "case <-time.After(v0.waitForCompletionTimeout):",
  "if v5.MaxIterationsReached() {",
  "v0.output.Display(v0.result.MaxIterationsReached())",
  "}",
  "v0.output.Display(ui.WarningMessage{",
  "Message: fmt.Sprintf(\"Active tests not completed after %s. Stopping...\", v0.waitForCompletionTimeout.String()),",
  "})",
  "}",
  "}"
]

def skel_run_teardown : List String := [
  "func (v0 *Run) teardownActiveScenario(v1 context.Context) {",
  "v0.activeScenario.Teardown()",
  "if v0.activeScenario.TeardownFailed() {",
  "v0.fail(\"teardown failed\")",
  "}",
  "v0.pushMetrics(v1)",
  "v0.output.Display(v0.result.Teardown())",
  "}"
]

def skel_run_reportSetupFailure : List String := [
  "func (v0 *Run) reportSetupFailure(v1 context.Context) *Result {",
  "v0.fail(\"setup failed\")",
  "v0.pushMetrics(v1)",
  "v0.output.Display(v0.result.Setup())",
  "return v0.result",
  "}"
]

def skel_run_newProgressRunner : List String := [
  "func newProgressRunner(v0 *Result, v1 *ui.Output) (*raterun.Runner, error) {",
  "v2 := sync.Once{}",
  "v3, v4 := raterun.New(func(v5 time.Duration) {",
  "v0.SnapshotProgress(v5)",
  "v1.Display(v0.Progress())",
  "if v0.HasDroppedIterations() {",
  "v2.Do(func() {",
  "v1.Display(ui.WarningMessage{",
  "Message: \"Dropping requests as workers are too busy. \" +",
  "\"Considering increasing `--concurrency` argument\",",
  "})",
  "})",
  "}",
  "}, []raterun.Schedule{",
  "{StartDelay: 0, Frequency: time.Second},",
  "{StartDelay: time.Minute, Frequency: 10 * time.Second},",
  "{StartDelay: 5 * time.Minute, Frequency: 30 * time.Second},",
  "{StartDelay: 10 * time.Minute, Frequency: time.Minute},",
  "})",
  "if v4 != nil {",
  "return nil, fmt.Errorf(\"new progress runner: %w\", v4)",
  "}",
  "return v3, nil",
  "}"
]

def skel_run_NewRun : List String := [
  "func NewRun(",
  "v0 options.RunOptions,",
  "v1 *scenarios.Scenarios,",
  "v2 *api.Trigger,",
  "v3 time.Duration,",
  "v4 envsettings.Settings,",
  "v5 *metrics.Metrics,",
  "v6 *ui.Output,",
  ") (*Run, error) {",
  "v7 := &progress.Stats{}",
  "v8 := views.New()",
  "v9 := v1.GetScenario(v0.Scenario)",
  "if v9 == nil {",
  "return nil, fmt.Errorf(\"scenario not defined: %s\", v0.Scenario)",
  "}",
  "v10 := NewResult(v0, v8, v7)",
  "v11 := ui.NewOutput(",
  "v6.Logger.With(log.ScenarioAttr(v9.Name)),",
  "v6.Printer,",
  "v6.Interactive,",
  "v0.LogToFile(),",
  ")",
  "v12 := NewScenarioLogger(v11)",
  "v10.LogFilePath = v12.Open(",
  "LogFilePathOrDefault(v4.Log.FilePath, v9.Name),",
  "logutils.NewLogConfigFromSettings(v4),",
  "v9.Name,",
  "v0.LogToFile(),",
  ")",
  "v13, v14 := newProgressRunner(v10, v11)",
  "if v14 != nil {",
  "return nil, fmt.Errorf(\"creating progress runner: %w\", v14)",
  "}",
  "v15 := workers.NewActiveScenario(",
  "v9,",
  "v5,",
  "v7,",
  "v12.Logger,",
  "log.NewSlogLogrusLogger(v12.Logger),",
  ")",
  "v16 := newMetricsPusher(v4, v9.Name, v5)",
  "return &Run{",
  "options: v0,",
  "trigger: v2,",
  "metrics: v5,",
  "views: v8,",
  "result: v10,",
  "pusher: v16,",
  "output: v11,",
  "progressRunner: v13,",
  "activeScenario: v15,",
  "scenarioLogger: v12,",
  "waitForCompletionTimeout: v3,",
  "}, nil",
  "}"
]

def skel_run_fail : List String := [
  "func (v0 *Run) fail(v1 string) {",
  "v0.result.AddError(errors.New(v1))",
  "}"
]

def skel_run_printSummary : List String := [
  "func (v0 *Run) printSummary() {",
  "v0.output.Display(v0.result.Summary())",
  "}"
]

def skel_views_ProgressLog : List String := [
  "func (v0 ProgressData) Log(v1 *slog.Logger) {",
  "v1.Info(\"progress\", log.IterationStatsGroup(",
  "v0.SuccessfulIterationCount+v0.FailedIterationCount+v0.DroppedIterationCount,",
  "v0.SuccessfulIterationCount,",
  "v0.FailedIterationCount,",
  "v0.DroppedIterationCount,",
  "v0.Period,",
  "))",
  "}"
]

def skel_views_Progress : List String := [
  "func (v0 *Views) Progress(v1 ProgressData) *ViewContext[ProgressData] {",
  "return &ViewContext[ProgressData]{",
  "view: v0.progress,",
  "data: v1,",
  "}",
  "}"
]

def skel_views_ResultLog : List String := [
  "func (v0 ResultData) Log(v1 *slog.Logger) {",
  "v2 := log.IterationStatsGroup(",
  "v0.IterationsStarted,",
  "v0.SuccessfulIterationCount,",
  "v0.FailedIterationCount,",
  "v0.DroppedIterationCount,",
  "v0.Duration,",
  ")",
  "if v0.Failed {",
  "if v0.Error != nil {",
  "v1.Error(\"Load Test Failed\", log.ErrorAttr(v0.Error), v2)",
  "} else {",
  "v1.Error(\"Load Test Failed\", v2)",
  "}",
  "} else {",
  "v1.Info(\"Load Test Passed\", v2)",
  "}",
  "}"
]

def skel_views_Result : List String := [
  "func (v0 *Views) Result(v1 ResultData) *ViewContext[ResultData] {",
  "return &ViewContext[ResultData]{",
  "view: v0.result,",
  "data: v1,",
  "}",
  "}"
]

def skel_views_render : List String := [
  "func render(v0 *template.Template, v1 any) string {",
  "var v2 strings.Builder",
  "v3 := v0.Execute(&v2, v1)",
  "if v3 != nil {",
  "panic(v3)",
  "}",
  "return v2.String()",
  "}"
]

def skel_api_withRegularDistribution : List String := [
  "func withRegularDistribution(v0 time.Duration, v1 RateFunction) (time.Duration, RateFunction) {",
  "v2 := 100 * time.Millisecond",
  "if v0 <= v2 {",
  "return v0, v1",
  "}",
  "v3 := 0",
  "v4 := 0.0",
  "v5 := 0",
  "v6 := int(v0.Milliseconds() / v2.Milliseconds())",
  "v7 := func(v8 time.Time) int {",
  "if v5 == 0 {",
  "v3 = v1(v8)",
  "v4 = 0.0",
  "v5 = v6",
  "}",
  "v4 += float64(v3) / float64(v6)",
  "v4 = math.Ceil(v4*10_000_000) / 10_000_000",
  "v5--",
  "if v4 < 1 {",
  "return 0",
  "}",
  "v9 := int(v4)",
  "v4 -= float64(v9)",
  "return v9",
  "}",
  "return v2, v7",
  "}"
]

def skel_api_withRandomDistribution : List String := [
  "func withRandomDistribution(",
  "v0 time.Duration,",
  "v1 RateFunction,",
  "v2 func(int) int,",
  ") (time.Duration, RateFunction) {",
  "v3 := 100 * time.Millisecond",
  "if v0 <= v3 {",
  "return v0, v1",
  "}",
  "v4 := 0",
  "v5 := 0",
  "v6 := int(v0.Milliseconds() / v3.Milliseconds())",
  "v7 := func(v8 time.Time) int {",
  "if v4 == 0 {",
  "v5 = v1(v8)",
  "v4 = v6",
  "}",
  "var v9 int",
  "if v4 == 1 || v5 <= 0 {",
  "v9 = v5",
  "} else {",
  "v9 = v2(v5)",
  "if v9 > v5 {",
  "v9 = v5",
  "}",
  "}",
  "v5 -= v9",
  "v4--",
  "if v9 < 1 {",
  "return 0",
  "}",
  "return v9",
  "}",
  "return v3, v7",
  "}"
]

def skel_api_NewDistribution : List String := [
  "func NewDistribution(",
  "v0 DistributionType,",
  "v1 time.Duration,",
  "v2 RateFunction,",
  "v3 func(int) int,",
  ") (time.Duration, RateFunction, error) {",
  "v4 := v3",
  "if v4 == nil {",
  "v4 = rand.Intn",
  "}",
  "if v1 <= 0 {",
  "return v1, v2, fmt.Errorf(\"iteration duration %s must be positive\", v1)",
  "}",
  "switch v0 {",
  "case NoneDistribution:",
  "return v1, v2, nil",
  "case RegularDistribution:",
  "v5, v6 := withRegularDistribution(v1, v2)",
  "return v5, v6, nil",
  "case RandomDistribution:",
  "v7, v8 := withRandomDistribution(v1, v2, v4)",
  "return v7, v8, nil",
  "default:",
  "return v1, v2, fmt.Errorf(\"unable to parse distribution %s\", v0)",
  "}",
  "}"
]

def skel_api_WithJitter : List String := [
  "func WithJitter(v0 RateFunction, v1 float64) RateFunction {",
  "v2 := 0.0",
  "if v1 == 0 {",
  "return v0",
  "}",
  "return func(v3 time.Time) int {",
  "v4 := 1 + (math.Cos(rand.Float64()*2*math.Pi))*v1/100",
  "v5 := float64(v0(v3)) + v2",
  "v6 := v5 * v4",
  "v7 := math.Max(0, math.Round(v6))",
  "v2 = v5 - v7",
  "return int(v7)",
  "}",
  "}"
]

def skel_api_NewIterationWorker : List String := [
  "func NewIterationWorker(v0 time.Duration, v1 RateFunction) WorkTriggerer {",
  "return func(v2 context.Context, _ *ui.Output, v3 *workers.PoolManager, v4 options.RunOptions) {",
  "v5 := v1(time.Now())",
  "v6 := v3.NewTriggerPool(v4.Concurrency)",
  "v7 := v6.Start(v2)",
  "v6.Trigger(v7, v5)",
  "v8 := time.NewTicker(v0)",
  "defer v8.Stop()",
  "for {",
  "select {",
  "case <-v7.Done():",
  "return",
  "case v9 := <-v8.C:",
  "v10 := v1(v9)",
  "v6.Trigger(v7, v10)",
  "}",
  "}",
  "}",
  "}"
]

def skel_trigger_GetBuilders : List String := [
  "func GetBuilders(v0 *ui.Output) []api.Builder {",
  "return []api.Builder{",
  "constant.Rate(),",
  "staged.Rate(),",
  "gaussian.Rate(v0),",
  "users.Rate(),",
  "ramp.Rate(),",
  "file.Rate(v0),",
  "}",
  "}"
]

def skel_constant_Builder : List String := [
  "func Rate() api.Builder {",
  "v0 := pflag.NewFlagSet(\"constant\", pflag.ContinueOnError)",
  "v0.StringP(flagRate, \"r\", \"1/s\",",
  "\"number of iterations to start per interval, in the form <request>/<duration>\")",
  "triggerflags.JitterFlag(v0)",
  "triggerflags.DistributionFlag(v0)",
  "return api.Builder{",
  "Name: \"constant <scenario>\",",
  "Description: \"triggers test iterations at a constant rate\",",
  "Flags: v0,",
  "New: func(v1 *pflag.FlagSet) (*api.Trigger, error) {",
  "v2, v3 := v1.GetString(flagRate)",
  "if v3 != nil {",
  "return nil, fmt.Errorf(\"getting flag: %w\", v3)",
  "}",
  "v4, v3 := v1.GetFloat64(triggerflags.FlagJitter)",
  "if v3 != nil {",
  "return nil, fmt.Errorf(\"getting flag: %w\", v3)",
  "}",
  "v5, v3 := v1.GetString(triggerflags.FlagDistribution)",
  "if v3 != nil {",
  "return nil, fmt.Errorf(\"getting flag: %w\", v3)",
  "}",
  "v6, v3 := CalculateConstantRate(v4, v2, v5)",
  "if v3 != nil {",
  "return nil, fmt.Errorf(\"calculating constant rate: %w\", v3)",
  "}",
  "return &api.Trigger{",
  "Trigger: api.NewIterationWorker(v6.IterationDuration, v6.Rate),",
  "Description: fmt.Sprintf(\"%s constant rate, using distribution %s\", v2, v5),",
  "DryRun: v6.Rate,",
  "},",
  "nil",
  "},",
  "}",
  "}"
]

def skel_constant_Calculate : List String := [
  "func CalculateConstantRate(v0 float64, v1, v2 string) (*api.Rates, error) {",
  "v3, v4, v5 := rate.ParseRate(v1)",
  "if v5 != nil {",
  "return nil, fmt.Errorf(\"unable to parse rate %s: %w\", v1, v5)",
  "}",
  "v6 := api.WithJitter(func(time.Time) int { return v3 }, v0)",
  "v7, v8, v5 := api.NewDistribution(",
  "api.DistributionType(v2), v4, v6, nil,",
  ")",
  "if v5 != nil {",
  "return nil, fmt.Errorf(\"new distribution: %w\", v5)",
  "}",
  "return &api.Rates{",
  "IterationDuration: v7,",
  "Rate: v8,",
  "}, nil",
  "}"
]

def skel_file_ParseConfigFile : List String := [
  "func ParseConfigFile(v0 []byte, v1 time.Time) (*RunnableStages, error) {",
  "v2 := ConfigFile{}",
  "v3 := yaml.Unmarshal(v0, &v2)",
  "if v3 != nil {",
  "return nil, fmt.Errorf(\"parsing config file as yaml: %w\", v3)",
  "}",
  "v4, v3 := v2.validateCommonFields()",
  "if v3 != nil {",
  "return nil, v3",
  "}",
  "var v5 []runnableStage",
  "v6 := 0 * time.Second",
  "for v7, v8 := range v4.Stages {",
  "v9, v10 := v8.validateCommonFieldsOfStage(v7, v4.Default)",
  "if v10 != nil {",
  "return nil, v10",
  "}",
  "v6 += *v9.Duration",
  "v11 := v4.Schedule.StageStart",
  "if v11 == nil || v11.Add(v6).After(v1) {",
  "v12, v13 := v9.parseStage(v7, v4.Default)",
  "if v13 != nil {",
  "return nil, v13",
  "}",
  "v5 = append(v5, *v12)",
  "}",
  "}",
  "return &RunnableStages{",
  "Scenario: *v4.Scenario,",
  "Stages: v5,",
  "stagesTotalDuration: v6,",
  "MaxDuration: *v4.Limits.MaxDuration,",
  "Concurrency: *v4.Limits.Concurrency,",
  "MaxIterations: *v4.Limits.MaxIterations,",
  "maxFailures: *v4.Limits.MaxFailures,",
  "maxFailuresRate: *v4.Limits.MaxFailuresRate,",
  "IgnoreDropped: *v4.Limits.IgnoreDropped,",
  "}, nil",
  "}"
]

def skel_file_parseStage : List String := [
  "func (v0 *Stage) parseStage(v1 int, v2 Stage) (*runnableStage, error) {",
  "switch *v0.Mode {",
  "case \"constant\":",
  "v3, v4 := v0.validateConstantStage(v1, v2)",
  "if v4 != nil {",
  "return nil, fmt.Errorf(\"validating constant stage: %w\", v4)",
  "}",
  "v5, v4 := constant.CalculateConstantRate(",
  "*v3.Jitter,",
  "*v3.Rate,",
  "*v3.Distribution,",
  ")",
  "if v4 != nil {",
  "return nil, fmt.Errorf(\"calculating constant rate: %w\", v4)",
  "}",
  "return &runnableStage{",
  "StageDuration: *v3.Duration,",
  "IterationDuration: v5.IterationDuration,",
  "Rate: v5.Rate,",
  "Params: *v3.Parameters,",
  "}, nil",
  "case \"ramp\":",
  "v6, v7 := v0.validateRampStage(v1, v2)",
  "if v7 != nil {",
  "return nil, fmt.Errorf(\"validating ramp stage: %w\", v7)",
  "}",
  "v8, v7 := ramp.CalculateRampRate(",
  "*v6.StartRate,",
  "*v6.EndRate,",
  "*v6.Distribution,",
  "*v6.Duration,",
  "*v6.Jitter,",
  ")",
  "if v7 != nil {",
  "return nil, fmt.Errorf(\"calculating ramp rate: %w\", v7)",
  "}",
  "return &runnableStage{",
  "StageDuration: *v6.Duration,",
  "IterationDuration: v8.IterationDuration,",
  "Rate: v8.Rate,",
  "Params: *v6.Parameters,",
  "}, nil",
  "case \"staged\":",
  "v9, v10 := v0.validateStagedStage(v1, v2)",
  "if v10 != nil {",
  "return nil, fmt.Errorf(\"validating staged stage: %w\", v10)",
  "}",
  "v11, v10 := staged.CalculateStagedRate(",
  "*v9.Jitter,",
  "*v9.IterationFrequency,",
  "*v9.Stages,",
  "*v9.Distribution,",
  "nil,",
  ")",
  "if v10 != nil {",
  "return nil, fmt.Errorf(\"calculating staged rate: %w\", v10)",
  "}",
  "return &runnableStage{",
  "StageDuration: *v9.Duration,",
  "IterationDuration: v11.IterationDuration,",
  "Rate: v11.Rate,",
  "Params: *v9.Parameters,",
  "}, nil",
  "case \"gaussian\":",
  "v12, v13 := v0.validateGaussianStage(v1, v2)",
  "if v13 != nil {",
  "return nil, fmt.Errorf(\"validating gaussian stage: %w\", v13)",
  "}",
  "v14, v13 := gaussian.CalculateGaussianRate(",
  "*v12.Volume, *v12.Jitter, *v12.Repeat,",
  "*v12.IterationFrequency, *v12.Peak, *v12.StandardDeviation,",
  "*v12.Weights, *v12.Distribution,",
  ")",
  "if v13 != nil {",
  "return nil, fmt.Errorf(\"calculating gaussian rate: %w\", v13)",
  "}",
  "return &runnableStage{",
  "StageDuration: *v12.Duration,",
  "IterationDuration: v14.IterationDuration,",
  "Rate: v14.Rate,",
  "Params: *v12.Parameters,",
  "}, nil",
  "case \"users\":",
  "v15, v16 := v0.validateUsersStage(v1, v2)",
  "if v16 != nil {",
  "return nil, v16",
  "}",
  "return &runnableStage{",
  "StageDuration: *v15.Duration,",
  "Params: *v15.Parameters,",
  "UsersConcurrency: *v15.Concurrency,",
  "}, nil",
  "default:",
  "return nil, fmt.Errorf(\"invalid stage mode at stage %d\", v1)",
  "}",
  "}"
]

def skel_file_validateCommonFields : List String := [
  "func (v0 *ConfigFile) validateCommonFields() (*ConfigFile, error) {",
  "if v0.Scenario == nil {",
  "return nil, errors.New(\"missing scenario\")",
  "}",
  "if v0.Limits.MaxDuration == nil {",
  "return nil, errors.New(\"missing max-duration\")",
  "}",
  "if v0.Limits.Concurrency == nil {",
  "return nil, errors.New(\"missing concurrency\")",
  "}",
  "if *v0.Limits.Concurrency < 1 {",
  "return nil, fmt.Errorf(\"concurrency %d can't be less than 1\", *v0.Limits.Concurrency)",
  "}",
  "if v0.Limits.MaxIterations == nil {",
  "return nil, errors.New(\"missing max-iterations\")",
  "}",
  "if v0.Limits.IgnoreDropped == nil {",
  "return nil, errors.New(\"missing ignore-dropped\")",
  "}",
  "if len(v0.Stages) == 0 {",
  "return nil, errors.New(\"missing stages\")",
  "}",
  "if v0.Limits.MaxFailures == nil {",
  "v1 := uint64(0)",
  "v0.Limits.MaxFailures = &v1",
  "}",
  "if v0.Limits.MaxFailuresRate == nil {",
  "v2 := 0",
  "v0.Limits.MaxFailuresRate = &v2",
  "}",
  "if v0.Default.Concurrency == nil {",
  "v0.Default.Concurrency = v0.Limits.Concurrency",
  "}",
  "if v0.Default.Jitter == nil {",
  "v3 := 0.0",
  "v0.Default.Jitter = &v3",
  "}",
  "return v0, nil",
  "}"
]

def skel_file_validateCommonFieldsOfStage : List String := [
  "func (v0 *Stage) validateCommonFieldsOfStage(v1 int, v2 Stage) (*Stage, error) {",
  "if v0.Duration == nil {",
  "if v2.Duration == nil {",
  "return nil, fmt.Errorf(\"missing duration at stage %d\", v1)",
  "}",
  "v0.Duration = v2.Duration",
  "}",
  "if v0.Mode == nil {",
  "if v2.Mode == nil {",
  "return nil, fmt.Errorf(\"missing stage mode at stage %d\", v1)",
  "}",
  "v0.Mode = v2.Mode",
  "}",
  "return v0, nil",
  "}"
]

def skel_file_validateConstantStage : List String := [
  "func (v0 *Stage) validateConstantStage(v1 int, v2 Stage) (*Stage, error) {",
  "if v0.Rate == nil {",
  "if v2.Rate == nil {",
  "return nil, fmt.Errorf(\"missing rate at stage %d\", v1)",
  "}",
  "v0.Rate = v2.Rate",
  "}",
  "if v0.Distribution == nil {",
  "if v2.Distribution == nil {",
  "return nil, fmt.Errorf(\"missing distribution at stage %d\", v1)",
  "}",
  "v0.Distribution = v2.Distribution",
  "}",
  "if v0.Jitter == nil {",
  "v0.Jitter = v2.Jitter",
  "}",
  "if v0.Parameters == nil {",
  "if v2.Parameters == nil {",
  "v0.Parameters = &map[string]string{}",
  "} else {",
  "v0.Parameters = v2.Parameters",
  "}",
  "}",
  "return v0, nil",
  "}"
]

def skel_file_validateRampStage : List String := [
  "func (v0 *Stage) validateRampStage(v1 int, v2 Stage) (*Stage, error) {",
  "if v0.StartRate == nil {",
  "if v2.StartRate == nil {",
  "return nil, fmt.Errorf(\"missing start-rate at stage %d\", v1)",
  "}",
  "v0.StartRate = v2.StartRate",
  "}",
  "if v0.EndRate == nil {",
  "if v2.EndRate == nil {",
  "return nil, fmt.Errorf(\"missing end-rate at stage %d\", v1)",
  "}",
  "v0.EndRate = v2.EndRate",
  "}",
  "if v0.Distribution == nil {",
  "if v2.Distribution == nil {",
  "return nil, fmt.Errorf(\"missing distribution at stage %d\", v1)",
  "}",
  "v0.Distribution = v2.Distribution",
  "}",
  "if v0.Jitter == nil {",
  "v0.Jitter = v2.Jitter",
  "}",
  "if v0.Parameters == nil {",
  "if v2.Parameters == nil {",
  "v0.Parameters = &map[string]string{}",
  "} else {",
  "v0.Parameters = v2.Parameters",
  "}",
  "}",
  "return v0, nil",
  "}"
]

def skel_file_validateStagedStage : List String := [
  "func (v0 *Stage) validateStagedStage(v1 int, v2 Stage) (*Stage, error) {",
  "if v0.Stages == nil {",
  "if v2.Stages == nil {",
  "return nil, fmt.Errorf(\"missing stages at stage %d\", v1)",
  "}",
  "v0.Stages = v2.Stages",
  "}",
  "if v0.IterationFrequency == nil {",
  "if v2.IterationFrequency == nil {",
  "return nil, fmt.Errorf(\"missing iteration-frequency at stage %d\", v1)",
  "}",
  "v0.IterationFrequency = v2.IterationFrequency",
  "}",
  "if v0.Distribution == nil {",
  "if v2.Distribution == nil {",
  "return nil, fmt.Errorf(\"missing distribution at stage %d\", v1)",
  "}",
  "v0.Distribution = v2.Distribution",
  "}",
  "if v0.Jitter == nil {",
  "v0.Jitter = v2.Jitter",
  "}",
  "if v0.Parameters == nil {",
  "if v2.Parameters == nil {",
  "v0.Parameters = &map[string]string{}",
  "} else {",
  "v0.Parameters = v2.Parameters",
  "}",
  "}",
  "return v0, nil",
  "}"
]

def skel_file_validateGaussianStage : List String := [
  "func (v0 *Stage) validateGaussianStage(v1 int, v2 Stage) (*Stage, error) {",
  "if v0.Volume == nil {",
  "if v2.Volume == nil {",
  "return nil, fmt.Errorf(\"missing volume at stage %d\", v1)",
  "}",
  "v0.Volume = v2.Volume",
  "}",
  "if v0.Repeat == nil {",
  "if v2.Repeat == nil {",
  "return nil, fmt.Errorf(\"missing repeat at stage %d\", v1)",
  "}",
  "v0.Repeat = v2.Repeat",
  "}",
  "if v0.IterationFrequency == nil {",
  "if v2.IterationFrequency == nil {",
  "return nil, fmt.Errorf(\"missing iteration-frequency at stage %d\", v1)",
  "}",
  "v0.IterationFrequency = v2.IterationFrequency",
  "}",
  "if v0.Peak == nil {",
  "if v2.Peak == nil {",
  "return nil, fmt.Errorf(\"missing peak at stage %d\", v1)",
  "}",
  "v0.Peak = v2.Peak",
  "}",
  "if v0.Weights == nil {",
  "if v2.Weights == nil {",
  "return nil, fmt.Errorf(\"missing weights at stage %d\", v1)",
  "}",
  "v0.Weights = v2.Weights",
  "}",
  "if v0.StandardDeviation == nil {",
  "if v2.StandardDeviation == nil {",
  "return nil, fmt.Errorf(\"missing standard-deviation at stage %d\", v1)",
  "}",
  "v0.StandardDeviation = v2.StandardDeviation",
  "}",
  "if v0.Distribution == nil {",
  "if v2.Distribution == nil {",
  "return nil, fmt.Errorf(\"missing distribution at stage %d\", v1)",
  "}",
  "v0.Distribution = v2.Distribution",
  "}",
  "if v0.Jitter == nil {",
  "v0.Jitter = v2.Jitter",
  "}",
  "if v0.Parameters == nil {",
  "if v2.Parameters == nil {",
  "v0.Parameters = &map[string]string{}",
  "} else {",
  "v0.Parameters = v2.Parameters",
  "}",
  "}",
  "return v0, nil",
  "}"
]

def skel_file_validateUsersStage : List String := [
  "func (v0 *Stage) validateUsersStage(v1 int, v2 Stage) (*Stage, error) {",
  "if v0.Concurrency == nil {",
  "if v2.Concurrency == nil {",
  "return nil, fmt.Errorf(\"missing users at stage %d\", v1)",
  "}",
  "v0.Concurrency = v2.Concurrency",
  "}",
  "if *v0.Concurrency < 1 {",
  "return nil, fmt.Errorf(\"concurrency %d can't be less than 1 at stage %d\", *v0.Concurrency, v1)",
  "}",
  "if v0.Parameters == nil {",
  "if v2.Parameters == nil {",
  "v0.Parameters = &map[string]string{}",
  "} else {",
  "v0.Parameters = v2.Parameters",
  "}",
  "}",
  "return v0, nil",
  "}"
]

def skel_file_Builder : List String := [
  "func Rate(v0 *ui.Output) api.Builder {",
  "v1 := pflag.NewFlagSet(\"file\", pflag.ContinueOnError)",
  "return api.Builder{",
  "Name: \"file <filename>\",",
  "Description: \"triggers test iterations from a yaml config file\",",
  "Flags: v1,",
  "New: func(v2 *pflag.FlagSet) (*api.Trigger, error) {",
  "v3 := v2.Arg(0)",
  "v4, v5 := readFile(v3, v0)",
  "if v5 != nil {",
  "return nil, v5",
  "}",
  "v6, v5 := ParseConfigFile(*v4, time.Now())",
  "if v5 != nil {",
  "return nil, v5",
  "}",
  "return &api.Trigger{",
  "Trigger: newStagesWorker(v6.Stages),",
  "DryRun: newDryRun(v6.Stages),",
  "Description: fmt.Sprintf(\"%d different stages\", len(v6.Stages)),",
  "Duration: v6.stagesTotalDuration,",
  "Options: api.Options{",
  "Scenario: v6.Scenario,",
  "MaxDuration: v6.MaxDuration,",
  "Concurrency: v6.Concurrency,",
  "MaxIterations: v6.MaxIterations,",
  "MaxFailures: v6.maxFailures,",
  "MaxFailuresRate: v6.maxFailuresRate,",
  "IgnoreDropped: v6.IgnoreDropped,",
  "},",
  "}, nil",
  "},",
  "IgnoreCommonFlags: true,",
  "}",
  "}"
]

def skel_file_newStagesWorker : List String := [
  "func newStagesWorker(v0 []runnableStage) api.WorkTriggerer {",
  "return func(v1 context.Context, v2 *ui.Output, v3 *workers.PoolManager, v4 options.RunOptions) {",
  "for _, v5 := range v0 {",
  "if v1.Err() != nil || v3.MaxIterationsReached() {",
  "return",
  "}",
  "runStage(v1, v2, v3, v5, v4)",
  "}",
  "}",
  "}"
]

def skel_file_runStage : List String := [
  "func runStage(",
  "v0 context.Context,",
  "v1 *ui.Output,",
  "v2 *workers.PoolManager,",
  "v3 runnableStage,",
  "v4 options.RunOptions,",
  ") {",
  "setEnvs(v3.Params, v1)",
  "defer unsetEnvs(v3.Params, v1)",
  "v5, v6 := context.WithTimeout(v0, v3.StageDuration-safeDurationBeforeNextStage)",
  "defer v6()",
  "if v3.UsersConcurrency > 0 {",
  "v7 := v2.NewContinuousPool(v3.UsersConcurrency)",
  "v8 := v7.Start(v5)",
  "<-v8.Done()",
  "if v0.Err() != nil || v2.MaxIterationsReached() {",
  "return",
  "}",
  "select {",
  "case <-v0.Done():",
  "return",
  "case <-v2.WaitForCompletion():",
  "time.Sleep(safeDurationBeforeNextStage)",
  "}",
  "return",
  "}",
  "v9 := make(chan struct{})",
  "go func() {",
  "defer close(v9)",
  "v10 := api.NewIterationWorker(v3.IterationDuration, v3.Rate)",
  "v10(v5, v1, v2, v4)",
  "}()",
  "select {",
  "case <-v0.Done():",
  "<-v9",
  "return",
  "case <-v9:",
  "time.Sleep(safeDurationBeforeNextStage)",
  "}",
  "}"
]

def skel_file_setEnvs : List String := [
  "func setEnvs(v0 map[string]string, v1 *ui.Output) {",
  "for v2, v3 := range v0 {",
  "v4 := os.Setenv(v2, v3)",
  "if v4 != nil {",
  "v1.Display(ui.ErrorMessage{",
  "Message: \"unable set environment variables for given scenario\",",
  "Error: v4,",
  "})",
  "}",
  "}",
  "}"
]

def skel_file_unsetEnvs : List String := [
  "func unsetEnvs(v0 map[string]string, v1 *ui.Output) {",
  "for v2 := range v0 {",
  "v3 := os.Unsetenv(v2)",
  "if v3 != nil {",
  "v1.Display(ui.ErrorMessage{",
  "Message: \"unable unset environment variables for given scenario\",",
  "Error: v3,",
  "})",
  "}",
  "}",
  "}"
]

def skel_gauss_Builder : List String := [
  "func Rate(v0 *ui.Output) api.Builder {",
  "v1 := pflag.NewFlagSet(\"gaussian\", pflag.ContinueOnError)",
  "v1.Float64(flagVolume, defaultVolume,",
  "\"The desired volume to be achieved with the calculated load profile. \"+",
  "\"Will be ignored if --peak-rate is also provided.\")",
  "v1.Duration(flagRepeat, 24*time.Hour,",
  "\"How often the cycle should repeat\")",
  "v1.Duration(flagIterationFrequency, 1*time.Second,",
  "\"How frequently iterations should be started\")",
  "v1.String(flagWeights, \"\",",
  "\"Optional scaling factor to apply per repetition. \"+",
  "\"This can be used for example with daily repetitions to set different weights per day of the week\")",
  "v1.Duration(flagPeak, 14*time.Hour,",
  "\"The offset within the repetition window when the load should reach its maximum. \"+",
  "\"Default 14 hours (with 24 hour default repeat)\")",
  "v1.StringP(flagPeakRate, \"r\", \"\",",
  "\"number of iterations per interval in peak time, \"+",
  "\"in the form <request>/<duration> (e.g. 1/s). If --peak-rate is provided, \"+",
  "\"the value given for --volume will be ignored.\")",
  "v1.Duration(flagStandardDeviation, 150*time.Minute,",
  "\"The standard deviation to use for the distribution of load\")",
  "triggerflags.JitterFlag(v1)",
  "triggerflags.DistributionFlag(v1)",
  "return api.Builder{",
  "Name: \"gaussian <scenario>\",",
  "Description: \"distributes load to match a desired monthly volume\",",
  "Flags: v1,",
  "New: func(v2 *pflag.FlagSet) (*api.Trigger, error) {",
  "v3, v4 := v2.GetFloat64(flagVolume)",
  "if v4 != nil {",
  "return nil, fmt.Errorf(\"getting flag: %w\", v4)",
  "}",
  "v5, v4 := v2.GetDuration(flagRepeat)",
  "if v4 != nil {",
  "return nil, fmt.Errorf(\"getting flag: %w\", v4)",
  "}",
  "v6, v4 := v2.GetDuration(\"iteration-frequency\")",
  "if v4 != nil {",
  "return nil, fmt.Errorf(\"getting flag: %w\", v4)",
  "}",
  "v7, v4 := v2.GetString(flagWeights)",
  "if v4 != nil {",
  "return nil, fmt.Errorf(\"getting flag: %w\", v4)",
  "}",
  "v8, v4 := v2.GetDuration(flagPeak)",
  "if v4 != nil {",
  "return nil, fmt.Errorf(\"getting flag: %w\", v4)",
  "}",
  "v9, v4 := v2.GetDuration(flagStandardDeviation)",
  "if v4 != nil {",
  "return nil, fmt.Errorf(\"getting flag: %w\", v4)",
  "}",
  "v10, v4 := v2.GetFloat64(triggerflags.FlagJitter)",
  "if v4 != nil {",
  "return nil, fmt.Errorf(\"getting flag: %w\", v4)",
  "}",
  "v11, v4 := v2.GetString(triggerflags.FlagDistribution)",
  "if v4 != nil {",
  "return nil, fmt.Errorf(\"getting flag: %w\", v4)",
  "}",
  "v12, v4 := v2.GetString(flagPeakRate)",
  "if v4 != nil {",
  "return nil, fmt.Errorf(\"getting flag: %w\", v4)",
  "}",
  "if v12 != \"\" {",
  "if v3 != defaultVolume {",
  "v0.Display(ui.WarningMessage{",
  "Message: \"--peak-rate is provided, the value given for --volume will be ignored\",",
  "})",
  "}",
  "v3, v4 = CalculateVolume(v12, v8, v9)",
  "if v4 != nil {",
  "return nil, v4",
  "}",
  "}",
  "v13, v4 := CalculateGaussianRate(",
  "v3,",
  "v10,",
  "v5,",
  "v6,",
  "v8,",
  "v9,",
  "v7,",
  "v11,",
  ")",
  "if v4 != nil {",
  "return nil, v4",
  "}",
  "v14 := \"\"",
  "if v10 != 0 {",
  "v14 = fmt.Sprintf(\" with jitter of %.2f%%\", v10)",
  "}",
  "v15 := fmt.Sprintf(",
  "\"Gaussian distribution triggering %d iterations per %s, \"+",
  "\"peaking at %s with standard deviation of %s%s, using distribution %s\",",
  "int(v3),",
  "v5,",
  "v8,",
  "v9,",
  "v14,",
  "v11,",
  ")",
  "return &api.Trigger{",
  "Trigger: api.NewIterationWorker(v13.IterationDuration, v13.Rate),",
  "DryRun: v13.Rate,",
  "Description: v15,",
  "Duration: v13.Duration,",
  "},",
  "nil",
  "},",
  "}",
  "}"
]

def skel_gauss_Calculate : List String := [
  "func CalculateGaussianRate(",
  "v0, v1 float64,",
  "v2, v3, v4, v5 time.Duration,",
  "v6, v7 string,",
  ") (*api.Rates, error) {",
  "v8 := strings.Split(v6, \",\")",
  "v9 := make([]float64, 0, len(v8))",
  "for _, v10 := range v8 {",
  "if v10 == \"\" {",
  "continue",
  "}",
  "v11, v12 := strconv.ParseFloat(v10, 64)",
  "if v12 != nil {",
  "return nil, fmt.Errorf(\"unable to parse weights: %w\", v12)",
  "}",
  "v9 = append(v9, v11)",
  "}",
  "v13, v14 := NewCalculator(v4, v5, v3, v9, v0, v2)",
  "if v14 != nil {",
  "return nil, fmt.Errorf(\"calculator: %w\", v14)",
  "}",
  "v15 := api.WithJitter(v13.For, v1)",
  "v16, v17, v14 := api.NewDistribution(",
  "api.DistributionType(v7), v3, v15, nil,",
  ")",
  "if v14 != nil {",
  "return nil, fmt.Errorf(\"new distribution: %w\", v14)",
  "}",
  "return &api.Rates{",
  "IterationDuration: v16,",
  "Rate: v17,",
  "Duration: time.Hour * 24 * 356,",
  "}, nil",
  "}"
]

def skel_gauss_For : List String := [
  "func (v0 *Calculator) For(v1 time.Time) int {",
  "v2 := v1.Truncate(v0.repeatWindow)",
  "v3 := float64(v1.Sub(v2))",
  "v4 := v0.dist.PDF(v3)",
  "v5 := v4 * v0.multiplier",
  "if len(v0.weights) > 0 {",
  "v6 := v1.Truncate(v0.repeatWindow * time.Duration(len(v0.weights)))",
  "v7 := 0",
  "for v6 != v2 {",
  "v7++",
  "v6 = v6.Add(v0.repeatWindow)",
  "}",
  "v5 = v5 * v0.weights[v7] / v0.averageWeight",
  "}",
  "v8 := v5 + v0.remainder",
  "v9 := math.Floor(v8)",
  "v0.remainder = v8 - v9",
  "return int(v9)",
  "}"
]

def skel_gauss_NewCalculator : List String := [
  "func NewCalculator(",
  "v0 time.Duration,",
  "v1 time.Duration,",
  "v2 time.Duration,",
  "v3 []float64,",
  "v4 float64,",
  "v5 time.Duration,",
  ") (*Calculator, error) {",
  "v6 := v4 * float64(v2)",
  "v7, v8 := gaussian.NewDistribution(float64(v0), float64(v1))",
  "if v8 != nil {",
  "return nil, fmt.Errorf(\"gaussian: %w\", v8)",
  "}",
  "v9 := 1.0",
  "if len(v3) > 0 {",
  "v10 := 0.0",
  "for _, v11 := range v3 {",
  "v10 += v11",
  "}",
  "v9 = v10 / float64(len(v3))",
  "}",
  "v12 := v7.CDF(float64(v5-v2)) - v7.CDF(0)",
  "v6 /= v12",
  "if math.IsNaN(v6) || math.IsInf(v6, 0) || v9 == 0 || math.IsNaN(v9) || math.IsInf(v9, 0) {",
  "return nil, errors.New(\"gaussian: no rate can be derived: the repeat window covers none of the \" +",
  "\"distribution (move the peak inside the window or increase the standard deviation) or the weights sum to zero \" +",
  "\"or are not finite\")",
  "}",
  "return &Calculator{",
  "frequency: v2,",
  "dist: v7,",
  "weights: v3,",
  "averageWeight: v9,",
  "multiplier: v6,",
  "repeatWindow: v5,",
  "}, nil",
  "}"
]

def skel_gauss_CalculateVolume : List String := [
  "func CalculateVolume(v0 string, v1, v2 time.Duration) (float64, error) {",
  "v3, v4 := parseRateToTPS(v0)",
  "if v4 != nil {",
  "return -1, v4",
  "}",
  "v5 := v1.Seconds()",
  "v6 := v2.Seconds()",
  "v7, v4 := gaussian.NewDistribution(v5, v6)",
  "if v4 != nil {",
  "return 0.0, fmt.Errorf(\"distribution: %w\", v4)",
  "}",
  "v8 := 60 * 60 * 24",
  "var v9 float64",
  "for v10 := range v8 {",
  "v9 += v7.Exponent(float64(v10))",
  "}",
  "return math.Round(v3 * v9), nil",
  "}"
]

def skel_gauss_parseRateToTPS : List String := [
  "func parseRateToTPS(v0 string) (float64, error) {",
  "v1, v2, v3 := rate.ParseRate(v0)",
  "if v3 != nil {",
  "return -1, fmt.Errorf(\"parse to tps %s: %w\", v0, v3)",
  "}",
  "return float64(v1) / v2.Seconds(), nil",
  "}"
]

def skel_ramp_Builder : List String := [
  "func Rate() api.Builder {",
  "v0 := pflag.NewFlagSet(\"ramp\", pflag.ContinueOnError)",
  "v0.StringP(flagStartRate, \"s\", \"1/s\",",
  "\"number of iterations to start per interval, in the form <request>/<duration>\")",
  "v0.StringP(flagEndRate, \"e\", \"1/s\",",
  "\"number of iterations to end per interval, in the form <request>/<duration>\")",
  "v0.DurationP(flagRampDuration, \"r\", 1*time.Second,",
  "\"ramp duration, if not provided then --max-duration will be used\")",
  "triggerflags.JitterFlag(v0)",
  "triggerflags.DistributionFlag(v0)",
  "return api.Builder{",
  "Name: \"ramp <scenario>\",",
  "Description: \"ramp up or down requests for a certain duration\",",
  "Flags: v0,",
  "New: func(v1 *pflag.FlagSet) (*api.Trigger, error) {",
  "v2, v3 := v1.GetString(flagStartRate)",
  "if v3 != nil {",
  "return nil, fmt.Errorf(\"getting flag: %w\", v3)",
  "}",
  "v4, v3 := v1.GetString(flagEndRate)",
  "if v3 != nil {",
  "return nil, fmt.Errorf(\"getting flag: %w\", v3)",
  "}",
  "v5, v3 := v1.GetDuration(flagRampDuration)",
  "if v3 != nil {",
  "return nil, fmt.Errorf(\"getting flag: %w\", v3)",
  "}",
  "if v5 == 0 {",
  "v5, v3 = v1.GetDuration(triggerflags.FlagMaxDuration)",
  "if v3 != nil {",
  "return nil, fmt.Errorf(\"getting flag: %w\", v3)",
  "}",
  "}",
  "v6, v3 := v1.GetFloat64(triggerflags.FlagJitter)",
  "if v3 != nil {",
  "return nil, fmt.Errorf(\"getting flag: %w\", v3)",
  "}",
  "v7, v3 := v1.GetString(triggerflags.FlagDistribution)",
  "if v3 != nil {",
  "return nil, fmt.Errorf(\"getting flag: %w\", v3)",
  "}",
  "v8, v3 := CalculateRampRate(v2, v4, v7, v5, v6)",
  "if v3 != nil {",
  "return nil, fmt.Errorf(\"calculating ramp rate: %w\", v3)",
  "}",
  "return &api.Trigger{",
  "Trigger: api.NewIterationWorker(v8.IterationDuration, v8.Rate),",
  "Description: fmt.Sprintf(\"starting iterations from %s to %s during %v, using distribution %s\",",
  "v2, v4, v5, v7),",
  "DryRun: v8.Rate,",
  "}, nil",
  "},",
  "}",
  "}"
]

def skel_ramp_Calculate : List String := [
  "func CalculateRampRate(",
  "v0 string,",
  "v1 string,",
  "v2 string,",
  "v3 time.Duration,",
  "v4 float64,",
  ") (*api.Rates, error) {",
  "var v5 *time.Time",
  "v6, v7, v8 := rate.ParseRate(v0)",
  "if v8 != nil {",
  "return nil, fmt.Errorf(\"parsing start rate: %w\", v8)",
  "}",
  "v9, v10, v8 := rate.ParseRate(v1)",
  "if v8 != nil {",
  "return nil, fmt.Errorf(\"parsing end rate: %w\", v8)",
  "}",
  "if v6 == v9 {",
  "return nil, errors.New(\"start-rate and end-rate should be different, for constant rate try using the constant mode\")",
  "}",
  "if v7 != v10 {",
  "return nil, errors.New(\"start-rate and end-rate are not using the same unit\")",
  "}",
  "if v3 < v7 {",
  "return nil, errors.New(\"duration is lower than rate unit\")",
  "}",
  "v11 := func(v12 time.Time) int {",
  "if v5 == nil {",
  "v5 = &v12",
  "}",
  "if v5.Add(v3).Before(v12) {",
  "return 0",
  "}",
  "v13 := v12.Sub(*v5)",
  "v14 := float64(v13) / float64(v3)",
  "v15 := v6 + int(v14*float64(v9-v6))",
  "return v15",
  "}",
  "v16 := api.WithJitter(v11, v4)",
  "v17, v18, v8 := api.NewDistribution(",
  "api.DistributionType(v2), v7, v16, nil,",
  ")",
  "if v8 != nil {",
  "return nil, fmt.Errorf(\"new distribution: %w\", v8)",
  "}",
  "return &api.Rates{",
  "IterationDuration: v17,",
  "Rate: v18,",
  "Duration: v3,",
  "}, nil",
  "}"
]

def skel_rate_ParseRate : List String := [
  "func ParseRate(v0 string) (int, time.Duration, error) {",
  "var v1 int",
  "var v2 time.Duration",
  "if strings.Contains(v0, \"/\") {",
  "var v3 error",
  "v1, v3 = strconv.Atoi((v0)[0:strings.Index(v0, \"/\")])",
  "if v3 != nil {",
  "return v1, v2, fmt.Errorf(\"unable to parse rate %s: %w\", v0, v3)",
  "}",
  "if v1 < 0 {",
  "return v1, v2, fmt.Errorf(\"rate %s can't be negative\", v0)",
  "}",
  "v4 := (v0)[strings.Index(v0, \"/\")+1:]",
  "if v4 == \"\" {",
  "return v1, v2, fmt.Errorf(\"unable to parse rate %s: missing unit\", v0)",
  "}",
  "if startsWithLetter(v4) {",
  "v4 = \"1\" + v4",
  "}",
  "v2, v3 = time.ParseDuration(v4)",
  "if v3 != nil {",
  "return v1, v2, fmt.Errorf(\"unable to parse unit %s: %w\", v0, v3)",
  "}",
  "if v2 <= 0 {",
  "return v1, v2, fmt.Errorf(\"rate %s: unit must be positive\", v0)",
  "}",
  "} else {",
  "var v5 error",
  "v1, v5 = strconv.Atoi(v0)",
  "if v5 != nil {",
  "return v1, v2, fmt.Errorf(\"unable to parse rate %s: %w\", v0, v5)",
  "}",
  "if v1 < 0 {",
  "return v1, v2, fmt.Errorf(\"rate %s can't be negative\", v0)",
  "}",
  "v2 = 1 * time.Second",
  "}",
  "return v1, v2, nil",
  "}"
]

def skel_rate_startsWithLetter : List String := [
  "func startsWithLetter(v0 string) bool {",
  "v1, _ := utf8.DecodeRuneInString(v0)",
  "return unicode.IsLetter(v1)",
  "}"
]

def skel_staged_NewRateCalculator : List String := [
  "func NewRateCalculator(v0 []Stage, v1 *time.Time) *RateCalculator {",
  "v2 := RateCalculator{",
  "current: -1,",
  "}",
  "v2.addRange(v0)",
  "if v1 != nil {",
  "v2.start = *v1",
  "}",
  "return &v2",
  "}"
]

def skel_staged_addRange : List String := [
  "func (v0 *RateCalculator) addRange(v1 []Stage) {",
  "for _, v2 := range v1 {",
  "v0.add(v2)",
  "}",
  "}"
]

def skel_staged_add : List String := [
  "func (v0 *RateCalculator) add(v1 Stage) {",
  "if len(v0.stages) == 0 {",
  "v1.StartTarget = 0",
  "} else {",
  "v1.StartTarget = v0.stages[len(v0.stages)-1].EndTarget",
  "}",
  "v0.stages = append(v0.stages, v1)",
  "}"
]

def skel_staged_Rate : List String := [
  "func (v0 *RateCalculator) Rate(v1 time.Time) int {",
  "if v0.current < 0 {",
  "v0.current = 0",
  "if v0.start.IsZero() {",
  "v0.start = v1",
  "}",
  "}",
  "if v0.current > len(v0.stages)-1 {",
  "return 0",
  "}",
  "for v0.current < len(v0.stages) && v1.Sub(v0.start)+1 > v0.stages[v0.current].Duration {",
  "v0.start = v0.start.Add(v0.stages[v0.current].Duration)",
  "v0.current++",
  "}",
  "if v0.current > len(v0.stages)-1 {",
  "return 0",
  "}",
  "v2 := v1.Sub(v0.start)",
  "v3 := float64(v2) / float64(v0.stages[v0.current].Duration)",
  "v4 := v0.stages[v0.current].StartTarget +",
  "int(v3*float64(v0.stages[v0.current].EndTarget-v0.stages[v0.current].StartTarget))",
  "return v4",
  "}"
]

def skel_staged_MaxDuration : List String := [
  "func (v0 *RateCalculator) MaxDuration() time.Duration {",
  "v1 := 0 * time.Second",
  "for _, v2 := range v0.stages {",
  "v1 += v2.Duration",
  "}",
  "return v1",
  "}"
]

def skel_staged_ParseStages : List String := [
  "func ParseStages(v0 string) ([]Stage, error) {",
  "v1 := strings.Split(v0, \",\")",
  "v2 := make([]Stage, len(v1))",
  "for v3, v4 := range v1 {",
  "v5 := strings.Split(strings.TrimSpace(v4), \":\")",
  "if len(v5) != 2 {",
  "return nil, fmt.Errorf(\"unable to parse stage %d: `%s` from `%s`\", v3, v4, v0)",
  "}",
  "v6, v7 := time.ParseDuration(strings.TrimSpace(v5[0]))",
  "if v7 != nil {",
  "return nil, fmt.Errorf(\"unable to parse duration %s in stage %d: %s\", v5[0], v3, v4)",
  "}",
  "v8, v7 := strconv.Atoi(strings.TrimSpace(v5[1]))",
  "if v7 != nil {",
  "return nil, fmt.Errorf(\"unable to parse target %s in stage %d: %s\", v5[1], v3, v4)",
  "}",
  "v2[v3] = Stage{",
  "EndTarget: v8,",
  "Duration: v6,",
  "}",
  "}",
  "return v2, nil",
  "}"
]

def skel_staged_Builder : List String := [
  "func Rate() api.Builder {",
  "v0 := pflag.NewFlagSet(\"staged\", pflag.ContinueOnError)",
  "v0.StringP(\"stages\", \"s\", \"0s:1, 10s:1\",",
  "\"Comma separated list of <stage_duration>:<target_concurrent_iterations>. \"+",
  "\"During the stage, the number of concurrent iterations will ramp up or down to the target.\")",
  "v0.DurationP(flagIterationFrequency, \"f\", 1*time.Second,",
  "\"How frequently iterations should be started\")",
  "v0.String(flagStartTime, \"\", \"Starting point of stage calculation, defaults to now\")",
  "triggerflags.JitterFlag(v0)",
  "triggerflags.DistributionFlag(v0)",
  "return api.Builder{",
  "Name: \"staged <scenario>\",",
  "Description: \"triggers iterations at varying rates\",",
  "Flags: v0,",
  "New: func(v1 *pflag.FlagSet) (*api.Trigger, error) {",
  "v2, v3 := v1.GetFloat64(triggerflags.FlagJitter)",
  "if v3 != nil {",
  "return nil, fmt.Errorf(\"getting flag: %w\", v3)",
  "}",
  "v4, v3 := v1.GetString(flagStages)",
  "if v3 != nil {",
  "return nil, fmt.Errorf(\"getting flag: %w\", v3)",
  "}",
  "v5, v3 := v1.GetDuration(flagIterationFrequency)",
  "if v3 != nil {",
  "return nil, fmt.Errorf(\"getting flag: %w\", v3)",
  "}",
  "v6, v3 := v1.GetString(triggerflags.FlagDistribution)",
  "if v3 != nil {",
  "return nil, fmt.Errorf(\"getting flag: %w\", v3)",
  "}",
  "var v7 *time.Time",
  "v8, v3 := v1.GetString(flagStartTime)",
  "if v3 != nil {",
  "return nil, fmt.Errorf(\"getting flag: %w\", v3)",
  "}",
  "if v9, v10 := time.Parse(\"2006-01-02T15:04:05+07:00\", v8); v10 == nil {",
  "v7 = &v9",
  "}",
  "v11, v3 := CalculateStagedRate(v2, v5, v4, v6, v7)",
  "if v3 != nil {",
  "return nil, v3",
  "}",
  "return &api.Trigger{",
  "Trigger: api.NewIterationWorker(v11.IterationDuration, v11.Rate),",
  "DryRun: v11.Rate,",
  "Description: fmt.Sprintf(",
  "\"Starting iterations every %s in numbers varying by time: %s, using distribution %s\",",
  "v5, v4, v6),",
  "Duration: v11.Duration,",
  "},",
  "nil",
  "},",
  "}",
  "}"
]

def skel_staged_Calculate : List String := [
  "func CalculateStagedRate(",
  "v0 float64,",
  "v1 time.Duration,",
  "v2 string,",
  "v3 string,",
  "v4 *time.Time,",
  ") (*api.Rates, error) {",
  "v5, v6 := ParseStages(v2)",
  "if v6 != nil {",
  "return nil, fmt.Errorf(\"parsing stages: %w\", v6)",
  "}",
  "v7 := NewRateCalculator(v5, v4)",
  "v8 := api.WithJitter(v7.Rate, v0)",
  "v9, v10, v6 := api.NewDistribution(",
  "api.DistributionType(v3), v1, v8, nil,",
  ")",
  "if v6 != nil {",
  "return nil, fmt.Errorf(\"new distribution: %w\", v6)",
  "}",
  "return &api.Rates{",
  "IterationDuration: v9,",
  "Rate: v10,",
  "Duration: v7.MaxDuration(),",
  "}, nil",
  "}"
]

def skel_users_Builder : List String := [
  "func Rate() api.Builder {",
  "v0 := pflag.NewFlagSet(\"users\", pflag.ContinueOnError)",
  "return api.Builder{",
  "Name: \"users <scenario>\",",
  "Description: \"triggers test iterations from a static set of users controlled by the --concurrency flag\",",
  "Flags: v0,",
  "New: func(*pflag.FlagSet) (*api.Trigger, error) {",
  "v1 := func(",
  "v2 context.Context,",
  "v3 *ui.Output,",
  "v4 *workers.PoolManager,",
  "v5 options.RunOptions,",
  ") {",
  "v6 := v4.NewContinuousPool(v5.Concurrency)",
  "v7 := v6.Start(v2)",
  "select {",
  "case <-v7.Done():",
  "case <-v4.WaitForCompletion():",
  "}",
  "}",
  "return &api.Trigger{",
  "Trigger: v1,",
  "Description: \"Makes requests from a set of users specified by --concurrency\",",
  "DryRun: func(time.Time) int { return 1 },",
  "},",
  "nil",
  "},",
  "}",
  "}"
]

def skel_users_NewWorker : List String := [
  "func NewWorker(v0 int) api.WorkTriggerer {",
  "return func(v1 context.Context, _ *ui.Output, v2 *workers.PoolManager, _ options.RunOptions) {",
  "v3 := v2.NewContinuousPool(v0)",
  "_ = v3.Start(v1)",
  "<-v2.WaitForCompletion()",
  "}",
  "}"
]

def skel_active_Run : List String := [
  "func (v0 *ActiveScenario) Run(v1 *iterationState) {",
  "defer v1.teardown()",
  "v2 := xtime.NanoTime()",
  "func() {",
  "defer testing.CheckResults(v1.t, nil)",
  "v0.scenario.RunFn(v1.t)",
  "}()",
  "v3 := v1.t.Failed()",
  "v4 := xtime.NanoTime() - v2",
  "v0.m.RecordIterationResult(v0.scenario.Name, metrics.Result(v3), v4)",
  "v0.progress.Record(metrics.Result(v3), v4)",
  "}"
]

def skel_active_Setup : List String := [
  "func (v0 *ActiveScenario) Setup() {",
  "v1 := xtime.NanoTime()",
  "func() {",
  "defer testing.CheckResults(v0.t, nil)",
  "v0.scenario.RunFn = v0.scenario.ScenarioFn(v0.t)",
  "}()",
  "v2 := xtime.NanoTime() - v1",
  "v0.m.RecordSetupResult(v0.scenario.Name, metrics.Result(v0.t.Failed()), v2)",
  "}"
]

def skel_active_RecordDropped : List String := [
  "func (v0 *ActiveScenario) RecordDroppedIteration() {",
  "v0.m.RecordIterationResult(v0.scenario.Name, metrics.DroppedResult, instantDuration)",
  "v0.progress.Record(metrics.DroppedResult, instantDuration)",
  "}"
]

def skel_active_New : List String := [
  "func NewActiveScenario(",
  "v0 *scenarios.Scenario,",
  "v1 *metrics.Metrics,",
  "v2 *progress.Stats,",
  "v3 *slog.Logger,",
  "v4 *logrus.Logger,",
  ") *ActiveScenario {",
  "v5, v6 := testing.NewTWithOptions(v0.Name,",
  "testing.WithIteration(\"setup\"),",
  "testing.WithLogger(v3),",
  "testing.WithLogrusLogger(v4),",
  ")",
  "v7 := &ActiveScenario{",
  "scenario: v0,",
  "m: v1,",
  "t: v5,",
  "Teardown: v6,",
  "progress: v2,",
  "logger: v3,",
  "logrusLogger: v4,",
  "}",
  "return v7",
  "}"
]

def skel_active_newIterationState : List String := [
  "func (v0 *ActiveScenario) newIterationState() *iterationState {",
  "v1, v2 := testing.NewTWithOptions(v0.scenario.Name,",
  "testing.WithLogger(v0.logger),",
  "testing.WithLogrusLogger(v0.logrusLogger),",
  ")",
  "return &iterationState{",
  "t: v1,",
  "teardown: v2,",
  "}",
  "}"
]

def skel_active_TeardownFailed : List String := [
  "func (v0 *ActiveScenario) TeardownFailed() bool {",
  "return v0.t.TeardownFailed()",
  "}"
]

def skel_active_Failed : List String := [
  "func (v0 *ActiveScenario) Failed() bool {",
  "return v0.t.Failed()",
  "}"
]

def skel_cpool_Start : List String := [
  "func (v0 *ContinuousPool) Start(v1 context.Context) context.Context {",
  "v2, v3 := context.WithCancel(v1)",
  "v0.workerCtxCancel = v3",
  "if v2.Err() != nil {",
  "v0.stopWorkers.Store(true)",
  "}",
  "go func() {",
  "<-v2.Done()",
  "v0.stopWorkers.Store(true)",
  "}()",
  "v4 := sync.WaitGroup{}",
  "v4.Add(v0.numWorkers)",
  "v0.manager.runningWorkers.Add(v0.numWorkers)",
  "for _, v5 := range v0.iterationStatePool {",
  "go v0.startWorker(v5, &v4)",
  "}",
  "return v2",
  "}"
]

def skel_cpool_startWorker : List String := [
  "func (v0 *ContinuousPool) startWorker(",
  "v1 *iterationState,",
  "v2 *sync.WaitGroup,",
  ") {",
  "defer v0.manager.runningWorkers.Done()",
  "v2.Done()",
  "v2.Wait()",
  "for !v0.stopWorkers.Load() {",
  "v3, v4 := v0.manager.NextIteration()",
  "if v4 != nil {",
  "v0.maxIterationsReached()",
  "return",
  "}",
  "v1.t.Reset(strconv.FormatUint(v3, 10))",
  "v0.manager.activeScenario.Run(v1)",
  "}",
  "}"
]

def skel_cpool_new : List String := [
  "func newContinuousPool(v0 *PoolManager, v1 int) *ContinuousPool {",
  "return &ContinuousPool{",
  "numWorkers: v1,",
  "iterationStatePool: v0.makeIterationStatePool(v1),",
  "manager: v0,",
  "}",
  "}"
]

def skel_cpool_maxIterationsReached : List String := [
  "func (v0 *ContinuousPool) maxIterationsReached() {",
  "v0.workerCtxCancel()",
  "}"
]

def skel_manager_NextIteration : List String := [
  "func (v0 *PoolManager) NextIteration() (uint64, error) {",
  "v1 := v0.iteration.Add(1)",
  "if v0.maxIterations > 0 && v1 > v0.maxIterations {",
  "return 0, errMaxIterationsReached",
  "}",
  "return v1, nil",
  "}"
]

def skel_manager_MaxIterationsReached : List String := [
  "func (v0 *PoolManager) MaxIterationsReached() bool {",
  "if v0.maxIterations > 0 && v0.iteration.Load() > v0.maxIterations {",
  "return true",
  "}",
  "return false",
  "}"
]

def skel_manager_makeIterationStatePool : List String := [
  "func (v0 *PoolManager) makeIterationStatePool(v1 int) []*iterationState {",
  "v2 := make([]*iterationState, v1)",
  "for v3 := range v1 {",
  "v2[v3] = v0.activeScenario.newIterationState()",
  "}",
  "return v2",
  "}"
]

def skel_manager_WaitForCompletion : List String := [
  "func (v0 *PoolManager) WaitForCompletion() <-chan struct{} {",
  "v1 := make(chan struct{})",
  "go func() {",
  "defer close(v1)",
  "v0.runningWorkers.Wait()",
  "}()",
  "return v1",
  "}"
]

def skel_manager_New : List String := [
  "func New(v0 uint64, v1 *ActiveScenario) *PoolManager {",
  "v2 := &PoolManager{",
  "activeScenario: v1,",
  "maxIterations: v0,",
  "}",
  "return v2",
  "}"
]

def skel_manager_NewTriggerPool : List String := [
  "func (v0 *PoolManager) NewTriggerPool(v1 int) *TriggerPool {",
  "return newTriggerPool(v0, v1)",
  "}"
]

def skel_manager_NewContinuousPool : List String := [
  "func (v0 *PoolManager) NewContinuousPool(v1 int) *ContinuousPool {",
  "return newContinuousPool(v0, v1)",
  "}"
]

def skel_pool_Trigger : List String := [
  "func (v0 *TriggerPool) Trigger(v1 context.Context, v2 int) {",
  "if v1.Err() != nil {",
  "return",
  "}",
  "verifhook.At(\"pool.trigger.accepted\")",
  "v0.sendJobsForExecution(v2)",
  "}"
]

def skel_pool_Start : List String := [
  "func (v0 *TriggerPool) Start(v1 context.Context) context.Context {",
  "v0.manager.runningWorkers.Add(v0.numWorkers)",
  "v2 := sync.WaitGroup{}",
  "v2.Add(v0.numWorkers)",
  "v3, v4 := context.WithCancel(v1)",
  "v0.workerCtxCancel = v4",
  "for _, v5 := range v0.iterationStatePool {",
  "go v0.run(v5, &v2)",
  "}",
  "v2.Wait()",
  "v0.manager.runningWorkers.Add(1)",
  "go func() {",
  "defer v0.manager.runningWorkers.Done()",
  "<-v3.Done()",
  "v0.stop()",
  "}()",
  "return v3",
  "}"
]

def skel_pool_running : List String := [
  "func (v0 *TriggerPool) running() bool {",
  "return !v0.stopWorkers.Load()",
  "}"
]

def skel_pool_stop : List String := [
  "func (v0 *TriggerPool) stop() {",
  "v0.stopWorkers.Store(true)",
  "v0.sendJobsForExecution(0)",
  "}"
]

def skel_pool_maxIterationsReached : List String := [
  "func (v0 *TriggerPool) maxIterationsReached() {",
  "v0.jobsToExecute.set(0)",
  "verifhook.At(\"pool.limit.discarded\")",
  "v0.workerCtxCancel()",
  "}"
]

def skel_pool_sendJobs : List String := [
  "func (v0 *TriggerPool) sendJobsForExecution(v1 int) {",
  "v0.jobsAvailableCond.L.Lock()",
  "if v1 > 0 && !v0.running() {",
  "v0.jobsAvailableCond.L.Unlock()",
  "return",
  "}",
  "v2 := v0.manager.MaxIterationsReached()",
  "v3 := v0.jobsToExecute.set(v1)",
  "v0.jobsAvailableCond.Broadcast()",
  "v0.jobsAvailableCond.L.Unlock()",
  "if v2 {",
  "return",
  "}",
  "for range v3 {",
  "v0.manager.activeScenario.RecordDroppedIteration()",
  "}",
  "}"
]

def skel_pool_waitForNewJobs : List String := [
  "func (v0 *TriggerPool) waitForNewJobs() {",
  "v0.jobsAvailableCond.L.Lock()",
  "for v0.jobsToExecute.none() && v0.running() {",
  "v0.jobsAvailableCond.Wait()",
  "}",
  "v0.jobsAvailableCond.L.Unlock()",
  "}"
]

def skel_pool_run : List String := [
  "func (v0 *TriggerPool) run(",
  "v1 *iterationState,",
  "v2 *sync.WaitGroup,",
  ") {",
  "defer v0.manager.runningWorkers.Done()",
  "v2.Done()",
  "for v0.running() {",
  "if v0.jobsToExecute.none() {",
  "v0.waitForNewJobs()",
  "}",
  "verifhook.At(\"pool.worker.pretake\")",
  "if v0.jobsToExecute.take() {",
  "v3, v4 := v0.manager.NextIteration()",
  "if v4 != nil {",
  "v0.maxIterationsReached()",
  "return",
  "}",
  "v1.t.Reset(strconv.FormatUint(v3, 10))",
  "v0.manager.activeScenario.Run(v1)",
  "}",
  "}",
  "}"
]

def skel_jobCounter_set : List String := [
  "func (v0 *jobCounter) set(v1 int) int64 {",
  "return v0.num.Swap(int64(v1))",
  "}"
]

def skel_jobCounter_none : List String := [
  "func (v0 *jobCounter) none() bool {",
  "return v0.num.Load() <= 0",
  "}"
]

def skel_jobCounter_take : List String := [
  "func (v0 *jobCounter) take() bool {",
  "return v0.num.Add(-1) >= 0",
  "}"
]

def skel_pool_new : List String := [
  "func newTriggerPool(v0 *PoolManager, v1 int) *TriggerPool {",
  "return &TriggerPool{",
  "numWorkers: v1,",
  "iterationStatePool: v0.makeIterationStatePool(v1),",
  "manager: v0,",
  "jobsAvailableCond: sync.NewCond(&sync.Mutex{}),",
  "}",
  "}"
]

def skel_f1_execute : List String := [
  "func (v0 *F1) execute(v1 []string) error {",
  "v2, v3 := buildRootCmd(v0.scenarios, v0.settings, v0.profiling, v0.options.output, v0.options.staticMetrics)",
  "if v3 != nil {",
  "return fmt.Errorf(\"building root command: %w\", v3)",
  "}",
  "if len(v1) > 0 {",
  "v2.SetArgs(v1)",
  "}",
  "v4 := make(chan struct{})",
  "defer close(v4)",
  "v5 := newSignalContext(v4)",
  "v3 = v2.ExecuteContext(v5)",
  "v6 := v0.profiling.stop()",
  "v7 := errors.Join(v3, v6)",
  "if v7 != nil {",
  "return fmt.Errorf(\"command execution: %w\", v3)",
  "}",
  "return nil",
  "}"
]

def skel_f1_ExecuteWithArgs : List String := [
  "func (v0 *F1) ExecuteWithArgs(v1 []string) error {",
  "if v2 := v0.execute(v1); v2 != nil {",
  "return fmt.Errorf(\"execute with args: %w\", v2)",
  "}",
  "return nil",
  "}"
]

def skel_f1_CombineScenarios : List String := [
  "func CombineScenarios(v0 ...testing.ScenarioFn) testing.ScenarioFn {",
  "return func(v1 *testing.T) testing.RunFn {",
  "var v2 []testing.RunFn",
  "for _, v3 := range v0 {",
  "v2 = append(v2, v3(v1))",
  "}",
  "return func(v4 *testing.T) {",
  "for _, v5 := range v2 {",
  "v5(v4)",
  "}",
  "}",
  "}",
  "}"
]

def skel_f1_buildRootCmd : List String := [
  "func buildRootCmd(",
  "v0 *scenarios.Scenarios,",
  "v1 envsettings.Settings,",
  "v2 *profiling,",
  "v3 *ui.Output,",
  "v4 map[string]string,",
  ") (*cobra.Command, error) {",
  "v5 := &cobra.Command{",
  "Use: getCmdName(),",
  "Short: \"F1 load testing tool\",",
  "PersistentPreRunE: startProfiling(v2),",
  "SilenceErrors: true,",
  "}",
  "v5.PersistentFlags().String(flagCPUProfile, \"\", \"write cpu profile to `file`\")",
  "if v6 := v5.MarkPersistentFlagFilename(flagCPUProfile); v6 != nil {",
  "return nil, fmt.Errorf(\"marking flag as filename: %w\", v6)",
  "}",
  "v5.PersistentFlags().String(flagMemProfile, \"\", \"write memory profile to `file`\")",
  "if v7 := v5.MarkPersistentFlagFilename(flagMemProfile); v7 != nil {",
  "return nil, fmt.Errorf(\"marking flag as filename: %w\", v7)",
  "}",
  "metrics.InitWithStaticMetrics(v1.PrometheusEnabled(), v4)",
  "v8 := metrics.Instance()",
  "v9 := trigger.GetBuilders(v3)",
  "v5.AddCommand(run.Cmd(",
  "v0,",
  "v9,",
  "v1,",
  "v8,",
  "v3,",
  "))",
  "v5.AddCommand(chart.Cmd(v9, v3))",
  "v5.AddCommand(scenarios.Cmd(v0))",
  "v5.AddCommand(completionsCmd(v5))",
  "return v5, nil",
  "}"
]

def skel_t_teardown : List String := [
  "func (v0 *T) teardown() {",
  "v0.tearingDown = true",
  "for v1 := len(v0.teardownStack) - 1; v1 >= 0; v1-- {",
  "func() {",
  "defer CheckResults(v0, nil)",
  "v0.teardownStack[v1]()",
  "}()",
  "}",
  "}"
]

def skel_t_Reset : List String := [
  "func (v0 *T) Reset(v1 string) {",
  "v0.Iteration = v1",
  "v0.failed.Store(false)",
  "v0.teardownFailed.Store(false)",
  "v0.tearingDown = false",
  "v0.teardownStack = []func(){}",
  "}"
]

def skel_t_Fail : List String := [
  "func (v0 *T) Fail() {",
  "if v0.tearingDown {",
  "v0.teardownFailed.Store(true)",
  "} else {",
  "v0.failed.Store(true)",
  "}",
  "}"
]

def skel_t_FailNow : List String := [
  "func (v0 *T) FailNow() {",
  "if v0.tearingDown {",
  "v0.teardownFailed.Store(true)",
  "} else {",
  "v0.failed.Store(true)",
  "}",
  "panic(errFailNow)",
  "}"
]

def skel_t_Time : List String := [
  "func (v0 *T) Time(v1 string, v2 func()) {",
  "v3 := time.Now()",
  "defer recordTime(v0, v1, v3)",
  "v2()",
  "}"
]

def skel_t_CheckResults : List String := [
  "func CheckResults(v0 *T, v1 chan<- struct{}) {",
  "handlePanic(v0, recover())",
  "if v1 != nil {",
  "v1 <- struct{}{}",
  "}",
  "}"
]

def skel_t_handlePanic : List String := [
  "func handlePanic(v0 *T, v1 any) {",
  "if v1 == nil {",
  "return",
  "}",
  "v2, v3 := v1.(error)",
  "switch {",
  "case v3 && v2 == errFailNow:",
  "v0.Fail()",
  "return",
  "case v3:",
  "v4 := debug.Stack()",
  "v0.logger.Error(\"recovered panic in scenario\",",
  "log.StackTraceAttr(v4),",
  "log.IterationAttr(v0.Iteration),",
  "log.ErrorAttr(v2),",
  ")",
  "v0.Fail()",
  "default:",
  "v5 := debug.Stack()",
  "v0.logger.Error(\"recovered panic in scenario\",",
  "log.StackTraceAttr(v5),",
  "log.IterationAttr(v0.Iteration),",
  "log.ErrorAnyAttr(v1),",
  ")",
  "v0.Fail()",
  "}",
  "}"
]

def skel_t_Cleanup : List String := [
  "func (v0 *T) Cleanup(v1 func()) {",
  "v0.teardownStack = append(v0.teardownStack, v1)",
  "}"
]

def skel_t_Errorf : List String := [
  "func (v0 *T) Errorf(v1 string, v2 ...interface{}) {",
  "v0.logger.Error(fmt.Sprintf(v1, v2...))",
  "v0.Fail()",
  "}"
]

def skel_t_Error : List String := [
  "func (v0 *T) Error(v1 error) {",
  "v0.logger.Error(\"iteration failed\", log.IterationAttr(v0.Iteration), log.ErrorAttr(v1))",
  "v0.Fail()",
  "}"
]

def skel_t_Fatalf : List String := [
  "func (v0 *T) Fatalf(v1 string, v2 ...interface{}) {",
  "v0.logger.Error(fmt.Sprintf(v1, v2...))",
  "v0.FailNow()",
  "}"
]

def skel_t_Fatal : List String := [
  "func (v0 *T) Fatal(v1 error) {",
  "v0.logger.Error(\"iteration failed\", log.IterationAttr(v0.Iteration), log.ErrorAttr(v1))",
  "v0.FailNow()",
  "}"
]

def skel_t_Failed : List String := [
  "func (v0 *T) Failed() bool {",
  "return v0.failed.Load()",
  "}"
]

def skel_t_TeardownFailed : List String := [
  "func (v0 *T) TeardownFailed() bool {",
  "return v0.teardownFailed.Load()",
  "}"
]

def skel_t_recordTime : List String := [
  "func recordTime(v0 *T, v1 string, v2 time.Time) {",
  "metrics.Instance().RecordIterationStage(",
  "v0.Scenario,",
  "v1,",
  "metrics.Result(v0.Failed()),",
  "time.Since(v2).Nanoseconds(),",
  ")",
  "}"
]

def skel_t_NewTWithOptions : List String := [
  "func NewTWithOptions(v0 string, v1 ...TOption) (*T, func()) {",
  "v2 := &T{",
  "Scenario: v0,",
  "teardownStack: []func(){},",
  "}",
  "v2.require = require.New(v2)",
  "for _, v3 := range v1 {",
  "v3(v2)",
  "}",
  "return v2, v2.teardown",
  "}"
]

def tmpl_result : List String := [
  "",
  "{{if .Failed -}}",
  "{red}{bold}{u}Load Test Failed{-}",
  "{{- else -}}",
  "{green}{bold}{u}Load Test Passed{-}",
  "{{- end}}",
  "{{- if .Error}}",
  "{red}Error: {{.Error}}{-}",
  "{{- end}}",
  "{{.IterationsStarted}} iterations started in {{duration .Duration}} ({{rate .Duration .IterationsStarted}}/second)",
  "{{- if .SuccessfulIterationCount}}",
  "{bold}Successful Iterations:{-} {green}{{.SuccessfulIterationCount}} ({{percent .SuccessfulIterationCount .Iterations | printf \"%0.2f\"}}%, {{rate .Duration .SuccessfulIterationCount}}/second){-} {{.SuccessfulIterationDurations}}",
  "{{- end}}",
  "{{- if .FailedIterationCount}}",
  "{bold}Failed Iterations:{-} {red}{{.FailedIterationCount}} ({{percent .FailedIterationCount .Iterations | printf \"%0.2f\"}}%, {{rate .Duration .FailedIterationCount}}){-} {{.FailedIterationDurations}}",
  "{{- end}}",
  "{{- if .DroppedIterationCount}}",
  "{bold}Dropped Iterations:{-} {yellow}{{.DroppedIterationCount}} ({{percent .DroppedIterationCount .Iterations | printf \"%0.2f\"}}%, {{rate .Duration .DroppedIterationCount}}){-} (consider increasing --concurrency setting)",
  "{{- end}}",
  "{bold}Full logs:{-} {{.LogFilePath}}",
  ""
]

def tmpl_progress : List String := [
  "{cyan}[{{durationSeconds .Duration | printf \"%5s\"}}]{-}  {green}✔ {{printf \"%5d\" .SuccessfulIterationCount}}{-}  {{if .DroppedIterationCount}}{yellow}⦸ {{printf \"%5d\" .DroppedIterationCount}}{-}  {{end}}{red}✘ {{printf \"%5d\" .FailedIterationCount}}{-} {light_black}({{rate .Period .SuccessfulIterationDurationsForPeriod.Count}}/s){-}   {{.SuccessfulIterationDurationsForPeriod}}"
]

def const_nextIterationWindow : String := "10 * time.Millisecond"

def const_safeDurationBeforeNextStage : String := "20 * time.Millisecond"

def const_waitForCompletionTimeout : String := "10 * time.Second"

def missing : List String := []

end F1.Expected
