/- Expectations: the normalised source of the anchored functions the models were written against
(recorded with bin/snapshot_facts; compared with the regenerated facts on every run). -/
namespace F1.Expected

def skel_log_IterationStatsGroup : List String := [
  "func IterationStatsGroup(v0, v1, v2, v3 uint64, v4 time.Duration) slog.Attr {",
  "return slog.Group(\"iteration_stats\",",
  "slog.Uint64(\"started\", v0),",
  "slog.Uint64(\"successful\", v1),",
  "slog.Uint64(\"failed\", v2),",
  "slog.Uint64(\"dropped\", v3),",
  "slog.Duration(\"period\", v4),",
  ")",
  "}"
]

def skel_metrics_labelValues : List String := [
  "func getStaticMetricLabelValues(v0 map[string]string) []string {",
  "v1 := make([]string, 0, len(v0))",
  "for _, v2 := range sortedKeys(v0) {",
  "v1 = append(v1, v0[v2])",
  "}",
  "return v1",
  "}"
]

def skel_metrics_labelKeys : List String := [
  "func getStaticMetricLabelKeys(v0 map[string]string) []string {",
  "return sortedKeys(v0)",
  "}"
]

def skel_metrics_sortedKeys : List String := [
  "func sortedKeys(v0 map[string]string) []string {",
  "v1 := make([]string, 0, len(v0))",
  "for v2 := range v0 {",
  "v1 = append(v1, v2)",
  "}",
  "sort.Strings(v1)",
  "return v1",
  "}"
]

def skel_metrics_RecordIterationResult : List String := [
  "func (v0 *Metrics) RecordIterationResult(v1 string, v2 ResultType, v3 int64) {",
  "if !v0.IterationMetricsEnabled {",
  "return",
  "}",
  "v4 := append([]string{v1, IterationStage, v2.String()}, v0.staticMetricLabelValues...)",
  "v0.Iteration.WithLabelValues(v4...).Observe(float64(v3))",
  "}"
]

def skel_metrics_Reset : List String := [
  "func (v0 *Metrics) Reset() {",
  "v0.Iteration.Reset()",
  "v0.Setup.Reset()",
  "}"
]

def skel_average_Add : List String := [
  "func (v0 *IterationDurations) Add(v1 int64) {",
  "v0.sum.Add(v1)",
  "v0.count.Add(1)",
  "if v1 > v0.max.Load() {",
  "v0.max.Store(v1)",
  "}",
  "v2 := v0.min.Load()",
  "if v2 == 0 || v1 < v2 {",
  "v0.min.Store(v1)",
  "}",
  "}"
]

def skel_average_Update : List String := [
  "func (v0 *IterationDurations) Update(v1 *IterationDurations) {",
  "v0.sum.Add(v1.sum.Load())",
  "v0.count.Add(v1.count.Load())",
  "v2 := v1.min.Load()",
  "if v0.min.Load() == 0 || (v0.min.Load() > v2 && v2 > 0) {",
  "v0.min.Store(v2)",
  "}",
  "v3 := v1.max.Load()",
  "if v0.max.Load() < v3 {",
  "v0.max.Store(v3)",
  "}",
  "}"
]

def skel_average_drain : List String := [
  "func (v0 *IterationDurations) drain() *IterationDurations {",
  "v1 := &IterationDurations{}",
  "v1.count.Store(v0.count.Swap(0))",
  "v1.sum.Store(v0.sum.Swap(0))",
  "v1.min.Store(v0.min.Swap(0))",
  "v1.max.Store(v0.max.Swap(0))",
  "return v1",
  "}"
]

def skel_average_Snapshot : List String := [
  "func (v0 *IterationDurations) Snapshot() IterationDurationsSnapshot {",
  "v1, v2 := v0.average()",
  "return IterationDurationsSnapshot{",
  "Average: time.Duration(v1),",
  "Count: v2,",
  "Min: time.Duration(v0.min.Load()),",
  "Max: time.Duration(v0.max.Load()),",
  "}",
  "}"
]

def skel_average_average : List String := [
  "func (v0 *IterationDurations) average() (int64, uint64) {",
  "v1 := v0.count.Load()",
  "if v1 == 0 {",
  "return 0, 0",
  "}",
  "v2 := v0.sum.Load()",
  "return v2 / v1, uint64(v1)",
  "}"
]

def skel_average_CollectLifetime : List String := [
  "func (v0 *DurationStats) CollectLifetime() (IterationDurationsSnapshot, IterationDurationsSnapshot) {",
  "v1 := v0.running.drain()",
  "verifhook.At(\"progress.collect\")",
  "v0.lifetime.Update(v1)",
  "return v1.Snapshot(), v0.lifetime.Snapshot()",
  "}"
]

def skel_average_Record : List String := [
  "func (v0 *DurationStats) Record(v1 int64) {",
  "v0.running.Add(v1)",
  "}"
]

def skel_stats_Record : List String := [
  "func (v0 *Stats) Record(v1 metrics.ResultType, v2 int64) {",
  "switch v1 {",
  "case metrics.SuccessResult:",
  "v0.successfulIterationDurations.Record(v2)",
  "case metrics.FailedResult:",
  "v0.failedIterationDurations.Record(v2)",
  "case metrics.DroppedResult:",
  "v0.droppedIterationCount.Add(1)",
  "case metrics.UnknownResult:",
  "}",
  "}"
]

def skel_stats_Snapshot : List String := [
  "func (v0 *Stats) Snapshot(v1 time.Duration) Snapshot {",
  "v2, v3 := v0.successfulIterationDurations.CollectLifetime()",
  "_, v4 := v0.failedIterationDurations.CollectLifetime()",
  "return Snapshot{",
  "Period: v1,",
  "DroppedIterationCount: v0.droppedIterationCount.Load(),",
  "SuccessfulIterationDurationsForPeriod: v2,",
  "SuccessfulIterationDurations: v3,",
  "FailedIterationDurations: v4,",
  "}",
  "}"
]

def skel_stats_Total : List String := [
  "func (v0 *Stats) Total() Snapshot {",
  "_, v1 := v0.successfulIterationDurations.CollectLifetime()",
  "_, v2 := v0.failedIterationDurations.CollectLifetime()",
  "return Snapshot{",
  "DroppedIterationCount: v0.droppedIterationCount.Load(),",
  "SuccessfulIterationDurations: v1,",
  "FailedIterationDurations: v2,",
  "}",
  "}"
]

def skel_runner_Start : List String := [
  "func (v0 *Runner) Start(v1 context.Context) {",
  "v2, v3 := context.WithCancel(v1)",
  "v0.cancel = v3",
  "go func() {",
  "defer close(v0.stopped)",
  "for {",
  "select {",
  "case <-v0.restart:",
  "v0.schedules.startFirst()",
  "case <-v0.schedules.timeUntilNextSchedule():",
  "v0.schedules.startNext()",
  "case <-v0.schedules.currentScheduleTicker():",
  "verifhook.At(\"raterun.dispatch\")",
  "v0.runFunction(v0.schedules.currentFrequency())",
  "case <-v2.Done():",
  "v0.schedules.stop()",
  "return",
  "}",
  "}",
  "}()",
  "}"
]

def skel_runner_Stop : List String := [
  "func (v0 *Runner) Stop() {",
  "v0.cancel()",
  "<-v0.stopped",
  "}"
]

def skel_runner_Restart : List String := [
  "func (v0 *Runner) Restart() {",
  "v0.restart <- struct{}{}",
  "}"
]

def skel_schedules_start : List String := [
  "func (v0 *schedules) start(v1 int) {",
  "if v1 >= len(v0.list) {",
  "return",
  "}",
  "v0.ticker.Stop()",
  "v0.currentScheduleIndex = v1",
  "v0.ticker = time.NewTicker(v0.list[v0.currentScheduleIndex].Frequency)",
  "v2 := v0.currentScheduleIndex + 1",
  "v0.nextScheduleTimer.Stop()",
  "if v2 >= len(v0.list) {",
  "return",
  "}",
  "v0.nextScheduleTimer = time.NewTimer(v0.list[v2].StartDelay)",
  "}"
]

def skel_result_Failed : List String := [
  "func (v0 *Result) Failed() bool {",
  "v0.mu.RLock()",
  "defer v0.mu.RUnlock()",
  "verifhook.At(\"result.nested\")",
  "v1 := v0.runOptions",
  "return v0.Error() != nil ||",
  "(!v1.IgnoreDropped && v0.snapshot.DroppedIterationCount > 0) ||",
  "(v1.MaxFailures == 0 && v1.MaxFailuresRate == 0 && v0.snapshot.FailedIterationDurations.Count > 0) ||",
  "(v1.MaxFailures > 0 && v0.snapshot.FailedIterationDurations.Count > v1.MaxFailures) ||",
  "(v1.MaxFailuresRate > 0 &&",
  "v0.snapshot.FailedIterationDurations.Count*100 > uint64(v1.MaxFailuresRate)*v0.snapshot.Iterations())",
  "}"
]

def skel_result_Summary : List String := [
  "func (v0 *Result) Summary() *views.ViewContext[views.ResultData] {",
  "v0.mu.RLock()",
  "defer v0.mu.RUnlock()",
  "verifhook.At(\"result.nested\")",
  "return v0.views.Result(views.ResultData{",
  "SuccessfulIterationCount: v0.snapshot.SuccessfulIterationDurations.Count,",
  "DroppedIterationCount: v0.snapshot.DroppedIterationCount,",
  "FailedIterationCount: v0.snapshot.FailedIterationDurations.Count,",
  "SuccessfulIterationDurations: v0.snapshot.SuccessfulIterationDurations,",
  "Duration: v0.duration(),",
  "FailedIterationDurations: v0.snapshot.FailedIterationDurations,",
  "Error: v0.Error(),",
  "Failed: v0.Failed(),",
  "LogFilePath: v0.LogFilePath,",
  "Iterations: v0.snapshot.Iterations(),",
  "IterationsStarted: v0.snapshot.IterationsStarted(),",
  "})",
  "}"
]

def skel_result_Teardown : List String := [
  "func (v0 *Result) Teardown() *views.ViewContext[views.TeardownData] {",
  "v0.mu.RLock()",
  "defer v0.mu.RUnlock()",
  "verifhook.At(\"result.nested\")",
  "return v0.views.Teardown(views.TeardownData{",
  "Error: v0.Error(),",
  "})",
  "}"
]

def skel_result_Error : List String := [
  "func (v0 *Result) Error() error {",
  "v0.mu.RLock()",
  "defer v0.mu.RUnlock()",
  "if v0.errors == nil {",
  "return nil",
  "}",
  "if len(v0.errors) == 1 {",
  "return v0.errors[0]",
  "}",
  "v1 := make([]string, len(v0.errors))",
  "for v2 := range len(v0.errors) {",
  "v1[v2] = fmt.Sprintf(\"Error %d: %s\", v2, v0.errors[v2].Error())",
  "}",
  "return errors.New(strings.Join(v1, \"; \"))",
  "}"
]

def skel_result_SnapshotProgress : List String := [
  "func (v0 *Result) SnapshotProgress(v1 time.Duration) {",
  "v0.mu.Lock()",
  "defer v0.mu.Unlock()",
  "v0.snapshot = v0.progressStats.Snapshot(v1)",
  "}"
]

def skel_result_GetTotals : List String := [
  "func (v0 *Result) GetTotals() {",
  "v0.mu.Lock()",
  "defer v0.mu.Unlock()",
  "v0.snapshot = v0.progressStats.Total()",
  "}"
]

def skel_run_Do : List String := [
  "func (v0 *Run) Do(v1 context.Context) (*Result, error) {",
  "defer v0.scenarioLogger.Close()",
  "v2 := v0.views.Start(views.StartData{",
  "Scenario: v0.options.Scenario,",
  "MaxDuration: v0.options.MaxDuration,",
  "MaxIterations: v0.options.MaxIterations,",
  "RateDescription: v0.trigger.Description,",
  "})",
  "v0.output.Display(v2)",
  "defer v0.printSummary()",
  "v0.metrics.Reset()",
  "v0.activeScenario.Setup()",
  "v0.pushMetrics(v1)",
  "v3 := xcontext.Detach(v1)",
  "defer v0.teardownActiveScenario(v3)",
  "if v0.activeScenario.Failed() {",
  "return v0.reportSetupFailure(v1), nil",
  "}",
  "v0.result.RecordStarted()",
  "v4 := make(chan struct{})",
  "go func() {",
  "v5 := time.NewTicker(metricsRefreshInterval)",
  "defer v5.Stop()",
  "for {",
  "select {",
  "case <-v5.C:",
  "v0.pushMetrics(v1)",
  "case <-v1.Done():",
  "return",
  "case <-v4:",
  "return",
  "}",
  "}",
  "}()",
  "v0.progressRunner.Start(v1)",
  "v0.run(v1)",
  "v0.progressRunner.Stop()",
  "close(v4)",
  "v0.result.GetTotals()",
  "return v0.result, nil",
  "}"
]

def skel_run_run : List String := [
  "func (v0 *Run) run(v1 context.Context) {",
  "v2 := v0.options.MaxDuration",
  "if v0.trigger.Duration > 0 && v0.trigger.Duration < v0.options.MaxDuration {",
  "v2 = v0.trigger.Duration",
  "}",
  "v0.result.RecordStarted()",
  "defer v0.result.RecordTestFinished()",
  "v3, v4 := context.WithTimeout(v1, v2-nextIterationWindow)",
  "defer v4()",
  "v5 := workers.New(v0.options.MaxIterations, v0.activeScenario)",
  "v0.trigger.Trigger(v3, v0.output, v5, v0.options)",
  "select {",
  "case <-v1.Done():",
  "v0.output.Display(v0.result.Interrupted())",
  "v0.progressRunner.Restart()",
  "select {",
  "case <-v5.WaitForCompletion():",
  "case <-time.After(v0.waitForCompletionTimeout):",
  "v0.output.Display(ui.WarningMessage{",
  "Message: fmt.Sprintf(\"Active tests not completed after %s. Stopping...\", v0.waitForCompletionTimeout.String()),",
  "})",
  "}",
  "case <-v3.Done():",
  "if v3.Err() == context.DeadlineExceeded {",
  "v0.output.Display(v0.result.MaxDurationElapsed())",
  "} else {",
  "v0.output.Display(v0.result.Interrupted())",
  "}",
  "select {",
  "case <-v5.WaitForCompletion():",
  "case <-time.After(v0.waitForCompletionTimeout):",
  "v0.output.Display(ui.WarningMessage{",
  "Message: fmt.Sprintf(\"Active tests not completed after %s. Stopping...\", v0.waitForCompletionTimeout.String()),",
  "})",
  "}",
  "case <-v5.WaitForCompletion():",
  "if v5.MaxIterationsReached() {",
  "v0.output.Display(v0.result.MaxIterationsReached())",
  "}",
  "}",
  "}"
]

def skel_run_teardown : List String := [
  "func (v0 *Run) teardownActiveScenario(v1 context.Context) {",
  "v0.activeScenario.Teardown()",
  "if v0.activeScenario.TeardownFailed() {",
  "v0.fail(\"teardown failed\")",
  "}",
  "v0.pushMetrics(v1)",
  "v0.output.Display(v0.result.Teardown())",
  "}"
]

def skel_run_reportSetupFailure : List String := [
  "func (v0 *Run) reportSetupFailure(v1 context.Context) *Result {",
  "v0.fail(\"setup failed\")",
  "v0.pushMetrics(v1)",
  "v0.output.Display(v0.result.Setup())",
  "return v0.result",
  "}"
]

def skel_api_withRegularDistribution : List String := [
  "func withRegularDistribution(v0 time.Duration, v1 RateFunction) (time.Duration, RateFunction) {",
  "v2 := 100 * time.Millisecond",
  "if v0 <= v2 {",
  "return v0, v1",
  "}",
  "v3 := 0",
  "v4 := 0.0",
  "v5 := 0",
  "v6 := int(v0.Milliseconds() / v2.Milliseconds())",
  "v7 := func(v8 time.Time) int {",
  "if v5 == 0 {",
  "v3 = v1(v8)",
  "v4 = 0.0",
  "v5 = v6",
  "}",
  "v4 += float64(v3) / float64(v6)",
  "v4 = math.Ceil(v4*10_000_000) / 10_000_000",
  "v5--",
  "if v4 < 1 {",
  "return 0",
  "}",
  "v9 := int(v4)",
  "v4 -= float64(v9)",
  "return v9",
  "}",
  "return v2, v7",
  "}"
]

def skel_api_withRandomDistribution : List String := [
  "func withRandomDistribution(",
  "v0 time.Duration,",
  "v1 RateFunction,",
  "v2 func(int) int,",
  ") (time.Duration, RateFunction) {",
  "v3 := 100 * time.Millisecond",
  "if v0 <= v3 {",
  "return v0, v1",
  "}",
  "v4 := 0",
  "v5 := 0",
  "v6 := int(v0.Milliseconds() / v3.Milliseconds())",
  "v7 := func(v8 time.Time) int {",
  "if v4 == 0 {",
  "v5 = v1(v8)",
  "v4 = v6",
  "}",
  "var v9 int",
  "if v4 == 1 || v5 <= 0 {",
  "v9 = v5",
  "} else {",
  "v9 = v2(v5)",
  "if v9 > v5 {",
  "v9 = v5",
  "}",
  "}",
  "v5 -= v9",
  "v4--",
  "if v9 < 1 {",
  "return 0",
  "}",
  "return v9",
  "}",
  "return v3, v7",
  "}"
]

def skel_api_WithJitter : List String := [
  "func WithJitter(v0 RateFunction, v1 float64) RateFunction {",
  "v2 := 0.0",
  "if v1 == 0 {",
  "return v0",
  "}",
  "return func(v3 time.Time) int {",
  "v4 := 1 + (math.Cos(rand.Float64()*2*math.Pi))*v1/100",
  "v5 := float64(v0(v3)) + v2",
  "v6 := v5 * v4",
  "v7 := math.Max(0, math.Round(v6))",
  "v2 = v5 - v7",
  "return int(v7)",
  "}",
  "}"
]

def skel_api_NewIterationWorker : List String := [
  "func NewIterationWorker(v0 time.Duration, v1 RateFunction) WorkTriggerer {",
  "return func(v2 context.Context, _ *ui.Output, v3 *workers.PoolManager, v4 options.RunOptions) {",
  "v5 := v1(time.Now())",
  "v6 := v3.NewTriggerPool(v4.Concurrency)",
  "v7 := v6.Start(v2)",
  "v6.Trigger(v7, v5)",
  "v8 := time.NewTicker(v0)",
  "defer v8.Stop()",
  "for {",
  "select {",
  "case <-v7.Done():",
  "return",
  "case v9 := <-v8.C:",
  "v10 := v1(v9)",
  "v6.Trigger(v7, v10)",
  "}",
  "}",
  "}",
  "}"
]

def skel_file_newStagesWorker : List String := [
  "func newStagesWorker(v0 []runnableStage) api.WorkTriggerer {",
  "return func(v1 context.Context, v2 *ui.Output, v3 *workers.PoolManager, v4 options.RunOptions) {",
  "for _, v5 := range v0 {",
  "if v1.Err() != nil || v3.MaxIterationsReached() {",
  "return",
  "}",
  "runStage(v1, v2, v3, v5, v4)",
  "}",
  "}",
  "}"
]

def skel_file_runStage : List String := [
  "func runStage(",
  "v0 context.Context,",
  "v1 *ui.Output,",
  "v2 *workers.PoolManager,",
  "v3 runnableStage,",
  "v4 options.RunOptions,",
  ") {",
  "setEnvs(v3.Params, v1)",
  "defer unsetEnvs(v3.Params, v1)",
  "v5, v6 := context.WithTimeout(v0, v3.StageDuration-safeDurationBeforeNextStage)",
  "defer v6()",
  "v7 := make(chan struct{})",
  "go func() {",
  "defer close(v7)",
  "if v3.UsersConcurrency == 0 {",
  "v8 := api.NewIterationWorker(v3.IterationDuration, v3.Rate)",
  "v8(v5, v1, v2, v4)",
  "} else {",
  "v9 := users.NewWorker(v3.UsersConcurrency)",
  "v9(v5, v1, v2, v4)",
  "}",
  "}()",
  "select {",
  "case <-v0.Done():",
  "<-v7",
  "return",
  "case <-v7:",
  "time.Sleep(safeDurationBeforeNextStage)",
  "}",
  "}"
]

def skel_active_Run : List String := [
  "func (v0 *ActiveScenario) Run(v1 *iterationState) {",
  "defer v1.teardown()",
  "v2 := xtime.NanoTime()",
  "func() {",
  "defer testing.CheckResults(v1.t, nil)",
  "v0.scenario.RunFn(v1.t)",
  "}()",
  "v3 := v1.t.Failed()",
  "v4 := xtime.NanoTime() - v2",
  "v0.m.RecordIterationResult(v0.scenario.Name, metrics.Result(v3), v4)",
  "v0.progress.Record(metrics.Result(v3), v4)",
  "}"
]

def skel_active_Setup : List String := [
  "func (v0 *ActiveScenario) Setup() {",
  "v1 := xtime.NanoTime()",
  "func() {",
  "defer testing.CheckResults(v0.t, nil)",
  "v0.scenario.RunFn = v0.scenario.ScenarioFn(v0.t)",
  "}()",
  "v2 := xtime.NanoTime() - v1",
  "v0.m.RecordSetupResult(v0.scenario.Name, metrics.Result(v0.t.Failed()), v2)",
  "}"
]

def skel_active_RecordDropped : List String := [
  "func (v0 *ActiveScenario) RecordDroppedIteration() {",
  "v0.m.RecordIterationResult(v0.scenario.Name, metrics.DroppedResult, instantDuration)",
  "v0.progress.Record(metrics.DroppedResult, instantDuration)",
  "}"
]

def skel_cpool_Start : List String := [
  "func (v0 *ContinuousPool) Start(v1 context.Context) {",
  "v2, v3 := context.WithCancel(v1)",
  "v0.workerCtxCancel = v3",
  "v4 := sync.WaitGroup{}",
  "v4.Add(v0.numWorkers)",
  "v0.manager.runningWorkers.Add(v0.numWorkers)",
  "for _, v5 := range v0.iterationStatePool {",
  "go v0.startWorker(v5, &v4)",
  "}",
  "go func() {",
  "<-v2.Done()",
  "v0.stopWorkers.Store(true)",
  "}()",
  "}"
]

def skel_cpool_startWorker : List String := [
  "func (v0 *ContinuousPool) startWorker(",
  "v1 *iterationState,",
  "v2 *sync.WaitGroup,",
  ") {",
  "defer v0.manager.runningWorkers.Done()",
  "v2.Done()",
  "v2.Wait()",
  "for !v0.stopWorkers.Load() {",
  "v3, v4 := v0.manager.NextIteration()",
  "if v4 != nil {",
  "v0.maxIterationsReached()",
  "return",
  "}",
  "v1.t.Reset(strconv.FormatUint(v3, 10))",
  "v0.manager.activeScenario.Run(v1)",
  "}",
  "}"
]

def skel_manager_NextIteration : List String := [
  "func (v0 *PoolManager) NextIteration() (uint64, error) {",
  "v1 := v0.iteration.Add(1)",
  "if v0.maxIterations > 0 && v1 > v0.maxIterations {",
  "return 0, errMaxIterationsReached",
  "}",
  "return v1, nil",
  "}"
]

def skel_manager_MaxIterationsReached : List String := [
  "func (v0 *PoolManager) MaxIterationsReached() bool {",
  "if v0.maxIterations > 0 && v0.iteration.Load() > v0.maxIterations {",
  "return true",
  "}",
  "return false",
  "}"
]

def skel_manager_makeIterationStatePool : List String := [
  "func (v0 *PoolManager) makeIterationStatePool(v1 int) []*iterationState {",
  "v2 := make([]*iterationState, v1)",
  "for v3 := range v1 {",
  "v2[v3] = v0.activeScenario.newIterationState()",
  "}",
  "return v2",
  "}"
]

def skel_manager_WaitForCompletion : List String := [
  "func (v0 *PoolManager) WaitForCompletion() <-chan struct{} {",
  "v1 := make(chan struct{})",
  "go func() {",
  "defer close(v1)",
  "v0.runningWorkers.Wait()",
  "}()",
  "return v1",
  "}"
]

def skel_pool_Trigger : List String := [
  "func (v0 *TriggerPool) Trigger(v1 context.Context, v2 int) {",
  "if v1.Err() != nil {",
  "return",
  "}",
  "verifhook.At(\"pool.trigger.accepted\")",
  "v0.sendJobsForExecution(v2)",
  "}"
]

def skel_pool_Start : List String := [
  "func (v0 *TriggerPool) Start(v1 context.Context) context.Context {",
  "v0.manager.runningWorkers.Add(v0.numWorkers)",
  "v2 := sync.WaitGroup{}",
  "v2.Add(v0.numWorkers)",
  "v3, v4 := context.WithCancel(v1)",
  "v0.workerCtxCancel = v4",
  "for _, v5 := range v0.iterationStatePool {",
  "go v0.run(v5, &v2)",
  "}",
  "v2.Wait()",
  "go func() {",
  "<-v3.Done()",
  "v0.stop()",
  "}()",
  "return v3",
  "}"
]

def skel_pool_running : List String := [
  "func (v0 *TriggerPool) running() bool {",
  "return !v0.stopWorkers.Load()",
  "}"
]

def skel_pool_stop : List String := [
  "func (v0 *TriggerPool) stop() {",
  "v0.stopWorkers.Store(true)",
  "v0.sendJobsForExecution(0)",
  "}"
]

def skel_pool_maxIterationsReached : List String := [
  "func (v0 *TriggerPool) maxIterationsReached() {",
  "v0.jobsToExecute.set(0)",
  "verifhook.At(\"pool.limit.discarded\")",
  "v0.workerCtxCancel()",
  "}"
]

def skel_pool_sendJobs : List String := [
  "func (v0 *TriggerPool) sendJobsForExecution(v1 int) {",
  "v0.jobsAvailableCond.L.Lock()",
  "if v1 > 0 && !v0.running() {",
  "v0.jobsAvailableCond.L.Unlock()",
  "return",
  "}",
  "v2 := v0.manager.MaxIterationsReached()",
  "v3 := v0.jobsToExecute.set(v1)",
  "v0.jobsAvailableCond.Broadcast()",
  "v0.jobsAvailableCond.L.Unlock()",
  "if v2 {",
  "return",
  "}",
  "for range v3 {",
  "v0.manager.activeScenario.RecordDroppedIteration()",
  "}",
  "}"
]

def skel_pool_waitForNewJobs : List String := [
  "func (v0 *TriggerPool) waitForNewJobs() {",
  "v0.jobsAvailableCond.L.Lock()",
  "for v0.jobsToExecute.none() && v0.running() {",
  "v0.jobsAvailableCond.Wait()",
  "}",
  "v0.jobsAvailableCond.L.Unlock()",
  "}"
]

def skel_pool_run : List String := [
  "func (v0 *TriggerPool) run(",
  "v1 *iterationState,",
  "v2 *sync.WaitGroup,",
  ") {",
  "defer v0.manager.runningWorkers.Done()",
  "v2.Done()",
  "for v0.running() {",
  "if v0.jobsToExecute.none() {",
  "v0.waitForNewJobs()",
  "}",
  "verifhook.At(\"pool.worker.pretake\")",
  "if v0.jobsToExecute.take() {",
  "v3, v4 := v0.manager.NextIteration()",
  "if v4 != nil {",
  "v0.maxIterationsReached()",
  "return",
  "}",
  "v1.t.Reset(strconv.FormatUint(v3, 10))",
  "v0.manager.activeScenario.Run(v1)",
  "}",
  "}",
  "}"
]

def skel_jobCounter_set : List String := [
  "func (v0 *jobCounter) set(v1 int) int64 {",
  "return v0.num.Swap(int64(v1))",
  "}"
]

def skel_jobCounter_none : List String := [
  "func (v0 *jobCounter) none() bool {",
  "return v0.num.Load() <= 0",
  "}"
]

def skel_jobCounter_take : List String := [
  "func (v0 *jobCounter) take() bool {",
  "return v0.num.Add(-1) >= 0",
  "}"
]

def skel_f1_CombineScenarios : List String := [
  "func CombineScenarios(v0 ...testing.ScenarioFn) testing.ScenarioFn {",
  "return func(v1 *testing.T) testing.RunFn {",
  "var v2 []testing.RunFn",
  "for _, v3 := range v0 {",
  "v2 = append(v2, v3(v1))",
  "}",
  "return func(v4 *testing.T) {",
  "for _, v5 := range v2 {",
  "v5(v4)",
  "}",
  "}",
  "}",
  "}"
]

def skel_t_teardown : List String := [
  "func (v0 *T) teardown() {",
  "v0.tearingDown = true",
  "for v1 := len(v0.teardownStack) - 1; v1 >= 0; v1-- {",
  "func() {",
  "defer CheckResults(v0, nil)",
  "v0.teardownStack[v1]()",
  "}()",
  "}",
  "}"
]

def skel_t_Reset : List String := [
  "func (v0 *T) Reset(v1 string) {",
  "v0.Iteration = v1",
  "v0.failed.Store(false)",
  "v0.teardownFailed.Store(false)",
  "v0.tearingDown = false",
  "v0.teardownStack = []func(){}",
  "}"
]

def skel_t_Fail : List String := [
  "func (v0 *T) Fail() {",
  "if v0.tearingDown {",
  "v0.teardownFailed.Store(true)",
  "} else {",
  "v0.failed.Store(true)",
  "}",
  "}"
]

def skel_t_FailNow : List String := [
  "func (v0 *T) FailNow() {",
  "if v0.tearingDown {",
  "v0.teardownFailed.Store(true)",
  "} else {",
  "v0.failed.Store(true)",
  "}",
  "panic(errFailNow)",
  "}"
]

def skel_t_Time : List String := [
  "func (v0 *T) Time(v1 string, v2 func()) {",
  "v3 := time.Now()",
  "defer recordTime(v0, v1, v3)",
  "v2()",
  "}"
]

def skel_t_CheckResults : List String := [
  "func CheckResults(v0 *T, v1 chan<- struct{}) {",
  "handlePanic(v0, recover())",
  "if v1 != nil {",
  "v1 <- struct{}{}",
  "}",
  "}"
]

def skel_t_handlePanic : List String := [
  "func handlePanic(v0 *T, v1 any) {",
  "if v1 == nil {",
  "return",
  "}",
  "v2, v3 := v1.(error)",
  "switch {",
  "case v3 && errors.Is(v2, errFailNow):",
  "return",
  "case v3:",
  "v4 := debug.Stack()",
  "v0.logger.Error(\"recovered panic in scenario\",",
  "log.StackTraceAttr(v4),",
  "log.IterationAttr(v0.Iteration),",
  "log.ErrorAttr(v2),",
  ")",
  "v0.Fail()",
  "default:",
  "v5 := debug.Stack()",
  "v0.logger.Error(\"recovered panic in scenario\",",
  "log.StackTraceAttr(v5),",
  "log.IterationAttr(v0.Iteration),",
  "log.ErrorAnyAttr(v1),",
  ")",
  "v0.Fail()",
  "}",
  "}"
]

def tmpl_result : List String := [
  "",
  "{{if .Failed -}}",
  "{red}{bold}{u}Load Test Failed{-}",
  "{{- else -}}",
  "{green}{bold}{u}Load Test Passed{-}",
  "{{- end}}",
  "{{- if .Error}}",
  "{red}Error: {{.Error}}{-}",
  "{{- end}}",
  "{{.IterationsStarted}} iterations started in {{duration .Duration}} ({{rate .Duration .IterationsStarted}}/second)",
  "{{- if .SuccessfulIterationCount}}",
  "{bold}Successful Iterations:{-} {green}{{.SuccessfulIterationCount}} ({{percent .SuccessfulIterationCount .Iterations | printf \"%0.2f\"}}%, {{rate .Duration .SuccessfulIterationCount}}/second){-} {{.SuccessfulIterationDurations}}",
  "{{- end}}",
  "{{- if .FailedIterationCount}}",
  "{bold}Failed Iterations:{-} {red}{{.FailedIterationCount}} ({{percent .FailedIterationCount .Iterations | printf \"%0.2f\"}}%, {{rate .Duration .FailedIterationCount}}){-} {{.FailedIterationDurations}}",
  "{{- end}}",
  "{{- if .DroppedIterationCount}}",
  "{bold}Dropped Iterations:{-} {yellow}{{.DroppedIterationCount}} ({{percent .DroppedIterationCount .Iterations | printf \"%0.2f\"}}%, {{rate .Duration .DroppedIterationCount}}){-} (consider increasing --concurrency setting)",
  "{{- end}}",
  "{bold}Full logs:{-} {{.LogFilePath}}",
  ""
]

def tmpl_progress : List String := [
  "{cyan}[{{durationSeconds .Duration | printf \"%5s\"}}]{-}  {green}✔ {{printf \"%5d\" .SuccessfulIterationCount}}{-}  {{if .DroppedIterationCount}}{yellow}⦸ {{printf \"%5d\" .DroppedIterationCount}}{-}  {{end}}{red}✘ {{printf \"%5d\" .FailedIterationCount}}{-} {light_black}({{rate .Period .SuccessfulIterationDurationsForPeriod.Count}}/s){-}   {{.SuccessfulIterationDurationsForPeriod}}"
]

def const_nextIterationWindow : String := "10 * time.Millisecond"

def const_safeDurationBeforeNextStage : String := "20 * time.Millisecond"

def const_waitForCompletionTimeout : String := "10 * time.Second"

def missing : List String := []

end F1.Expected
