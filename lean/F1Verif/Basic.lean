def hello := "world"
