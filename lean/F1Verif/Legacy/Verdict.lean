/-
C08 — the verdict predicate as it was on the pinned tree (before the `fix:` commit for
D6/D7): the failed share is computed with a truncating integer division, which also
divides by zero when no iteration ran. Kept so that a regression to this shape is found
with a concrete input.
-/
import F1Verif.Model.Verdict
namespace F1.Verdict.Legacy
open F1.Verdict

/-- `Snapshot.FailedIterationsRate` : `failed*100 / iterations`, panics on 0. -/
def failedRate (c : Counts) : Option Nat :=
  if c.iterations = 0 then none else some (c.failed * 100 / c.iterations)

def verdictLegacy (hasErr : Bool) (o : Opts) (c : Counts) : Verdict :=
  if hasErr then .fail
  else if !o.ignoreDropped && decide (c.dropped > 0) then .fail
  else if decide (o.maxFailures = 0) && decide (o.maxFailuresRate = 0) && decide (c.failed > 0) then .fail
  else if decide (o.maxFailures > 0) && decide (c.failed > o.maxFailures) then .fail
  else if o.maxFailuresRate > 0 then
    match failedRate c with
    | none => .crash
    | some r => if (r : Int) > o.maxFailuresRate then .fail else .pass
  else .pass

/-- D6: zero iterations with a rate tolerance crashes. -/
theorem legacy_div_zero :
    verdictLegacy false ⟨false, 0, 5⟩ ⟨0, 0, 0⟩ = .crash := by decide

/-- D7: 1 failure in 17 (5.88 %) passes a 5 % tolerance. -/
theorem legacy_truncation :
    verdictLegacy false ⟨false, 0, 5⟩ ⟨16, 1, 0⟩ = .pass ∧ FailedSpec false ⟨false, 0, 5⟩ ⟨16, 1, 0⟩ := by
  decide

end F1.Verdict.Legacy
