/-
C14 — `ParseRate` and the random distribution's guard as they were on the pinned tree, with the
inputs on which they crash or misread (D8, D9, D10, D13). Kept so that a regression is reported
with a concrete input.
-/
import F1Verif.Model.Parse
namespace F1.Parse.Legacy
open F1.Parse

/-- pre-repair `ParseRate`: slices `unitArg[0:1]` without checking for an empty unit, prefixes "1" to
every unit that does not start with a digit, accepts any duration -/
def parseRateLegacy (s : Bytes) : Res (Int × Int) :=
  match indexOf 47 s with
  | some i =>
    match atoi (s.take i) with
    | none => .err
    | some rate =>
      if rate < 0 then .err else
      let unitArg := s.drop (i + 1)
      match unitArg with
      | [] => .crash                       -- slice bounds out of range [:1] with length 0
      | c :: _ =>
        let unitArg := if isDigit c then unitArg else 49 :: unitArg
        match parseDuration unitArg with
        | none => .err
        | some unit => .ok (rate, unit)
  | none =>
    match atoi s with
    | none => .err
    | some rate => if rate < 0 then .err else .ok (rate, 1000000000)

def b (s : String) : Bytes := s.toUTF8.toList.map UInt8.toNat

/-- D8: "5/" crashes -/
theorem legacy_rate_crash : parseRateLegacy [53, 47] = .crash := by decide
/-- D9: "1/0s" is accepted with a zero interval (the ticker then panics at run time) -/
theorem legacy_zero_interval : parseRateLegacy [49, 47, 48, 115] = .ok (1, 0) := by decide

end F1.Parse.Legacy
