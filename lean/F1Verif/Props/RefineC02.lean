/- C02 — the regenerated pending-jobs counter and the stop / limit paths of the trigger pool (see Props/RefineBase.lean for what a refinement theorem says and assumes) -/
import F1Verif.Props.RefineBase

namespace F1.Props.Refine
open F1.MiniGo F1.Generated.MG

/-! ### C02 — the pending-jobs counter -/

/-- `set n`: one swap; returns the old value -/
theorem jobCounter_set_refines (num n : Int) :
    observe (runFn noExt 0 jobCounter_set (State.ofVars [("recv.num", .int num), ("arg0", .int n)])) ["recv.num"] =
      some ([.int num], [some (.int n)]) := by
  simp [minigo, jobCounter_set]

/-- `none`: one load -/
theorem jobCounter_none_refines (num : Int) :
    observe (runFn noExt 0 jobCounter_none (State.ofVars [("recv.num", .int num)])) ["recv.num"] =
      some ([.bool (decide (num ≤ 0))], [some (.int num)]) := by
  simp [minigo, jobCounter_none]

/-- `take`: one add of −1; succeeds iff the new value is not negative -/
theorem jobCounter_take_refines (num : Int) :
    observe (runFn noExt 0 jobCounter_take (State.ofVars [("recv.num", .int num)])) ["recv.num"] =
      some ([.bool (decide (num - 1 ≥ 0))], [some (.int (num - 1))]) := by
  simp [minigo, jobCounter_take]
  minigo_close

theorem jobCounter_atomic :
    atomicOps jobCounter_set = ["swap recv.num"] ∧ atomicOps jobCounter_none = ["load recv.num"] ∧
    atomicOps jobCounter_take = ["add recv.num"] := by decide

/-- `stop`: the flag is raised first, then the pending jobs are taken out through `sendJobsForExecution(0)` -/
theorem pool_stop_order : atomicOps pool_stop = ["store recv.stopWorkers", "recv.sendJobsForExecution(…)"] := by decide

/-- the limit path: discard what is pending, then (after the yield point) cancel the workers' context -/
theorem pool_maxIterationsReached_order : atomicOps pool_maxIterationsReached =
    ["recv.jobsToExecute.set(…)", "hook pool.limit.discarded", "recv.workerCtxCancel"] := by decide

theorem pool_running_refines (stop : Bool) :
    observe (runFn noExt 0 pool_running (State.ofVars [("recv.stopWorkers", .bool stop)])) [] =
      some ([.bool (!stop)], []) := by
  simp [minigo, pool_running]


end F1.Props.Refine
