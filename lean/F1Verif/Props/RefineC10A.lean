/- C10 — the regenerated `RateCalculator.add` and `MaxDuration` (internal/trigger/staged/calculator.go): the stage list the
interpolation theorems are about (`Staged.chain`: every stage starts at the end target of the one before it, the first at 0)
is what `add` builds, one call per parsed stage; and the reported total duration is the sum of the stage durations (induction
over the stage slice). -/
import F1Verif.Props.RefineC10S

namespace F1.Props.Refine
open F1.MiniGo F1.Generated.MG F1.Staged

section build
variable {F : Type} [FloatLike F]

def addState (stages : List Stage) (s0 e d : Int) (sv : Val F) : State F :=
  ⟨[("arg0.StartTarget", .int s0), ("arg0.EndTarget", .int e), ("arg0.Duration", .int d), ("recv.stages", sv)], [], [], [],
   [("recv.stages", stages.map stageRec)]⟩

/-- the end target of the last stage added so far (0 when there is none): where the next stage starts -/
def lastEnd : List Stage → Int
  | [] => 0
  | [st] => st.e
  | _ :: rest => lastEnd rest

theorem lastEnd_getLast (stages : List Stage) (h : stages ≠ []) : lastEnd stages = (stages.getLast h).e := by
  induction stages with
  | nil => exact absurd rfl h
  | cons a l ih =>
    cases l with
    | nil => rfl
    | cons b l' => simpa [lastEnd] using ih (by simp)

/-- **the regenerated `add`**: whatever start target the parsed stage carried, the stage appended starts where the previous
one ends (at 0 when it is the first); its end target and duration are kept -/
theorem staged_add_refines (ext : Ext F) (stages : List Stage) (s0 e d : Int) (sv : Val F) (fuel : Nat) :
    exec ext fuel staged_add (addState stages s0 e d sv) =
      .normal ⟨[("arg0.StartTarget", .int (lastEnd stages)), ("arg0.EndTarget", .int e), ("arg0.Duration", .int d),
                ("recv.stages", .nonNil)], [], [], [],
               [("recv.stages", (stages ++ [(⟨lastEnd stages, e, d⟩ : Stage)]).map stageRec)]⟩ := by
  rcases hs : stages with _ | ⟨a, l⟩
  · simp [minigo, staged_add, addState, lastEnd, stageRec]
  · have hne : stages ≠ [] := by simp [hs]
    have hlast := lastEnd_getLast stages hne
    have hlen : ((a :: l).length : Int) - 1 = (l.length : Int) := by simp
    subst hs
    have hget : ∀ (h : l.length < (([("StartTarget", Val.int a.s), ("EndTarget", Val.int a.e), ("Duration", Val.int a.d)] : List (String × Val F)) ::
          List.map stageRec l).length),
        (([("StartTarget", Val.int a.s), ("EndTarget", Val.int a.e), ("Duration", Val.int a.d)] : List (String × Val F)) ::
          List.map stageRec l)[l.length] = stageRec ((a :: l).getLast (by simp)) := by
      intro h
      have : (List.map (stageRec (F := F)) (a :: l))[l.length]'(by simp) = stageRec ((a :: l).getLast (by simp)) := by
        rw [List.getElem_map]
        congr 1
        rw [List.getLast_eq_getElem]
        simp
      simpa [stageRec] using this
    have h0 : ¬ ((l.length : Int) + 1 = 0) := by omega
    have h1 : ¬ ((l.length : Int) < 0) := by omega
    simp [minigo, staged_add, addState, h0, h1, hget, hlast, stageRec]

/-- one `add` on the model side -/
def addStage (stages : List Stage) (p : Int × Int) : List Stage := stages ++ [⟨lastEnd stages, p.2, p.1⟩]

theorem lastEnd_append (stages : List Stage) (st : Stage) : lastEnd (stages ++ [st]) = st.e := by
  induction stages with
  | nil => rfl
  | cons a l ih =>
    cases l with
    | nil => rfl
    | cons b l' => simpa [lastEnd] using ih

theorem foldl_addStage_chain : ∀ (l : List (Int × Int)) (acc : List Stage),
    l.foldl addStage acc = acc ++ chain (lastEnd acc) l
  | [], acc => by simp [chain]
  | (d, t) :: rest, acc => by
    rw [List.foldl_cons, foldl_addStage_chain rest]
    simp [addStage, chain, lastEnd_append]

/-- **the stage list of a calculator** — `add` called once per parsed (duration, target) pair, in order, on an empty
calculator — is `Staged.mkStages`, the chained list the C10 theorems are about -/
theorem addRange_is_mkStages (l : List (Int × Int)) : l.foldl addStage [] = mkStages l := by
  rw [foldl_addStage_chain]; simp [mkStages, lastEnd]

/-! #### `MaxDuration` -/

def durLoop : Stmt :=
  (.while (.bin .lt (.var "$i0") (.var "$n0"))
  (.seq (.assign "stage.Duration" (.index "recv.stages" (.var "$i0") "Duration"))
  (.seq (.assign "maxDuration" (.bin .add (.var "maxDuration") (.var "stage.Duration")))
  (.assign "$i0" (.bin .add (.var "$i0") (.int 1))))))

def durState (stages : List Stage) (total : Int) (i : Int) (sd : Val F) : State F :=
  ⟨[("maxDuration", .int total), ("$n0", .int stages.length), ("$i0", .int i), ("stage.Duration", sd)], [], [], [],
   [("recv.stages", stages.map stageRec)]⟩

theorem durLoop_spec (ext : Ext F) : ∀ (rest pre : List Stage) (total : Int) (sd : Val F) (fuel : Nat), rest.length + 1 ≤ fuel →
    ∃ sd', exec ext fuel durLoop (durState (pre ++ rest) total pre.length sd) =
      .normal (durState (pre ++ rest) (total + (rest.map (·.d)).sum) (pre ++ rest).length sd')
  | [], pre, total, sd, fuel, hf => by
    obtain ⟨f, rfl⟩ : ∃ f, fuel = f + 1 := ⟨fuel - 1, by simp at hf; omega⟩
    exact ⟨sd, by simp [minigo, durLoop, durState]⟩
  | st :: rest, pre, total, sd, fuel, hf => by
    obtain ⟨f, rfl⟩ : ∃ f, fuel = f + 1 := ⟨fuel - 1, by simp at hf; omega⟩
    obtain ⟨sd', ih⟩ := durLoop_spec ext rest (pre ++ [st]) (total + st.d) (.int st.d) f (by simp at hf ⊢; omega)
    simp only [List.append_assoc, List.singleton_append, List.length_append, List.length_singleton] at ih
    refine ⟨sd', ?_⟩
    have h1 : (pre.length : Int) < pre.length + ((rest.length : Int) + 1) := by omega
    have h2 : ¬ ((pre.length : Int) < 0) := by omega
    simp [durLoop, durState, stageRec] at ih
    simp [minigo, durLoop, durState, stageRec, h1, h2]
    rw [ih]
    simp [Int.add_assoc]

/-- **the regenerated `MaxDuration`**: the reported total duration of a staged profile is the sum of its stage durations -/
theorem staged_MaxDuration_refines (ext : Ext F) (stages : List Stage) (l : List (Val F)) (fuel : Nat)
    (hf : stages.length + 1 ≤ fuel) :
    observe (runFn ext fuel staged_MaxDuration ⟨[("maxDuration", l.getD 0 .nil), ("$n0", l.getD 1 .nil), ("$i0", l.getD 2 .nil),
        ("stage.Duration", l.getD 3 .nil)], [], [], [], [("recv.stages", stages.map stageRec)]⟩) [] =
      some ([.int ((stages.map (·.d)).sum)], []) := by
  obtain ⟨sd', h⟩ := durLoop_spec ext stages [] 0 (l.getD 3 .nil) fuel hf
  simp [durLoop, durState] at h
  simp [minigo, staged_MaxDuration, h]

end build
end F1.Props.Refine
