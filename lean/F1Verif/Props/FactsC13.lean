/-
C13 — regenerated facts: the anchored functions still read as the model of C13 assumes.
`Generated.*` is rewritten from /repo's working tree on every run; `Expected.*` is what the model was written against.
-/
import F1Verif.Generated.Facts
import F1Verif.Expected
namespace F1.Props.FactsC13

theorem fact_api_WithJitter : F1.Generated.skel_api_WithJitter = F1.Expected.skel_api_WithJitter := by rfl

end F1.Props.FactsC13
