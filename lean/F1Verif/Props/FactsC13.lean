/-
C13 — regenerated facts: the anchored functions still read as the model of C13 assumes.
`Generated.*` is rewritten from /repo's working tree on every run; `Expected.*` is what the model was written against.
-/
import F1Verif.Generated.Facts
import F1Verif.Expected
namespace F1.Props.FactsC13

-- (api_WithJitter: re-proved semantically on the regenerated MiniGo programs, see Props/Refine*.lean)

theorem fact_constant_Calculate : F1.Generated.skel_constant_Calculate = F1.Expected.skel_constant_Calculate := by rfl
theorem fact_staged_Calculate : F1.Generated.skel_staged_Calculate = F1.Expected.skel_staged_Calculate := by rfl
theorem fact_ramp_Calculate : F1.Generated.skel_ramp_Calculate = F1.Expected.skel_ramp_Calculate := by rfl

end F1.Props.FactsC13
