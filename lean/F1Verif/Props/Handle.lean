/-
Lemmas and property theorems about `F1.Handle` shared by C06, C07 and C20.
-/
import F1Verif.Model.Handle

namespace F1.Props.Handle
open F1.Handle

def isBodyEv : Ev → Bool | .body _ _ => true | _ => false
def isSetupEv : Ev → Bool | .setup _ => true | _ => false

/-- the log events a program emits itself -/
def progLog (p : Prog) : List Ev :=
  (executed p).filterMap fun a => match a with | .log x => some (Ev.log x) | _ => none

theorem progLog_mem {p : Prog} {e : Ev} (h : e ∈ progLog p) : ∃ x, e = Ev.log x := by
  unfold progLog at h
  rw [List.mem_filterMap] at h
  obtain ⟨a, _, ha⟩ := h
  cases a <;> simp at ha
  exact ⟨_, ha.symm⟩

theorem progLog_noCleanup (p : Prog) : cleanupIds (progLog p) = [] := by
  unfold cleanupIds
  rw [List.filterMap_eq_nil_iff]
  intro e he
  obtain ⟨x, rfl⟩ := progLog_mem he
  rfl

theorem progLog_noBody (p : Prog) : (progLog p).filter isBodyEv = [] := by
  rw [List.filter_eq_nil_iff]
  intro e he
  obtain ⟨x, rfl⟩ := progLog_mem he
  simp [isBodyEv]

/-- routed failure mark -/
def T.markIf (t : T) (b : Bool) : T := if b then t.mark else t

theorem mark_mark (t : T) : t.mark.mark = t.mark := by
  unfold T.mark; cases h : t.tearingDown <;> simp [h]

theorem mark_stack (t : T) : t.mark.stack = t.stack := by unfold T.mark; split <;> rfl
theorem mark_tearing (t : T) : t.mark.tearingDown = t.tearingDown := by unfold T.mark; split <;> rfl

/-- Everything `exec` does, in closed form: the registered cleanups are appended in order, the
failure mark is set iff the executed part marks one, the program's own log events are appended,
and "stopped" is exactly "the program contains a stopping action". -/
theorem exec_spec (p : Prog) : ∀ (t : T) (l : List Ev),
    exec p t l = (T.markIf { t with stack := t.stack ++ registered p } (marksFailure p), l ++ progLog p, p.stops) := by
  induction p with
  | nil => intro t l; simp [exec, registered, executed, marksFailure, progLog, Prog.stops, T.markIf]
  | cons a rest ih =>
    intro t l
    cases a with
    | reg c =>
      simp only [exec, ih]
      simp [registered, executed, Act.stops, marksFailure, Act.marks, progLog, Prog.stops, List.append_assoc]
    | fail =>
      simp only [exec, ih]
      simp only [registered, executed, Act.stops, marksFailure, Act.marks, progLog, Prog.stops, T.markIf,
        List.any_cons, Bool.true_or, if_true, List.filterMap_cons, Bool.false_eq_true, if_false, Bool.false_or]
      refine Prod.ext ?_ rfl
      simp only
      cases t with | mk f tf td st =>
      cases td <;> by_cases hb : List.any (executed rest) Act.marks = true <;> simp [T.mark, hb]
    | error =>
      simp only [exec, ih]
      simp only [registered, executed, Act.stops, marksFailure, Act.marks, progLog, Prog.stops, T.markIf,
        List.any_cons, Bool.true_or, if_true, List.filterMap_cons, Bool.false_eq_true, if_false, Bool.false_or]
      refine Prod.ext ?_ rfl
      simp only
      cases t with | mk f tf td st =>
      cases td <;> by_cases hb : List.any (executed rest) Act.marks = true <;> simp [T.mark, hb]
    | failNow => simp [exec, registered, executed, Act.stops, marksFailure, Act.marks, progLog, Prog.stops, T.markIf]
    | fatal => simp [exec, registered, executed, Act.stops, marksFailure, Act.marks, progLog, Prog.stops, T.markIf]
    | require => simp [exec, registered, executed, Act.stops, marksFailure, Act.marks, progLog, Prog.stops, T.markIf]
    | panic k => simp [exec, registered, executed, Act.stops, marksFailure, Act.marks, progLog, Prog.stops, T.markIf]
    | log x =>
      simp only [exec, ih]
      simp [registered, executed, Act.stops, marksFailure, Act.marks, progLog, Prog.stops, List.append_assoc]

theorem markIf_stack (t : T) (b : Bool) : (T.markIf t b).stack = t.stack := by
  unfold T.markIf; split
  · exact mark_stack t
  · rfl

theorem markIf_tearing (t : T) (b : Bool) : (T.markIf t b).tearingDown = t.tearingDown := by
  unfold T.markIf; split
  · exact mark_tearing t
  · rfl

theorem markIf_failed_body (t : T) (b : Bool) (h : t.tearingDown = false) :
    (T.markIf t b).failed = (t.failed || b) ∧ (T.markIf t b).teardownFailed = t.teardownFailed := by
  unfold T.markIf T.mark; cases b <;> simp [h]

theorem markIf_failed_td (t : T) (b : Bool) (h : t.tearingDown = true) :
    (T.markIf t b).failed = t.failed ∧ (T.markIf t b).teardownFailed = (t.teardownFailed || b) := by
  unfold T.markIf T.mark; cases b <;> simp [h]

/-! ### teardown -/

/-- `teardownFrom`: every listed cleanup runs exactly once, in list order — whatever the cleanups do
(fail, FailNow, panic) — the iteration's own `failed` flag is untouched, and the teardown-failed
flag is set iff some cleanup marks a failure. -/
theorem teardownFrom_spec (cl : Nat → Prog) : ∀ (cs : List Nat) (t : T) (l : List Ev),
    t.tearingDown = true →
    cleanupIds (teardownFrom cl cs t l).2 = cleanupIds l ++ cs ∧
    (teardownFrom cl cs t l).1.failed = t.failed ∧
    (teardownFrom cl cs t l).1.teardownFailed = (t.teardownFailed || cs.any fun c => marksFailure (cl c)) ∧
    (teardownFrom cl cs t l).2.filter isBodyEv = l.filter isBodyEv ∧
    ∃ seg, (teardownFrom cl cs t l).2 = l ++ seg := by
  intro cs
  induction cs with
  | nil => intro t l _; simp [teardownFrom]
  | cons c cs ih =>
    intro t l ht
    simp only [teardownFrom, exec_spec]
    have ht' : (T.markIf { t with stack := t.stack ++ registered (cl c) } (marksFailure (cl c))).tearingDown = true := by
      rw [markIf_tearing]; exact ht
    obtain ⟨i1, i2, i3, i4, seg, i5⟩ := ih _ (l ++ [Ev.cleanup c] ++ progLog (cl c)) ht'
    have hm := markIf_failed_td { t with stack := t.stack ++ registered (cl c) } (marksFailure (cl c)) ht
    refine ⟨?_, ?_, ?_, ?_, ?_⟩
    · rw [i1]
      have : cleanupIds (l ++ [Ev.cleanup c] ++ progLog (cl c)) = cleanupIds l ++ [c] := by
        have h := progLog_noCleanup (cl c)
        unfold cleanupIds at *
        simp [List.filterMap_append, h]
      rw [this]; simp
    · rw [i2, hm.1]
    · rw [i3, hm.2]; simp [Bool.or_assoc]
    · rw [i4]
      have h := progLog_noBody (cl c)
      simp [List.filter_append, h, isBodyEv]
    · exact ⟨[Ev.cleanup c] ++ progLog (cl c) ++ seg, by rw [i5]; simp [List.append_assoc]⟩

theorem teardown_spec (cl : Nat → Prog) (t : T) (l : List Ev) :
    cleanupIds (teardown cl t l).2 = cleanupIds l ++ t.stack.reverse ∧
    (teardown cl t l).1.failed = t.failed ∧
    (teardown cl t l).1.teardownFailed = (t.teardownFailed || t.stack.reverse.any fun c => marksFailure (cl c)) ∧
    (teardown cl t l).2.filter isBodyEv = l.filter isBodyEv ∧
    ∃ seg, (teardown cl t l).2 = l ++ seg := by
  unfold teardown
  exact teardownFrom_spec cl t.stack.reverse { t with tearingDown := true } l rfl

/-! ### a (combined) body -/

/-- ids registered by the components that run, in order -/
def compsRegistered (ps : List Prog) : List Nat := (executedComps ps).flatMap registered

def compsMark (ps : List Prog) : Bool := (executedComps ps).any marksFailure

/-- component indices that run: `k, k+1, …` up to and including the first that stops -/
def ranIdx (ps : List Prog) (k : Nat) : List Nat := (List.range (executedComps ps).length).map (· + k)

theorem execComps_spec (mk : Nat → Ev) (hmk : ∀ k, (match mk k with | .cleanup _ => false | _ => true) = true) :
    ∀ (ps : List Prog) (k : Nat) (t : T) (l : List Ev), t.tearingDown = false →
    (execComps mk ps k t l).1.stack = t.stack ++ compsRegistered ps ∧
    (execComps mk ps k t l).1.failed = (t.failed || compsMark ps) ∧
    (execComps mk ps k t l).1.tearingDown = false ∧
    (execComps mk ps k t l).1.teardownFailed = t.teardownFailed ∧
    cleanupIds (execComps mk ps k t l).2.1 = cleanupIds l ∧
    (∃ seg, (execComps mk ps k t l).2.1 = l ++ seg) := by
  intro ps
  induction ps with
  | nil => intro k t l ht; simp [execComps, compsRegistered, executedComps, compsMark, ht]
  | cons p ps ih =>
    intro k t l ht
    simp only [execComps, exec_spec]
    have hmk' : cleanupIds (l ++ [mk k] ++ progLog p) = cleanupIds l := by
      have h := progLog_noCleanup p
      have := hmk k
      unfold cleanupIds at *
      simp only [List.filterMap_append, h, List.append_nil]
      cases hk : mk k <;> simp_all
    have hm := markIf_failed_body { t with stack := t.stack ++ registered p } (marksFailure p) ht
    by_cases hs : p.stops = true
    · simp only [hs, if_true]
      refine ⟨?_, ?_, ?_, ?_, hmk', ⟨[mk k] ++ progLog p, by simp [List.append_assoc]⟩⟩
      · rw [markIf_stack]; simp [compsRegistered, executedComps, hs]
      · rw [hm.1]; simp [compsMark, executedComps, hs]
      · rw [markIf_tearing]; exact ht
      · rw [hm.2]
    · have hs' : p.stops = false := by simpa using hs
      simp only [hs', Bool.false_eq_true, if_false]
      have ht' : (T.markIf { t with stack := t.stack ++ registered p } (marksFailure p)).tearingDown = false := by
        rw [markIf_tearing]; exact ht
      obtain ⟨i1, i2, i3, i4, i5, seg, i6⟩ := ih (k + 1) _ (l ++ [mk k] ++ progLog p) ht'
      refine ⟨?_, ?_, i3, ?_, ?_, ⟨[mk k] ++ progLog p ++ seg, by rw [i6]; simp [List.append_assoc]⟩⟩
      · rw [i1, markIf_stack]; simp [compsRegistered, executedComps, hs', List.append_assoc]
      · rw [i2, hm.1]; simp [compsMark, executedComps, hs', Bool.or_assoc]
      · rw [i4, hm.2]
      · rw [i5, hmk']

/-! ### one iteration -/

theorem body_not_cleanup (iter : Nat) : ∀ k, (match Ev.body iter k with | .cleanup _ => false | _ => true) = true := by
  intro k; rfl

theorem setup_not_cleanup : ∀ k, (match Ev.setup k with | .cleanup _ => false | _ => true) = true := by
  intro k; rfl

/-- C06: the cleanups registered by an iteration's body run exactly once each, in reverse
registration order, after the body — for every body (failing, stopping, panicking) and every
behaviour of the cleanups themselves. -/
theorem C06_iter_cleanups (cl : Nat → Prog) (bodies : List Prog) (iter : Nat) (t : T) (l : List Ev) :
    cleanupIds (runIter cl bodies iter t l).2.1 = cleanupIds l ++ (compsRegistered bodies).reverse := by
  unfold runIter
  simp only
  obtain ⟨e1, e2, e3, e4, e5, _⟩ := execComps_spec (Ev.body iter) (body_not_cleanup iter) bodies 0 t.reset l rfl
  obtain ⟨t1, _, _, _, _⟩ := teardown_spec cl (execComps (Ev.body iter) bodies 0 t.reset l).1
    (execComps (Ev.body iter) bodies 0 t.reset l).2.1
  unfold cleanupIds at *
  rw [List.filterMap_append, t1, e5, e1]
  simp [T.reset]

/-- C07: an iteration is reported failed iff the part of its body that executes marks a failure
(Fail, Error*, FailNow, Fatal*, a failed assertion, or a panic with any value); the handle's
previous state and whatever its cleanups do have no influence. -/
theorem C07_classified (cl : Nat → Prog) (bodies : List Prog) (iter : Nat) (t : T) (l : List Ev) :
    (runIter cl bodies iter t l).2.2 = compsMark bodies := by
  unfold runIter
  simp only
  obtain ⟨_, e2, _⟩ := execComps_spec (Ev.body iter) (body_not_cleanup iter) bodies 0 t.reset l rfl
  rw [e2]; simp [T.reset]

theorem C07_independent (cl : Nat → Prog) (bodies : List Prog) (iter : Nat) (t t' : T) (l l' : List Ev) :
    (runIter cl bodies iter t l).2.2 = (runIter cl bodies iter t' l').2.2 := by
  rw [C07_classified, C07_classified]

/-- C07 (containment): whatever state the previous iteration left on the worker's handle, the next
body starts with a clean one -/
theorem C07_contained (t : T) : t.reset.failed = false ∧ t.reset.teardownFailed = false ∧
    t.reset.tearingDown = false ∧ t.reset.stack = [] := by
  simp [T.reset]

/-- C06: everything an iteration does — body events, then its cleanups — is appended to the log
before the marker that the worker is free again, so it precedes the same worker's next body. -/
theorem C06_before_next (cl : Nat → Prog) (bodies : List Prog) (iter : Nat) (t : T) (l : List Ev) :
    ∃ bodySeg tdSeg, (runIter cl bodies iter t l).2.1 = l ++ bodySeg ++ tdSeg ++ [Ev.ran iter] ∧
      cleanupIds bodySeg = [] ∧ tdSeg.filter isBodyEv = [] := by
  unfold runIter
  simp only
  obtain ⟨_, _, _, _, e5, seg, e6⟩ := execComps_spec (Ev.body iter) (body_not_cleanup iter) bodies 0 t.reset l rfl
  obtain ⟨_, _, _, t4, seg2, t5⟩ := teardown_spec cl (execComps (Ev.body iter) bodies 0 t.reset l).1
    (execComps (Ev.body iter) bodies 0 t.reset l).2.1
  refine ⟨seg, seg2, by rw [t5, e6], ?_, ?_⟩
  · rw [e6] at e5
    unfold cleanupIds at *
    rw [List.filterMap_append] at e5
    exact List.append_cancel_left (by rw [e5]; simp)
  · rw [t5, List.filter_append] at t4
    exact List.append_cancel_left (by rw [t4]; simp)

/-! ### the whole run of one worker -/

theorem iterate_outcomes (sc : Scenario) : ∀ (n i : Nat) (t : T) (l : List Ev) (o : List Bool),
    (iterate sc n i t l o).2 = o ++ (List.range n).map fun j => compsMark (sc.bodies (i + j)) := by
  intro n
  induction n with
  | zero => intro i t l o; simp [iterate]
  | succ n ih =>
    intro i t l o
    simp only [iterate, ih, C07_classified]
    rw [List.range_succ_eq_map]
    simp [List.append_assoc, Nat.add_assoc, Nat.add_comm 1]

/-- C07 over a whole per-worker history: the outcome reported for iteration `j` is determined by
body `j` alone. -/
theorem C07_history (sc : Scenario) (iters : Nat) (h : (runAll sc iters).setupFailed = false) :
    (runAll sc iters).outcomes = (List.range iters).map fun j => compsMark (sc.bodies (1 + j)) := by
  unfold runAll at *
  simp only at h ⊢
  simp only [h, Bool.false_eq_true, if_false]
  rw [iterate_outcomes]; simp

/-- C06: a setup that fails or panics ⇒ no iteration ever runs and the run reports setup failed -/
theorem C06_setup_failure (sc : Scenario) (iters : Nat) (h : compsMark sc.setups = true) :
    (runAll sc iters).setupFailed = true ∧ (runAll sc iters).outcomes = [] ∧
    (runAll sc iters).log.filter isBodyEv = [] := by
  obtain ⟨_, e2, _, _, _, seg, e6⟩ := execComps_spec Ev.setup setup_not_cleanup sc.setups 0 {} [] rfl
  have hf : (execComps Ev.setup sc.setups 0 {} []).1.failed = true := by rw [e2, h]; simp
  unfold runAll
  simp only [hf, if_true]
  refine ⟨trivial, trivial, ?_⟩
  obtain ⟨_, _, _, t4, _⟩ := teardown_spec sc.cleanups (execComps Ev.setup sc.setups 0 {} []).1
    ((execComps Ev.setup sc.setups 0 {} []).2.1 ++ [Ev.teardown])
  rw [t4]
  -- no body events among the setup events
  have : ∀ (ps : List Prog) (k : Nat) (t : T) (l : List Ev), l.filter isBodyEv = [] →
      (execComps Ev.setup ps k t l).2.1.filter isBodyEv = [] := by
    intro ps
    induction ps with
    | nil => intro k t l hl; simpa [execComps] using hl
    | cons p ps ih =>
      intro k t l hl
      simp only [execComps, exec_spec]
      have h2 : (l ++ [Ev.setup k] ++ progLog p).filter isBodyEv = [] := by
        simp [List.filter_append, hl, progLog_noBody, isBodyEv]
      split
      · exact h2
      · exact ih _ _ _ h2
  simp [List.filter_append, this sc.setups 0 {} [] rfl, isBodyEv]

/-- C06: the cleanups registered during setup run exactly once each, in reverse registration
order, after the teardown marker (i.e. after every iteration of the worker has finished), and
a failure inside them is reported as teardown failed. -/
theorem C06_teardown_last (sc : Scenario) (iters : Nat) :
    ∃ before after, (runAll sc iters).log = before ++ [Ev.teardown] ++ after ∧
      cleanupIds after = (compsRegistered sc.setups).reverse ∧ after.filter isBodyEv = [] ∧
      (runAll sc iters).teardownFailed =
        (compsRegistered sc.setups).reverse.any fun c => marksFailure (sc.cleanups c) := by
  obtain ⟨e1, _, _, e4, _⟩ := execComps_spec Ev.setup setup_not_cleanup sc.setups 0 {} [] rfl
  unfold runAll
  simp only
  generalize hit : (if (execComps Ev.setup sc.setups 0 {} []).1.failed = true then
      ((execComps Ev.setup sc.setups 0 {} []).2.1, ([] : List Bool))
    else iterate sc iters 1 {} (execComps Ev.setup sc.setups 0 {} []).2.1 []) = it
  obtain ⟨t1, _, t3, t4, seg, t5⟩ := teardown_spec sc.cleanups (execComps Ev.setup sc.setups 0 {} []).1
    (it.1 ++ [Ev.teardown])
  refine ⟨it.1, seg, t5, ?_, ?_, ?_⟩
  · rw [t5] at t1
    unfold cleanupIds at *
    rw [List.filterMap_append, e1] at t1
    have := List.append_cancel_left t1
    simpa using this
  · rw [t5, List.filter_append] at t4
    exact List.append_cancel_left (by rw [t4]; simp)
  · rw [t3, e4, e1]; simp

/-! ### order of components (C20) -/

theorem execComps_order (mk : Nat → Ev) (idx : Ev → Option Nat)
    (h1 : ∀ j, idx (mk j) = some j) (h2 : ∀ x, idx (Ev.log x) = none) :
    ∀ (ps : List Prog) (k : Nat) (t : T) (l : List Ev),
    (execComps mk ps k t l).2.1.filterMap idx = l.filterMap idx ++ ranIdx ps k := by
  have hlog : ∀ p : Prog, (progLog p).filterMap idx = [] := by
    intro p
    rw [List.filterMap_eq_nil_iff]
    intro e he
    obtain ⟨x, rfl⟩ := progLog_mem he
    exact h2 x
  intro ps
  induction ps with
  | nil => intro k t l; simp [execComps, ranIdx, executedComps]
  | cons p ps ih =>
    intro k t l
    simp only [execComps, exec_spec]
    by_cases hs : p.stops = true
    · simp only [hs, if_true]
      simp [List.filterMap_append, hlog, h1, ranIdx, executedComps, hs]
    · have hs' : p.stops = false := by simpa using hs
      simp only [hs', Bool.false_eq_true, if_false]
      rw [ih]
      simp only [List.filterMap_append, hlog, List.append_nil, List.filterMap_cons, h1, List.filterMap_nil,
        ranIdx, executedComps, hs', Bool.false_eq_true, if_false, List.length_cons]
      rw [List.range_succ_eq_map]
      simp [List.append_assoc, Nat.add_assoc, Nat.add_comm 1]

def setupIdx : Ev → Option Nat | .setup k => some k | _ => none
def bodyIdx (iter : Nat) : Ev → Option Nat | .body i k => if i = iter then some k else none | _ => none

end F1.Props.Handle
