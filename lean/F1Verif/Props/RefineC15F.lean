/- C15 / C03 / C06 — configuration plumbing, regenerated: the `New` closure of the file trigger's builder (the limits of a
config file become the options of the run, one to one) and `run.NewRun` (what a run is wired from). -/
import F1Verif.Props.RefineBase

namespace F1.Props.Refine
open F1.MiniGo F1.Generated.MG

/-- the fields of the parsed plan are projections (each one a value of its own); the two builders answer with a value that
tells which stages they were handed -/
def fileNewExt (readErr parseErr : Bool) : Ext Rat := fun f _ args =>
  if f = "carg0.Arg" then .ref 1
  else if f = "readFile" then (if args.head? = some (.int 0) then .ref 2 else if readErr then .ref 90 else .nil)
  else if f = "ParseConfigFile" then (if args.head? = some (.int 0) then .ref 3 else if parseErr then .ref 91 else .nil)
  else if f = "newStagesWorker" then (if args = [.ref 30] then .ref 230 else .nil)
  else if f = "newDryRun" then (if args = [.ref 30] then .ref 330 else .nil)
  else if args ≠ [.ref 3] then .nil
  else if f = "Stages" then .ref 30
  else if f = "stagesTotalDuration" then .ref 31
  else if f = "Scenario" then .ref 32
  else if f = "MaxDuration" then .ref 33
  else if f = "Concurrency" then .ref 34
  else if f = "MaxIterations" then .ref 35
  else if f = "maxFailures" then .ref 36
  else if f = "maxFailuresRate" then .ref 37
  else if f = "IgnoreDropped" then .ref 38
  else .nil

/-- (the number of kept stages only goes into the description text) -/
def fileNewState : State Rat := ⟨[("arg0", .ref 0), ("carg0", .ref 5)], [], [], [], [("runnableStages.Stages", [[], []])]⟩

/-- **the regenerated `New` of the file trigger** (C15: "the limits mapped one-to-one onto the run options", C03n): the file
named by the first argument is read, then parsed; an error of either is returned as it is and nothing is built; otherwise
the trigger and the dry run are built from the *same* kept stages, the trigger's duration is the plan's total duration, and
every option is the plan's field of the same meaning — scenario, max-duration, concurrency, **max-iterations**, max-failures,
max-failures-rate, ignore-dropped — each one copied, none computed from another -/
theorem file_New_refines (readErr parseErr : Bool) :
    observe (runFn (fileNewExt readErr parseErr) 0 file_New_body fileNewState)
        (if readErr ∨ parseErr then [] else
          ["$ret.Trigger", "$ret.DryRun", "$ret.Duration", "$ret.Options.Scenario", "$ret.Options.MaxDuration",
           "$ret.Options.Concurrency", "$ret.Options.MaxIterations", "$ret.Options.MaxFailures", "$ret.Options.MaxFailuresRate",
           "$ret.Options.IgnoreDropped"]) =
      some (if readErr then [.nil, .ref 90] else if parseErr then [.nil, .ref 91] else [.nonNil, .nil],
        if readErr ∨ parseErr then [] else
          [some (.ref 230), some (.ref 330), some (.ref 31), some (.ref 32), some (.ref 33), some (.ref 34), some (.ref 35),
           some (.ref 36), some (.ref 37), some (.ref 38)]) ∧
    observeC (runFn (fileNewExt readErr parseErr) 0 file_New_body fileNewState) []
        ["readFile", "ParseConfigFile", "newStagesWorker", "newDryRun"] =
      some (if readErr then [.nil, .ref 90] else if parseErr then [.nil, .ref 91] else [.nonNil, .nil], [],
        if readErr then [1, 0, 0, 0] else if parseErr then [1, 1, 0, 0] else [1, 1, 1, 1]) := by
  cases readErr <;> cases parseErr <;> simp [minigo, file_New_body, fileNewExt, fileNewState]

/-! `NewRun` -/

def newRunExt (known progErr : Bool) : Ext Rat := fun f _ args =>
  if f = "views.New" then .ref 20
  else if f = "arg1.GetScenario" then (if known then .ref 21 else .nil)
  else if f = "NewResult" then .ref 22
  else if f = "ui.NewOutput" then .ref 23
  else if f = "NewScenarioLogger" then .ref 24
  else if f = "scenarioLogger.Open" then .ref 25
  else if f = "newProgressRunner" then (if args.head? = some (.int 0) then .ref 26 else if progErr then .nonNil else .nil)
  else if f = "workers.NewActiveScenario" then .ref 27
  else if f = "newMetricsPusher" then .ref 28
  else .nil

def newRunState : State Rat :=
  State.ofVars [("arg0", .ref 0), ("arg0.Scenario", .ref 1), ("arg0.LogToFile()", .bool true), ("arg1", .ref 2), ("arg2", .ref 3),
    ("arg3", .int 10000), ("arg4", .ref 4), ("arg4.Log.FilePath", .ref 5), ("arg5", .ref 6), ("arg6.Printer", .ref 7),
    ("arg6.Interactive", .bool false), ("scenario.Name", .ref 8), ("scenarioLogger.Logger", .ref 9)]

/-- **the regenerated `NewRun`** (what a run is wired from; C06n: the completion timeout): an unknown scenario is an error and
nothing is created; otherwise the result is built from the options, the views and a new statistics object, the progress
runner from that result and the run's own output, the active scenario from the scenario, **the caller's metrics instance**,
the same statistics object and the scenario logger, the pusher from the settings and the same metrics instance; the `Run`
holds exactly these, the options and the trigger it was given, and **the completion timeout it was given** -/
theorem run_NewRun_refines (known progErr : Bool) :
    observe (runFn (newRunExt known progErr) 0 run_NewRun newRunState)
        (if known ∧ ¬progErr then ["$ret.options", "$ret.trigger", "$ret.metrics", "$ret.views", "$ret.result", "$ret.pusher",
          "$ret.output", "$ret.progressRunner", "$ret.activeScenario", "$ret.scenarioLogger", "$ret.waitForCompletionTimeout"] else []) =
      some (if known ∧ ¬progErr then [.nonNil, .nil] else [.nil, .nonNil],
        if known ∧ ¬progErr then [some (.ref 0), some (.ref 3), some (.ref 6), some (.ref 20), some (.ref 22), some (.ref 28),
          some (.ref 23), some (.ref 26), some (.ref 27), some (.ref 24), some (.int 10000)] else []) ∧
    (match runFn (newRunExt known progErr) 0 run_NewRun newRunState with
     | .ok (_, s) =>
        if known then
          lookup "NewResult" s.arrs = some [[("0", Val.ref 0), ("1", Val.ref 20), ("2", Val.nonNil)]] ∧
          lookup "newProgressRunner" s.arrs = some [[("0", Val.ref 22), ("1", Val.ref 23)]] ∧
          (progErr = false →
            lookup "workers.NewActiveScenario" s.arrs =
              some [[("0", Val.ref 21), ("1", Val.ref 6), ("2", Val.nonNil), ("3", Val.ref 9), ("4", Val.nil)]] ∧
            lookup "newMetricsPusher" s.arrs = some [[("0", Val.ref 4), ("1", Val.ref 8), ("2", Val.ref 6)]])
        else lookup "NewResult" s.arrs = none
     | .error _ => False) := by
  cases known <;> cases progErr <;> simp [minigo, run_NewRun, newRunState, newRunExt]

end F1.Props.Refine
