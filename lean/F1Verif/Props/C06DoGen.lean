/-
C06 (placement) on the model REGENERATED from the source: `Generated.doBody` is produced by the translator in
/verif/facts from the statement list of `Run.Do` in the current /repo working tree on every run. The lifecycle
clauses are re-proved on it — so a harmless edit of `Do` (a new log line, renamed locals, a reordering that keeps the
lifecycle) still passes, while moving the teardown, dropping a defer or running iterations after a failed setup
does not.
-/
import F1Verif.Model.Lifecycle
import F1Verif.Generated.DoBody

namespace F1.Props.C06DoGen
open F1.Lifecycle

/-- both executions of the regenerated `Do` satisfy the lifecycle clauses -/
theorem C06_generated_do_lifecycle :
    lifecycleOk false (exec false F1.Generated.doBody [] []) = true ∧
    lifecycleOk true (exec true F1.Generated.doBody [] []) = true := by decide

/-- what the checker means (for any trace) -/
theorem lifecycleOk_spec (f : Bool) (l : List Act) (h : lifecycleOk f l = true) :
    count .setup l = 1 ∧ count .teardown l = 1 ∧ count .printSummary l = 1 ∧
    count .runAndWait l = (if f then 0 else 1) ∧ idx .setup l < idx .teardown l ∧ idx .teardown l < idx .printSummary l ∧
    (f = false → idx .setup l < idx .runAndWait l ∧ idx .runAndWait l < idx .stopProgress l ∧
      idx .stopProgress l < idx .getTotals l ∧ idx .getTotals l < idx .teardown l) := by
  simp only [lifecycleOk, Bool.and_eq_true, Bool.or_eq_true, beq_iff_eq, decide_eq_true_eq] at h
  obtain ⟨⟨⟨⟨⟨⟨h1, h2⟩, h3⟩, h4⟩, h5⟩, h6⟩, h7⟩ := h
  refine ⟨h1, h2, h3, h4, h5, h6, ?_⟩
  intro hf
  rcases h7 with h7 | h7
  · rw [hf] at h7; cases h7
  · exact ⟨h7.1.1.1, h7.1.1.2, h7.1.2, h7.2⟩

end F1.Props.C06DoGen
