/-
C03 — regenerated facts: the anchored functions still read as the model of C03 assumes.
`Generated.*` is rewritten from /repo's working tree on every run; `Expected.*` is what the model was written against.
-/
import F1Verif.Generated.Facts
import F1Verif.Expected
namespace F1.Props.FactsC03

-- (manager_NextIteration, manager_MaxIterationsReached: re-proved semantically on the regenerated MiniGo programs, see Props/Refine*.lean)

theorem fact_cpool_startWorker : F1.Generated.skel_cpool_startWorker = F1.Expected.skel_cpool_startWorker := by rfl
theorem fact_pool_run : F1.Generated.skel_pool_run = F1.Expected.skel_pool_run := by rfl
theorem fact_manager_New : F1.Generated.skel_manager_New = F1.Expected.skel_manager_New := by rfl
theorem fact_manager_makeIterationStatePool : F1.Generated.skel_manager_makeIterationStatePool = F1.Expected.skel_manager_makeIterationStatePool := by rfl
theorem fact_cpool_maxIterationsReached : F1.Generated.skel_cpool_maxIterationsReached = F1.Expected.skel_cpool_maxIterationsReached := by rfl
theorem fact_pool_maxIterationsReached : F1.Generated.skel_pool_maxIterationsReached = F1.Expected.skel_pool_maxIterationsReached := by rfl
theorem fact_t_Reset : F1.Generated.skel_t_Reset = F1.Expected.skel_t_Reset := by rfl
theorem fact_file_newStagesWorker : F1.Generated.skel_file_newStagesWorker = F1.Expected.skel_file_newStagesWorker := by rfl
theorem fact_run_run : F1.Generated.skel_run_run = F1.Expected.skel_run_run := by rfl

end F1.Props.FactsC03
