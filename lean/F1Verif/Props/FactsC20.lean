/-
C20 — regenerated facts: the anchored functions still read as the model of C20 assumes.
`Generated.*` is rewritten from /repo's working tree on every run; `Expected.*` is what the model was written against.
-/
import F1Verif.Generated.Facts
import F1Verif.Expected
namespace F1.Props.FactsC20

theorem fact_f1_CombineScenarios : F1.Generated.skel_f1_CombineScenarios = F1.Expected.skel_f1_CombineScenarios := by rfl
theorem fact_t_Time : F1.Generated.skel_t_Time = F1.Expected.skel_t_Time := by rfl
theorem fact_active_Run : F1.Generated.skel_active_Run = F1.Expected.skel_active_Run := by rfl
theorem fact_active_Setup : F1.Generated.skel_active_Setup = F1.Expected.skel_active_Setup := by rfl
theorem fact_t_handlePanic : F1.Generated.skel_t_handlePanic = F1.Expected.skel_t_handlePanic := by rfl
theorem fact_t_FailNow : F1.Generated.skel_t_FailNow = F1.Expected.skel_t_FailNow := by rfl

end F1.Props.FactsC20
