/-
C20 — regenerated facts: the anchored functions still read as the model of C20 assumes.
`Generated.*` is rewritten from /repo's working tree on every run; `Expected.*` is what the model was written against.
-/
import F1Verif.Generated.Facts
import F1Verif.Expected
namespace F1.Props.FactsC20

-- (active_Run, active_Setup: re-proved semantically on the regenerated MiniGo programs, see Props/Refine*.lean)

theorem fact_f1_CombineScenarios : F1.Generated.skel_f1_CombineScenarios = F1.Expected.skel_f1_CombineScenarios := by rfl
theorem fact_t_Time : F1.Generated.skel_t_Time = F1.Expected.skel_t_Time := by rfl
theorem fact_t_handlePanic : F1.Generated.skel_t_handlePanic = F1.Expected.skel_t_handlePanic := by rfl
theorem fact_t_FailNow : F1.Generated.skel_t_FailNow = F1.Expected.skel_t_FailNow := by rfl

end F1.Props.FactsC20
