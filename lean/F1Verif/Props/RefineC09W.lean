/- C09 / C12 / C02 — the tick loop every rate trigger (and every rate stage of a config file) runs:
`api.NewIterationWorker`'s closure, regenerated. One evaluation of the rate function at the start, one per tick received,
each followed by exactly one `Trigger` of the pool with the value just obtained; the loop is left only when the pool's
context ends, and the ticker is stopped last. -/
import F1Verif.Props.RefineBase
import F1Verif.Props.RefineC02W

namespace F1.Props.Refine
open F1.MiniGo F1.Generated.MG

/-- `choice k`: the case the runtime picks in round `k`; `rate k`: what the rate function answers at its `k`-th call -/
structure TickScript where
  choice : Nat → Nat
  rate   : Nat → Int

def itwExt (T : TickScript) : Ext Rat := fun f k _ =>
  if f = "$select0" then .int (T.choice k)
  else if f = "arg1" then .int (T.rate k)
  else if f = "carg2.NewTriggerPool" then .ref 3
  else if f = "pool.Start" then .ref 4
  else if f = "time.NewTicker" then .ref 5
  else if f = "time.Now" then .ref 6
  else .nil

def twLoop : Stmt :=
  (.while (.bool true)
  (.seq (.effect "select{workerCtx.Done() | iterationTicker.C}")
  (.seq (.callS ["$select0"] "$select0" "" [])
  (.ite (.bin .eq (.var "$select0") (.int 0))
  (.seq (.effect "receive workerCtx.Done()")
  .ret0)
  (.ite (.bin .eq (.var "$select0") (.int 1))
  (.seq (.effect "receive iterationTicker.C")
  (.seq (.assign "start" .fresh)
  (.seq (.assign "iterationRate" (.call1 "arg1" (.var "start")))
  (.seq (.assign "$arg.pool.Trigger.0" (.var "workerCtx"))
  (.seq (.assign "$arg.pool.Trigger.1" (.var "iterationRate"))
  (.effect "pool.Trigger(…)"))))))
  (.unsupported "select: no such case"))))))

def twOffer : String := "select{workerCtx.Done() | iterationTicker.C}"

/-- the loop from round `k`: effects, oldest first, and the number of ticks served -/
def tickRounds (T : TickScript) : Nat → Nat → Option (List String × Nat)
  | 0, _ => none
  | f + 1, k =>
    match T.choice k with
    | 0 => some ([twOffer, "receive workerCtx.Done()"], 0)
    | 1 => (tickRounds T f (k + 1)).map fun (t, n) => ([twOffer, "receive iterationTicker.C", "pool.Trigger(…)"] ++ t, n + 1)
    | _ => none

def twState (conc : Int) (startRate sel start itRate a1 : Val Rat) (k j : Nat) (log : List (List (String × Val Rat)))
    (tr df : List String) : State Rat :=
  ⟨[("arg0", .int 100), ("carg0", .ref 0), ("carg2", .ref 11), ("carg3.Concurrency", .int conc), ("startRate", startRate),
    ("pool", .ref 3), ("workerCtx", .ref 4), ("$arg.pool.Trigger.0", .ref 4), ("$arg.pool.Trigger.1", a1),
    ("iterationTicker", .ref 5), ("$select0", sel), ("start", start), ("iterationRate", itRate)],
   [("$select0", k), ("arg1", j), ("time.Now", 1), ("carg2.NewTriggerPool", 1), ("pool.Start", 1), ("time.NewTicker", 1)],
   tr, df, [("$select0", log)]⟩

/-- the effects so far, the deferred calls, the rate last handed to the pool and the number of rate evaluations -/
def obsTick (o : Outcome Rat) : Option (List String × List String × Option (Val Rat) × Nat) :=
  match o with
  | .normal s | .returned _ s => some (s.trace.reverse, s.defers, s.get "$arg.pool.Trigger.1", s.ncalls "arg1")
  | _ => none

theorem twLoop_spec (T : TickScript) (conc : Int) (startRate : Val Rat) (df : List String) :
    ∀ (fuel k j : Nat) (sel start itRate a1 : Val Rat) (log : List (List (String × Val Rat))) (tr : List String),
    obsTick (exec (itwExt T) fuel twLoop (twState conc startRate sel start itRate a1 k j log tr df)) =
      (tickRounds T fuel k).map (fun (t, n) =>
        (tr.reverse ++ t, df, some (if n = 0 then a1 else .int (T.rate (j + n - 1))), j + n))
  | 0, k, j, sel, start, itRate, a1, log, tr => by simp [minigo, twLoop, twState, tickRounds, obsTick]
  | f + 1, k, j, sel, start, itRate, a1, log, tr => by
    rcases hc : T.choice k with _ | _ | c
    · simp [minigo, twLoop, twState, tickRounds, itwExt, hc, twOffer, obsTick, State.get, State.ncalls, lookup]
    · have ih := twLoop_spec T conc startRate df f (k + 1) (j + 1) (.int 1) .nonNil (.int (T.rate j)) (.int (T.rate j))
        (log ++ [[]]) ("pool.Trigger(…)" :: "receive iterationTicker.C" :: twOffer :: tr)
      simp [twLoop, twState, twOffer] at ih
      simp [minigo, twLoop, twState, tickRounds, itwExt, hc, twOffer]
      rw [ih]
      cases hr : tickRounds T f (k + 1) with
      | none => simp
      | some p =>
        obtain ⟨t, n⟩ := p
        simp
        refine ⟨?_, by omega⟩
        by_cases hn : n = 0
        · simp [hn]
        · have : j + 1 + n - 1 = j + (n + 1) - 1 := by omega
          simp [hn, this]
    · have h0 : ¬ ((c : Int) + 1 + 1 = 0) := by omega
      have h1 : ¬ ((c : Int) + 1 + 1 = 1) := by omega
      simp [minigo, twLoop, twState, tickRounds, itwExt, hc, obsTick, h0, h1]

/-- the closure's state on entry (locals declared) -/
def twState0 (conc : Int) (l : List (Val Rat)) (k : Nat) (log : List (List (String × Val Rat))) : State Rat :=
  ⟨[("arg0", .int 100), ("carg0", .ref 0), ("carg2", .ref 11), ("carg3.Concurrency", .int conc), ("startRate", l.getD 0 .nil),
    ("pool", l.getD 1 .nil), ("workerCtx", l.getD 2 .nil), ("$arg.pool.Trigger.0", l.getD 3 .nil), ("$arg.pool.Trigger.1", l.getD 4 .nil),
    ("iterationTicker", l.getD 5 .nil), ("$select0", l.getD 6 .nil), ("start", l.getD 7 .nil), ("iterationRate", l.getD 8 .nil)],
   [("$select0", k), ("arg1", 0), ("time.Now", 0), ("carg2.NewTriggerPool", 0), ("pool.Start", 0), ("time.NewTicker", 0)],
   [], [], [("$select0", log)]⟩

/-- what a finished call shows: effects, the rate last handed to the pool, the number of rate evaluations -/
def tickOpt (r : Except String (List (Val Rat) × State Rat)) : Option (List String × Option (Val Rat) × Nat) :=
  match r with
  | .ok (_, s) => some (s.trace.reverse, s.get "$arg.pool.Trigger.1", s.ncalls "arg1")
  | .error _ => none

/-- **the regenerated tick loop of `NewIterationWorker`** (C09: one evaluation per tick; C02: one `Trigger` per evaluation):
the rate function is asked once for the start — before the pool exists — and that value triggers the pool before the ticker
is created; every tick received asks the rate function once and triggers the pool once, with the value just obtained (the
last value handed over is the last one computed); the loop leaves only when the pool's context has ended; the ticker is
stopped on the way out. `n` ticks served: `n + 1` evaluations, `n + 1` triggers. -/
theorem api_iterationWorker_refines (T : TickScript) (conc : Int) (l : List (Val Rat)) (k : Nat)
    (log : List (List (String × Val Rat))) (fuel : Nat) (t : List String) (n : Nat) (h : tickRounds T fuel k = some (t, n)) :
    tickOpt (runFn (itwExt T) fuel api_iterationWorker_body (twState0 conc l k log)) =
      some (["time.Now", "pool.Trigger(…)"] ++ t ++ ["iterationTicker.Stop"], some (.int (T.rate n)), n + 1) := by
  have hl := twLoop_spec T conc (.int (T.rate 0)) ["iterationTicker.Stop"] fuel k 1 (l.getD 6 .nil) (l.getD 7 .nil) (l.getD 8 .nil)
    (.int (T.rate 0)) log ["pool.Trigger(…)", "time.Now"]
  rw [h] at hl
  simp [twLoop, twState] at hl
  simp [minigo, api_iterationWorker_body, twState0, itwExt]
  generalize hx : exec (itwExt T) _ _ _ = o at hl ⊢
  cases o with
  | normal s =>
    simp [obsTick] at hl; simp [finish, tickOpt, hl]
    obtain ⟨_, _, hg, hn⟩ := hl
    have hg' : s.get "$arg.pool.Trigger.1" = some (Val.int (T.rate n)) := by
      by_cases h0 : n = 0 <;> simp [h0] at hg ⊢ <;> exact hg
    exact ⟨by simpa [State.get] using hg', by simp [State.ncalls] at hn ⊢; omega⟩
  | returned vs s =>
    simp [obsTick] at hl; simp [finish, tickOpt, hl]
    obtain ⟨_, _, hg, hn⟩ := hl
    have hg' : s.get "$arg.pool.Trigger.1" = some (Val.int (T.rate n)) := by
      by_cases h0 : n = 0 <;> simp [h0] at hg ⊢ <;> exact hg
    exact ⟨by simpa [State.get] using hg', by simp [State.ncalls] at hn ⊢; omega⟩
  | error m => simp [obsTick] at hl
  | panicked s => simp [obsTick] at hl

/-- as many triggers in the loop as ticks received, and it ends with the pool's context -/
theorem tickRounds_shape (T : TickScript) :
    ∀ (fuel k : Nat) (t : List String) (n : Nat), tickRounds T fuel k = some (t, n) →
      t.count "pool.Trigger(…)" = n ∧ t.count "receive iterationTicker.C" = n ∧
      t.getLast? = some "receive workerCtx.Done()"
  | 0, k, t, n, h => by simp [tickRounds] at h
  | f + 1, k, t, n, h => by
    unfold tickRounds at h
    split at h
    · simp at h; obtain ⟨rfl, rfl⟩ := h; simp [twOffer]
    · cases hr : tickRounds T f (k + 1) with
      | none => simp [hr] at h
      | some p =>
        obtain ⟨t', n'⟩ := p
        obtain ⟨h1, h2, h3⟩ := tickRounds_shape T f (k + 1) t' n' hr
        simp [hr] at h; obtain ⟨rfl, rfl⟩ := h
        refine ⟨by simp [twOffer, h1], by simp [twOffer, h2], ?_⟩
        cases t' with
        | nil => simp at h3
        | cons a r => simp [List.getLast?_cons_cons] at h3 ⊢; simp [h3]
    · simp at h

end F1.Props.Refine
