/-
Refinement of the hand-written models by the code that exists now.

`F1.Generated.MG.*` are MiniGo programs produced by the translator in /verif/facts from the *current* source of /repo
(regenerated on every run, never committed). Each theorem below runs one of them, symbolically, on an arbitrary input
state and shows that what a caller can observe — returned values, the cells and captured variables it shares — is
exactly what the hand-written model function computes. The property theorems of `Props/Cxx.lean` are about those model
functions; composed with these, they are statements about the regenerated code. A harmless rewrite of a function
(early returns instead of one expression, renamed locals, reordered independent tests) is re-proved by the same
script; a change of behaviour makes the script fail, which `bin/check` reports as a broken obligation and follows up
with a search for a failing input.

What is assumed here rather than proved: the translator (syntax only) and the MiniGo semantics of the Go fragment
(`Model/MiniGo.lean`), both of which the driver exercises against the real functions on every run (three-way
comparison implementation = hand model = `runFn` of the generated program).
-/
import F1Verif.Model.MiniGo
import F1Verif.Generated.MiniGo

namespace F1.Props.Refine
open F1.MiniGo F1.Generated.MG

/-- no external call is expected -/
def noExt : Ext Rat := fun _ _ _ => .nil

/-- case-split the decision tree that symbolic evaluation leaves and close the leaves by linear arithmetic -/
macro "minigo_close" : tactic =>
  `(tactic| first
     | (all_goals (repeat' split)
        all_goals (first | done | omega | (simp_all <;> omega)))
     | (all_goals grind))

end F1.Props.Refine
