/-
C08 — regenerated facts: the anchored functions still read as the model of C08 assumes.
`Generated.*` is rewritten from /repo's working tree on every run; `Expected.*` is what the model was written against.
-/
import F1Verif.Generated.Facts
import F1Verif.Expected
namespace F1.Props.FactsC08

theorem fact_result_Failed : F1.Generated.skel_result_Failed = F1.Expected.skel_result_Failed := by rfl

end F1.Props.FactsC08
