/-
C08 — regenerated facts: the anchored functions still read as the model of C08 assumes.
`Generated.*` is rewritten from /repo's working tree on every run; `Expected.*` is what the model was written against.
-/
import F1Verif.Generated.Facts
import F1Verif.Expected
namespace F1.Props.FactsC08

-- (result_Failed, snapshot_Iterations: re-proved semantically on the regenerated MiniGo programs, see Props/Refine*.lean)

theorem fact_result_Error : F1.Generated.skel_result_Error = F1.Expected.skel_result_Error := by rfl
theorem fact_result_AddError : F1.Generated.skel_result_AddError = F1.Expected.skel_result_AddError := by rfl
theorem fact_runcmd_Execute : F1.Generated.skel_runcmd_Execute = F1.Expected.skel_runcmd_Execute := by rfl
theorem fact_run_teardown : F1.Generated.skel_run_teardown = F1.Expected.skel_run_teardown := by rfl
theorem fact_run_reportSetupFailure : F1.Generated.skel_run_reportSetupFailure = F1.Expected.skel_run_reportSetupFailure := by rfl
theorem fact_run_fail : F1.Generated.skel_run_fail = F1.Expected.skel_run_fail := by rfl
theorem fact_file_Builder : F1.Generated.skel_file_Builder = F1.Expected.skel_file_Builder := by rfl
theorem fact_file_validateCommonFields : F1.Generated.skel_file_validateCommonFields = F1.Expected.skel_file_validateCommonFields := by rfl

end F1.Props.FactsC08
