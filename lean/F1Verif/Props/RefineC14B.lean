/- C14 / C12 — the builders every rate trigger goes through, regenerated, and tied to the hand-written functions of
`Model/Plan.lean` that the C14 theorems are about: `api.NewDistribution` (and the outer parts of the two distributions),
`constant.CalculateConstantRate`, `staged.CalculateStagedRate`, `ramp.CalculateRampRate`. What the parsers return is an
oracle here (they are tied by correspondence: `parserate`, `parsestages`); what the builders *do* with it — which check
comes first, what is handed on, what becomes the tick interval — is the code as it is now. -/
import F1Verif.Props.RefineBase
import F1Verif.Model.Plan

namespace F1.Props.Refine
open F1.MiniGo F1.Generated.MG F1.Plan

/-- a distribution kind as the code sees it: one of the three constants, or something else -/
inductive DistKind | none | regular | random | other
  deriving DecidableEq

def DistKind.val : DistKind → Val Rat
  | .none => .ref 1 | .regular => .ref 2 | .random => .ref 3 | .other => .ref 4

def DistKind.bytes : DistKind → F1.Parse.Bytes
  | .none => b_none | .regular => b_regular | .random => b_random | .other => [120]

/-- the two distributions as far as `NewDistribution` is concerned: they answer with the tick interval of
`dist_regular_outer_refines` and a rate function of their own -/
def ndExt : Ext Rat := fun f _ args =>
  if f = "withRegularDistribution" ∨ f = "withRandomDistribution" then
    (match args with
     | .int 0 :: .int i :: _ => .int (if i ≤ subTick then i else subTick)
     | _ => .ref 50)
  else .nil

def ndState (k : DistKind) (interval : Int) (rnd : Val Rat) : State Rat :=
  State.ofVars [("arg0", k.val), ("arg1", .int interval), ("arg2", .ref 10), ("arg3", rnd), ("rand.Intn", .ref 11),
    ("NoneDistribution", .ref 1), ("RegularDistribution", .ref 2), ("RandomDistribution", .ref 3)]

/-- **the regenerated `api.NewDistribution` computes `Plan.newDistribution`** (C14: an accepted trigger has a positive tick
interval): a non-positive interval is refused before the kind is looked at; `none` hands the interval and the rate function
back unchanged; `regular` / `random` hand on what the distribution returns; anything else is refused; the error is non-nil
exactly when the model says `err`, and the interval returned is the model's -/
theorem api_NewDistribution_refines (k : DistKind) (interval : Int) (given : Bool) :
    observe (runFn ndExt 0 api_NewDistribution (ndState k interval (if given then .ref 12 else .nil))) [] =
      some (match newDistribution k.bytes interval with
        | .ok v => [.int v, if k = .none then .ref 10 else .ref 50, .nil]
        | _ => [.int interval, .ref 10, .nonNil], []) := by
  cases k <;> cases given <;> by_cases h0 : interval ≤ 0 <;> by_cases h1 : interval ≤ 100000000 <;>
    simp [minigo, api_NewDistribution, ndState, ndExt, newDistribution, DistKind.val, DistKind.bytes, b_none, b_regular, b_random,
      h0, h1, subTick]

/-- the random source handed to the random distribution is the caller's, or `rand.Intn` when the caller gave none -/
theorem api_NewDistribution_random_source (interval : Int) (h : 0 < interval) (given : Bool) :
    (match runFn ndExt 0 api_NewDistribution (ndState .random interval (if given then .ref 12 else .nil)) with
     | .ok (_, s) => lookup "withRandomDistribution" s.arrs =
         some [[("0", Val.int interval), ("1", Val.ref 10), ("2", if given then Val.ref 12 else Val.ref 11)]]
     | .error _ => False) := by
  have h0 : ¬ interval ≤ 0 := by omega
  cases given <;> simp [minigo, api_NewDistribution, ndState, ndExt, DistKind.val, h0]

/-- the outer part of both distributions: an interval of at most 100 ms is handed back with the caller's own rate function
(no distribution); a longer one becomes a 100 ms tick with a new rate function — the interval `ndExt` answers with -/
theorem dist_outer_refines (interval : Int) :
    observe (runFn ndExt 0 dist_regular_outer (State.ofVars [("arg0", .int interval), ("arg1", .ref 10)])) [] =
      some ([.int (if interval ≤ subTick then interval else subTick), if interval ≤ subTick then .ref 10 else .nonNil], []) ∧
    observe (runFn ndExt 0 dist_random_outer (State.ofVars [("arg0", .int interval), ("arg1", .ref 10), ("arg2", .ref 11)])) [] =
      some ([.int (if interval ≤ subTick then interval else subTick), if interval ≤ subTick then .ref 10 else .nonNil], []) := by
  by_cases h : interval ≤ 100000000
  · simp [minigo, dist_regular_outer, dist_random_outer, subTick, h]
  · simp [minigo, dist_regular_outer, dist_random_outer, subTick, h]

/-! the three builders -/

/-- the parsers and `NewDistribution` as oracles: `parseErr` / `distErr` say whether they fail; a parsed rate is
(count, unit) -/
def builderExt (parseErr1 parseErr2 distErr : Bool) (c1 u1 c2 u2 tick : Int) : Ext Rat := fun f k args =>
  if f = "rate.ParseRate" then
    (match args.head?, k with
     | some (.int 0), 0 => .int c1 | some (.int 1), 0 => .int u1
     | some (.int 2), 0 => (if parseErr1 then .nonNil else .nil)
     | some (.int 0), _ => .int c2 | some (.int 1), _ => .int u2
     | _, _ => (if parseErr2 then .nonNil else .nil))
  else if f = "ParseStages" then (if args.head? = some (.int 0) then .ref 40 else if parseErr1 then .nonNil else .nil)
  else if f = "api.NewDistribution" then
    (if args.head? = some (.int 0) then .int tick else if args.head? = some (.int 1) then .ref 51
     else if distErr then .nonNil else .nil)
  else if f = "api.WithJitter" then .ref 52
  else if f = "api.DistributionType" then (match args with | [v] => v | _ => .nil)
  else if f = "NewRateCalculator" then .ref 53
  else .nil

/-- **`CalculateConstantRate`**: the rate string is parsed first and its error ends the call; the jittered constant function
and the *parsed unit* go to `NewDistribution` together with the distribution the caller named; its error ends the call; the
trigger's tick interval and rate function are the ones `NewDistribution` returned -/
theorem calc_constant_refines (parseErr distErr : Bool) (c u tick : Int) :
    observe (runFn (builderExt parseErr false distErr c u 0 0 tick) 0 calc_constant
        (State.ofVars [("arg0", .int 0), ("arg1", .ref 1), ("arg2", .ref 2)]))
        (if parseErr ∨ distErr then [] else ["$ret.IterationDuration", "$ret.Rate"]) =
      some (if parseErr ∨ distErr then [.nil, .nonNil] else [.nonNil, .nil],
        if parseErr ∨ distErr then [] else [some (.int tick), some (.ref 51)]) ∧
    (match runFn (builderExt parseErr false distErr c u 0 0 tick) 0 calc_constant
        (State.ofVars [("arg0", .int 0), ("arg1", .ref 1), ("arg2", .ref 2)]) with
     | .ok (_, s) => lookup "api.NewDistribution" s.arrs =
         if parseErr then none else some [[("0", Val.ref 2), ("1", Val.int u), ("2", Val.ref 52), ("3", Val.nil)]]
     | .error _ => False) := by
  cases parseErr <;> cases distErr <;> simp [minigo, calc_constant, builderExt]

/-- **`CalculateStagedRate`**: stages parsed first; the tick interval handed to `NewDistribution` is the iteration frequency
the caller gave; the trigger's duration is the calculator's `MaxDuration()` -/
theorem calc_staged_refines (parseErr distErr : Bool) (freq tick : Int) :
    observe (runFn (builderExt parseErr false distErr 0 0 0 0 tick) 0 calc_staged
        (State.ofVars [("arg0", .int 0), ("arg1", .int freq), ("arg2", .ref 1), ("arg3", .ref 2), ("arg4", .nil),
          ("calculator.Rate", .ref 54), ("calculator.MaxDuration()", .int 77)]))
        (if parseErr ∨ distErr then [] else ["$ret.IterationDuration", "$ret.Rate", "$ret.Duration"]) =
      some (if parseErr ∨ distErr then [.nil, .nonNil] else [.nonNil, .nil],
        if parseErr ∨ distErr then [] else [some (.int tick), some (.ref 51), some (.int 77)]) ∧
    (match runFn (builderExt parseErr false distErr 0 0 0 0 tick) 0 calc_staged
        (State.ofVars [("arg0", .int 0), ("arg1", .int freq), ("arg2", .ref 1), ("arg3", .ref 2), ("arg4", .nil),
          ("calculator.Rate", .ref 54), ("calculator.MaxDuration()", .int 77)]) with
     | .ok (_, s) => lookup "api.NewDistribution" s.arrs =
         if parseErr then none else some [[("0", Val.ref 2), ("1", Val.int freq), ("2", Val.ref 52), ("3", Val.nil)]]
     | .error _ => False) := by
  cases parseErr <;> cases distErr <;> simp [minigo, calc_staged, builderExt]

set_option maxHeartbeats 4000000 in
/-- **`CalculateRampRate` refuses what `Plan.calcRamp` refuses, in its order**: either rate string malformed; equal counts;
different units; a ramp shorter than the unit; then `NewDistribution` on the *start* unit. Accepted: tick interval and rate
function from `NewDistribution`, duration = the ramp duration -/
theorem calc_ramp_refines (pe1 pe2 distErr : Bool) (c1 u1 c2 u2 dur tick : Int) :
    observe (runFn (builderExt pe1 pe2 distErr c1 u1 c2 u2 tick) 0 calc_ramp
        (State.ofVars [("arg0", .ref 1), ("arg1", .ref 2), ("arg2", .ref 3), ("arg3", .int dur), ("arg4", .int 0)])) [] =
      some (if pe1 ∨ pe2 ∨ c1 = c2 ∨ u1 ≠ u2 ∨ dur < u1 ∨ distErr then [.nil, .nonNil] else [.nonNil, .nil], []) ∧
    (¬(pe1 ∨ pe2 ∨ c1 = c2 ∨ u1 ≠ u2 ∨ dur < u1 ∨ distErr) →
      observe (runFn (builderExt pe1 pe2 distErr c1 u1 c2 u2 tick) 0 calc_ramp
        (State.ofVars [("arg0", .ref 1), ("arg1", .ref 2), ("arg2", .ref 3), ("arg3", .int dur), ("arg4", .int 0)]))
        ["$ret.IterationDuration", "$ret.Rate", "$ret.Duration", "$arg"] =
      some ([.nonNil, .nil], [some (.int tick), some (.ref 51), some (.int dur), none])) := by
  cases pe1 <;> cases pe2 <;> cases distErr <;> by_cases hc : c1 = c2 <;> by_cases hu : u1 = u2 <;>
    by_cases hd : dur < u1 <;> simp [minigo, calc_ramp, builderExt, hc, hu, hd] <;> (try (subst hu; simp [hd]))

end F1.Props.Refine
